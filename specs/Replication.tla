------------------------------ MODULE Replication ------------------------------
(***************************************************************************)
(* C05 - replicated data survives the loss of a minority of store nodes.   *)
(*                                                                         *)
(* etcd/raft is third party and trusted; the specification sits at the     *)
(* level openGemini adds around it (lib/raftconn/node.go,                  *)
(* engine/partition_raft.go, engine/engine.go:WriteToRaft, lib/raftlog):   *)
(*                                                                         *)
(*  Propose   WriteToRaft: DataWrapper{Identity, ProposeId} -> proposeC    *)
(*            -> raft.Propose on the leader (unstable, in memory)          *)
(*  Persist   serveChannels: SaveToStorage(rd.HardState, rd.Entries) then  *)
(*            TrySync, BEFORE PublishEntries and before a follower answers *)
(*  Replicate MsgApp leader -> follower (conflicting suffix replaced);     *)
(*            the follower also learns the leader's commit index           *)
(*  Commit    raft commit rule (entry of the leader's term on a quorum)    *)
(*  Apply     PublishEntries -> commitC -> readCommitFromRaft ->           *)
(*            dealCommitData -> dealNormalData -> shard write path (the    *)
(*            shard's own WAL makes what is applied durable)               *)
(*  Ack       RetCommittedDataC on the PROPOSING node after ITS apply      *)
(*  FlushAdvance  snapshotAfterFlush: raft snapshot index := flushed-      *)
(*            through index                                                *)
(*  Truncate / ApplyClear   deleteEntryLog proposes ClearEntryLog(i),      *)
(*            every node runs Store.DeleteBefore(i) when it is committed.  *)
(*            Ideal guard: every member has flushed past i.                *)
(*  Crash / Restart   SIGKILL; InitAndStartNode: appliedIndex :=           *)
(*            hardState.Commit and replay of (snapshot index, commit]      *)
(*  Elect     raft election (up-to-date log, quorum of votes)              *)
(*  ClientRetry = Propose of a write whose earlier attempt failed (the     *)
(*            proposer died or lost leadership); coordinator/points_writer *)
(*            retries until the replica group has a master again.          *)
(*                                                                         *)
(* Dev = {} is the design. Mutation seeds / as-implemented deviations:     *)
(*   "ack_before_quorum"         ack as soon as the leader appended        *)
(*   "truncate_past_down_member" truncation looks only at the Match of the *)
(*                               ACTIVE members (as implemented in         *)
(*                               forceDeleteEntryLog / genProposeData) and *)
(*                               a lagging member then receives a raft     *)
(*                               snapshot whose payload is the literal     *)
(*                               "snapshot" (no data)                      *)
(*   "restart_skips_replay"      appliedIndex := commit without replay     *)
(*   "ack_ignores_apply_error"   dealCommitData: the deferred ack carries  *)
(*                               the error evaluated BEFORE the apply, a   *)
(*                               failed local apply is acknowledged        *)
(*                                                                         *)
(* The specification is also the fault-schedule generator: hist records    *)
(* the client / fault actions (Write, Kill leader|follower, Restart,       *)
(* Flush, Query); ReplicationMC exports them in simulation mode.           *)
(***************************************************************************)
EXTENDS Integers, Sequences, FiniteSets, TLC

CONSTANTS Nodes, NoNode, MaxTerm, MaxEntries, MaxWrites, NCells, MaxCrashes, MaxTrunc, MaxHist, Gen, Dev,
          CrashOdds, QueryOdds, FlushOdds      \* generator only (Gen): a crash / a query is taken with probability 1/odds when enabled

VARIABLES up, role, term, log, durable, commit, shAp, data, snap, first,
          prop, acked, ackIdx, ackEnt, ackTerm, issued,
          glog, clearIdx, ntrunc, crashes, hist

nodeVars == <<up, role, term, log, durable, commit, shAp, data, snap, first>>
cliVars  == <<prop, acked, ackIdx, ackEnt, ackTerm, issued>>
vars == <<nodeVars, cliVars, glog, clearIdx, ntrunc, crashes, hist>>
view == <<nodeVars, cliVars, glog, clearIdx, ntrunc, crashes>>

W == 1..MaxWrites
Cells == 1..NCells
CellOf(w) == ((w - 1) % NCells) + 1
Quorums == {Q \in SUBSET Nodes : Cardinality(Q) * 2 > Cardinality(Nodes)}
NoEnt == [t |-> 0, w |-> 0]

MaxOf(S) == CHOOSE x \in S : \A y \in S : x >= y
MinOf(S) == CHOOSE x \in S : \A y \in S : x <= y
LastTerm(l) == IF Len(l) = 0 THEN 0 ELSE l[Len(l)].t
UpToDate(n, m) == \/ LastTerm(log[n]) > LastTerm(log[m])
                  \/ LastTerm(log[n]) = LastTerm(log[m]) /\ Len(log[n]) >= Len(log[m])
Common(a, b) == MaxOf({k \in 0..MinOf({Len(a), Len(b)}) : SubSeq(a, 1, k) = SubSeq(b, 1, k)})
IsPfx(a, b) == Len(a) <= Len(b) /\ SubSeq(b, 1, Len(a)) = a
ApplyEnt(d, e) == [d EXCEPT ![CellOf(e.w)] = e.w]
RECURSIVE FoldR(_, _, _, _)
FoldR(d, l, i, to) == IF i > to THEN d ELSE FoldR(ApplyEnt(d, l[i]), l, i + 1, to)
Down == {n \in Nodes : ~up[n]}
Inflight == \E w \in W : prop[w] # NoNode

Rec(a, w, c, r) == [a |-> a, w |-> w, c |-> c, r |-> r, f |-> IF Inflight THEN 1 ELSE 0]
Log(rec) == IF Gen /\ Len(hist) < MaxHist THEN Append(hist, rec) ELSE hist

Init ==
  /\ up = [n \in Nodes |-> TRUE] /\ role = [n \in Nodes |-> "F"] /\ term = [n \in Nodes |-> 0]
  /\ log = [n \in Nodes |-> << >>] /\ durable = [n \in Nodes |-> 0] /\ commit = [n \in Nodes |-> 0]
  /\ shAp = [n \in Nodes |-> 0] /\ data = [n \in Nodes |-> [c \in Cells |-> 0]]
  /\ snap = [n \in Nodes |-> 0] /\ first = [n \in Nodes |-> 0]
  /\ prop = [w \in W |-> NoNode] /\ acked = {} /\ ackIdx = [w \in W |-> 0] /\ ackEnt = [w \in W |-> NoEnt]
  /\ ackTerm = [w \in W |-> 0] /\ issued = {}
  /\ glog = << >> /\ clearIdx = 0 /\ ntrunc = 0 /\ crashes = 0 /\ hist = << >>

Elect(n) ==
  /\ up[n]
  /\ \E Q \in Quorums :
       /\ n \in Q
       /\ \A m \in Q : up[m] /\ UpToDate(n, m)
       /\ LET nt == MaxOf({term[m] : m \in Q}) + 1 IN
            /\ nt <= MaxTerm
            /\ term' = [m \in Nodes |-> IF m \in Q THEN nt ELSE term[m]]
            /\ role' = [m \in Nodes |-> IF m = n THEN "L" ELSE IF m \in Q THEN "F" ELSE role[m]]
  /\ UNCHANGED <<up, log, durable, commit, shAp, data, snap, first, cliVars, glog, clearIdx, ntrunc, crashes, hist>>

\* first attempt of write w, or ClientRetry: the earlier attempt failed (its proposer died: prop reset by Crash; or lost leadership)
Propose(l, w) ==
  /\ up[l] /\ role[l] = "L" /\ Len(log[l]) < MaxEntries
  /\ w \notin acked /\ \A v \in 1..(w - 1) : v \in acked          \* one sequential client
  /\ prop[w] # l
  /\ IF prop[w] = NoNode THEN TRUE ELSE role[prop[w]] # "L"
  /\ log' = [log EXCEPT ![l] = Append(@, [t |-> term[l], w |-> w])]
  /\ prop' = [prop EXCEPT ![w] = l]
  /\ issued' = issued \cup {w}
  /\ hist' = IF w \in issued THEN hist ELSE Log(Rec("Write", w, CellOf(w), "-"))
  /\ UNCHANGED <<up, role, term, durable, commit, shAp, data, snap, first, acked, ackIdx, ackEnt, ackTerm, glog, clearIdx, ntrunc, crashes>>

Persist(n) ==
  /\ up[n] /\ durable[n] < Len(log[n])
  /\ durable' = [durable EXCEPT ![n] = Len(log[n])]
  /\ UNCHANGED <<up, role, term, log, commit, shAp, data, snap, first, cliVars, glog, clearIdx, ntrunc, crashes, hist>>

Replicate(l, f) ==
  /\ l # f /\ up[l] /\ up[f] /\ role[l] = "L" /\ term[l] >= term[f]
  /\ LET k == Common(log[l], log[f])
         conflict == ~IsPfx(log[l], log[f])
         nlog == IF conflict THEN log[l] ELSE log[f]
         ndur == Len(nlog)          \* a follower answers only after SaveToStorage + TrySync: not persisted = not received
         ncom == MaxOf({commit[f], MinOf({commit[l], ndur})})
     IN /\ conflict => k >= first[l]                 \* the entries to send still exist on the leader
        /\ conflict \/ ncom # commit[f] \/ ndur # durable[f] \/ term[f] # term[l] \/ role[f] # "F"
        /\ log' = [log EXCEPT ![f] = nlog]
        /\ durable' = [durable EXCEPT ![f] = ndur]
        /\ commit' = [commit EXCEPT ![f] = ncom]
  /\ term' = [term EXCEPT ![f] = term[l]]
  /\ role' = [role EXCEPT ![f] = "F"]
  /\ UNCHANGED <<up, shAp, data, snap, first, cliVars, glog, clearIdx, ntrunc, crashes, hist>>

\* the follower needs an entry the leader has truncated: MsgSnap with payload "snapshot" - index and term move, data does not
SnapInstall(l, f) ==
  /\ l # f /\ up[l] /\ up[f] /\ role[l] = "L" /\ term[l] >= term[f]
  /\ ~IsPfx(log[l], log[f]) /\ Common(log[l], log[f]) < first[l]
  /\ log' = [log EXCEPT ![f] = SubSeq(log[l], 1, first[l])]
  /\ durable' = [durable EXCEPT ![f] = first[l]]
  /\ commit' = [commit EXCEPT ![f] = MaxOf({@, first[l]})]
  /\ shAp' = [shAp EXCEPT ![f] = MaxOf({@, first[l]})]
  /\ snap' = [snap EXCEPT ![f] = MaxOf({@, first[l]})]
  /\ first' = [first EXCEPT ![f] = first[l]]
  /\ term' = [term EXCEPT ![f] = term[l]]
  /\ role' = [role EXCEPT ![f] = "F"]
  /\ UNCHANGED <<up, data, cliVars, glog, clearIdx, ntrunc, crashes, hist>>

Commit(l) ==
  /\ up[l] /\ role[l] = "L"
  /\ LET C == {i \in (commit[l] + 1)..durable[l] :
                 /\ log[l][i].t = term[l]
                 /\ \E Q \in Quorums : /\ l \in Q
                                       /\ \A n \in Q : /\ durable[n] >= i /\ Len(log[n]) >= i
                                                       /\ SubSeq(log[n], 1, i) = SubSeq(log[l], 1, i)}
     IN /\ C # {}
        /\ commit' = [commit EXCEPT ![l] = MaxOf(C)]
        /\ glog' = IF MaxOf(C) > Len(glog) THEN SubSeq(log[l], 1, MaxOf(C)) ELSE glog
  /\ UNCHANGED <<up, role, term, log, durable, shAp, data, snap, first, cliVars, clearIdx, ntrunc, crashes, hist>>

Apply(n) ==
  /\ up[n] /\ shAp[n] < commit[n]
  /\ data' = [data EXCEPT ![n] = ApplyEnt(@, log[n][shAp[n] + 1])]
  /\ shAp' = [shAp EXCEPT ![n] = @ + 1]
  /\ UNCHANGED <<up, role, term, log, durable, commit, snap, first, cliVars, glog, clearIdx, ntrunc, crashes, hist>>

\* as implemented: an apply error is logged, the applied index moves on and (deferred ack, error evaluated early) the write is acknowledged
ApplyFail(n) ==
  /\ "ack_ignores_apply_error" \in Dev
  /\ up[n] /\ shAp[n] < commit[n]
  /\ shAp' = [shAp EXCEPT ![n] = @ + 1]
  /\ UNCHANGED <<up, role, term, log, durable, commit, data, snap, first, cliVars, glog, clearIdx, ntrunc, crashes, hist>>

Ack(l, w) ==
  /\ up[l] /\ prop[w] = l /\ w \notin acked
  /\ LET S == IF "ack_before_quorum" \in Dev THEN {i \in 1..Len(log[l]) : log[l][i].w = w}
                                              ELSE {i \in 1..shAp[l] : log[l][i].w = w}
     IN /\ S # {}
        /\ ackIdx' = [ackIdx EXCEPT ![w] = MinOf(S)]
        /\ ackEnt' = [ackEnt EXCEPT ![w] = log[l][MinOf(S)]]
  /\ ackTerm' = [ackTerm EXCEPT ![w] = term[l]]
  /\ acked' = acked \cup {w}
  /\ prop' = [prop EXCEPT ![w] = NoNode]
  /\ UNCHANGED <<nodeVars, issued, glog, clearIdx, ntrunc, crashes, hist>>

FlushAdvance(n) ==
  /\ up[n] /\ snap[n] < shAp[n]
  /\ Gen => RandomElement(1..(FlushOdds + 0 * crashes)) = 1
  /\ snap' = [snap EXCEPT ![n] = shAp[n]]
  /\ hist' = Log(Rec("Flush", 0, 0, "-"))
  /\ UNCHANGED <<up, role, term, log, durable, commit, shAp, data, first, cliVars, glog, clearIdx, ntrunc, crashes>>

Truncate(l) ==
  /\ up[l] /\ role[l] = "L" /\ ntrunc < MaxTrunc
  /\ snap[l] > first[l] /\ snap[l] > clearIdx
  /\ IF "truncate_past_down_member" \in Dev
       THEN \A n \in Nodes : up[n] => durable[n] >= snap[l]       \* Match of the active members only
       ELSE \A n \in Nodes : snap[n] >= snap[l]                   \* every member, up or down, has flushed past it
  /\ clearIdx' = snap[l]
  /\ first' = [first EXCEPT ![l] = snap[l]]
  /\ ntrunc' = ntrunc + 1
  /\ UNCHANGED <<up, role, term, log, durable, commit, shAp, data, snap, cliVars, glog, crashes, hist>>

ApplyClear(n) ==
  /\ up[n] /\ first[n] < clearIdx /\ commit[n] >= clearIdx
  /\ first' = [first EXCEPT ![n] = clearIdx]
  /\ UNCHANGED <<up, role, term, log, durable, commit, shAp, data, snap, cliVars, glog, clearIdx, ntrunc, crashes, hist>>

Crash(n) ==
  /\ up[n] /\ crashes < MaxCrashes
  /\ Gen => RandomElement(1..((IF role[n] = "L" THEN CrashOdds \div 3 ELSE CrashOdds) + 0 * crashes)) = 1
  /\ Cardinality(Down \cup {n}) * 2 < Cardinality(Nodes)
  /\ up' = [up EXCEPT ![n] = FALSE]
  /\ log' = [log EXCEPT ![n] = SubSeq(@, 1, durable[n])]
  /\ role' = [role EXCEPT ![n] = "F"]
  /\ prop' = [w \in W |-> IF prop[w] = n THEN NoNode ELSE prop[w]]
  /\ crashes' = crashes + 1
  /\ hist' = Log(Rec("Kill", 0, 0, IF role[n] = "L" THEN "leader" ELSE "follower"))
  /\ UNCHANGED <<term, durable, commit, shAp, data, snap, first, acked, ackIdx, ackEnt, ackTerm, issued, glog, clearIdx, ntrunc>>

Restart(n) ==
  /\ ~up[n]
  /\ up' = [up EXCEPT ![n] = TRUE]
  /\ shAp' = [shAp EXCEPT ![n] = MaxOf({@, commit[n]})]
  /\ IF "restart_skips_replay" \in Dev \/ first[n] > snap[n]      \* ErrCompacted: logged, nothing replayed
       THEN data' = data
       ELSE data' = [data EXCEPT ![n] = FoldR(@, log[n], snap[n] + 1, commit[n])]
  /\ hist' = Log(Rec("Restart", 0, 0, "-"))
  /\ UNCHANGED <<role, term, log, durable, commit, snap, first, cliVars, glog, clearIdx, ntrunc, crashes>>

Query ==
  /\ Gen /\ Len(hist) < MaxHist /\ RandomElement(1..(QueryOdds + 0 * crashes)) = 1
  /\ Len(hist) > 0 /\ hist[Len(hist)].a # "Query"
  /\ hist' = Append(hist, Rec("Query", 0, 0, "-"))
  /\ UNCHANGED <<nodeVars, cliVars, glog, clearIdx, ntrunc, crashes>>

Next ==
  \/ \E n \in Nodes : \/ Elect(n) \/ Persist(n) \/ Commit(n) \/ Apply(n) \/ ApplyFail(n) \/ FlushAdvance(n)
                      \/ Truncate(n) \/ ApplyClear(n) \/ Crash(n) \/ Restart(n)
  \/ \E l, f \in Nodes : Replicate(l, f) \/ SnapInstall(l, f)
  \/ \E l \in Nodes, w \in W : Propose(l, w) \/ Ack(l, w)
  \/ Query

Spec == Init /\ [][Next]_vars

-----------------------------------------------------------------------------
\* an acknowledged write is durable on a majority
AckedOnQuorum ==
  \A w \in acked : \E Q \in Quorums : \A n \in Q :
     /\ durable[n] >= ackIdx[w] /\ Len(log[n]) >= ackIdx[w] /\ log[n][ackIdx[w]] = ackEnt[w]

\* every leader of a term not older than the one in which w was acknowledged holds w's entry
LeaderCompleteness ==
  \A w \in acked : \A l \in Nodes :
     (up[l] /\ role[l] = "L" /\ term[l] >= ackTerm[w]) => (Len(log[l]) >= ackIdx[w] /\ log[l][ackIdx[w]] = ackEnt[w])

\* no member, up or down, still needs an entry that some node has deleted; a node can always replay after its own snapshot
TruncationSafe ==
  /\ \A l, n \in Nodes : first[l] <= shAp[n]
  /\ \A n \in Nodes : first[n] <= snap[n]

\* state machine safety at the level of the shards + last-write-wins of the acknowledged writes on every caught-up replica
CaughtUp(n) == up[n] /\ \A w \in acked : shAp[n] >= ackIdx[w]
AckedMax(c) == LET S == {w \in acked : CellOf(w) = c} IN IF S = {} THEN 0 ELSE MaxOf(S)
ReadAnyReplica ==
  \A n \in Nodes : CaughtUp(n) =>
     /\ shAp[n] <= Len(glog)
     /\ data[n] = FoldR([c \in Cells |-> 0], glog, 1, shAp[n])          \* which replica answers does not matter
     /\ \A c \in Cells : data[n][c] >= AckedMax(c)                      \* at least the latest acknowledged write of the cell

CommittedPrefix == \A n \in Nodes : commit[n] <= Len(glog) /\ IsPfx(SubSeq(log[n], 1, commit[n]), glog)
MinorityDown == Cardinality(Down) * 2 < Cardinality(Nodes)
Ordered == \A n \in Nodes : snap[n] <= shAp[n] /\ shAp[n] <= commit[n] /\ commit[n] <= durable[n] /\ durable[n] <= Len(log[n])
=============================================================================
