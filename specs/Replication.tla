------------------------------ MODULE Replication ------------------------------
(***************************************************************************)
(* C05 - replicated data survives the loss of a minority of store nodes.   *)
(*                                                                         *)
(* etcd/raft is third party and trusted; the specification sits at the     *)
(* level openGemini adds around it (lib/raftconn/node.go,                  *)
(* engine/partition_raft.go, engine/engine.go:WriteToRaft, lib/raftlog):   *)
(*                                                                         *)
(*  Propose   WriteToRaft: DataWrapper{Identity, ProposeId} -> proposeC    *)
(*            -> raft.Propose on the leader (unstable, in memory)          *)
(*  Persist   serveChannels: SaveToStorage(rd.HardState, rd.Entries) then  *)
(*            TrySync, BEFORE PublishEntries and before a follower answers *)
(*  Replicate MsgApp leader -> follower (conflicting suffix replaced);     *)
(*            the follower also learns the leader's commit index           *)
(*  Commit    raft commit rule (entry of the leader's term on a quorum)    *)
(*  Apply     PublishEntries -> commitC -> readCommitFromRaft ->           *)
(*            dealCommitData -> dealNormalData -> shard write path (the    *)
(*            shard's own WAL makes what is applied durable)               *)
(*  Ack       RetCommittedDataC on the PROPOSING node after ITS apply      *)
(*  FlushAdvance  snapshotAfterFlush: raft snapshot index := flushed-      *)
(*            through index                                                *)
(*  Truncate / ApplyClear   deleteEntryLog proposes ClearEntryLog(i),      *)
(*            every node runs Store.DeleteBefore(i) when it is committed.  *)
(*            Ideal guard: every member has flushed past i.                *)
(*  Crash / Restart   SIGKILL; InitAndStartNode: appliedIndex :=           *)
(*            hardState.Commit and replay of (snapshot index, commit]      *)
(*  Elect     raft election (up-to-date log, quorum of votes)              *)
(*  ClientRetry = Propose of a write whose earlier attempt failed (the     *)
(*            proposer died or lost leadership); coordinator/points_writer *)
(*            retries until the replica group has a master again.          *)
(*                                                                         *)
(* Dev = {} is the design. Mutation seeds / as-implemented deviations:     *)
(*   "ack_before_quorum"         ack as soon as the leader appended        *)
(*   "truncate_past_down_member" the FORCED clean exists: once the outage  *)
(*                               timer of the leader has run for more than *)
(*                               TolerateTime the clean looks only at the  *)
(*                               Match of the ACTIVE members (as           *)
(*                               implemented in forceDeleteEntryLog /      *)
(*                               genProposeData) and a lagging member then *)
(*                               receives a raft snapshot whose payload is *)
(*                               the literal "snapshot" (no data)          *)
(*   "outage_timer_per_group"    as implemented (F-C05-2): one outage      *)
(*                               timer per leader for the whole group; it  *)
(*                               keeps running when the member that armed  *)
(*                               it is back and ANOTHER one (or the same   *)
(*                               one again) is away at the next tick: that *)
(*                               member is skipped by the forced clean     *)
(*                               after an absence of less than             *)
(*                               TolerateTime (rolling outages)            *)
(*   "outage_timer_not_reset"    a tick that sees every member present     *)
(*                               leaves tolStart armed (mutation seed; has *)
(*                               an effect only together with the forced   *)
(*                               clean): the next outage, however short,   *)
(*                               goes straight to the forced clean         *)
(*   "restart_skips_replay"      appliedIndex := commit without replay     *)
(*   "ack_ignores_apply_error"   dealCommitData: the deferred ack carries  *)
(*                               the error evaluated BEFORE the apply, a   *)
(*                               failed local apply is acknowledged        *)
(*                                                                         *)
(* TIME. deleteEntryLogPeriodically: every node runs a one-minute ticker; *)
(* on the raft leader that has a snapshot the tick body is                 *)
(* deleteEntryLog -> forceDeleteEntryLog:                                  *)
(*   a member is away : tolerateStartTime.CompareAndSwap(0, now); if       *)
(*                      now - tolerateStartTime > clear-entryLog-tolerate- *)
(*                      time: FORCED clean (ClearEntryLog computed from    *)
(*                      the active members only), tolerateStartTime := 0   *)
(*   everybody present: tolerateStartTime := 0 (then the ordinary clean,   *)
(*                      action Truncate)                                   *)
(* now is a small counter whose unit is the ticker period. Tick(l) is the *)
(* NEXT tick of leader l: one period has passed since its previous one     *)
(* (now' = now + 1, tickers are periodic: a leader cannot let a period     *)
(* pass without looking). Time is counted only while it matters (a member  *)
(* is away or an outage timer is armed).                                   *)
(* tolStart[n] is the in-memory tolerateStartTime of node n (0 = unset;    *)
(* lost by Crash, kept across a change of role: a node that is not leader  *)
(* returns from deleteEntryLog before it looks at the members). since[n]   *)
(* is the period in which a down node went down (-1 = up), skipped[n]      *)
(* remembers whether a forced clean ignored n and whether n had then been  *)
(* away for more than TolerateTime ("long") or not ("short").              *)
(* MaxTime = 0 switches the clock off (no Tick).                           *)
(*                                                                         *)
(* The specification is also the fault-schedule generator: hist records    *)
(* the client / fault actions (Write, Kill leader|follower, Restart,       *)
(* Flush, Query, and with the clock on Tick); ReplicationMC                *)
(* exports them in simulation mode, and exports the counterexample of      *)
(* the timer deviations as DIRECTED schedule.                              *)
(***************************************************************************)
EXTENDS Integers, Sequences, FiniteSets, TLC

CONSTANTS Nodes, NoNode, MaxTerm, MaxEntries, MaxWrites, NCells, MaxCrashes, MaxTrunc, MaxHist, Gen, Dev,
          TolerateTime, MaxTime,               \* clear-entryLog-tolerate-time and the horizon, in ticker periods
          CrashOdds, QueryOdds, FlushOdds      \* generator only (Gen): a crash / a query is taken with probability 1/odds when enabled

VARIABLES up, role, term, log, durable, commit, shAp, data, snap, first,
          prop, acked, ackIdx, ackEnt, ackTerm, issued,
          glog, clearIdx, ntrunc, crashes, hist,
          now, tolStart, since, skipped

nodeVars == <<up, role, term, log, durable, commit, shAp, data, snap, first>>
cliVars  == <<prop, acked, ackIdx, ackEnt, ackTerm, issued>>
timeVars == <<now, tolStart, since, skipped>>
vars == <<nodeVars, cliVars, glog, clearIdx, ntrunc, crashes, hist, timeVars>>
view == <<nodeVars, cliVars, glog, clearIdx, ntrunc, crashes, timeVars>>

W == 1..MaxWrites
Cells == 1..NCells
CellOf(w) == ((w - 1) % NCells) + 1
Quorums == {Q \in SUBSET Nodes : Cardinality(Q) * 2 > Cardinality(Nodes)}
NoEnt == [t |-> 0, w |-> 0]

MaxOf(S) == CHOOSE x \in S : \A y \in S : x >= y
MinOf(S) == CHOOSE x \in S : \A y \in S : x <= y
LastTerm(l) == IF Len(l) = 0 THEN 0 ELSE l[Len(l)].t
UpToDate(n, m) == \/ LastTerm(log[n]) > LastTerm(log[m])
                  \/ LastTerm(log[n]) = LastTerm(log[m]) /\ Len(log[n]) >= Len(log[m])
Common(a, b) == MaxOf({k \in 0..MinOf({Len(a), Len(b)}) : SubSeq(a, 1, k) = SubSeq(b, 1, k)})
IsPfx(a, b) == Len(a) <= Len(b) /\ SubSeq(b, 1, Len(a)) = a
ApplyEnt(d, e) == [d EXCEPT ![CellOf(e.w)] = e.w]
RECURSIVE FoldR(_, _, _, _)
FoldR(d, l, i, to) == IF i > to THEN d ELSE FoldR(ApplyEnt(d, l[i]), l, i + 1, to)
Down == {n \in Nodes : ~up[n]}
Inflight == \E w \in W : prop[w] # NoNode

\* generator only: an enabled step is taken with probability 1/odds (odds <= 1: always; the salt keeps TLC from caching the draw)
Take(odds, salt) == IF odds <= 1 THEN TRUE ELSE RandomElement(1..(odds + 0 * salt)) = 1

Rec(a, w, c, r) == [a |-> a, w |-> w, c |-> c, r |-> r, f |-> IF Inflight THEN 1 ELSE 0]
Log(rec) == IF Gen /\ Len(hist) < MaxHist THEN Append(hist, rec) ELSE hist

Init ==
  /\ up = [n \in Nodes |-> TRUE] /\ role = [n \in Nodes |-> "F"] /\ term = [n \in Nodes |-> 0]
  /\ log = [n \in Nodes |-> << >>] /\ durable = [n \in Nodes |-> 0] /\ commit = [n \in Nodes |-> 0]
  /\ shAp = [n \in Nodes |-> 0] /\ data = [n \in Nodes |-> [c \in Cells |-> 0]]
  /\ snap = [n \in Nodes |-> 0] /\ first = [n \in Nodes |-> 0]
  /\ prop = [w \in W |-> NoNode] /\ acked = {} /\ ackIdx = [w \in W |-> 0] /\ ackEnt = [w \in W |-> NoEnt]
  /\ ackTerm = [w \in W |-> 0] /\ issued = {}
  /\ glog = << >> /\ clearIdx = 0 /\ ntrunc = 0 /\ crashes = 0 /\ hist = << >>
  /\ now = 0 /\ tolStart = [n \in Nodes |-> 0] /\ since = [n \in Nodes |-> -1]
  /\ skipped = [n \in Nodes |-> "no"]

Elect(n) ==
  /\ up[n]
  /\ \E Q \in Quorums :
       /\ n \in Q
       /\ \A m \in Q : up[m] /\ UpToDate(n, m)
       /\ LET nt == MaxOf({term[m] : m \in Q}) + 1 IN
            /\ nt <= MaxTerm
            /\ term' = [m \in Nodes |-> IF m \in Q THEN nt ELSE term[m]]
            /\ role' = [m \in Nodes |-> IF m = n THEN "L" ELSE IF m \in Q THEN "F" ELSE role[m]]
  /\ UNCHANGED <<up, log, durable, commit, shAp, data, snap, first, cliVars, glog, clearIdx, ntrunc, crashes, hist, timeVars>>

\* first attempt of write w, or ClientRetry: the earlier attempt failed (its proposer died: prop reset by Crash; or lost leadership)
Propose(l, w) ==
  /\ up[l] /\ role[l] = "L" /\ Len(log[l]) < MaxEntries
  /\ w \notin acked /\ \A v \in 1..(w - 1) : v \in acked          \* one sequential client
  /\ prop[w] # l
  /\ IF prop[w] = NoNode THEN TRUE ELSE role[prop[w]] # "L"
  /\ log' = [log EXCEPT ![l] = Append(@, [t |-> term[l], w |-> w])]
  /\ prop' = [prop EXCEPT ![w] = l]
  /\ issued' = issued \cup {w}
  /\ hist' = IF w \in issued THEN hist ELSE Log(Rec("Write", w, CellOf(w), "-"))
  /\ UNCHANGED <<up, role, term, durable, commit, shAp, data, snap, first, acked, ackIdx, ackEnt, ackTerm, glog, clearIdx, ntrunc, crashes, timeVars>>

Persist(n) ==
  /\ up[n] /\ durable[n] < Len(log[n])
  /\ durable' = [durable EXCEPT ![n] = Len(log[n])]
  /\ UNCHANGED <<up, role, term, log, commit, shAp, data, snap, first, cliVars, glog, clearIdx, ntrunc, crashes, hist, timeVars>>

Replicate(l, f) ==
  /\ l # f /\ up[l] /\ up[f] /\ role[l] = "L" /\ term[l] >= term[f]
  /\ LET k == Common(log[l], log[f])
         conflict == ~IsPfx(log[l], log[f])
         nlog == IF conflict THEN log[l] ELSE log[f]
         ndur == Len(nlog)          \* a follower answers only after SaveToStorage + TrySync: not persisted = not received
         ncom == MaxOf({commit[f], MinOf({commit[l], ndur})})
     IN /\ conflict => k >= first[l]                 \* the entries to send still exist on the leader
        /\ conflict \/ ncom # commit[f] \/ ndur # durable[f] \/ term[f] # term[l] \/ role[f] # "F"
        /\ log' = [log EXCEPT ![f] = nlog]
        /\ durable' = [durable EXCEPT ![f] = ndur]
        /\ commit' = [commit EXCEPT ![f] = ncom]
  /\ term' = [term EXCEPT ![f] = term[l]]
  /\ role' = [role EXCEPT ![f] = "F"]
  /\ UNCHANGED <<up, shAp, data, snap, first, cliVars, glog, clearIdx, ntrunc, crashes, hist, timeVars>>

\* the follower needs an entry the leader has truncated: MsgSnap with payload "snapshot" - index and term move, data does not
SnapInstall(l, f) ==
  /\ l # f /\ up[l] /\ up[f] /\ role[l] = "L" /\ term[l] >= term[f]
  /\ ~IsPfx(log[l], log[f]) /\ Common(log[l], log[f]) < first[l]
  /\ log' = [log EXCEPT ![f] = SubSeq(log[l], 1, first[l])]
  /\ durable' = [durable EXCEPT ![f] = first[l]]
  /\ commit' = [commit EXCEPT ![f] = MaxOf({@, first[l]})]
  /\ shAp' = [shAp EXCEPT ![f] = MaxOf({@, first[l]})]
  /\ snap' = [snap EXCEPT ![f] = MaxOf({@, first[l]})]
  /\ first' = [first EXCEPT ![f] = first[l]]
  /\ term' = [term EXCEPT ![f] = term[l]]
  /\ role' = [role EXCEPT ![f] = "F"]
  /\ UNCHANGED <<up, data, cliVars, glog, clearIdx, ntrunc, crashes, hist, timeVars>>

Commit(l) ==
  /\ up[l] /\ role[l] = "L"
  /\ LET C == {i \in (commit[l] + 1)..durable[l] :
                 /\ log[l][i].t = term[l]
                 /\ \E Q \in Quorums : /\ l \in Q
                                       /\ \A n \in Q : /\ durable[n] >= i /\ Len(log[n]) >= i
                                                       /\ SubSeq(log[n], 1, i) = SubSeq(log[l], 1, i)}
     IN /\ C # {}
        /\ commit' = [commit EXCEPT ![l] = MaxOf(C)]
        /\ glog' = IF MaxOf(C) > Len(glog) THEN SubSeq(log[l], 1, MaxOf(C)) ELSE glog
  /\ UNCHANGED <<up, role, term, log, durable, shAp, data, snap, first, cliVars, clearIdx, ntrunc, crashes, hist, timeVars>>

Apply(n) ==
  /\ up[n] /\ shAp[n] < commit[n]
  /\ data' = [data EXCEPT ![n] = ApplyEnt(@, log[n][shAp[n] + 1])]
  /\ shAp' = [shAp EXCEPT ![n] = @ + 1]
  /\ UNCHANGED <<up, role, term, log, durable, commit, snap, first, cliVars, glog, clearIdx, ntrunc, crashes, hist, timeVars>>

\* as implemented: an apply error is logged, the applied index moves on and (deferred ack, error evaluated early) the write is acknowledged
ApplyFail(n) ==
  /\ "ack_ignores_apply_error" \in Dev
  /\ up[n] /\ shAp[n] < commit[n]
  /\ shAp' = [shAp EXCEPT ![n] = @ + 1]
  /\ UNCHANGED <<up, role, term, log, durable, commit, data, snap, first, cliVars, glog, clearIdx, ntrunc, crashes, hist, timeVars>>

Ack(l, w) ==
  /\ up[l] /\ prop[w] = l /\ w \notin acked
  /\ LET S == IF "ack_before_quorum" \in Dev THEN {i \in 1..Len(log[l]) : log[l][i].w = w}
                                              ELSE {i \in 1..shAp[l] : log[l][i].w = w}
     IN /\ S # {}
        /\ ackIdx' = [ackIdx EXCEPT ![w] = MinOf(S)]
        /\ ackEnt' = [ackEnt EXCEPT ![w] = log[l][MinOf(S)]]
  /\ ackTerm' = [ackTerm EXCEPT ![w] = term[l]]
  /\ acked' = acked \cup {w}
  /\ prop' = [prop EXCEPT ![w] = NoNode]
  /\ UNCHANGED <<nodeVars, issued, glog, clearIdx, ntrunc, crashes, hist, timeVars>>

FlushAdvance(n) ==
  /\ up[n] /\ snap[n] < shAp[n]
  /\ Gen => Take(FlushOdds, crashes)
  /\ snap' = [snap EXCEPT ![n] = shAp[n]]
  /\ hist' = Log(Rec("Flush", 0, 0, "-"))
  /\ UNCHANGED <<up, role, term, log, durable, commit, shAp, data, first, cliVars, glog, clearIdx, ntrunc, crashes, timeVars>>

Truncate(l) ==
  /\ up[l] /\ role[l] = "L" /\ ntrunc < MaxTrunc
  /\ snap[l] > first[l] /\ snap[l] > clearIdx
  /\ \A n \in Nodes : snap[n] >= snap[l]                          \* every member, up or down, has flushed past it
  /\ clearIdx' = snap[l]
  /\ first' = [first EXCEPT ![l] = snap[l]]
  /\ ntrunc' = ntrunc + 1
  /\ UNCHANGED <<up, role, term, log, durable, commit, shAp, data, snap, cliVars, glog, crashes, hist, timeVars>>

ApplyClear(n) ==
  /\ up[n] /\ first[n] < clearIdx /\ shAp[n] >= clearIdx      \* ClearEntryLog(i) is itself an entry behind i: applied in log order
  /\ first' = [first EXCEPT ![n] = clearIdx]
  /\ UNCHANGED <<up, role, term, log, durable, commit, shAp, data, snap, cliVars, glog, clearIdx, ntrunc, crashes, hist, timeVars>>

Crash(n) ==
  /\ up[n] /\ crashes < MaxCrashes
  /\ Gen => Take(IF role[n] = "L" THEN CrashOdds \div 3 ELSE CrashOdds, crashes)
  /\ Cardinality(Down \cup {n}) * 2 < Cardinality(Nodes)
  /\ up' = [up EXCEPT ![n] = FALSE]
  /\ log' = [log EXCEPT ![n] = SubSeq(@, 1, durable[n])]
  /\ role' = [role EXCEPT ![n] = "F"]
  /\ prop' = [w \in W |-> IF prop[w] = n THEN NoNode ELSE prop[w]]
  /\ crashes' = crashes + 1
  /\ hist' = Log(Rec("Kill", 0, 0, IF role[n] = "L" THEN "leader" ELSE "follower"))
  /\ since' = [since EXCEPT ![n] = now]
  /\ tolStart' = [tolStart EXCEPT ![n] = 0]           \* tolerateStartTime lives in memory
  /\ UNCHANGED <<term, durable, commit, shAp, data, snap, first, acked, ackIdx, ackEnt, ackTerm, issued, glog, clearIdx, ntrunc, now, skipped>>

Restart(n) ==
  /\ ~up[n]
  /\ up' = [up EXCEPT ![n] = TRUE]
  /\ shAp' = [shAp EXCEPT ![n] = MaxOf({@, commit[n]})]
  /\ IF "restart_skips_replay" \in Dev \/ first[n] > snap[n]      \* ErrCompacted: logged, nothing replayed
       THEN data' = data
       ELSE data' = [data EXCEPT ![n] = FoldR(@, log[n], snap[n] + 1, commit[n])]
  /\ hist' = Log(Rec("Restart", 0, 0, "-"))
  /\ since' = [since EXCEPT ![n] = -1]
  /\ UNCHANGED <<role, term, log, durable, commit, snap, first, cliVars, glog, clearIdx, ntrunc, crashes, now, tolStart, skipped>>

\* Progress[n].Match >= i on leader l: n holds l's log up to i durably
Matched(l, n, i) == durable[n] >= i /\ Len(log[n]) >= i /\ SubSeq(log[n], 1, i) = SubSeq(log[l], 1, i)

\* The next tick of deleteEntryLogPeriodically on a leader that has a snapshot (deleteEntryLog -> forceDeleteEntryLog): one
\* ticker period has passed since its previous tick. Counted only while it matters (a member is away or an outage timer is armed).
ClockOn == MaxTime > 0
Tick(l) ==
  /\ ClockOn /\ now < MaxTime /\ up[l] /\ role[l] = "L" /\ snap[l] > 0
  /\ Down # {} \/ \E n \in Nodes : tolStart[n] # 0
  /\ now' = now + 1
  /\ LET t == now + 1 IN
     IF Down = {}
       THEN \* everybody present: the outage timer is reset
            /\ tolStart' = [tolStart EXCEPT ![l] = IF "outage_timer_not_reset" \in Dev THEN @ ELSE 0]
            /\ hist' = Log(Rec("Tick", 0, 0, "healthy"))
            /\ UNCHANGED <<first, clearIdx, ntrunc, skipped>>
       ELSE LET start0 == IF tolStart[l] = 0 THEN t ELSE tolStart[l]         \* CompareAndSwap(0, now)
                \* a member that is away now but was present at the tick that armed the timer (it went down later): its own
                \* absence starts now. As implemented there is ONE timer per leader for the whole group (F-C05-2).
                fresh == \E n \in Down : since[n] >= start0
                start == IF fresh /\ "outage_timer_per_group" \notin Dev THEN t ELSE start0 IN
            IF "truncate_past_down_member" \in Dev /\ t - start > TolerateTime
              THEN \* as implemented: the leader gives up on the absent members (F-C05-1)
                   /\ tolStart' = [tolStart EXCEPT ![l] = 0]
                   /\ hist' = Log(Rec("Tick", 0, 0, "forced"))
                   /\ IF /\ ntrunc < MaxTrunc /\ snap[l] > first[l] /\ snap[l] > clearIdx
                         \* the ordinary guard, asked of the ACTIVE members only (Progress[n].Match; n has flushed past it)
                         /\ \A n \in Nodes : up[n] => (Matched(l, n, snap[l]) /\ snap[n] >= snap[l])
                        THEN /\ clearIdx' = snap[l]
                             /\ first' = [first EXCEPT ![l] = snap[l]]
                             /\ ntrunc' = ntrunc + 1
                             /\ skipped' = [n \in Nodes |-> IF up[n] \/ skipped[n] = "short" THEN skipped[n]
                                                             ELSE IF t - since[n] > TolerateTime THEN "long" ELSE "short"]
                        ELSE UNCHANGED <<first, clearIdx, ntrunc, skipped>>
              ELSE /\ tolStart' = [tolStart EXCEPT ![l] = start]
                   /\ hist' = Log(Rec("Tick", 0, 0, "away"))
                   /\ UNCHANGED <<first, clearIdx, ntrunc, skipped>>
  /\ UNCHANGED <<up, role, term, log, durable, commit, shAp, data, snap, cliVars, glog, crashes, since>>

Query ==
  /\ Gen /\ QueryOdds > 0 /\ Len(hist) < MaxHist /\ Take(QueryOdds, crashes)
  /\ Len(hist) > 0 /\ hist[Len(hist)].a # "Query"
  /\ hist' = Append(hist, Rec("Query", 0, 0, "-"))
  /\ UNCHANGED <<nodeVars, cliVars, glog, clearIdx, ntrunc, crashes, timeVars>>

Next ==
  \/ \E n \in Nodes : \/ Elect(n) \/ Persist(n) \/ Commit(n) \/ Apply(n) \/ ApplyFail(n) \/ FlushAdvance(n)
                      \/ Truncate(n) \/ ApplyClear(n) \/ Crash(n) \/ Restart(n) \/ Tick(n)
  \/ \E l, f \in Nodes : Replicate(l, f) \/ SnapInstall(l, f)
  \/ \E l \in Nodes, w \in W : Propose(l, w) \/ Ack(l, w)
  \/ Query

Spec == Init /\ [][Next]_vars

-----------------------------------------------------------------------------
\* an acknowledged write is durable on a majority
AckedOnQuorum ==
  \A w \in acked : \E Q \in Quorums : \A n \in Q :
     /\ durable[n] >= ackIdx[w] /\ Len(log[n]) >= ackIdx[w] /\ log[n][ackIdx[w]] = ackEnt[w]

\* every leader of a term not older than the one in which w was acknowledged holds w's entry
LeaderCompleteness ==
  \A w \in acked : \A l \in Nodes :
     (up[l] /\ role[l] = "L" /\ term[l] >= ackTerm[w]) => (Len(log[l]) >= ackIdx[w] /\ log[l][ackIdx[w]] = ackEnt[w])

\* no member, up or down, still needs an entry that some node has deleted; a node can always replay after its own snapshot
TruncationSafe ==
  /\ \A l, n \in Nodes : first[l] <= shAp[n]
  /\ \A n \in Nodes : first[n] <= snap[n]

\* a forced clean that skips a member implies that the member has been continuously away for more than TolerateTime
ForcedCleanOnlyAfterTolerate == \A n \in Nodes : skipped[n] # "short"
\* a tick that sees every member present resets the outage timer of that leader
HealthyTickResets == [][\A l \in Nodes : (Tick(l) /\ Down = {}) => tolStart'[l] = 0]_vars
\* TruncationSafe up to F-C05-1: only a member that a forced clean skipped after more than TolerateTime may lack (in its own
\* log) an entry that some node has deleted
ShortOutageKeepsLog == \A l, n \in Nodes : first[l] > durable[n] => skipped[n] = "long"
\* the outage timer is armed only while the clock runs, and never in the future
TimerSane == \A n \in Nodes : tolStart[n] <= now /\ since[n] <= now /\ (up[n] <=> since[n] = -1)

\* state machine safety at the level of the shards + last-write-wins of the acknowledged writes on every caught-up replica
CaughtUp(n) == up[n] /\ \A w \in acked : shAp[n] >= ackIdx[w]
AckedMax(c) == LET S == {w \in acked : CellOf(w) = c} IN IF S = {} THEN 0 ELSE MaxOf(S)
ReadAnyReplica ==
  \A n \in Nodes : CaughtUp(n) =>
     /\ shAp[n] <= Len(glog)
     /\ data[n] = FoldR([c \in Cells |-> 0], glog, 1, shAp[n])          \* which replica answers does not matter
     /\ \A c \in Cells : data[n][c] >= AckedMax(c)                      \* at least the latest acknowledged write of the cell

\* ReadAnyReplica up to F-C05-1 (the as-implemented model must still satisfy this one)
ShortOutageReadAnyReplica ==
  \A n \in Nodes : (CaughtUp(n) /\ skipped[n] # "long") =>
     /\ shAp[n] <= Len(glog)
     /\ data[n] = FoldR([c \in Cells |-> 0], glog, 1, shAp[n])
     /\ \A c \in Cells : data[n][c] >= AckedMax(c)

CommittedPrefix == \A n \in Nodes : commit[n] <= Len(glog) /\ IsPfx(SubSeq(log[n], 1, commit[n]), glog)
MinorityDown == Cardinality(Down) * 2 < Cardinality(Nodes)
Ordered == \A n \in Nodes : snap[n] <= shAp[n] /\ shAp[n] <= commit[n] /\ commit[n] <= durable[n] /\ durable[n] <= Len(log[n])
=============================================================================
