----------------------------- MODULE MetaCatalog -----------------------------
(***************************************************************************)
(* The replicated catalogue of ts-meta (lib/util/lifted/influx/meta.Data)  *)
(* as abstract state, and one pure operator per MODELLED raft command:     *)
(*   Ap(c, cmd, dv) = [c |-> catalogue after, r |-> return class,          *)
(*                     new |-> identifiers handed out]                     *)
(* named after the apply handlers of app/ts-meta/meta/store_fsm.go and     *)
(* lib/util/lifted/influx/meta/apply_func_base.go -> data.go.              *)
(*                                                                         *)
(* C16 (catalogue well-formed): GroupsDisjointAlignedSorted, IdsUnique,    *)
(*     IdsNeverReused, RefsValid, DefaultPolicyExists, FailedCommandIsNoop,*)
(*     NoPanic.                                                            *)
(* C15 (replicas converge through snapshot/restore): Snapshot (FSM.        *)
(*     Snapshot = Data.Clone), Persist (FSMSnapshot.Persist = Marshal,     *)
(*     later, applies allowed in between) and Restore (Unmarshal, then the *)
(*     commands after the snapshot index are applied again) are actions;   *)
(*     SnapshotPointInTime, SnapshotComplete, SnapshotKeepsVersions.       *)
(*     Determinism is structural in TLA+ (Ap is an operator); the code-    *)
(*     level hazard - a decision taken from the FIRST entry of a Go map -  *)
(*     is stated explicitly: the commands that consult "some measurement   *)
(*     of the policy" (validMeasurementShardType's witness, CreateShard-   *)
(*     Group's template) take that entry as a parameter (ApW), ApAll is    *)
(*     the set of outcomes over all entries the map may yield first, and   *)
(*     WitnessIndependent / TemplateIndependent say that set is a          *)
(*     singleton; ShardTypeUniform is the rule that makes it so.           *)
(*                                                                         *)
(* dv is a set of deviation names. Dev = {} is the design. Two lineages    *)
(* are carried: cat (deviations Dev) and, when Track, catI (deviations     *)
(* Dev \cup ImplDev = the as-implemented behaviour of the open findings),  *)
(* so that every exported behaviour tells the harness both what the design *)
(* expects and what the known defects predict.                             *)
(*                                                                         *)
(* Time: 4 ticks = 1 hour (tick mod 4 = 0 is an hour boundary). MaxT/MinT  *)
(* stand for models.MaxNanoTime / MinNanoTime (both inside an hour).       *)
(***************************************************************************)
EXTENDS Integers, Sequences, FiniteSets, TLC, SequencesExt, FiniteSetsExt

CONSTANTS DBs, RPs, Msts, Users, Hosts, SqlHosts,
          SgDurs,     \* shard-group durations offered (ticks, multiples of 4)
          RpDurs,     \* policy durations offered (0 = infinite, 2 = 30 min = too low)
          RepNs,      \* replica numbers offered
          Times,      \* timestamps offered to CreateShardGroup
          MinT, MaxT, \* smallest / largest legal timestamp
          WrapT,      \* what an instant before MinT becomes when it is written as int64 nanoseconds
          Engines,    \* engine kinds offered
          MaxGroups,  \* bound on shard groups per policy (<= 11: sort.Sort is an insertion sort up to 12)
          MaxVer,     \* bound on measurement versions
          MaxNodes,   \* bound on data nodes
          SchemaCleanChoices, \* values of schema-clean-enable explored
          MaxTail,    \* bound on commands applied between Snapshot and Restore
          MaxSnaps,   \* bound on snapshots per behaviour
          ShardTypes, \* sharding types offered to CreateMeasurement (0 = HASH, 1 = RANGE)
          PpnChoices, \* values of [meta] ptnum-pernode explored (partitions per data node)
          Ops,        \* command types enabled in this configuration
          Depth, Dev, ImplDev, Track

VARIABLES cat,     \* catalogue of a node that applies every command (deviations Dev)
          catI,    \* same log, deviations Dev \cup ImplDev (only when Track)
          used,    \* history: identifiers ever handed out  <<kind, id>>
          usedv,   \* history: measurement versions handed out in the policies that exist  <<db, rp, name, version>>
          flags,   \* [reused, noop, panic]: ghost outcome of the steps so far
          sn,      \* snapshot machinery [ph, rest, k, c, ci, img, imgi, tail]
          catB,    \* replica that is restored from its snapshots (deviations Dev); meaningful once sn.rest
          catBI,   \* ... deviations Dev \cup ImplDev
          hist

vars == <<cat, catI, used, usedv, flags, sn, catB, catBI, hist>>
view == <<cat, used, usedv, flags, sn, catB>>

Hour == 4

-----------------------------------------------------------------------------
NoRp == [ex |-> FALSE, mark |-> FALSE, dur |-> 0, sgd |-> 0, igd |-> 0, repn |-> 0,
         mv |-> [m \in Msts |-> -1],  \* MstVersions: current version per measurement name, -1 = none
         ms |-> {},                   \* Measurements: records [n, v, id, mark, sk, skg, ty]; ty = ShardKeys[0].Type
         sgs |-> <<>>,                \* ShardGroups  [id, s, e, del, eng, d, shards: <<[id, ix, mdel]>>]
         igs |-> <<>>]                \* IndexGroups  [id, s, e, eng, idxs: <<id>>]
NoDb == [ex |-> FALSE, mark |-> FALSE, def |-> "", repn |-> 0, rps |-> [r \in RPs |-> NoRp]]

InitCat == [nodes |-> <<>>,           \* DataNodes [id, host, conn]
            sql |-> <<>>,             \* SqlNodes  [id, host, conn]
            maxNode |-> 0, maxConn |-> 0, ptNum |-> 0,
            ppn |-> 1,                \* configuration [meta] ptnum-pernode, fixed per behaviour
            ptv |-> [d \in DBs |-> <<>>],   \* PtView[db]: <<[owner, rg]>>, position = pt id + 1
            rgs |-> [d \in DBs |-> <<>>],   \* ReplicaGroups[db]: <<[id, master, peers, st]>>
            rgmap |-> FALSE,          \* implementation detail: the ReplicaGroups map has been allocated (expandDBRG)
            dbs |-> [d \in DBs |-> NoDb],
            users |-> <<>>,           \* [n, admin, privs: [DBs -> 0..3]]
            maxSG |-> 0, maxSh |-> 0, maxMst |-> 0, maxIG |-> 0, maxIdx |-> 0,
            sclean |-> FALSE]         \* configuration [meta] schema-clean-enable (default true), fixed per behaviour

Cmd(op, db, rp, n, a, b, l) == [op |-> op, db |-> db, rp |-> rp, n |-> n, a |-> a, b |-> b, l |-> l]

Ok(c, new) == [c |-> c, r |-> "ok", new |-> new]
Fail(c, e) == [c |-> c, r |-> e, new |-> {}]

Trunc(t, d) == (t \div d) * d
ClipEnd(e)  == IF e > MaxT + 1 THEN MaxT + 1 ELSE e
\* Design: a group never starts before the smallest timestamp (as its end is cut at the largest + 1).
\* As implemented ("far_past_start_wraps"): the start is the plain window start, which for the window
\* holding MinT is not representable in int64 nanoseconds - the snapshot encoding wraps it around.
ClipStart(s, dv) == IF s < MinT /\ "far_past_start_wraps" \notin dv THEN MinT ELSE s

\* sort.Sort(ShardGroupInfos) / IndexGroupInfos: by end, then start; appending one element to a sorted
\* slice of <= 12 elements and sorting is a stable insertion
LessG(x, y) == x.e < y.e \/ (x.e = y.e /\ x.s < y.s)
InsSorted(seq, x) ==
  LET k == Cardinality({i \in 1..Len(seq) : ~LessG(x, seq[i])})
  IN SubSeq(seq, 1, k) \o <<x>> \o SubSeq(seq, k + 1, Len(seq))

-----------------------------------------------------------------------------
\* Data.GetDatabase
DbErr(c, db) == IF ~c.dbs[db].ex THEN "db_not_found"
                ELSE IF c.dbs[db].mark THEN "db_being_deleted" ELSE ""
\* DatabaseInfo.RetentionPolicy: "" names the default policy
RpName(c, db, rp) == IF rp = "" THEN c.dbs[db].def ELSE rp
\* Data.RetentionPolicy(db, rp)
RpErr(c, db, rp) ==
  IF DbErr(c, db) # "" THEN DbErr(c, db)
  ELSE LET nm == RpName(c, db, rp) IN
       IF nm = "" THEN "rp_not_found"
       ELSE IF ~c.dbs[db].rps[nm].ex THEN "rp_not_found"
       ELSE IF c.dbs[db].rps[nm].mark THEN "rp_being_deleted" ELSE ""

\* RetentionPolicyInfo.CheckSpecValid for the durations the model offers
SpecErr(sgd, dur) == IF dur # 0 /\ dur < Hour THEN "duration_too_low"
                     ELSE IF dur # 0 /\ dur < sgd THEN "incompatible_durations" ELSE ""
\* normalisedIndexDuration
NormIgd(igd, sgd) == IF igd < sgd THEN sgd
                     ELSE IF igd % sgd = 0 THEN igd ELSE ((igd \div sgd) + 1) * sgd

NewRp(sgd, dur, k) == [NoRp EXCEPT !.ex = TRUE, !.dur = dur, !.sgd = sgd, !.igd = sgd, !.repn = k]

-----------------------------------------------------------------------------
\* replica groups (replication.go: NodeHardChooseRG / joinRpGroup); replication (ReplicaNum > 1) is
\* modelled for one partition per node only (Protocol)
FirstUnfull(rgs) == IF \E i \in 1..Len(rgs) : rgs[i].st = "unfull"
                    THEN Min({i \in 1..Len(rgs) : rgs[i].st = "unfull"}) ELSE 0
\* pt = partition id (0-based); returns [rgs, rg]: the groups after pt joined, and the group id it got
JoinRG(rgs, pt, repn) ==
  LET i == FirstUnfull(rgs) IN
  IF i > 0
  THEN LET p == Append(rgs[i].peers, pt)
       IN [rgs |-> [rgs EXCEPT ![i] = [@ EXCEPT !.peers = p,
                                               !.st = IF repn = Len(p) + 1 THEN "sub" ELSE "unfull"]],
           rg |-> rgs[i].id]
  ELSE [rgs |-> Append(rgs, [id |-> Len(rgs), master |-> pt, peers |-> <<>>,
                             st |-> IF repn = 1 THEN "sub" ELSE "unfull"]),
        rg |-> Len(rgs)]

RECURSIVE ChooseAll(_, _, _, _, _)
\* NodeHardCreateDBRG: for every data node in order, every partition it owns joins a group
ChooseAll(nodes, k, rgs, ptv, repn) ==
  IF k > Len(nodes) THEN [rgs |-> rgs, ptv |-> ptv]
  ELSE LET mine == {i \in 1..Len(ptv) : ptv[i].owner = nodes[k].id} IN
       IF mine = {} THEN ChooseAll(nodes, k + 1, rgs, ptv, repn)
       ELSE LET i == Min(mine)      \* one partition per node in this model
                j == JoinRG(rgs, i - 1, repn)
            IN ChooseAll(nodes, k + 1, j.rgs, [ptv EXCEPT ![i].rg = j.rg], repn)

-----------------------------------------------------------------------------
\* ApplyCreateDataNode -> Data.CreateDataNode
CreateDataNode(c, h, dv) ==
  IF \E i \in 1..Len(c.nodes) : c.nodes[i].host = h
  THEN LET i == CHOOSE i \in 1..Len(c.nodes) : c.nodes[i].host = h
       IN Ok([c EXCEPT !.maxConn = @ + 1, !.nodes[i].conn = c.maxConn + 1], {})
  ELSE IF Len(c.nodes) >= MaxNodes THEN Fail(c, "bound")
  ELSE IF "expand_ptview_nil_db" \in dv /\ \E d \in DBs : c.ptv[d] # <<>> /\ ~c.dbs[d].ex
       \* expandDBPtView -> DBReplicaN dereferences Databases[db] of a db that only has a partition view
       THEN Fail(c, "panic")
  ELSE
    LET id  == c.maxNode + 1
        nn  == Append(c.nodes, [id |-> id, host |-> h, conn |-> c.maxConn + 1])
        pn  == c.ppn * Len(nn)                          \* initDataNodePtView: PtNumPerNode * write nodes
        Exp(d) ==                                        \* expandDBPtView: the new partitions belong to the new node
          IF c.ptv[d] = <<>> \/ Len(c.ptv[d]) = pn THEN [ptv |-> c.ptv[d], rgs |-> c.rgs[d]]
          ELSE LET pv == c.ptv[d] \o [i \in 1..(pn - Len(c.ptv[d])) |-> [owner |-> id, rg |-> 0]]
                   rn == IF c.dbs[d].ex /\ c.dbs[d].repn # 0 THEN c.dbs[d].repn ELSE 1
               IN IF rn > 1
                  THEN LET j == JoinRG(c.rgs[d], Len(pv) - 1, rn)
                       IN [ptv |-> [pv EXCEPT ![Len(pv)].rg = j.rg], rgs |-> j.rgs]
                  ELSE [ptv |-> pv, rgs |-> c.rgs[d]]
    IN Ok([c EXCEPT !.maxConn = @ + 1, !.maxNode = id, !.nodes = nn, !.ptNum = pn,
                    !.ptv = [d \in DBs |-> Exp(d).ptv], !.rgs = [d \in DBs |-> Exp(d).rgs]],
          {<<"node", id>>})

\* storeFSM.applyCreateSqlNodeCommand
CreateSqlNode(c, h) ==
  IF \E i \in 1..Len(c.sql) : c.sql[i].host = h
  THEN LET i == CHOOSE i \in 1..Len(c.sql) : c.sql[i].host = h
       IN Ok([c EXCEPT !.maxConn = @ + 1, !.sql[i].conn = c.maxConn + 1], {})
  ELSE Ok([c EXCEPT !.maxConn = @ + 1, !.maxNode = @ + 1,
                    !.sql = Append(@, [id |-> c.maxNode + 1, host |-> h, conn |-> c.maxConn + 1])],
          {<<"node", c.maxNode + 1>>})

\* ApplyCreateDbPtViewCommand: CreateDBPtView (assignPtForWAF) + CreateDBReplication
CreateDbPtView(c, db, k) ==
  IF c.ptv[db] # <<>> THEN Ok(c, {})
  ELSE IF c.nodes = <<>> THEN Fail(c, "no_alive_node")
  ELSE LET pv == [i \in 1..c.ptNum |-> [owner |-> c.nodes[((i - 1) % Len(c.nodes)) + 1].id, rg |-> 0]]
       IN IF k > 1
          THEN LET x == ChooseAll(c.nodes, 1, c.rgs[db], pv, k)
               IN Ok([c EXCEPT !.ptv[db] = x.ptv, !.rgs[db] = x.rgs, !.rgmap = TRUE], {})
          ELSE Ok([c EXCEPT !.ptv[db] = pv], {})

\* ApplyUpdateReplication -> Data.UpdateReplication (rg = 0-based position)
UpdateReplication(c, db, rg, m, peers) ==
  IF c.rgs[db] = <<>> THEN Fail(c, "db_not_found")
  ELSE IF rg + 1 > Len(c.rgs[db]) THEN Fail(c, "bound")
  ELSE Ok([c EXCEPT !.rgs[db][rg + 1] = [@ EXCEPT !.master = m,
                                            !.peers = IF peers = <<>> THEN @ ELSE peers]], {})

-----------------------------------------------------------------------------
\* storeFSM.applyCreateDatabaseCommand -> Data.CreateDatabase
CreateDatabase(c, db, rp, sgd, dur, k, dv) ==
  IF c.ptNum = 0 THEN Fail(c, "store_not_ready")
  ELSE IF c.dbs[db].ex THEN (IF c.dbs[db].mark THEN Fail(c, "db_being_deleted") ELSE Ok(c, {}))
  ELSE IF rp # "" /\ SpecErr(sgd, dur) # ""
       THEN (IF "createdb_half_applies" \in dv
             THEN [c |-> [c EXCEPT !.dbs[db] = [NoDb EXCEPT !.ex = TRUE, !.repn = k]], r |-> SpecErr(sgd, dur), new |-> {}]
             ELSE Fail(c, SpecErr(sgd, dur)))
  ELSE LET d0 == [NoDb EXCEPT !.ex = TRUE, !.repn = k]
           d1 == IF rp = "" THEN d0 ELSE [d0 EXCEPT !.def = rp, !.rps[rp] = NewRp(sgd, dur, k)]
       IN Ok([c EXCEPT !.dbs[db] = d1], {})

\* ApplyMarkDatabaseDelete
MarkDatabaseDelete(c, db) ==
  IF ~c.dbs[db].ex THEN Fail(c, "db_not_found")
  ELSE IF c.dbs[db].mark THEN Fail(c, "db_being_deleted")
  ELSE Ok([c EXCEPT !.dbs[db].mark = TRUE], {})

\* storeFSM.applyDropDatabaseCommand -> Data.DropDatabase
DropDatabase(c, db) ==
  IF ~c.dbs[db].ex THEN Ok(c, {})
  ELSE Ok([c EXCEPT !.dbs[db] = NoDb, !.rgs[db] = <<>>, !.ptv[db] = <<>>,
                    !.users = [i \in 1..Len(c.users) |-> [c.users[i] EXCEPT !.privs[db] = 0]]], {})

\* ApplyCreateRetentionPolicy -> Data.CreateRetentionPolicy
CreateRetentionPolicy(c, db, rp, sgd, dur, z, k) ==
  IF DbErr(c, db) # "" THEN Fail(c, DbErr(c, db))
  ELSE IF SpecErr(sgd, dur) # "" THEN Fail(c, SpecErr(sgd, dur))
  ELSE LET R == c.dbs[db].rps[rp] IN
    IF ~R.ex
    THEN IF c.dbs[db].repn # 0 /\ k # c.dbs[db].repn THEN Fail(c, "replican_conflict")
         ELSE Ok([c EXCEPT !.dbs[db].rps[rp] = NewRp(sgd, dur, k),
                           !.dbs[db].def = IF z = 1 THEN rp ELSE @], {})
    ELSE IF ~(R.repn = k /\ R.dur = dur /\ R.sgd = sgd /\ R.igd = sgd) THEN Fail(c, "rp_conflict")
    ELSE IF z = 1 /\ c.dbs[db].def # rp THEN Fail(c, "rp_conflict")
    ELSE Ok(c, {})

\* ApplyUpdateRetentionPolicy -> Data.UpdateRetentionPolicy (a = new shard-group duration or 0,
\* b = new duration or -1, z = make default)
UpdateRetentionPolicy(c, db, rp, a, b, z) ==
  IF DbErr(c, db) # "" THEN Fail(c, DbErr(c, db))
  ELSE LET R == c.dbs[db].rps[rp] IN
    IF ~R.ex THEN Fail(c, "rp_not_found")
    ELSE IF R.mark THEN Fail(c, "rp_being_deleted")
    ELSE LET ns == IF a = 0 THEN R.sgd ELSE a
             nd == IF b = -1 THEN R.dur ELSE b
         IN IF SpecErr(ns, nd) # "" THEN Fail(c, SpecErr(ns, nd))
            ELSE Ok([c EXCEPT !.dbs[db].rps[rp] = [@ EXCEPT !.sgd = ns, !.dur = nd, !.igd = NormIgd(R.igd, ns)],
                              !.dbs[db].def = IF z = 1 THEN rp ELSE @], {})

\* ApplyMarkRetentionPolicyDelete
MarkRetentionPolicyDelete(c, db, rp) ==
  IF RpErr(c, db, rp) # "" THEN Fail(c, RpErr(c, db, rp))
  ELSE Ok([c EXCEPT !.dbs[db].rps[rp].mark = TRUE], {})

\* ApplyDropRetentionPolicy -> Data.DropRetentionPolicy.
\* Design: a database's default policy must exist, so dropping the default policy clears the default.
\* As implemented ("drop_rp_keeps_default"): DefaultRetentionPolicy keeps the dropped name.
DropRetentionPolicy(c, db, rp, dv) ==
  IF DbErr(c, db) # "" THEN Fail(c, DbErr(c, db))
  ELSE Ok([c EXCEPT !.dbs[db].rps[rp] = NoRp,
                    !.dbs[db].def = IF @ = rp /\ "drop_rp_keeps_default" \notin dv THEN "" ELSE @], {})

\* ApplySetDefaultRetentionPolicy
SetDefaultRetentionPolicy(c, db, rp) ==
  IF DbErr(c, db) # "" THEN Fail(c, DbErr(c, db))
  ELSE IF ~c.dbs[db].rps[rp].ex THEN Fail(c, "rp_not_found")
  ELSE IF c.dbs[db].rps[rp].mark THEN Fail(c, "rp_being_deleted")
  ELSE Ok([c EXCEPT !.dbs[db].def = rp], {})

-----------------------------------------------------------------------------
\* RetentionPolicyInfo.Measurement(name): the current version's entry, if still present
CurMst(R, m) == {x \in R.ms : x.n = m /\ x.v = R.mv[m]}

TyName(b) == IF b = 1 THEN "range" ELSE "hash"

\* "no entry": what a command that consults the first entry of rp.Measurements sees when the map
\* (or the part of it the command looks at) is empty
NoPick == [n |-> "", v |-> -1, id |-> 0, mark |-> FALSE, sk |-> 0, skg |-> 0, ty |-> ""]

\* RetentionPolicyInfo.validMeasurementShardType(type, name) ranges over rp.Measurements and takes the
\* FIRST entry it does not skip as the witness of the policy's sharding type; Witnesses = the entries it
\* may take. Design: only the LIVE entry of the measurement itself is skipped (CreateMeasurement of an
\* existing measurement / AlterShardKey answer from that entry); entries that are marked deleted are still
\* in the map - CreateShardGroup may take them as template - and constrain the type until DropMeasurement
\* removes them, and so do marked entries of older versions of the SAME name.
\* As implemented ("shardtype_check_skips_same_name"): every entry of the same origin name is skipped, so
\* a measurement can be re-created with another sharding type while its previous version is still marked.
\* Mutation seed ("shardtype_check_skips_marked"): marked entries are skipped.
Witnesses(R, m, dv) ==
  {x \in R.ms : /\ ~(x.n = m /\ (~x.mark \/ "shardtype_check_skips_same_name" \in dv))
                /\ ~(x.mark /\ "shardtype_check_skips_marked" \in dv)}

\* ApplyCreateMeasurement -> Data.CreateMeasurement (sk = shard-key variant, ty = sharding type,
\* w = the witness validMeasurementShardType happened to take, NoPick if it found none)
CreateMeasurement(c, db, rpx, m, sk, ty, w, dv) ==
  IF RpErr(c, db, rpx) # "" THEN Fail(c, RpErr(c, db, rpx))
  ELSE LET rp == RpName(c, db, rpx)
           R  == c.dbs[db].rps[rp]
           cur == CurMst(R, m)
       IN IF w.n # "" /\ w.ty # ty THEN Fail(c, "shard_type_conflict")
          ELSE IF R.repn > 1 /\ ty = "range" THEN Fail(c, "conflict_with_rep")
          ELSE IF cur = {} \/ (\E x \in cur : x.mark)
          THEN LET \* the next version comes from the per-name counter MstVersions, which outlives the
                   \* entry (DropMeasurement keeps it). Mutation seed: taken from the entries.
                   v == IF R.mv[m] = -1 \/ ("version_from_entries" \in dv /\ cur = {}) THEN 0 ELSE R.mv[m] + 1
                   rec == [n |-> m, v |-> v, id |-> c.maxMst, mark |-> FALSE, sk |-> sk,
                           skg |-> IF R.sgs = <<>> THEN c.maxSG + 1 ELSE 0, ty |-> ty]
               IN IF v > MaxVer THEN Fail(c, "bound")
                  ELSE Ok([c EXCEPT !.dbs[db].rps[rp].mv[m] = v,
                                    !.dbs[db].rps[rp].ms = @ \cup {rec},
                                    !.maxMst = IF "forget_maxmstid" \in dv THEN @ ELSE @ + 1],
                          {<<"mst", c.maxMst>>})
          ELSE IF \E x \in cur : x.sk = sk /\ x.ty = ty THEN Ok(c, {}) ELSE Fail(c, "mst_exists")

\* ApplyMarkMeasurementDelete
MarkMeasurementDelete(c, db, rpx, m) ==
  IF RpErr(c, db, rpx) # "" THEN Fail(c, RpErr(c, db, rpx))
  ELSE LET rp == RpName(c, db, rpx)
           R  == c.dbs[db].rps[rp]
           cur == CurMst(R, m)
       IN IF cur = {} \/ (\E x \in cur : x.mark) THEN Fail(c, "mst_not_found")
          ELSE Ok([c EXCEPT !.dbs[db].rps[rp].ms = {IF x \in cur THEN [x EXCEPT !.mark = TRUE] ELSE x : x \in @}], {})

\* ApplyDropMeasurement (name with version): removes the entry only if it is marked
DropMeasurement(c, db, rpx, m, v) ==
  IF RpErr(c, db, rpx) # "" THEN Fail(c, RpErr(c, db, rpx))
  ELSE LET rp == RpName(c, db, rpx)
       IN Ok([c EXCEPT !.dbs[db].rps[rp].ms = {x \in @ : ~(x.n = m /\ x.v = v /\ x.mark)}], {})

-----------------------------------------------------------------------------
Live(R, eng) == {i \in 1..Len(R.sgs) : ~R.sgs[i].del /\ R.sgs[i].eng = eng}

\* ApplyCreateShardGroup -> Data.CreateShardGroup (createIndexGroupIfNeeded, newShardGroup, createShards).
\* tpl = the template measurement: the FIRST entry of rp.Measurements (any entry, marked or not). Its
\* sharding type decides the number of shards: HASH = one per partition of the cluster; RANGE = as many as
\* the last group of the policy has (one if there is none).
CreateShardGroup(c, db, rpx, t, eng, tpl, dv) ==
  IF c.ptNum = 0 THEN Fail(c, "store_not_ready")
  ELSE IF RpErr(c, db, rpx) # "" THEN Fail(c, RpErr(c, db, rpx))
  ELSE LET rp == RpName(c, db, rpx)
           R  == c.dbs[db].rps[rp]
           lv == Live(R, eng)
       IN
    IF \E i \in lv : R.sgs[i].s <= t /\ t < R.sgs[i].e THEN Ok(c, {})
    ELSE IF R.ms = {} THEN Fail(c, "no_mst")
    ELSE IF Len(R.sgs) >= MaxGroups THEN Fail(c, "bound")
    ELSE
      LET pn   == c.ptNum
          \* index group: the last one of this engine that contains t, if it has enough indexes
          cand == {i \in 1..Len(R.igs) : R.igs[i].eng = eng /\ R.igs[i].s <= t /\ t < R.igs[i].e}
          ip   == IF cand = {} THEN 0 ELSE Max(cand)
          reuse == ip > 0 /\ Len(R.igs[ip].idxs) >= pn
          is0  == ClipStart(Trunc(t, R.igd), dv)
          nig  == [id |-> c.maxIG + 1, s |-> is0, e |-> ClipEnd(Trunc(t, R.igd) + R.igd), eng |-> eng,
                   idxs |-> [i \in 1..pn |-> c.maxIdx + i]]
          ig   == IF reuse THEN R.igs[ip] ELSE nig
          igs2 == IF reuse THEN R.igs ELSE InsSorted(R.igs, nig)
          \* shard group: the window of the CURRENT duration around t ...
          s0   == ClipStart(Trunc(t, R.sgd), dv)
          e0   == ClipEnd(Trunc(t, R.sgd) + R.sgd)
          \* ... clipped to its live neighbours (they differ from the window only after a duration change).
          \* As implemented ("groups_not_clipped"): the whole window.
          clip == "groups_not_clipped" \notin dv
          s1   == IF clip THEN Max({s0} \cup {R.sgs[i].e : i \in {j \in lv : R.sgs[j].e <= t /\ R.sgs[j].e > s0}}) ELSE s0
          e1   == IF clip THEN Min({e0} \cup {R.sgs[i].s : i \in {j \in lv : R.sgs[j].s > t /\ R.sgs[j].s < e0}}) ELSE e0
          base == IF "shard_wrong_index" \in dv THEN pn ELSE 0
          ns   == IF tpl.ty = "range"
                  THEN (IF R.sgs = <<>> THEN 1 ELSE Len(R.sgs[Len(R.sgs)].shards)) ELSE pn
          sg   == [id |-> c.maxSG + 1, s |-> s1, e |-> e1, del |-> FALSE, eng |-> eng, d |-> R.sgd,
                   shards |-> [i \in 1..ns |-> [id |-> c.maxSh + i, ix |-> ig.idxs[i] + base, mdel |-> FALSE]]]
          R2   == [R EXCEPT !.igs = igs2, !.sgs = InsSorted(R.sgs, sg)]
      IN Ok([c EXCEPT !.dbs[db].rps[rp] = R2,
                      !.maxSG  = IF "forget_maxsgid" \in dv THEN @ ELSE @ + 1,
                      !.maxSh  = IF "forget_maxshardid" \in dv THEN @ ELSE @ + ns,
                      !.maxIG  = IF reuse THEN @ ELSE @ + 1,
                      !.maxIdx = IF reuse THEN @ ELSE @ + pn],
            {<<"sg", c.maxSG + 1>>} \cup {<<"sh", c.maxSh + i>> : i \in 1..ns}
              \cup (IF reuse THEN {} ELSE {<<"ig", c.maxIG + 1>>} \cup {<<"ix", c.maxIdx + i>> : i \in 1..pn}))

\* ApplyDeleteShardGroup (deleteType = mark as deleted)
DeleteShardGroup(c, db, rpx, id) ==
  IF RpErr(c, db, rpx) # "" THEN Fail(c, RpErr(c, db, rpx))
  ELSE LET rp == RpName(c, db, rpx)
       IN Ok([c EXCEPT !.dbs[db].rps[rp].sgs =
                 [i \in 1..Len(@) |-> IF @[i].id = id THEN [@[i] EXCEPT !.del = TRUE] ELSE @[i]]], {})

\* ApplyPruneGroups(shardGroup = true, id = shard id) -> Data.pruneShardGroups: mark the shard, then
\* remove every deleted group all of whose shards are marked, in every policy of every database
PruneRp(R, id) ==
  LET m == [i \in 1..Len(R.sgs) |->
              [R.sgs[i] EXCEPT !.shards = [j \in 1..Len(@) |-> IF @[j].id = id THEN [@[j] EXCEPT !.mdel = TRUE] ELSE @[j]]]]
  IN [R EXCEPT !.sgs = SelectSeq(m, LAMBDA g : ~(g.del /\ \A j \in 1..Len(g.shards) : g.shards[j].mdel))]

AllSgIds(c) == {c.dbs[d].rps[r].sgs[i].id : <<d, r, i>> \in
                  {x \in DBs \X RPs \X (1..MaxGroups) : x[3] <= Len(c.dbs[x[1]].rps[x[2]].sgs)}}
AllShIds(c) == UNION {{c.dbs[x[1]].rps[x[2]].sgs[x[3]].shards[j].id : j \in 1..Len(c.dbs[x[1]].rps[x[2]].sgs[x[3]].shards)} :
                  x \in {x \in DBs \X RPs \X (1..MaxGroups) : x[3] <= Len(c.dbs[x[1]].rps[x[2]].sgs)}}

\* ... and, with schema-clean-enable, Data.SchemaClean: in a policy that lost a group every measurement
\* whose schema is (now) empty is marked deleted through MarkMeasurementDelete(origin name), i.e. the
\* current version, if database and policy are usable. Schemas are not modelled: they are always empty.
PruneRpSC(c, d, r, id) ==
  LET R == c.dbs[d].rps[r]
      P == PruneRp(R, id)
  IN IF c.sclean /\ Len(P.sgs) < Len(R.sgs) /\ c.dbs[d].ex /\ ~c.dbs[d].mark /\ R.ex /\ ~R.mark
     THEN [P EXCEPT !.ms = {IF x.v = P.mv[x.n] /\ ~x.mark THEN [x EXCEPT !.mark = TRUE] ELSE x : x \in @}]
     ELSE P

PruneGroups(c, id, dv) ==
  LET c2 == [c EXCEPT !.dbs = [d \in DBs |-> [c.dbs[d] EXCEPT !.rps = [r \in RPs |-> PruneRpSC(c, d, r, id)]]]]
  IN IF "prune_resets_counter" \in dv
     THEN Ok([c2 EXCEPT !.maxSG = Max({0} \cup AllSgIds(c2)), !.maxSh = Max({0} \cup AllShIds(c2))], {})
     ELSE Ok(c2, {})

-----------------------------------------------------------------------------
UserPos(c, u) == IF \E i \in 1..Len(c.users) : c.users[i].n = u
                 THEN CHOOSE i \in 1..Len(c.users) : c.users[i].n = u ELSE 0

\* ApplyCreateUser
CreateUser(c, u, admin) ==
  IF UserPos(c, u) > 0 THEN Fail(c, "user_exists")
  ELSE IF admin = 1 /\ \E i \in 1..Len(c.users) : c.users[i].admin THEN Fail(c, "user_forbidden")
  ELSE Ok([c EXCEPT !.users = Append(@, [n |-> u, admin |-> (admin = 1), privs |-> [d \in DBs |-> 0]])], {})

\* ApplyDropUser
DropUser(c, u) ==
  LET i == UserPos(c, u) IN
  IF i = 0 THEN Fail(c, "user_not_found")
  ELSE IF c.users[i].admin THEN Fail(c, "user_drop_self")
  ELSE Ok([c EXCEPT !.users = SubSeq(@, 1, i - 1) \o SubSeq(@, i + 1, Len(@))], {})

\* ApplySetPrivilege
SetPrivilege(c, u, db, p) ==
  LET i == UserPos(c, u) IN
  IF i = 0 THEN Fail(c, "user_not_found")
  ELSE IF DbErr(c, db) # "" THEN Fail(c, DbErr(c, db))
  ELSE Ok([c EXCEPT !.users[i].privs[db] = p], {})

-----------------------------------------------------------------------------
\* ---- commands that consult "the first entry" of rp.Measurements ------------------------------------
\* the policy a measurement / shard-group command works on (NoRp if the command fails before)
CmdRp(c, cmd) == IF RpErr(c, cmd.db, cmd.rp) # "" THEN NoRp ELSE c.dbs[cmd.db].rps[RpName(c, cmd.db, cmd.rp)]
\* the entries the map iteration may yield first
Picks(c, cmd, dv) ==
  CASE cmd.op = "CreateMeasurement" -> Witnesses(CmdRp(c, cmd), cmd.n, dv)
    [] cmd.op = "CreateShardGroup"  -> CmdRp(c, cmd).ms
    [] OTHER -> {}
PickSet(c, cmd, dv) == IF Picks(c, cmd, dv) = {} THEN {NoPick} ELSE Picks(c, cmd, dv)
\* a fixed representative (TLC's CHOOSE is a function of the set): the lineage the specification follows
DetPick(S) == IF S = {} THEN NoPick ELSE CHOOSE x \in S : TRUE

\* the outcome of a command when the map iteration yields w first
ApW(c, cmd, dv, w) ==
  CASE cmd.op = "CreateDataNode"            -> CreateDataNode(c, cmd.n, dv)
    [] cmd.op = "CreateSqlNode"             -> CreateSqlNode(c, cmd.n)
    [] cmd.op = "CreateDbPtView"            -> CreateDbPtView(c, cmd.db, cmd.a)
    [] cmd.op = "UpdateReplication"         -> UpdateReplication(c, cmd.db, cmd.a, cmd.b, cmd.l)
    [] cmd.op = "CreateDatabase"            -> CreateDatabase(c, cmd.db, cmd.rp, cmd.a, cmd.b, cmd.l[1], dv)
    [] cmd.op = "MarkDatabaseDelete"        -> MarkDatabaseDelete(c, cmd.db)
    [] cmd.op = "DropDatabase"              -> DropDatabase(c, cmd.db)
    [] cmd.op = "CreateRetentionPolicy"     -> CreateRetentionPolicy(c, cmd.db, cmd.rp, cmd.a, cmd.b, cmd.l[1], cmd.l[2])
    [] cmd.op = "UpdateRetentionPolicy"     -> UpdateRetentionPolicy(c, cmd.db, cmd.rp, cmd.a, cmd.b, cmd.l[1])
    [] cmd.op = "MarkRetentionPolicyDelete" -> MarkRetentionPolicyDelete(c, cmd.db, cmd.rp)
    [] cmd.op = "DropRetentionPolicy"       -> DropRetentionPolicy(c, cmd.db, cmd.rp, dv)
    [] cmd.op = "SetDefaultRetentionPolicy" -> SetDefaultRetentionPolicy(c, cmd.db, cmd.rp)
    [] cmd.op = "CreateMeasurement"         -> CreateMeasurement(c, cmd.db, cmd.rp, cmd.n, cmd.a, TyName(cmd.b), w, dv)
    [] cmd.op = "MarkMeasurementDelete"     -> MarkMeasurementDelete(c, cmd.db, cmd.rp, cmd.n)
    [] cmd.op = "DropMeasurement"           -> DropMeasurement(c, cmd.db, cmd.rp, cmd.n, cmd.a)
    [] cmd.op = "CreateShardGroup"          -> CreateShardGroup(c, cmd.db, cmd.rp, cmd.a, cmd.b, w, dv)
    [] cmd.op = "DeleteShardGroup"          -> DeleteShardGroup(c, cmd.db, cmd.rp, cmd.a)
    [] cmd.op = "PruneGroups"               -> PruneGroups(c, cmd.a, dv)
    [] cmd.op = "CreateUser"                -> CreateUser(c, cmd.n, cmd.a)
    [] cmd.op = "DropUser"                  -> DropUser(c, cmd.n)
    [] cmd.op = "SetPrivilege"              -> SetPrivilege(c, cmd.n, cmd.db, cmd.a)
    \* a command of a registered type that is NOT modelled (subscriptions, continuous queries, user
    \* password, query-id offsets, shard / index tiers, take-over and balancer switches, partition versions,
    \* schemas, down-sample levels): whatever it returns, the modelled part of the catalogue is unchanged.
    \* a = the kind; the harness draws the arguments from the live catalogue.
    [] cmd.op = "Opaque"                    -> Ok(c, {})

Ap(c, cmd, dv)    == ApW(c, cmd, dv, DetPick(Picks(c, cmd, dv)))
\* every outcome the runtime's map order may produce
ApAll(c, cmd, dv) == {ApW(c, cmd, dv, w) : w \in PickSet(c, cmd, dv)}

RECURSIVE Replay(_, _, _)
Replay(c, cmds, dv) == IF cmds = <<>> THEN c ELSE Replay(Ap(c, Head(cmds), dv).c, Tail(cmds), dv)

-----------------------------------------------------------------------------
\* the commands offered in a state (valid and invalid arguments: duplicates, unknown names, deletes of
\* absent objects); identifiers range a little beyond the ones handed out
RPx == RPs \cup {""}
\* number of unmodelled command kinds the harness knows to build (harness/cmd/vh/metacat.go: mcOpaqueKinds)
OpaqueKinds == 15
\* shard-key variants offered to CreateMeasurement (exhaustive configurations override it with {0})
SkChoices == {0, 1}
IdR(n) == 1..(IF n + 1 > 6 THEN 6 ELSE n + 1)

CmdsOf(op, c) ==
  CASE op = "CreateDataNode"  -> {Cmd(op, "", "", h, 0, 0, <<>>) : h \in Hosts}
    [] op = "CreateSqlNode"   -> {Cmd(op, "", "", h, 0, 0, <<>>) : h \in SqlHosts}
    [] op = "CreateDbPtView"  -> {Cmd(op, d, "", "", k, 0, <<>>) : d \in DBs, k \in RepNs}
    [] op = "UpdateReplication" ->
         UNION {IF c.rgs[d] = <<>> THEN {Cmd(op, d, "", "", 0, 0, <<>>)}
                ELSE UNION {LET g == c.rgs[d][i] IN
                             {Cmd(op, d, "", "", i - 1, g.master, <<>>)} \cup
                             {Cmd(op, d, "", "", i - 1, g.peers[j],
                                  <<g.master>> \o SelectSeq(g.peers, LAMBDA p : p # g.peers[j])) : j \in 1..Len(g.peers)}
                            : i \in 1..Len(c.rgs[d])} : d \in DBs}
    [] op = "CreateDatabase"  ->
         {Cmd(op, d, "", "", 0, 0, <<k>>) : d \in DBs, k \in RepNs} \cup
         {Cmd(op, d, r, "", sg, du, <<k>>) : d \in DBs, r \in RPs, sg \in SgDurs, du \in RpDurs, k \in RepNs}
    [] op = "MarkDatabaseDelete" -> {Cmd(op, d, "", "", 0, 0, <<>>) : d \in DBs}
    [] op = "DropDatabase"    -> {Cmd(op, d, "", "", 0, 0, <<>>) : d \in DBs}
    [] op = "CreateRetentionPolicy" ->
         {Cmd(op, d, r, "", sg, du, <<z, k>>) : d \in DBs, r \in RPs, sg \in SgDurs, du \in RpDurs, z \in {0, 1}, k \in RepNs}
    [] op = "UpdateRetentionPolicy" ->
         {Cmd(op, d, r, "", sg, du, <<z>>) : d \in DBs, r \in RPs, sg \in SgDurs \cup {0}, du \in RpDurs \cup {-1}, z \in {0, 1}}
    [] op = "MarkRetentionPolicyDelete" -> {Cmd(op, d, r, "", 0, 0, <<>>) : d \in DBs, r \in RPs}
    [] op = "DropRetentionPolicy"       -> {Cmd(op, d, r, "", 0, 0, <<>>) : d \in DBs, r \in RPs}
    [] op = "SetDefaultRetentionPolicy" -> {Cmd(op, d, r, "", 0, 0, <<>>) : d \in DBs, r \in RPs}
    [] op = "CreateMeasurement"     -> {Cmd(op, d, r, m, k, ty, <<>>) : d \in DBs, r \in RPx, m \in Msts, k \in SkChoices, ty \in ShardTypes}
    [] op = "MarkMeasurementDelete" -> {Cmd(op, d, r, m, 0, 0, <<>>) : d \in DBs, r \in RPx, m \in Msts}
    [] op = "DropMeasurement"       -> {Cmd(op, d, r, m, v, 0, <<>>) : d \in DBs, r \in RPx, m \in Msts, v \in 0..MaxVer}
    [] op = "CreateShardGroup"      -> {Cmd(op, d, r, "", t, e, <<>>) : d \in DBs, r \in RPx, t \in Times, e \in Engines}
    [] op = "DeleteShardGroup"      -> {Cmd(op, d, r, "", i, 0, <<>>) : d \in DBs, r \in RPx, i \in IdR(c.maxSG)}
    [] op = "PruneGroups"           -> {Cmd(op, "", "", "", i, 0, <<>>) : i \in IdR(c.maxSh)}
    [] op = "CreateUser"            -> {Cmd(op, "", "", u, a, 0, <<>>) : u \in Users, a \in {0, 1}}
    [] op = "DropUser"              -> {Cmd(op, "", "", u, 0, 0, <<>>) : u \in Users}
    [] op = "SetPrivilege"          -> {Cmd(op, d, "", u, p, 0, <<>>) : d \in DBs, u \in Users, p \in {1, 3}}
    [] op = "Opaque"                -> {Cmd(op, "", "", "", k, 0, <<>>) : k \in 0..(OpaqueKinds - 1)}

AllCmds(c) == UNION {CmdsOf(op, c) : op \in Ops \ {"Snapshot"}}
\* the commands offered in one step; simulation configs override this with a random sample
CmdChoices == AllCmds(cat)

\* handlers_process.createDatabase: a CreateDatabase command is proposed only after the database's
\* partition view (and, with ReplicaNum > 1, its replica groups) was created by a CreateDbPtView command
\* carrying the same ReplicaNum
Protocol(c, cmd) ==
  /\ cmd.op = "CreateDatabase" => (c.ptv[cmd.db] # <<>> /\ ((cmd.l[1] > 1) <=> (c.rgs[cmd.db] # <<>>)))
  \* bound of the model: replication only with one partition per node
  /\ (c.ppn > 1 /\ cmd.op = "CreateDbPtView") => cmd.a = 1
  /\ (c.ppn > 1 /\ cmd.op = "CreateDatabase") => cmd.l[1] = 1

-----------------------------------------------------------------------------
\* what a snapshot carries. Design: the clone taken by FSM.Snapshot is the state at that moment and
\* Persist writes exactly that. Deviations: parts of the clone that are shared with / lost from the
\* live catalogue (live = the catalogue at Persist time).
ZeroIds(c) == [c EXCEPT !.dbs = [d \in DBs |-> [c.dbs[d] EXCEPT !.rps = [r \in RPs |->
                   [c.dbs[d].rps[r] EXCEPT !.ms = {[x EXCEPT !.id = 0] : x \in @}]]]]]
Image(s, live, dv) ==
  LET s1 == IF "clone_drops_mst_id" \in dv THEN ZeroIds(s) ELSE s
      \* Clone copies the map header: shared with the live catalogue if the map existed at Snapshot time
      s2 == IF "clone_shares_replica_groups" \in dv /\ s.rgmap THEN [s1 EXCEPT !.rgs = live.rgs] ELSE s1
      s3 == IF "clone_shares_sql_nodes" \in dv
            THEN [s2 EXCEPT !.sql = [i \in 1..Len(s.sql) |-> live.sql[i]]] ELSE s2
      s4 == IF "snapshot_omits_maxshardid" \in dv THEN [s3 EXCEPT !.maxSh = 0] ELSE s3
      s5 == IF "snapshot_omits_privileges" \in dv
            THEN [s4 EXCEPT !.users = [i \in 1..Len(@) |-> [@[i] EXCEPT !.privs = [d \in DBs |-> 0]]]] ELSE s4
      Wr(seq) == [i \in 1..Len(seq) |-> IF seq[i].s < MinT THEN [seq[i] EXCEPT !.s = WrapT] ELSE seq[i]]
      s6 == IF "far_past_start_wraps" \in dv
            THEN [s5 EXCEPT !.dbs = [d \in DBs |-> [s5.dbs[d] EXCEPT !.rps = [r \in RPs |->
                     [s5.dbs[d].rps[r] EXCEPT !.sgs = Wr(@), !.igs = Wr(@)]]]]]
            ELSE s5
      \* RetentionPolicyInfo.Marshal writes every MstVersions entry, also the one whose measurement was
      \* dropped (CreateMeasurement derives the next version from it). Mutation seed: only the entries whose
      \* measurement is still in rp.Measurements.
      Orph(R) == [R EXCEPT !.mv = [m \in Msts |-> IF \E x \in R.ms : x.n = m /\ x.v = R.mv[m] THEN R.mv[m] ELSE -1]]
      s7 == IF "snapshot_drops_orphan_versions" \in dv
            THEN [s6 EXCEPT !.dbs = [d \in DBs |-> [s6.dbs[d] EXCEPT !.rps = [r \in RPs |-> Orph(s6.dbs[d].rps[r])]]]]
            ELSE s6
  \* Data.Unmarshal allocates the ReplicaGroups map only if the image carries an entry
  IN [s7 EXCEPT !.rgmap = \E d \in DBs : s7.rgs[d] # <<>>]

\* rgmap is not part of the catalogue's value
Norm(c) == [c EXCEPT !.rgmap = FALSE]

\* ph: none -> taken (Snapshot) -> persisted (Persist) -> none (Restore); rest: the replica has been
\* restored at least once (catB is meaningful); k: snapshots taken so far
NoSnap == [ph |-> "none", rest |-> FALSE, k |-> 0, c |-> InitCat, ci |-> InitCat, img |-> InitCat, imgi |-> InitCat, tail |-> <<>>]

-----------------------------------------------------------------------------
IDev == Dev \cup ImplDev

RpsOf(c) == {x \in DBs \X RPs : c.dbs[x[1]].rps[x[2]].ex}
RpAt(c, x) == c.dbs[x[1]].rps[x[2]]
\* the measurement versions present in the catalogue
KeysV(c) == UNION {{<<x[1], x[2], e.n, e.v>> : e \in RpAt(c, x).ms} : x \in RpsOf(c)}

\* deviations of ImplDev that change the outcome of this command on the as-implemented lineage ci (for
\* the harness's attribution)
FiredAt(ci, cmd, r, ri) == IF r = ri THEN {} ELSE {x \in ImplDev : Ap(ci, cmd, IDev \ {x}) # ri}
\* The exported behaviours tell the harness the design's and the as-implemented outcome; a tree in which
\* only one property's defects are repaired follows the design for some deviations and the
\* as-implemented prediction for others. So that such a tree still follows ONE of the two lineages in
\* every behaviour, a behaviour lets either the far-past deviation (repaired with C15's defects) or the
\* other deviations that change the applying node (repaired with C16's) fire, not both.
Compatible(fs) == ~("far_past_start_wraps" \in fs /\ fs # {"far_past_start_wraps"})

HE(a, args, exp, st, alt, b, bi, x) ==
  [a |-> a, args |-> args, exp |-> exp, st |-> st, alt |-> alt, b |-> b, bi |-> bi, x |-> x]

\* the as-implemented outcomes of a command, if they are not just the design's: first the one the
\* specification's as-implemented lineage follows, then - when the as-implemented catalogue lets the
\* runtime's map order decide (a policy with both sharding types) - the others
AltsAt(ci, cmd, r, ri) ==
  LET all  == ApAll(ci, cmd, IDev)
      rest == SetToSeq(all \ {ri})
  IN IF all = {r} THEN <<>>
     ELSE <<[exp |-> ri.r, st |-> ri.c, fired |-> FiredAt(ci, cmd, r, ri)]>> \o
          [i \in 1..Len(rest) |-> [exp |-> rest[i].r, st |-> rest[i].c, fired |-> {}]]

EntryAt(c, ci, first, cmd, r, ri, b, bi) ==
  IF Track
  THEN HE(cmd.op, cmd, r.r, IF ~first /\ r.c = c THEN 0 ELSE r.c,     \* 0 = unchanged
          AltsAt(ci, cmd, r, ri), b, bi, <<>>)
  ELSE [a |-> cmd.op]

\* set-up commands applied before the behaviour proper (the systematic export configurations give one):
\* they are part of the exported history
Prefix == <<>>
RECURSIVE RunPrefix(_, _)
RunPrefix(st, cmds) ==
  IF cmds = <<>> THEN st
  ELSE LET cmd == Head(cmds)
           r   == Ap(st.c, cmd, Dev)
           ri  == IF Track THEN Ap(st.ci, cmd, IDev) ELSE r
       IN RunPrefix([c |-> r.c, ci |-> ri.c, used |-> st.used \cup r.new, usedv |-> st.usedv \cup KeysV(r.c),
                     hist |-> Append(st.hist, EntryAt(st.c, st.ci, st.hist = <<>>, cmd, r, ri, <<>>, <<>>))],
                    Tail(cmds))

Init == \E sc \in SchemaCleanChoices, pp \in PpnChoices :
          LET c0 == [InitCat EXCEPT !.sclean = sc, !.ppn = pp]
              p  == RunPrefix([c |-> c0, ci |-> c0, used |-> {}, usedv |-> {}, hist |-> <<>>], Prefix)
          IN /\ cat = p.c /\ catI = p.ci /\ used = p.used /\ usedv = p.usedv /\ hist = p.hist
             /\ sn = NoSnap
             /\ flags = [reused |-> FALSE, vreused |-> FALSE, noop |-> TRUE, panic |-> FALSE, fa |-> {}]
             /\ catB = InitCat /\ catBI = InitCat

FiredNow(cmd, r, ri) == IF Track THEN FiredAt(catI, cmd, r, ri) ELSE {}

Do(cmd) ==
  /\ Protocol(cat, cmd)
  /\ sn.ph \in {"taken", "persisted"} => Len(sn.tail) < MaxTail
  /\ \E r \in {Ap(cat, cmd, Dev)} :
     /\ r.r # "bound"
     /\ \E ri \in {IF Track THEN Ap(catI, cmd, IDev) ELSE r} :
        /\ ri.r # "bound"
        /\ cat' = r.c
        /\ catI' = IF Track THEN ri.c ELSE catI
        /\ Compatible(flags.fa \cup FiredNow(cmd, r, ri))
        /\ \E newv \in {KeysV(r.c) \ KeysV(cat)} :
           /\ flags' = [reused  |-> flags.reused \/ (r.new \cap used # {}),
                        vreused |-> flags.vreused \/ (newv \cap usedv # {}),
                        noop    |-> flags.noop /\ (r.r = "ok" \/ r.c = cat),
                        panic   |-> flags.panic \/ r.r = "panic",
                        fa      |-> flags.fa \cup FiredNow(cmd, r, ri)]
           \* the version counters of a policy go with the policy
           /\ usedv' = {u \in usedv : <<u[1], u[2]>> \in RpsOf(r.c)} \cup newv
        /\ used' = used \cup r.new
        /\ sn' = IF sn.ph \in {"taken", "persisted"} THEN [sn EXCEPT !.tail = Append(@, cmd)] ELSE sn
        /\ \E b \in {IF sn.rest THEN Ap(catB, cmd, Dev).c ELSE catB} :
           \E bi \in {IF sn.rest /\ Track THEN Ap(catBI, cmd, IDev).c ELSE catBI} :
             /\ catB' = b
             /\ catBI' = bi
             /\ hist' = Append(hist, EntryAt(cat, catI, hist = <<>>, cmd, r, ri,
                                 IF sn.rest /\ Norm(b) # Norm(r.c) THEN <<b>> ELSE <<>>,
                                 IF sn.rest /\ Norm(bi) # Norm(ri.c) THEN <<bi>> ELSE <<>>))

Marker(a, n, b, bi, x) ==
  IF Track THEN HE(a, Cmd(a, "", "", "", n, 0, <<>>), "ok", IF hist # <<>> THEN 0 ELSE cat,
                   IF catI = cat THEN <<>> ELSE <<[exp |-> "ok", st |-> catI, fired |-> {}]>>, b, bi, x)
  ELSE [a |-> a]

\* storeFSM.Snapshot: Data.Clone under the store lock. The replica of the behaviour snapshots ITSELF:
\* before its first restore it is a node that applied everything, afterwards the restored node.
Snapshot ==
  /\ sn.ph = "none" /\ sn.k < MaxSnaps
  /\ sn' = [sn EXCEPT !.ph = "taken", !.k = @ + 1, !.tail = <<>>,
                      !.c = IF sn.rest THEN catB ELSE cat, !.ci = IF sn.rest THEN catBI ELSE catI]
  /\ hist' = Append(hist, Marker("Snapshot", 0, <<>>, <<>>, <<>>))
  /\ UNCHANGED <<cat, catI, used, usedv, flags, catB, catBI>>

\* storeFSMSnapshot.Persist: MarshalBinary of the clone, later, on another goroutine
Persist ==
  /\ sn.ph = "taken"
  /\ sn' = [sn EXCEPT !.ph = "persisted", !.img = Image(sn.c, IF sn.rest THEN catB ELSE cat, Dev),
                      !.imgi = IF Track THEN Image(sn.ci, IF sn.rest THEN catBI ELSE catI, IDev) ELSE @]
  /\ hist' = Append(hist, Marker("Persist", 0, <<>>, <<>>, <<>>))
  /\ UNCHANGED <<cat, catI, used, usedv, flags, catB, catBI>>

\* storeFSM.Restore, then the log entries after the snapshot index are applied
Restore ==
  /\ sn.ph = "persisted"
  /\ \E b \in {Replay(sn.img, sn.tail, Dev)} :
     \E bi \in {IF Track THEN Replay(sn.imgi, sn.tail, IDev) ELSE catBI} :
       /\ catB' = b
       /\ catBI' = bi
       /\ hist' = Append(hist, Marker("Restore", Len(sn.tail),
                                      IF Norm(b) # Norm(cat) THEN <<b>> ELSE <<>>, IF Norm(bi) # Norm(catI) THEN <<bi>> ELSE <<>>,
                                      <<[snap |-> sn.c, img |-> sn.img,
                                         imgi |-> IF sn.imgi = sn.img THEN <<>> ELSE <<sn.imgi>>]>>))
  /\ sn' = [sn EXCEPT !.ph = "none", !.rest = TRUE]
  /\ UNCHANGED <<cat, catI, used, usedv, flags>>

SnapOn == "Snapshot" \in Ops
\* simulation configs override this to spread the snapshots over the behaviour
SnapGate == TRUE

Next ==
  /\ Len(hist) < Depth
  /\ \/ \E cmd \in CmdChoices : Do(cmd)
     \/ (SnapOn /\ SnapGate /\ Snapshot)
     \/ (SnapOn /\ Persist)
     \/ (SnapOn /\ Restore)

Spec == Init /\ [][Next]_vars

-----------------------------------------------------------------------------
\* ---- C16 ------------------------------------------------------------------

\* within a policy and engine kind the live shard groups cover pairwise disjoint spans, each inside one
\* window of the duration it was created with; the slice is sorted by (end, start)
GroupsOK(R) ==
  /\ \A i \in 1..Len(R.sgs) : /\ R.sgs[i].s < R.sgs[i].e
                               /\ Trunc(R.sgs[i].s, R.sgs[i].d) = Trunc(R.sgs[i].e - 1, R.sgs[i].d)
  /\ \A i, j \in 1..Len(R.sgs) : i < j => ~LessG(R.sgs[j], R.sgs[i])
  /\ \A i, j \in 1..Len(R.sgs) :
        (i # j /\ ~R.sgs[i].del /\ ~R.sgs[j].del /\ R.sgs[i].eng = R.sgs[j].eng)
           => (R.sgs[i].e <= R.sgs[j].s \/ R.sgs[j].e <= R.sgs[i].s)
GroupsDisjointAlignedSorted == \A x \in RpsOf(cat) : GroupsOK(RpAt(cat, x))

SgSeqs(c) == {RpAt(c, x).sgs : x \in RpsOf(c)}
IgSeqs(c) == {RpAt(c, x).igs : x \in RpsOf(c)}
Count(S) == Cardinality(S)
\* every identifier occurs once in the whole catalogue
IdsUniqueIn(c) ==
  LET sgl == UNION {{<<x, i>> : i \in 1..Len(RpAt(c, x).sgs)} : x \in RpsOf(c)}
      shl == UNION {{<<p, j>> : j \in 1..Len(RpAt(c, p[1]).sgs[p[2]].shards)} : p \in sgl}
      igl == UNION {{<<x, i>> : i \in 1..Len(RpAt(c, x).igs)} : x \in RpsOf(c)}
      ixl == UNION {{<<p, j>> : j \in 1..Len(RpAt(c, p[1]).igs[p[2]].idxs)} : p \in igl}
      msl == UNION {{<<x, m>> : m \in RpAt(c, x).ms} : x \in RpsOf(c)}
  IN /\ \A p, q \in sgl : RpAt(c, p[1]).sgs[p[2]].id = RpAt(c, q[1]).sgs[q[2]].id => p = q
     /\ \A p, q \in shl : RpAt(c, p[1][1]).sgs[p[1][2]].shards[p[2]].id = RpAt(c, q[1][1]).sgs[q[1][2]].shards[q[2]].id => p = q
     /\ \A p, q \in igl : RpAt(c, p[1]).igs[p[2]].id = RpAt(c, q[1]).igs[q[2]].id => p = q
     /\ \A p, q \in ixl : RpAt(c, p[1][1]).igs[p[1][2]].idxs[p[2]] = RpAt(c, q[1][1]).igs[q[1][2]].idxs[q[2]] => p = q
     /\ \A p, q \in msl : p[2].id = q[2].id => p = q
     /\ \A i, j \in 1..Len(c.nodes) : c.nodes[i].id = c.nodes[j].id => i = j
     /\ \A i \in 1..Len(c.nodes), j \in 1..Len(c.sql) : c.nodes[i].id # c.sql[j].id
IdsUnique == IdsUniqueIn(cat)

\* an identifier is never handed out twice, even after the first holder was deleted
IdsNeverReused == ~flags.reused
\* ... and within the life of a policy a measurement version (the name the stores use for its
\* directories) is never handed out twice, even after the measurement was dropped
VersionsNeverReused == ~flags.vreused

\* every shard refers to an index of its policy and to partitions that exist; partitions are owned by
\* existing nodes
RefsValidIn(c) ==
  /\ \A x \in RpsOf(c) : LET R == RpAt(c, x) IN
       \A i \in 1..Len(R.sgs) : \A j \in 1..Len(R.sgs[i].shards) :
          /\ \E g \in 1..Len(R.igs) : \E k \in 1..Len(R.igs[g].idxs) : R.igs[g].idxs[k] = R.sgs[i].shards[j].ix
          /\ j <= Len(c.ptv[x[1]])
  /\ \A d \in DBs : \A i \in 1..Len(c.ptv[d]) : \E k \in 1..Len(c.nodes) : c.nodes[k].id = c.ptv[d][i].owner
RefsValid == RefsValidIn(cat)

\* a database's default policy exists
DefaultPolicyExists == \A d \in DBs : cat.dbs[d].ex => (cat.dbs[d].def = "" \/ cat.dbs[d].rps[cat.dbs[d].def].ex)

\* a command that fails leaves the catalogue unchanged
FailedCommandIsNoop == flags.noop
NoPanic == ~flags.panic

\* ---- C15 ------------------------------------------------------------------
\* what Persist writes is the catalogue at the moment of Snapshot
HasImage == sn.ph = "persisted" \/ (sn.ph = "none" /\ sn.rest)
SnapshotPointInTime == HasImage => Norm(sn.img) = Norm(sn.c)
\* ... in particular the per-name version counters, also those whose measurement is gone
SnapshotKeepsVersions == HasImage => \A d \in DBs, r \in RPs : sn.img.dbs[d].rps[r].mv = sn.c.dbs[d].rps[r].mv
\* restoring a snapshot and applying the remaining commands reaches the state of the node that applied
\* everything
SnapshotComplete == sn.rest => Norm(catB) = Norm(cat)

\* all entries of a policy's measurement map - marked or not, every version - have one sharding type
ShardTypeUniform == \A x \in RpsOf(cat) : \A e, f \in RpAt(cat, x).ms : e.ty = f.ty
\* whichever entry of the map validMeasurementShardType takes as witness, CreateMeasurement answers and
\* does the same
WitnessIndependent ==
  \A x \in RpsOf(cat), m \in Msts, k \in SkChoices, ty \in ShardTypes :
     Cardinality(ApAll(cat, Cmd("CreateMeasurement", x[1], x[2], m, k, ty, <<>>), Dev)) = 1
\* whichever entry of the map CreateShardGroup takes as template, it yields the same group (this is what
\* makes Go's map iteration order irrelevant, i.e. what replicas need to stay equal)
TemplateIndependent ==
  \A x \in RpsOf(cat), t \in Times, e \in Engines :
     Cardinality(ApAll(cat, Cmd("CreateShardGroup", x[1], x[2], "", t, e, <<>>), Dev)) = 1

TypeOK == /\ cat.ptNum = cat.ppn * Len(cat.nodes)
          /\ cat.maxSG >= 0 /\ cat.maxSh >= 0
=============================================================================
