---------------------------- MODULE ExprRoundTrip ----------------------------
(***************************************************************************)
(* C12: a query shipped to the stores is the query that was planned.       *)
(*                                                                         *)
(* The sql node parses the user's text into an expression tree (Plan),     *)
(* prints it (Ship: query.encodeProcessorOptions -> Expr.String()) and the *)
(* store parses the printed text again (Receive: decodeProcessorOptions -> *)
(* influxql.ParseExpr).  The specification holds the expression grammar:   *)
(*   * trees: binary operators with the precedence / associativity table   *)
(*     of influxql/token.go:Precedence (all left associative), unary       *)
(*     minus, ParenExpr as an explicit node (the printer BinaryExpr.String *)
(*     emits no parentheses of its own), calls, identifiers, literals      *)
(*     (as CLASSES that the harness concretises);                          *)
(*   * Print: tree -> token sequence (ast.go RenderBytes);                  *)
(*   * Parse: token sequence -> tree by precedence climbing                *)
(*     (parser.go ParseExpr / parseUnaryExpr; sql.y COLUMN / CONDITION);    *)
(*   * the lexical rule scanner.go applies to '/': it is a division only   *)
(*     after ')' , an identifier or a number, else it opens a regex.       *)
(* Property: for every tree the parser can produce (Producible),           *)
(*   Parse(Print(e)) = e.                                                  *)
(* Dev switches one rule to a wrong variant: mutation seeds                *)
(*   print_drops_paren, right_assoc, cmp_binds_tighter                     *)
(* and the as-implemented behaviour of openGemini defects                  *)
(*   float_int_print        NumberLiteral.String prints 2.0 as 2           *)
(*   neg_desugar_mul        -x is parsed to the unparenthesised product    *)
(*                          -1 * x and spliced in as if it were a primary  *)
(*   dur_trunc_us           FormatDuration drops what is below 1 microsec. *)
(*   yacc_and_or_same_prec  sql.y: %left AND OR on one line (sql node only)*)
(*   yacc_int_saturate      yyParser.Lex ignores the range error of        *)
(*                          strconv.ParseInt (sql node only)               *)
(*   hand_no_bitwise        token.go operatorMap lacks & | ^ : ParseExpr   *)
(*                          (store) stops there and, not insisting on the  *)
(*                          end of the input, silently drops the rest      *)
(***************************************************************************)
EXTENDS Integers, Sequences, FiniteSets, TLC

CONSTANTS Ops,        \* binary operators offered to the generator
          Lits,       \* literal classes offered as operands
          Refs,       \* identifier classes
          Fns,        \* function names
          MaxArity,   \* calls have 0..MaxArity arguments (at most 2)
          TreeDepth,  \* nesting levels above the leaves
          Dev,        \* deviations of the modelled implementation; {} = the design
          ImplDev     \* as-implemented deviations used only to PREDICT the real code in the export

VARIABLES pc,    \* "init" -> "typed" -> "planned" -> "shipped" -> "received"
          tree,  \* the tree the user's text denotes (design)
          text,  \* the user's text: tokens
          plan,  \* what the sql node's parser made of it
          wire,  \* what is sent to the store: tokens
          got,   \* what the store's parser made of it
          hist   \* export only

vars == <<pc, tree, text, plan, wire, got, hist>>
view == <<pc, tree, text, plan, wire, got>>

-----------------------------------------------------------------------------
\* nodes: uniform shape so that any two nodes are comparable
Bin(op, l, r) == [k |-> "bin",   v |-> op, a |-> <<l, r>>]
Paren(x)      == [k |-> "paren", v |-> "", a |-> <<x>>]
Neg(x)        == [k |-> "neg",   v |-> "", a |-> <<x>>]
Call(f, args) == [k |-> "call",  v |-> f,  a |-> args]
Lit(c)        == [k |-> "lit",   v |-> c,  a |-> <<>>]
Ref(c)        == [k |-> "ref",   v |-> c,  a |-> <<>>]
Nil           == Lit("")

Tok(t, v) == [t |-> t, v |-> v]
LP    == Tok("lp", "(")
RP    == Tok("rp", ")")
COMMA == Tok("comma", ",")

CmpOps   == {"=", "!=", "<", "<=", ">", ">="}
RegexOps == {"=~", "!~"}
AddOps   == {"+", "-", "|", "^"}
MulOps   == {"*", "/", "%", "&"}
AllOps   == {"OR", "AND"} \cup CmpOps \cup RegexOps \cup AddOps \cup MulOps

\* literal classes (the harness gives each a concrete text from the seed)
IntLits   == {"i_small", "i_neg", "i_max", "i_min", "i_minp1", "u_big", "i_fint", "i_neg1"}
FloatLits == {"f_int", "f_frac", "f_tiny", "f_big", "f_negbig"}
NumLits   == IntLits \cup FloatLits
RegexLits == {"x_plain", "x_slash", "x_bslash"}
YaccOnly  == {"yacc_and_or_same_prec", "yacc_int_saturate"}   \* deviations of the statement parser (sql.y)
HandOnly  == {"hand_no_bitwise"}                              \* deviations of the hand-written ParseExpr
BitOps    == {"&", "|", "^"}

\* influxql/token.go Precedence(); D = deviations in force for this parser
Prec(op, D) ==
  CASE op = "OR"  -> 1
    [] op = "AND" -> IF "yacc_and_or_same_prec" \in D THEN 1 ELSE 2
    [] op \in CmpOps \cup RegexOps -> IF "cmp_binds_tighter" \in D THEN 6 ELSE 3
    [] op \in AddOps -> 4
    [] op \in MulOps -> 5

-----------------------------------------------------------------------------
\* Print: ast.go RenderBytes
PrintLit(c, D) ==
  CASE c = "f_int"    /\ "float_int_print" \in D -> "i_fint"    \* 2.0 -> 2
    [] c = "f_negbig" /\ "float_int_print" \in D -> "i_negbig"  \* -1.5e21 -> 22 digits, no point
    [] c = "d_ns"     /\ "dur_trunc_us" \in D    -> "d_nstrunc" \* 1500ns -> 1u
    [] OTHER -> c

RECURSIVE Render(_, _)
Render(e, D) ==
  CASE e.k = "bin"   -> Render(e.a[1], D) \o <<Tok("op", e.v)>> \o Render(e.a[2], D)
    [] e.k = "paren" -> IF "print_drops_paren" \in D THEN Render(e.a[1], D)
                        ELSE <<LP>> \o Render(e.a[1], D) \o <<RP>>
    [] e.k = "neg"   -> <<Tok("op", "-")>> \o Render(e.a[1], D)
    [] e.k = "call"  -> <<Tok("fn", e.v), LP>> \o
                        (CASE Len(e.a) = 0 -> <<>>
                           [] Len(e.a) = 1 -> Render(e.a[1], D)
                           [] Len(e.a) = 2 -> Render(e.a[1], D) \o <<COMMA>> \o Render(e.a[2], D))
                        \o <<RP>>
    [] e.k = "lit"   -> <<Tok("lit", PrintLit(e.v, D))>>
    [] e.k = "ref"   -> <<Tok("ref", e.v)>>

\* Parse: precedence climbing; results are [t |-> tree, r |-> remaining tokens]
ParseLit(c, D) ==
  CASE c = "i_negbig" -> "ERR_int_range"     \* strconv.ParseInt / ParseUint fail: the re-parse is an error
    [] c = "u_big" /\ "yacc_int_saturate" \in D -> "i_max"
    [] c = "i_min" /\ "yacc_int_saturate" \in D -> "i_minp1"
    [] OTHER -> c

\* a syntax error is the leaf ERR_syntax; it swallows everything
Err     == [t |-> Lit("ERR_syntax"), r |-> <<>>]
IsErr(x) == x.t.k = "lit" /\ x.t.v = "ERR_syntax"
Closes(x) == ~IsErr(x) /\ x.r # <<>> /\ Head(x.r).t = "rp"
IsOp(t, D) == t.t = "op" /\ ~("hand_no_bitwise" \in D /\ t.v \in BitOps)

RECURSIVE ParseE(_, _, _), ParseP(_, _), Climb(_, _, _, _)
ParseP(ts, D) ==
  IF ts = <<>> THEN Err ELSE
  LET h == Head(ts) IN
  CASE h.t = "lp" -> LET in == ParseE(Tail(ts), 1, D) IN
                     IF Closes(in) THEN [t |-> Paren(in.t), r |-> Tail(in.r)] ELSE Err
    [] h.t = "op" /\ h.v = "-" ->
         LET p == ParseP(Tail(ts), D) IN
         IF IsErr(p) THEN Err
         ELSE [t |-> IF "neg_desugar_mul" \in D THEN Bin("*", Lit("i_neg1"), p.t) ELSE Neg(p.t), r |-> p.r]
    [] h.t = "fn" ->
         LET rest == Tail(Tail(ts)) IN      \* the token after the name is "("
         IF rest # <<>> /\ Head(rest).t = "rp" THEN [t |-> Call(h.v, <<>>), r |-> Tail(rest)]
         ELSE LET a1 == ParseE(rest, 1, D) IN
              IF Closes(a1) THEN [t |-> Call(h.v, <<a1.t>>), r |-> Tail(a1.r)]
              ELSE IF IsErr(a1) \/ a1.r = <<>> \/ Head(a1.r).t # "comma" THEN Err
              ELSE LET a2 == ParseE(Tail(a1.r), 1, D) IN
                   IF Closes(a2) THEN [t |-> Call(h.v, <<a1.t, a2.t>>), r |-> Tail(a2.r)] ELSE Err
    [] h.t = "lit" -> [t |-> Lit(ParseLit(h.v, D)), r |-> Tail(ts)]
    [] h.t = "ref" -> [t |-> Ref(h.v), r |-> Tail(ts)]
    [] OTHER -> Err

Climb(lhs, ts, minp, D) ==
  IF ts # <<>> /\ IsOp(Head(ts), D) /\ Prec(Head(ts).v, D) >= minp
  THEN LET op  == Head(ts).v
           nm  == IF "right_assoc" \in D THEN Prec(op, D) ELSE Prec(op, D) + 1
           rhs == ParseE(Tail(ts), nm, D)
       IN IF IsErr(rhs) THEN Err ELSE Climb(Bin(op, lhs, rhs.t), rhs.r, minp, D)
  ELSE [t |-> lhs, r |-> ts]

ParseE(ts, minp, D) == LET p == ParseP(ts, D) IN IF IsErr(p) THEN Err ELSE Climb(p.t, p.r, minp, D)

\* parser.go ParseExpr returns at the first token that is not an operator and does not look further:
\* the design insists on the end of the input
ParseAll(ts, D) == LET x == ParseE(ts, 1, D) IN
                   IF x.r = <<>> \/ IsErr(x) \/ "hand_no_bitwise" \in D THEN x.t ELSE Lit("ERR_trailing")

-----------------------------------------------------------------------------
\* the trees a parser can produce: canonical w.r.t. the precedence table
RECURSIVE DivLeftOK(_), Producible(_)
\* scanner.go: '/' is DIV only if the previous token is ')', an identifier, an integer or a number
DivLeftOK(e) ==
  CASE e.k = "lit" -> e.v \in NumLits
    [] e.k = "ref" -> e.v # "r_tag"          \* x::tag ends with the keyword TAG
    [] e.k \in {"paren", "call"} -> TRUE
    [] e.k = "bin" -> DivLeftOK(e.a[2])
    [] e.k = "neg" -> DivLeftOK(e.a[1])

NegOK(x) == x.k \in {"ref", "call", "paren"}   \* a signed numeric literal is one literal token
IsRegex(x) == x.k = "lit" /\ x.v \in RegexLits

LeftOK(op, l)  == /\ (l.k = "bin" => Prec(l.v, {}) >= Prec(op, {}))     \* left associative
                  /\ ~IsRegex(l)
                  /\ (op = "/" => DivLeftOK(l))
RightOK(op, r) == /\ (r.k = "bin" => Prec(r.v, {}) >  Prec(op, {}))
                  /\ (op \in RegexOps) = IsRegex(r)                      \* parser.go: parseRegex after =~ !~
BinOK(op, l, r) == LeftOK(op, l) /\ RightOK(op, r)

Producible(e) ==
  CASE e.k = "bin"   -> BinOK(e.v, e.a[1], e.a[2]) /\ Producible(e.a[1]) /\ Producible(e.a[2])
    [] e.k = "paren" -> ~IsRegex(e.a[1]) /\ Producible(e.a[1])
    [] e.k = "neg"   -> NegOK(e.a[1]) /\ Producible(e.a[1])
    [] e.k = "call"  -> \A i \in 1..Len(e.a) : ~IsRegex(e.a[i]) /\ Producible(e.a[i])
    [] OTHER -> TRUE

\* the generator
Leaves == {Lit(c) : c \in Lits \ RegexLits} \cup {Ref(c) : c \in Refs}
          \cup {Call(f, <<>>) : f \in Fns}          \* Fns = {} switches calls off
RegexLeaves == {Lit(c) : c \in Lits \cap RegexLits}

RECURSIVE Trees(_)
Trees(d) ==
  IF d = 0 THEN Leaves
  ELSE LET S == TLCEval(Trees(d - 1)) IN
       S \cup UNION {{Bin(op, l, r) : l \in {x \in S : LeftOK(op, x)},
                                      r \in {y \in S \cup RegexLeaves : RightOK(op, y)}} : op \in Ops}
         \cup {Paren(x) : x \in S}
         \cup {Neg(x) : x \in {y \in S : NegOK(y)}}
         \cup (IF MaxArity >= 1 THEN {Call(f, <<x>>) : f \in Fns, x \in S} ELSE {})
         \cup (IF MaxArity >= 2 THEN {Call(f, <<x, y>>) : f \in Fns, x \in S, y \in S} ELSE {})

\* the trees offered to Type in one step; simulation configs override this with a random sample.
\* (an operator with a parameter: TLC would evaluate and deep-normalise a zero-arity constant
\* definition during start-up, which costs minutes for 10^5 trees)
TreeChoices(x) == Trees(TreeDepth)

-----------------------------------------------------------------------------
\* as-implemented prediction of the whole chain (export only)
Chain(Dsql, Dstore) ==
  LET p == ParseAll(text, Dsql)
      g == ParseAll(Render(p, Dstore), Dstore)
  IN <<p, g>>
StoreOf(D) == D \ YaccOnly    \* the store parses with the hand-written ParseExpr
SqlOf(D)   == D \ HandOnly    \* the sql node parses statements with sql.y
\* flavour "y" (production): sql.y on the sql node, ParseExpr on the store; flavour "h": ParseExpr on both
SqlDevOf(all, flv) == IF flv = "y" THEN SqlOf(all) ELSE StoreOf(all)
ChainF(all, flv) == Chain(SqlDevOf(all, flv), StoreOf(all))
Active(all, flv) == {d \in all : ChainF(all, flv) # ChainF(all \ {d}, flv)}
Pred(all, flv) ==
  LET c == ChainF(all, flv) IN
  IF c = <<tree, tree>> THEN [plan |-> <<>>, got |-> <<>>, act |-> {}]   \* as the design
  ELSE [plan |-> IF c[1] = tree THEN <<>> ELSE <<c[1]>>,
        got  |-> IF c[2] = tree THEN <<>> ELSE <<c[2]>>,
        act  |-> Active(all, flv)]

Init == /\ pc = "init" /\ tree = Nil /\ text = <<>> /\ plan = Nil /\ wire = <<>> /\ got = Nil
        /\ hist = <<>>

\* the user types a statement; its text denotes the tree e
Type(e) ==
  /\ pc = "init"
  /\ Producible(e)
  /\ pc' = "typed"
  /\ tree' = e
  /\ text' = Render(e, {})
  /\ UNCHANGED <<plan, wire, got>>
  /\ hist' = Append(hist, [a |-> "Type", args |-> text', exp |-> e])

\* the sql node parses the user's text (yyParser / sql.y for statements)
Plan ==
  /\ pc = "typed"
  /\ pc' = "planned"
  /\ plan' = ParseAll(text, SqlOf(Dev))
  /\ UNCHANGED <<tree, text, wire, got>>
  /\ hist' = Append(hist, [a |-> "Plan", args |-> <<>>, exp |-> "plan = tree",
                           pred |-> [h |-> Pred(ImplDev, "h"), y |-> Pred(ImplDev, "y")]])

\* query.encodeProcessorOptions: pb.Condition = opt.Condition.String()
Ship ==
  /\ pc = "planned"
  /\ pc' = "shipped"
  /\ wire' = Render(plan, StoreOf(Dev))
  /\ UNCHANGED <<tree, text, plan, got>>
  /\ hist' = Append(hist, [a |-> "Ship", args |-> <<>>, exp |-> "wire = text"])

\* query.decodeProcessorOptions: influxql.ParseExpr(pb.GetCondition())
Receive ==
  /\ pc = "shipped"
  /\ pc' = "received"
  /\ got' = ParseAll(wire, StoreOf(Dev))
  /\ UNCHANGED <<tree, text, plan, wire>>
  /\ hist' = Append(hist, [a |-> "Receive", args |-> <<>>, exp |-> "got = plan"])

Next == \/ (pc = "init" /\ \E e \in TreeChoices(pc) : Type(e))
        \/ Plan
        \/ Ship
        \/ Receive

Spec == Init /\ [][Next]_vars

-----------------------------------------------------------------------------
\* the parser implements the precedence table
PlanIsTree     == pc \notin {"init", "typed"} => plan = tree
\* ... and produces only canonical trees (so the printer needs no parentheses of its own)
PlanProducible == pc \notin {"init", "typed"} => Producible(plan)
\* printing the plan gives back the canonical text
WireIsText     == pc \in {"shipped", "received"} => wire = text
\* C12: the store evaluates the tree that was planned
RoundTrip      == pc = "received" => got = plan
=============================================================================
