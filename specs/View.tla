-------------------------------- MODULE View --------------------------------
(***************************************************************************)
(* Concurrency design of one shard: which layers a query captures and when *)
(* files may disappear. Steps are the critical sections of the code:       *)
(*   WApply(w)     shard.writeRows under the shared snapshotLock: row goes *)
(*                 into the ACTIVE memtable                                *)
(*   FlushSwitch   writeSnapshot under the exclusive lock: active becomes  *)
(*                 the snapshot table, a fresh active table is installed   *)
(*   Publish       AddBothTSSPFiles: the snapshot's rows become a file and *)
(*                 the measurement's `flushed` flag is set (one step under *)
(*                 the file-list locks)                                    *)
(*   DropSnap      snapshot table dropped (exclusive lock)                 *)
(*   TakeView(q)   cloneReaders under the shared lock: refs the active     *)
(*                 table, the snapshot table unless `flushed` is set, and  *)
(*                 the current file list                                   *)
(*   Swap          ReplaceFiles: file list entry replaced by the merged    *)
(*                 file under the list lock; old files unlinked only when  *)
(*                 no reader holds a reference (Remove)                    *)
(*   QRead(q)      the query reads the captured layers                     *)
(* Invariants are C04's clauses: ViewComplete (every write applied before  *)
(* the view was taken is in some captured layer), NoDup is structural,     *)
(* NoRemoveWhileRef, and absence of deadlock between the locks.            *)
(* Dev: "view_ignores_flushed_flag", "publish_before_flag",                *)
(* "remove_ignores_refs" are mutation seeds.                               *)
(***************************************************************************)
EXTENDS Integers, Sequences, FiniteSets, TLC

CONSTANTS MaxW, Readers, MaxFlush, MaxSwap, Dev

VARIABLES active, snap, snapFlushed, files, removed, nextFile,
          view, refs, nw, nflush, nswap, fpc

vars == <<active, snap, snapFlushed, files, removed, nextFile, view, refs, nw, nflush, nswap, fpc>>

W == 1..MaxW
NoView == [taken |-> FALSE, mem |-> {}, files |-> {}, done |-> FALSE]

\* a file = [id, rows]; files: set of live file ids; content by id
VARIABLE content
allvars == <<vars, content>>

Applied == active \cup snap \cup UNION {content[f] : f \in files}

Init == /\ active = {} /\ snap = {} /\ snapFlushed = FALSE /\ files = {} /\ removed = {} /\ nextFile = 1
        /\ view = [q \in Readers |-> NoView] /\ refs = [f \in {} |-> 0]
        /\ nw = 0 /\ nflush = 0 /\ nswap = 0 /\ fpc = "idle" /\ content = [f \in {} |-> {}]

WApply == /\ nw < MaxW /\ nw' = nw + 1 /\ active' = active \cup {nw + 1}
          /\ UNCHANGED <<snap, snapFlushed, files, removed, nextFile, view, refs, nflush, nswap, fpc, content>>

FlushSwitch == /\ fpc = "idle" /\ active # {} /\ nflush < MaxFlush
               /\ snap' = active /\ active' = {} /\ snapFlushed' = FALSE /\ fpc' = "switched" /\ nflush' = nflush + 1
               /\ UNCHANGED <<files, removed, nextFile, view, refs, nw, nswap, content>>

\* file added and flag set in one step (as AddBothTSSPFiles does under the list locks);
\* mutation seed "publish_before_flag" splits them
Publish == /\ fpc = "switched"
           /\ files' = files \cup {nextFile} /\ content' = [f \in DOMAIN content \cup {nextFile} |-> IF f = nextFile THEN snap ELSE content[f]]
           /\ refs' = [f \in DOMAIN refs \cup {nextFile} |-> IF f = nextFile THEN 0 ELSE refs[f]]
           /\ nextFile' = nextFile + 1
           /\ IF "publish_before_flag" \in Dev THEN snapFlushed' = snapFlushed /\ fpc' = "published_noflag"
              ELSE snapFlushed' = TRUE /\ fpc' = "published"
           /\ UNCHANGED <<active, snap, removed, view, nw, nflush, nswap>>

SetFlag == /\ fpc = "published_noflag" /\ snapFlushed' = TRUE /\ fpc' = "published"
           /\ UNCHANGED <<active, snap, files, removed, nextFile, view, refs, nw, nflush, nswap, content>>

DropSnap == /\ fpc = "published" /\ snap' = {} /\ snapFlushed' = FALSE /\ fpc' = "idle"
            /\ UNCHANGED <<active, files, removed, nextFile, view, refs, nw, nflush, nswap, content>>

TakeView(q) ==
  /\ ~view[q].taken
  /\ LET useSnap == IF "view_ignores_flushed_flag" \in Dev THEN FALSE ELSE ~snapFlushed
         m == active \cup (IF useSnap THEN snap ELSE {})
     IN view' = [view EXCEPT ![q] = [taken |-> TRUE, mem |-> m, files |-> files, done |-> FALSE]]
  /\ refs' = [f \in DOMAIN refs |-> IF f \in files THEN refs[f] + 1 ELSE refs[f]]
  /\ UNCHANGED <<active, snap, snapFlushed, files, removed, nextFile, nw, nflush, nswap, fpc, content>>

\* compaction: two live files replaced by their union (list swap); the old ones stay on disk while referenced
Swap == /\ nswap < MaxSwap /\ Cardinality(files) >= 2
        /\ \E a, b \in files : a < b /\
             /\ files' = (files \ {a, b}) \cup {nextFile}
             /\ content' = [f \in DOMAIN content \cup {nextFile} |-> IF f = nextFile THEN content[a] \cup content[b] ELSE content[f]]
             /\ refs' = [f \in DOMAIN refs \cup {nextFile} |-> IF f = nextFile THEN 0 ELSE refs[f]]
        /\ nextFile' = nextFile + 1 /\ nswap' = nswap + 1
        /\ UNCHANGED <<active, snap, snapFlushed, removed, view, nw, nflush, fpc>>

\* physical removal of a file that is no longer in the list
Remove(f) == /\ f \in DOMAIN content /\ f \notin files /\ f \notin removed
             /\ ("remove_ignores_refs" \in Dev \/ refs[f] = 0)
             /\ removed' = removed \cup {f}
             /\ UNCHANGED <<active, snap, snapFlushed, files, nextFile, view, refs, nw, nflush, nswap, fpc, content>>

QRead(q) == /\ view[q].taken /\ ~view[q].done
            /\ view' = [view EXCEPT ![q].done = TRUE]
            /\ refs' = [f \in DOMAIN refs |-> IF f \in view[q].files THEN refs[f] - 1 ELSE refs[f]]
            /\ UNCHANGED <<active, snap, snapFlushed, files, removed, nextFile, nw, nflush, nswap, fpc, content>>

Next == WApply \/ FlushSwitch \/ Publish \/ SetFlag \/ DropSnap \/ Swap
        \/ \E q \in Readers : TakeView(q) \/ QRead(q)
        \/ \E f \in DOMAIN content : Remove(f)

Spec == Init /\ [][Next]_allvars

-----------------------------------------------------------------------------
ViewRows(q) == view[q].mem \cup UNION {content[f] : f \in view[q].files}

\* history variable-free formulation: a view taken now must contain everything applied so far
ViewCompleteAction ==
  [][ \A q \in Readers : (~view[q].taken /\ view'[q].taken) => (Applied \subseteq (view'[q].mem \cup UNION {content[f] : f \in view'[q].files})) ]_allvars

\* a query never reads a file that was physically removed
NoRemoveWhileRef == \A q \in Readers : (view[q].taken /\ ~view[q].done) => view[q].files \cap removed = {}

\* a row is never in the snapshot table and in a published file of the same view (duplicates)
NoDupLayers == \A q \in Readers : view[q].taken =>
                  \A f \in view[q].files : content[f] \cap view[q].mem = {} \/ content[f] \cap view[q].mem \subseteq active

RefsNonNeg == \A f \in DOMAIN refs : refs[f] >= 0
=============================================================================
