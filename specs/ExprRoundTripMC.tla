--------------------------- MODULE ExprRoundTripMC ---------------------------
EXTENDS ExprRoundTrip, Json
\* Export of the cases for replay into the real parser / printer / codecs: one JSON line per
\* behaviour that reached "received".
Export == (pc = "received") => PrintT(<<"TRACE", ToJson(hist)>>)

\* simulation: random deep trees. A randomly built tree is made canonical by wrapping operands in
\* ParenExpr where the precedence table asks for it (as a user would have to); Type re-checks
\* Producible. The salt parameter keeps TLC from caching the definitions as constants.
SimDepth == TreeDepth
RECURSIVE RandTree(_, _)
WrapL(op, l) == IF (l.k = "bin" /\ Prec(l.v, {}) < Prec(op, {})) \/ IsRegex(l) \/ (op = "/" /\ ~DivLeftOK(l))
                THEN Paren(l) ELSE l
WrapR(op, r) == IF r.k = "bin" /\ Prec(r.v, {}) <= Prec(op, {}) THEN Paren(r) ELSE r
MkBin(op, l, r) == Bin(op, WrapL(op, l), WrapR(op, r))
MkNeg(x) == IF NegOK(x) THEN Neg(x) ELSE Neg(Paren(x))
RandTree(d, salt) ==
  IF d = 0 THEN RandomElement(Leaves)
  ELSE LET c == RandomElement(1..12) IN
       CASE c <= 6 -> LET op == RandomElement(Ops) IN
                      IF op \in RegexOps
                      THEN MkBin(op, RandTree(d - 1, salt + 1), RandomElement(RegexLeaves))
                      ELSE MkBin(op, RandTree(d - 1, salt + 1), RandTree(d - 1, salt + 2))
         [] c = 7  -> Paren(RandTree(d - 1, salt + 1))
         [] c = 8  -> MkNeg(RandTree(d - 1, salt + 1))
         [] c = 9  -> Call(RandomElement(Fns), <<RandTree(d - 1, salt + 1)>>)
         [] c = 10 -> Call(RandomElement(Fns), <<RandTree(d - 1, salt + 1), RandTree(d - 1, salt + 2)>>)
         [] OTHER  -> RandomElement(Leaves)
SimTrees(x) == {TLCEval(RandTree(SimDepth, Len(hist) + j)) : j \in 1..4}
=============================================================================
