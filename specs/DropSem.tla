------------------------------- MODULE DropSem -------------------------------
(***************************************************************************)
(* C13 - dropping removes exactly what was named, for every kind of read,  *)
(* for good.                                                               *)
(*                                                                         *)
(* One database seen through its catalogue (database -> retention policies *)
(* -> measurements with a generation counter), per measurement instance    *)
(* the live series (the series index) and the live rows, split over the    *)
(* abstract storage layers memory / flushed / out-of-order / compacted.    *)
(*                                                                         *)
(* Actions (code sites):                                                   *)
(*   Write            = POST /write  (coordinator PointsWriter -> shard.WriteRows,            *)
(*                      meta.Data.CreateMeasurement gives a re-created measurement a new     *)
(*                      version suffix)                                                      *)
(*   Flush            = /debug/ctrl?mod=flush  (EngineImpl.ForceFlush)                       *)
(*   Compact          = compaction / out-of-order merge (engine/compact.go Compactor.run)    *)
(*   RestartClean/Kill= SIGTERM / SIGKILL + start (WAL replay, index and delete-set reload)  *)
(*   DropSeries       = coordinator/drop_series_executor.go -> handler DropSeries.Process    *)
(*                      -> MergeSetIndex.WriteDeleteTsids                                    *)
(*   DropSeriesNoFrom = the same statement without FROM (rejected: "there must be and can    *)
(*                      only be one table"; not acknowledged, so nothing may change)         *)
(*   DropMeasurement  = meta.Data.MarkMeasurementDelete -> shard.DropMeasurement ->          *)
(*                      MmsTables.DropMeasurement -> meta.Data.DropMeasurement               *)
(*   DropRP / CreateRP, DropDatabase / CreateDatabase = meta.Data.MarkRetentionPolicyDelete, *)
(*                      MarkDatabaseDelete, ... (statement_executor.go)                      *)
(*                                                                         *)
(* Two worlds evolve side by side under the same actions:                  *)
(*   wd = the DESIGN (with the mutation seeds of Dev switched in): the     *)
(*        invariants are stated on it and `exp` is computed from it;       *)
(*   wi = the AS-IMPLEMENTED behaviour of the known openGemini defects     *)
(*        (ImplDev): the replay attributes a divergence to a finding only  *)
(*        if the real answer equals what wi predicts.                      *)
(* The READ-SHAPE operators (Plain, TagFilter, FieldFilter, GroupByTag,    *)
(* GroupByTime, Aggregate, ShowSeries, ShowTagKeys, ShowTagValues) are     *)
(* defined once over a row set; every shape reads the live rows only.      *)
(***************************************************************************)
EXTENDS Integers, Sequences, FiniteSets, TLC, SequencesExt, FiniteSetsExt

CONSTANTS Hosts,       \* tag values of tag key "host"   (strings)
          Regions,     \* tag values of tag key "region" (strings)
          Times,       \* abstract timestamps (naturals >= 1)
          MaxBatch,    \* rows per write
          Depth,       \* actions per behaviour
          MaxWrites,   \* bound on Write actions (exhaustive mode)
          Skeleton,    \* sequence of global actions every behaviour performs in this order
          FreeGlobals, \* TRUE: global actions at any time (exhaustive mode), Skeleton ignored
          SegMax,      \* local actions between two global actions
          FullLog,     \* TRUE: hist carries the expected answer of every read shape (export modes)
          Dev,         \* mutation seeds on the design world ({} = the design)
          ImplDev      \* as-implemented deviations of the known defects (world wi)

VARIABLES wd,    \* design world
          wi,    \* as-implemented world
          loc,   \* storage layer of the design world's rows: [inst -> [mem, fl, oo, co : SUBSET Row]]
          dropped,\* history: rows that a drop named  [i, g, r, how]
          nv,    \* next value (every written row gets a unique value)
          nw,    \* writes so far
          gk,    \* global actions done
          seg,   \* local actions since the last global action
          hist   \* exported history

vars == <<wd, wi, loc, dropped, nv, nw, gk, seg, hist>>
view == <<wd, wi, loc, dropped, nv, nw, gk, seg>>

-----------------------------------------------------------------------------
\* catalogue universe
RPs   == {"rp1", "rp2"}
Names == {"m", "n"}
Insts == {"rp1.m", "rp1.n", "rp2.m"}
RpOf(i)   == IF i = "rp2.m" THEN "rp2" ELSE "rp1"
NameOf(i) == IF i = "rp1.n" THEN "n" ELSE "m"
InstsOfRp(rp)  == {i \in Insts : RpOf(i) = rp}
InstsOfName(n) == {i \in Insts : NameOf(i) = n}

Series == [host : Hosts, region : Regions]
Key    == Series \X Times
\* a row: series, time, value, generation of the measurement it was written to
RowOf(s, t, v, g) == [s |-> s, t |-> t, v |-> v, g |-> g]

NoRows == [i \in Insts |-> {}]
EmptyLoc == [i \in Insts |-> [mem |-> {}, fl |-> {}, oo |-> {}, co |-> {}]]

\* A world.  ver = version suffix of the measurement inside the current incarnation of its
\* retention policy (name_0000, name_0001, ...; -1 = never created), gen = generation counter of the
\* specification (never reset).  ghm / ghq = rows of series marked deleted by DROP SERIES which are
\* physically still there (must / maybe: a compaction may have purged them); nidx = does the series
\* index of the policy hold entries of measurement "n" (they sort after those of "m"); wal = rows of series
\* dropped while still in the memtable, i.e. still in the write-ahead log (a restart replays them);
\* dead = [ver, s]: index entries of the series of a dropped measurement incarnation (not purged);
\* cause = why the as-implemented rows of the instance differ from the design's ("cross", "wal").
InitWorld == [db |-> TRUE, rps |-> RPs,
              ex  |-> [i \in Insts |-> FALSE],
              gen |-> [i \in Insts |-> 0],
              ver |-> [i \in Insts |-> -1],
              rows |-> NoRows, idx |-> NoRows, ghm |-> NoRows, ghq |-> NoRows,
              wal |-> NoRows, dead |-> NoRows, cause |-> NoRows,
              nidx |-> [r \in RPs |-> "no"]]

Usable(w, i) == w.db /\ RpOf(i) \in w.rps
Live(w, i)   == IF Usable(w, i) /\ w.ex[i] THEN w.rows[i] ELSE {}
LiveIdx(w, i)== IF Usable(w, i) /\ w.ex[i] THEN w.idx[i] ELSE {}

-----------------------------------------------------------------------------
\* tag predicates of DROP SERIES:  [k, t1, v1, t2, v2]; v1, v2 are sets of tag values
\*   eq  t1 = 'v'      ne  t1 != 'v'     re  t1 =~ /v|w/    nre  t1 !~ /v|w/
\*   and t1 = 'v' AND t2 = 'w'   or  t1 = 'v' OR t2 = 'w'   andne  t1 = 'v' AND t2 != 'w'
\*   all t1 =~ /.*/    none  t1 = 'zz'
TagVals(t) == IF t = "host" THEN Hosts ELSE Regions
Sat(p, s) ==
  CASE p.k = "eq"    -> s[p.t1] \in p.v1
    [] p.k = "ne"    -> s[p.t1] \notin p.v1
    [] p.k = "re"    -> s[p.t1] \in p.v1
    [] p.k = "nre"   -> s[p.t1] \notin p.v1
    [] p.k = "and"   -> s[p.t1] \in p.v1 /\ s[p.t2] \in p.v2
    [] p.k = "or"    -> s[p.t1] \in p.v1 \/ s[p.t2] \in p.v2
    [] p.k = "andne" -> s[p.t1] \in p.v1 /\ s[p.t2] \notin p.v2
    [] p.k = "all"   -> TRUE
    [] OTHER         -> FALSE

Leaf(k, t, vs) == [k |-> k, t1 |-> t, v1 |-> vs, t2 |-> "", v2 |-> {}]
Two(k, a, b)   == [k |-> k, t1 |-> "host", v1 |-> {a}, t2 |-> "region", v2 |-> {b}]
Preds ==
     {Leaf("eq", "host", {h}) : h \in Hosts} \cup {Leaf("eq", "region", {r}) : r \in Regions}
  \cup {Leaf("ne", "host", {h}) : h \in Hosts}
  \cup {Leaf("re", "host", hs) : hs \in {x \in SUBSET Hosts : Cardinality(x) = 2}}
  \cup {Leaf("nre", "host", hs) : hs \in {x \in SUBSET Hosts : Cardinality(x) \in {1, 2}}}
  \cup {Two(k, h, r) : k \in {"and", "or", "andne"}, h \in Hosts, r \in Regions}
  \cup {Leaf("all", "host", {}), Leaf("none", "host", {})}

-----------------------------------------------------------------------------
\* READ SHAPES over a row set R.  Fixed filter constants of the matrix:
FEq  == "a"            \* host = 'a'
FNe  == "b"            \* host != 'b'
FRe  == {"a", "c"}     \* host =~ /a|c/      (an alternation: the index resolves it by direct look-ups)
FNre == {"b"}          \* host !~ /b/
Plain(R)            == R
TagEq(R)            == {r \in R : r.s.host = FEq}
TagNe(R)            == {r \in R : r.s.host # FNe}
TagRe(R)            == {r \in R : r.s.host \in FRe}
TagNre(R)           == {r \in R : r.s.host \notin FNre}
TagOr(R)            == {r \in R : r.s.host = "a" \/ r.s.region = "y"}
TagAnd(R)           == {r \in R : r.s.host # "b" /\ r.s.region = "x"}
FieldFilter(R, k)   == {r \in R : r.v > k}
GroupByTag(R)       == [h \in {r.s.host : r \in R} |-> {r \in R : r.s.host = h}]
Bucket(t)           == ((t - 1) \div 2) * 2 + 1          \* windows of two time units: {1,2}, {3,4}, ...
GroupByTime(R)      == [b \in {Bucket(r.t) : r \in R} |-> Cardinality({r \in R : Bucket(r.t) = b})]
Count(R)            == Cardinality(R)
RECURSIVE SumV(_)
SumV(R)             == IF R = {} THEN 0 ELSE LET r == CHOOSE x \in R : TRUE IN r.v + SumV(R \ {r})
CountBy(R)          == [h \in {r.s.host : r \in R} |-> Cardinality({r \in R : r.s.host = h})]
SumBy(R)            == [h \in {r.s.host : r \in R} |-> SumV({r \in R : r.s.host = h})]
\* listings: over the live series of the named measurement instance
ShowSeries(S)       == S
ShowTagKeys(S)      == IF S = {} THEN {} ELSE {"host", "region"}
ShowTagValues(S, k) == {s[k] : s \in S}

\* the design's expectation: every shape is a projection of the same live row set
SeriesOfRows(R) == {r.s : r \in R}

-----------------------------------------------------------------------------
\* world transformers; dv = deviation set in force for that world, memrows = rows of the memory layer
MaxTOf(R, s) == LET ts == {r.t : r \in {x \in R : x.s = s}} IN IF ts = {} THEN 0 ELSE Max(ts)

WWrite(w, i, keys, v0, dv, oldrows) ==
  LET new  == ~w.ex[i]
      g    == IF new THEN w.gen[i] + 1 ELSE w.gen[i]
      ks   == SetToSeq(keys)
      nr   == {RowOf(ks[j][1], ks[j][2], v0 + j - 1, g) : j \in 1..Len(ks)}
      keep == {r \in w.rows[i] : <<r.s, r.t>> \notin keys}
      \* mutation seed: a re-created measurement reuses the old version suffix, the old files are visible again
      back == IF new /\ "recreate_reuses_version" \in dv THEN oldrows ELSE {}
  IN [w EXCEPT !.ex[i] = TRUE, !.gen[i] = g,
               !.ver[i] = IF new THEN @ + 1 ELSE @,
               !.rows[i] = keep \cup nr \cup back,
               !.idx[i] = @ \cup {k[1] : k \in keys} \cup {r.s : r \in back},
               !.wal[i] = {r \in @ : <<r.s, r.t>> \notin keys},
               !.nidx[RpOf(i)] = IF NameOf(i) = "n" THEN "yes" ELSE @]

\* instances hit by DROP SERIES FROM i: the named one; as implemented also every other policy's
\* measurement with the same versioned name (the store request carries no policy)
DropTargets(w, i, dv) ==
  {i} \cup (IF "cross_rp_drop" \in dv
              THEN {j \in Insts : NameOf(j) = NameOf(i) /\ Usable(w, j) /\ w.ex[j] /\ w.ver[j] = w.ver[i]}
              ELSE {})

WDropSeries(w, i, p, dv, memrows) ==
  LET T == DropTargets(w, i, dv)
      D(j)    == {s \in w.idx[j] : Sat(p, s)}
      gone(j) == {r \in w.rows[j] : r.s \in D(j)}
      \* mutation seed: the drop forgets the rows still in the memtable
      rm(j)   == IF "drop_forgets_memtable" \in dv THEN gone(j) \ memrows[j] ELSE gone(j)
      \* as implemented the index entries of a dropped incarnation with the same versioned name are reached too
      DT      == IF "cross_rp_drop" \in dv THEN {j \in Insts : NameOf(j) = NameOf(i) /\ Usable(w, j)} ELSE {}
  IN [w EXCEPT !.rows = [j \in Insts |-> IF j \in T THEN w.rows[j] \ rm(j) ELSE w.rows[j]],
               \* mutation seed: the tag listing keeps the dropped values
               !.idx  = [j \in Insts |-> IF j \in T /\ "taglisting_keeps_dropped" \notin dv
                                           THEN w.idx[j] \ D(j) ELSE w.idx[j]],
               !.ghm  = [j \in Insts |-> IF j \in T THEN w.ghm[j] \cup gone(j) ELSE w.ghm[j]],
               !.wal  = [j \in Insts |-> IF j \in T /\ "wal_replay_resurrects" \in dv
                                           THEN w.wal[j] \cup (gone(j) \cap memrows[j]) ELSE w.wal[j]],
               !.dead = [j \in Insts |-> IF j \in DT THEN {d \in w.dead[j] : ~(d.ver = w.ver[i] /\ Sat(p, d.s))} ELSE w.dead[j]],
               !.cause = [j \in Insts |-> IF j \in T \ {i} /\ gone(j) # {} THEN w.cause[j] \cup {"cross"} ELSE w.cause[j]]]

WDropMeasurement(w, i, dv, memrows) ==
  LET keep == IF "drop_forgets_memtable" \in dv THEN w.rows[i] \cap memrows[i] ELSE {}
  IN [w EXCEPT !.ex[i] = FALSE, !.rows[i] = keep, !.idx[i] = {r.s : r \in keep},
               !.ghm[i] = {}, !.ghq[i] = {}, !.cause[i] = {},
               \* shard.DropMeasurement flushes the shard: nothing of the policy is left in the log only
               !.wal = [j \in Insts |-> IF RpOf(j) = RpOf(i) THEN {} ELSE w.wal[j]],
               !.dead[i] = IF "dead_index_listed" \in dv THEN @ \cup {[ver |-> w.ver[i], s |-> s] : s \in w.idx[i]} ELSE @,
               !.nidx[RpOf(i)] = IF NameOf(i) = "n" /\ @ = "yes" THEN "maybe" ELSE @]

WDropRP(w, rp) ==
  [w EXCEPT !.rps = @ \ {rp},
            !.ex   = [j \in Insts |-> IF RpOf(j) = rp THEN FALSE ELSE w.ex[j]],
            !.ver  = [j \in Insts |-> IF RpOf(j) = rp THEN -1 ELSE w.ver[j]],
            !.rows = [j \in Insts |-> IF RpOf(j) = rp THEN {} ELSE w.rows[j]],
            !.idx  = [j \in Insts |-> IF RpOf(j) = rp THEN {} ELSE w.idx[j]],
            !.ghm  = [j \in Insts |-> IF RpOf(j) = rp THEN {} ELSE w.ghm[j]],
            !.ghq  = [j \in Insts |-> IF RpOf(j) = rp THEN {} ELSE w.ghq[j]],
            !.wal  = [j \in Insts |-> IF RpOf(j) = rp THEN {} ELSE w.wal[j]],
            !.dead = [j \in Insts |-> IF RpOf(j) = rp THEN {} ELSE w.dead[j]],
            !.cause = [j \in Insts |-> IF RpOf(j) = rp THEN {} ELSE w.cause[j]],
            !.nidx[rp] = "no"]

WCreateRP(w, rp) == [w EXCEPT !.rps = @ \cup {rp}]

WDropDatabase(w) ==
  [w EXCEPT !.db = FALSE, !.rps = {}, !.ex = [j \in Insts |-> FALSE], !.ver = [j \in Insts |-> -1],
            !.rows = NoRows, !.idx = NoRows, !.ghm = NoRows, !.ghq = NoRows,
            !.wal = NoRows, !.dead = NoRows, !.cause = NoRows,
            !.nidx = [r \in RPs |-> "no"]]

WCreateDatabase(w) == [w EXCEPT !.db = TRUE, !.rps = RPs]

\* a compaction may purge rows of series marked deleted (engine/immutable/compact.go skips them)
WCompact(w) == [w EXCEPT !.ghq = [j \in Insts |-> w.ghq[j] \cup w.ghm[j]], !.ghm = NoRows]

\* a flush empties the memtable: nothing is left in the write-ahead log only
WFlush(w) == [w EXCEPT !.wal = NoRows]

\* as implemented: the rows of a series dropped while they were still in the write-ahead log are replayed by the
\* next start and come back (as rows of a new series)
WRestartImpl(w, dv) ==
  IF "wal_replay_resurrects" \in dv
    THEN [w EXCEPT !.rows = [j \in Insts |-> w.rows[j] \cup w.wal[j]],
                   !.idx  = [j \in Insts |-> w.idx[j] \cup {r.s : r \in w.wal[j]}],
                   !.ghm  = [j \in Insts |-> w.ghm[j] \ w.wal[j]],
                   !.ghq  = [j \in Insts |-> w.ghq[j] \ w.wal[j]],
                   !.cause = [j \in Insts |-> IF w.wal[j] # {} THEN w.cause[j] \cup {"wal"} ELSE w.cause[j]],
                   !.wal  = NoRows]
    ELSE w

\* mutation seed: a restart resurrects the series dropped by DROP SERIES
WRestart(w, dv, dr) ==
  IF "restart_resurrects" \in dv
    THEN [w EXCEPT !.rows = [j \in Insts |-> w.rows[j] \cup {d.r : d \in {x \in dr : x.i = j /\ x.how = "series" /\ x.g = w.gen[j] /\ w.ex[j]}}],
                   !.idx  = [j \in Insts |-> w.idx[j]  \cup {d.r.s : d \in {x \in dr : x.i = j /\ x.how = "series" /\ x.g = w.gen[j] /\ w.ex[j]}}]]
    ELSE w

-----------------------------------------------------------------------------
\* layers of the design world
MemRows  == [i \in Insts |-> loc[i].mem]
AllLoc(i) == loc[i].mem \cup loc[i].fl \cup loc[i].oo \cup loc[i].co
Without(l, R) == [mem |-> l.mem \ R, fl |-> l.fl \ R, oo |-> l.oo \ R, co |-> l.co \ R]
\* layers follow the world: rows no longer live leave their layer, new rows enter the memtable
LocAfter(w2) == [i \in Insts |-> LET l == Without(loc[i], AllLoc(i) \ w2.rows[i])
                                 IN [l EXCEPT !.mem = @ \cup (w2.rows[i] \ AllLoc(i))]]
\* flush: a memtable row goes to an ordered file if it is newer than everything flushed of its
\* series, else to an out-of-order file
FlushLoc(is) == [i \in Insts |->
   IF i \in is
     THEN LET filed == loc[i].fl \cup loc[i].co \cup loc[i].oo
              ord   == {r \in loc[i].mem : r.t > MaxTOf(filed, r.s)}
          IN [mem |-> {}, fl |-> loc[i].fl \cup ord, oo |-> loc[i].oo \cup (loc[i].mem \ ord), co |-> loc[i].co]
     ELSE loc[i]]
CompactLoc == [i \in Insts |-> [mem |-> loc[i].mem, fl |-> {}, oo |-> {}, co |-> loc[i].co \cup loc[i].fl \cup loc[i].oo]]

-----------------------------------------------------------------------------
\* export helpers (sets become sequences; the replay canonicalises the order)
RowJ(r)   == [h |-> r.s.host, r |-> r.s.region, t |-> r.t, v |-> r.v]
RowsJ(R)  == SetToSeq({RowJ(r) : r \in R})
TVJ(R)    == SetToSeq({[t |-> r.t, v |-> r.v] : r \in R})
FunJ(f, V(_)) == SetToSeq({[h |-> h, x |-> V(f[h])] : h \in DOMAIN f})
Id(x) == x
SerJ(S)   == SetToSeq({[h |-> s.host, r |-> s.region] : s \in S})

ShapesOf(R, k) ==
  [plain |-> RowsJ(Plain(R)), eq |-> RowsJ(TagEq(R)), ne |-> RowsJ(TagNe(R)), re |-> RowsJ(TagRe(R)),
   nre |-> RowsJ(TagNre(R)), or |-> RowsJ(TagOr(R)), and |-> RowsJ(TagAnd(R)),
   ff |-> RowsJ(FieldFilter(R, k)),
   gtag |-> FunJ(GroupByTag(R), TVJ), gtime |-> SetToSeq({[b |-> b, c |-> GroupByTime(R)[b]] : b \in DOMAIN GroupByTime(R)}),
   cnt |-> Count(R), sum |-> SumV(R), cntg |-> FunJ(CountBy(R), Id), sumg |-> FunJ(SumBy(R), Id),
   cntre |-> Count(TagRe(R))]

ListingOf(S) == [series |-> SerJ(ShowSeries(S)), tkeys |-> SetToSeq(ShowTagKeys(S)),
                 thost |-> SetToSeq(ShowTagValues(S, "host")), tregion |-> SetToSeq(ShowTagValues(S, "region"))]

\* design expectation after an action (world w): per measurement instance every selection shape over its live
\* rows and every listing over its live series
ExpOf(w, k) == [k |-> k,
                inst |-> [i \in Insts |-> [sel |-> ShapesOf(Live(w, i), k), list |-> ListingOf(LiveIdx(w, i))]]]

\* what the as-implemented world predicts: live rows and series, rows of deleted series still on disk (must /
\* maybe), whether scans by measurement name skip the deleted set (entries of "n" follow those of "m"), the
\* version suffix (listings and DROP SERIES reach every policy holding the same versioned name)
NameScanLeak(w, i) == IF "name_scan_leak" \in ImplDev /\ NameOf(i) = "m" /\ Usable(w, i) THEN w.nidx[RpOf(i)] ELSE "no"
Flag(d) == IF d \in ImplDev THEN "yes" ELSE "no"
ImpOf(w) == [inst |-> [i \in Insts |-> [live |-> RowsJ(Live(w, i)),
                                         ser  |-> SerJ(LiveIdx(w, i)),
                                         ex   |-> IF Usable(w, i) /\ w.ex[i] THEN "yes" ELSE "no",
                                         ver  |-> w.ver[i],
                                         usable |-> IF Usable(w, i) THEN "yes" ELSE "no",
                                         dead |-> SetToSeq({[ver |-> d.ver, h |-> d.s.host, r |-> d.s.region] : d \in w.dead[i]}),
                                         cause |-> SetToSeq(w.cause[i]),
                                         gm |-> RowsJ(IF Usable(w, i) /\ w.ex[i] THEN w.ghm[i] ELSE {}),
                                         gq |-> RowsJ(IF Usable(w, i) /\ w.ex[i] THEN w.ghq[i] ELSE {}),
                                         scan |-> NameScanLeak(w, i)]],
             flags |-> [resuf |-> Flag("or_suffix_leak"), schema |-> Flag("tagkeys_from_schema"),
                        listrp |-> Flag("listing_ignores_rp")]]

LayersJ == [i \in Insts |-> [mem |-> Cardinality(loc'[i].mem), fl |-> Cardinality(loc'[i].fl),
                             oo |-> Cardinality(loc'[i].oo), co |-> Cardinality(loc'[i].co)]]

Log(a, args) == hist' = IF FullLog
                          THEN Append(hist, [a |-> a, args |-> args, exp |-> ExpOf(wd', nv' \div 2), imp |-> ImpOf(wi'),
                                             lay |-> LayersJ])
                          ELSE Append(hist, [a |-> a])

PredJ(p) == [k |-> p.k, t1 |-> p.t1, v1 |-> SetToSeq(p.v1), t2 |-> p.t2, v2 |-> SetToSeq(p.v2)]

-----------------------------------------------------------------------------
Init == /\ wd = InitWorld /\ wi = InitWorld /\ loc = EmptyLoc /\ dropped = {} /\ nv = 1 /\ nw = 0
        /\ gk = 0 /\ seg = 0 /\ hist = <<>>

Local  == /\ (FreeGlobals \/ seg < SegMax \/ gk >= Len(Skeleton))
          /\ seg' = seg + 1 /\ gk' = gk
Global(a) == /\ (FreeGlobals \/ (gk < Len(Skeleton) /\ Skeleton[gk + 1] = a))
             /\ seg' = 0 /\ gk' = gk + 1

\* rows a drop names, by the design rule (independent of Dev)
NamedSeries(i, p) == {r \in wd.rows[i] : Sat(p, r.s)}
Tag(i, R, how) == {[i |-> i, g |-> r.g, r |-> r, how |-> how] : r \in R}
\* rows of earlier generations of i (for the mutation seed recreate_reuses_version)
OldRows(i) == {d.r : d \in {x \in dropped : x.i = i /\ x.how = "measurement"}}

\* (overwriting a live row is the subject of C02: here a write never hits the key of a LIVE row; the key of a
\* dropped row is written again freely - that is the "fresh series" clause)
Occupied(i) == {<<r.s, r.t>> : r \in wd.rows[i] \cup wi.rows[i]}
Write(i, keys) ==
  /\ Usable(wd, i) /\ nw < MaxWrites /\ Local
  /\ keys \cap Occupied(i) = {}
  /\ wd' = WWrite(wd, i, keys, nv, Dev, OldRows(i))
  /\ wi' = WWrite(wi, i, keys, nv, {}, {})
  /\ loc' = LocAfter(wd')
  /\ nv' = nv + Cardinality(keys) /\ nw' = nw + 1
  /\ UNCHANGED dropped
  /\ Log("Write", [i |-> i, rows |-> RowsJ({r \in wi'.rows[i] : r.v >= nv})])

DropSeries(i, p) ==
  /\ Usable(wd, i) /\ wd.ex[i] /\ Usable(wi, i) /\ wi.ex[i] /\ Local
  /\ wd' = WDropSeries(wd, i, p, Dev, MemRows)
  /\ wi' = WDropSeries(wi, i, p, ImplDev, MemRows)
  /\ loc' = LocAfter(wd')
  /\ dropped' = dropped \cup Tag(i, NamedSeries(i, p), "series")
  /\ UNCHANGED <<nv, nw>>
  /\ Log("DropSeries", [i |-> i, p |-> PredJ(p)])

\* DROP SERIES WHERE ... without FROM is rejected by the executor: not acknowledged, nothing changes
DropSeriesNoFrom(p) ==
  /\ wd.db /\ Local
  /\ UNCHANGED <<wd, wi, loc, dropped, nv, nw>>
  /\ Log("DropSeriesNoFrom", [p |-> PredJ(p)])

\* shard.DropMeasurement flushes the whole shard first: the other measurements of the policy lose their memtable
DropMeasurement(i) ==
  /\ Usable(wd, i) /\ wd.ex[i] /\ Local
  /\ wd' = WDropMeasurement(wd, i, Dev, MemRows)
  /\ wi' = WDropMeasurement(wi, i, ImplDev, NoRows)
  /\ loc' = LET fl == FlushLoc(InstsOfRp(RpOf(i)) \ {i})
            IN [j \in Insts |-> IF j = i THEN Without(loc[j], AllLoc(j) \ wd'.rows[j]) ELSE fl[j]]
  /\ dropped' = dropped \cup Tag(i, wd.rows[i], "measurement")
  /\ UNCHANGED <<nv, nw>>
  /\ Log("DropMeasurement", [i |-> i])

DropRP(rp) ==
  /\ wd.db /\ rp \in wd.rps /\ Local
  /\ wd' = WDropRP(wd, rp) /\ wi' = WDropRP(wi, rp)
  /\ loc' = LocAfter(wd')
  /\ dropped' = dropped \cup UNION {Tag(i, wd.rows[i], "rp") : i \in InstsOfRp(rp)}
  /\ UNCHANGED <<nv, nw>>
  /\ Log("DropRP", [rp |-> rp])

CreateRP(rp) ==
  /\ wd.db /\ rp \notin wd.rps /\ Local
  /\ wd' = WCreateRP(wd, rp) /\ wi' = WCreateRP(wi, rp)
  /\ UNCHANGED <<loc, dropped, nv, nw>>
  /\ Log("CreateRP", [rp |-> rp])

DropDatabase ==
  /\ wd.db /\ Local
  /\ wd' = WDropDatabase(wd) /\ wi' = WDropDatabase(wi)
  /\ loc' = LocAfter(wd')
  /\ dropped' = dropped \cup UNION {Tag(i, wd.rows[i], "database") : i \in Insts}
  /\ UNCHANGED <<nv, nw>>
  /\ Log("DropDatabase", <<>>)

CreateDatabase ==
  /\ ~wd.db /\ Local
  /\ wd' = WCreateDatabase(wd) /\ wi' = WCreateDatabase(wi)
  /\ UNCHANGED <<loc, dropped, nv, nw>>
  /\ Log("CreateDatabase", <<>>)

Flush ==
  /\ Global("Flush")
  /\ loc' = FlushLoc(Insts)
  /\ wi' = WFlush(wi)
  /\ UNCHANGED <<wd, dropped, nv, nw>>
  /\ Log("Flush", <<>>)

Compact ==
  /\ Global("Compact")
  /\ loc' = CompactLoc
  /\ wi' = WCompact(wi)
  /\ UNCHANGED <<wd, dropped, nv, nw>>
  /\ Log("Compact", <<>>)

\* neither kind of restart flushes: the memtable comes back from the write-ahead log
Restart(kind) ==
  /\ Global(kind)
  /\ wd' = WRestart(wd, Dev, dropped)
  /\ wi' = WRestartImpl(wi, ImplDev)
  /\ loc' = LocAfter(wd')
  /\ UNCHANGED <<dropped, nv, nw>>
  /\ Log(kind, <<>>)

KeySets == {ks \in SUBSET Key : Cardinality(ks) \in 1..MaxBatch}
\* the choices offered in one step; simulation configs override them with random samples
WriteChoices == Insts \X KeySets
DropChoices  == Insts \X Preds
NoFromChoices== {Leaf("eq", "host", {"a"})}
InstChoices  == Insts
RpChoices    == RPs
Rare         == TRUE      \* simulation: the wholesale drops are offered less often
RareDb       == TRUE

Next ==
  /\ Len(hist) < Depth
  /\ \/ \E c \in WriteChoices : Write(c[1], c[2])
     \/ \E c \in DropChoices : DropSeries(c[1], c[2])
     \/ \E p \in NoFromChoices : DropSeriesNoFrom(p)
     \/ \E i \in InstChoices : DropMeasurement(i)
     \/ (Rare /\ \E rp \in RpChoices : DropRP(rp))
     \/ \E rp \in RPs : CreateRP(rp)
     \/ (RareDb /\ DropDatabase)
     \/ CreateDatabase
     \/ Flush
     \/ Compact
     \/ Restart("RestartClean")
     \/ Restart("RestartKill")

Spec == Init /\ [][Next]_vars

-----------------------------------------------------------------------------
\* INVARIANTS (on the design world)
TypeOK == /\ \A i \in Insts : wd.rows[i] \subseteq [s : Series, t : Times, v : 1..(nv - 1), g : 1..wd.gen[i]]
          /\ \A i \in Insts : wd.idx[i] \subseteq Series
          /\ \A i \in Insts : \A r1, r2 \in wd.rows[i] : (r1.s = r2.s /\ r1.t = r2.t) => r1 = r2

\* the layers partition the rows
LayersOK == \A i \in Insts :
   /\ AllLoc(i) = wd.rows[i]
   /\ loc[i].mem \cap loc[i].fl = {} /\ loc[i].mem \cap loc[i].oo = {} /\ loc[i].mem \cap loc[i].co = {}
   /\ loc[i].fl \cap loc[i].oo = {} /\ loc[i].fl \cap loc[i].co = {} /\ loc[i].oo \cap loc[i].co = {}

\* every read shape is the projection of the same live row set: listings (index) and selections (rows) agree
AllShapesAgree == \A i \in Insts : LiveIdx(wd, i) = SeriesOfRows(Live(wd, i))

\* no read shape returns a dropped key, in any later state: the row-returning shapes are sub-sets /
\* aggregates of Plain, the listings are projections of the index
DroppedStaysGone ==
  \A d \in dropped :
     /\ d.r \notin Plain(Live(wd, d.i))
     /\ (d.r.s \in ShowSeries(LiveIdx(wd, d.i))) => (\E r \in Live(wd, d.i) : r.s = d.r.s)

\* rows of a re-created measurement all belong to its current generation
FreshAfterRecreate == \A i \in Insts : \A r \in Live(wd, i) : r.g = wd.gen[i]

\* OthersUntouched (action property): rows the action did not name are unchanged
Named(i, r) == \E d \in dropped' \ dropped : d.i = i /\ d.r = r
OthersUntouchedStep ==
  \A i \in Insts : \A r \in wd.rows[i] :
      (r \notin wd'.rows[i]) => (Named(i, r) \/ \E r2 \in wd'.rows[i] : r2.s = r.s /\ r2.t = r.t /\ r2.v > r.v)
OthersUntouched == [][OthersUntouchedStep]_vars

\* the as-implemented world keeps the same catalogue as the design
ImplCatalogue == wi.db = wd.db /\ wi.rps = wd.rps /\ wi.ex = wd.ex /\ wi.gen = wd.gen
=============================================================================
