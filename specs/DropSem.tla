------------------------------- MODULE DropSem -------------------------------
(***************************************************************************)
(* C13 - dropping removes exactly what was named, for every kind of read,  *)
(* for good.                                                               *)
(*                                                                         *)
(* One database seen through its catalogue (database -> retention policies *)
(* -> measurements with a generation counter), per measurement instance    *)
(* the live series (the series index) and the live rows, split over the    *)
(* abstract storage layers memory / flushed / out-of-order / compacted.    *)
(* A row belongs to a SHARD GROUP (GroupOf its time: the groups are weeks   *)
(* apart) and through it to an INDEX GROUP (IdxOf: one index group may      *)
(* serve several shard groups).                                            *)
(*                                                                         *)
(* Actions (code sites):                                                   *)
(*   Write            = POST /write  (coordinator PointsWriter -> shard.WriteRows,            *)
(*                      meta.Data.CreateMeasurement gives a re-created measurement a new     *)
(*                      version suffix; DBPTInfo.NewShard / NewMergeSetIndex create the       *)
(*                      shard and the index group of a time range on first use)              *)
(*   WriteRefused     = POST /write to a measurement whose database / policy is gone or is   *)
(*                      being deleted (not acknowledged, nothing may change)                 *)
(*   Flush            = /debug/ctrl?mod=flush  (EngineImpl.ForceFlush)                       *)
(*   Compact          = compaction / out-of-order merge (engine/compact.go Compactor.run)    *)
(*   RestartClean/Kill= SIGTERM / SIGKILL + start (WAL replay, index and delete-set reload:  *)
(*                      DBPTInfo.OpenIndexes -> SetDelMergeSetForEachMergeSet)               *)
(*   DropSeries       = coordinator/drop_series_executor.go -> handler DropSeries.Process    *)
(*                      -> storeTsids -> MergeSetIndex.WriteDeleteTsids                      *)
(*   DropSeriesNoFrom = the same statement without FROM (rejected: "there must be and can    *)
(*                      only be one table"; not acknowledged, so nothing may change)         *)
(*   DropSeriesTime   = DROP SERIES FROM m WHERE <tags> AND time < t: InfluxQL has no time-   *)
(*                      bounded DROP SERIES (the design refuses it, nothing may change)      *)
(*   Unsupported      = DELETE FROM m WHERE ... / DROP SHARD n: parsed, then answered        *)
(*                      "unsupported command" by statement_executor.go; nothing may change   *)
(*   DropMeasurement  = meta.Data.MarkMeasurementDelete -> shard.DropMeasurement ->          *)
(*                      MmsTables.DropMeasurement -> meta.Data.DropMeasurement               *)
(*   DropRP / CreateRP, DropDatabase / CreateDatabase = meta.Data.MarkRetentionPolicyDelete, *)
(*                      MarkDatabaseDelete, ... (statement_executor.go)                      *)
(*   With Phased the wholesale drops are the three steps of the code:                        *)
(*     Drop*Mark   = the statement: mark-deleted in the catalogue, acknowledged              *)
(*     Drop*Store  = app/ts-meta/meta/store.go checkDelete -> NetStore.Delete* : the stores   *)
(*                   delete the data                                                          *)
(*     Drop*Finish = deleteRpMetadata / deleteDatabaseMetadata / Data.DropMeasurement: the    *)
(*                   catalogue entry is removed, the name is free again                       *)
(*   and writes / creates interleave with them: CreateRPBusy, CreateDatabaseBusy (the name   *)
(*   is still taken by the object being deleted: refused), Write to a measurement being       *)
(*   deleted (re-created at once under a new version), WriteRefused, and the `race` rows of   *)
(*   a Drop*Mark (writes in flight while the statement runs).                                 *)
(*                                                                         *)
(* Two worlds evolve side by side under the same actions:                  *)
(*   wd = the DESIGN (with the mutation seeds of Dev switched in): the     *)
(*        invariants are stated on it and `exp` is computed from it;       *)
(*   wi = the AS-IMPLEMENTED behaviour of the known openGemini defects     *)
(*        (ImplDev): the replay attributes a divergence to a finding only  *)
(*        if the real answer equals what wi predicts.                      *)
(* The READ-SHAPE operators are defined once over a row set / series set;  *)
(* every shape reads the live rows only.                                   *)
(***************************************************************************)
EXTENDS Integers, Sequences, FiniteSets, TLC, SequencesExt, FiniteSetsExt

CONSTANTS Hosts,       \* tag values of tag key "host"   (strings)
          Regions,     \* tag values of tag key "region" (strings)
          Times,       \* abstract timestamps: 10 * shard group + position (1..8) inside the group
          MaxBatch,    \* rows per write
          Depth,       \* actions per behaviour
          MaxWrites,   \* bound on Write actions (exhaustive mode)
          Skeleton,    \* sequence of global actions every behaviour performs in this order
          FreeGlobals, \* TRUE: global actions at any time (exhaustive mode), Skeleton ignored
          SegMax,      \* local actions between two global actions
          FullLog,     \* TRUE: hist carries the expected answer of every read shape (export modes)
          Dev,         \* mutation seeds on the design world ({} = the design)
          ImplDev      \* as-implemented deviations of the known defects (world wi)

VARIABLES wd,    \* design world
          wi,    \* as-implemented world
          loc,   \* storage layer of the design world's rows: [inst -> [mem, fl, oo, co : SUBSET Row]]
          dropped,\* history: rows that a drop named  [i, g, r, how]
          nv,    \* next value (every written row gets a unique value)
          nw,    \* writes so far
          gk,    \* global actions done
          seg,   \* local actions since the last global action
          hist   \* exported history

vars == <<wd, wi, loc, dropped, nv, nw, gk, seg, hist>>
view == <<wd, wi, loc, dropped, nv, nw, gk, seg>>

\* switches a configuration may override (definitions, so that older configurations need not name them)
Phased == FALSE          \* TRUE: wholesale drops are the three steps Mark / Store / Finish

-----------------------------------------------------------------------------
\* catalogue universe
RPs   == {"rp1", "rp2"}
Names == {"m", "n"}
Insts == {"rp1.m", "rp1.n", "rp2.m"}
RpOf(i)   == IF i = "rp2.m" THEN "rp2" ELSE "rp1"
NameOf(i) == IF i = "rp1.n" THEN "n" ELSE "m"
InstsOfRp(rp)  == {i \in Insts : RpOf(i) = rp}
InstsOfName(n) == {i \in Insts : NameOf(i) = n}

Series == [host : Hosts, region : Regions]
Key    == Series \X Times
\* a row: series, time, value, generation of the measurement it was written to
RowOf(s, t, v, g) == [s |-> s, t |-> t, v |-> v, g |-> g]

\* shard groups and index groups
GroupOf(t) == t \div 10
Groups     == {GroupOf(t) : t \in Times}
IdxOf(g)   == g                         \* a configuration may let several shard groups share an index group
XOf(r)     == IdxOf(GroupOf(r.t))       \* index group of a row
IdxIds     == {IdxOf(g) : g \in Groups}
SX(r)      == [s |-> r.s, x |-> XOf(r)] \* the series id of a row: one per series key and index group

NoRows == [i \in Insts |-> {}]
EmptyLoc == [i \in Insts |-> [mem |-> {}, fl |-> {}, oo |-> {}, co |-> {}]]
NoPhase == [i \in Insts |-> "none"]
\* pre = what the deleted-series set looked like before the DROP SERIES that was acknowledged LAST (on = the action before
\* this state was such a statement): as implemented the record of the statement is not on disk yet
NoPre == [on |-> FALSE, rows |-> NoRows, idx |-> NoRows, ghm |-> NoRows, ghq |-> NoRows, zomb |-> NoRows,
          cause |-> NoRows, dead |-> NoRows]

\* A world.  ver = version suffix of the measurement inside the current incarnation of its
\* retention policy (name_0000, name_0001, ...; -1 = never created), gen = generation counter of the
\* specification (never reset).  ghm / ghq = rows of series marked deleted by DROP SERIES which are
\* physically still there (must / maybe: a compaction may have purged them); nidx = does the series
\* index of the policy hold entries of measurement "n" (they sort after those of "m"); wal = rows of series
\* dropped while still in the memtable, i.e. still in the write-ahead log (a restart replays them);
\* dead = [ver, s]: index entries of the series of a dropped measurement incarnation (not purged);
\* cause = why the as-implemented rows of the instance differ from the design's ("cross", "wal", "unwired",
\* "timedrop").
\* Index groups: ig = index groups of the policy that exist (created by the first write into their time
\* range), delidx = the policy has its deleted-series set in memory, wired = index groups whose searches
\* and write path consult that set, zomb = series ids that ARE in the deleted set while their index
\* group does not consult it, zmem = rows written to such an id that are still in the write-ahead log only.
\* pre: see NoPre.
\* Two-phase drops: dbph / rpph / mph = phase of the object being deleted in the background under that
\* name ("none", "marked", "purged"); ackc = a CREATE RETENTION POLICY was acknowledged for the name.
InitWorld == [db |-> TRUE, rps |-> RPs,
              ex  |-> [i \in Insts |-> FALSE],
              gen |-> [i \in Insts |-> 0],
              ver |-> [i \in Insts |-> -1],
              rows |-> NoRows, idx |-> NoRows, ghm |-> NoRows, ghq |-> NoRows,
              wal |-> NoRows, dead |-> NoRows, cause |-> NoRows,
              nidx |-> [r \in RPs |-> "no"],
              ig |-> [r \in RPs |-> {}], wired |-> [r \in RPs |-> {}], delidx |-> [r \in RPs |-> FALSE],
              zomb |-> NoRows, zmem |-> NoRows,
              dbph |-> "none", rpph |-> [r \in RPs |-> "none"], mph |-> NoPhase,
              ackc |-> [r \in RPs |-> FALSE],
              pre |-> NoPre]

Usable(w, i) == w.db /\ RpOf(i) \in w.rps
Exists(w, i) == Usable(w, i) /\ w.ex[i]
Live(w, i)   == IF Exists(w, i) THEN w.rows[i] ELSE {}
LiveIdx(w, i)== IF Exists(w, i) THEN w.idx[i] ELSE {}

-----------------------------------------------------------------------------
\* tag predicates of DROP SERIES:  [k, t1, v1, t2, v2]; v1, v2 are sets of tag values
\*   eq  t1 = 'v'      ne  t1 != 'v'     re  t1 =~ /v|w/    nre  t1 !~ /v|w/
\*   and t1 = 'v' AND t2 = 'w'   or  t1 = 'v' OR t2 = 'w'   andne  t1 = 'v' AND t2 != 'w'
\*   all t1 =~ /.*/    none  t1 = 'zz'
TagVals(t) == IF t = "host" THEN Hosts ELSE Regions
Sat(p, s) ==
  CASE p.k = "eq"    -> s[p.t1] \in p.v1
    [] p.k = "ne"    -> s[p.t1] \notin p.v1
    [] p.k = "re"    -> s[p.t1] \in p.v1
    [] p.k = "nre"   -> s[p.t1] \notin p.v1
    [] p.k = "and"   -> s[p.t1] \in p.v1 /\ s[p.t2] \in p.v2
    [] p.k = "or"    -> s[p.t1] \in p.v1 \/ s[p.t2] \in p.v2
    [] p.k = "andne" -> s[p.t1] \in p.v1 /\ s[p.t2] \notin p.v2
    [] p.k = "all"   -> TRUE
    [] OTHER         -> FALSE

Leaf(k, t, vs) == [k |-> k, t1 |-> t, v1 |-> vs, t2 |-> "", v2 |-> {}]
Two(k, a, b)   == [k |-> k, t1 |-> "host", v1 |-> {a}, t2 |-> "region", v2 |-> {b}]
Preds ==
     {Leaf("eq", "host", {h}) : h \in Hosts} \cup {Leaf("eq", "region", {r}) : r \in Regions}
  \cup {Leaf("ne", "host", {h}) : h \in Hosts}
  \cup {Leaf("re", "host", hs) : hs \in {x \in SUBSET Hosts : Cardinality(x) = 2}}
  \cup {Leaf("nre", "host", hs) : hs \in {x \in SUBSET Hosts : Cardinality(x) \in {1, 2}}}
  \cup {Two(k, h, r) : k \in {"and", "or", "andne"}, h \in Hosts, r \in Regions}
  \cup {Leaf("all", "host", {}), Leaf("none", "host", {})}

-----------------------------------------------------------------------------
\* READ SHAPES over a row set R.  Fixed filter constants of the matrix:
FEq  == "a"            \* host = 'a'
FNe  == "b"            \* host != 'b'
FRe  == {"a", "c"}     \* host =~ /a|c/      (an alternation: the index resolves it by direct look-ups)
FNre == {"b"}          \* host !~ /b/
Plain(R)            == R
TagEq(R)            == {r \in R : r.s.host = FEq}
TagNe(R)            == {r \in R : r.s.host # FNe}
TagRe(R)            == {r \in R : r.s.host \in FRe}
TagNre(R)           == {r \in R : r.s.host \notin FNre}
TagOr(R)            == {r \in R : r.s.host = "a" \/ r.s.region = "y"}
TagAnd(R)           == {r \in R : r.s.host # "b" /\ r.s.region = "x"}
FieldFilter(R, k)   == {r \in R : r.v > k}
GroupByTag(R)       == [h \in {r.s.host : r \in R} |-> {r \in R : r.s.host = h}]
Bucket(t)           == ((t - 1) \div 2) * 2 + 1          \* windows of two time units: {1,2}, {3,4}, ...
GroupByTime(R)      == [b \in {Bucket(r.t) : r \in R} |-> Cardinality({r \in R : Bucket(r.t) = b})]
Count(R)            == Cardinality(R)
RECURSIVE SumV(_)
SumV(R)             == IF R = {} THEN 0 ELSE LET r == CHOOSE x \in R : TRUE IN r.v + SumV(R \ {r})
CountBy(R)          == [h \in {r.s.host : r \in R} |-> Cardinality({r \in R : r.s.host = h})]
SumBy(R)            == [h \in {r.s.host : r \in R} |-> SumV({r \in R : r.s.host = h})]
\* --- further routes to the same logical contents -------------------------------------------------
\* the same rows through other machinery (the replay reads them and compares with Plain; ORDER BY time DESC must
\* also arrive in descending time order, a chunked answer is the concatenation of its chunks, SELECT ... INTO
\* copies exactly the rows its source returns, PromQL range selectors return the raw samples)
OrderDesc(R)        == Plain(R)          \* SELECT * ... ORDER BY time DESC
Chunked(R)          == Plain(R)          \* chunked=true&chunk_size=n
IntoSource(R)       == Plain(R)          \* SELECT * INTO copy FROM ... GROUP BY * ; SELECT * FROM copy
SubPlain(R)         == Plain(R)          \* SELECT * FROM (SELECT value FROM ... GROUP BY *)
PromSamples(R)      == Plain(R)          \* /api/v1/query?query=m[w]  (one window per shard group)
\* LIMIT / OFFSET and ORDER BY time DESC LIMIT on ONE series (host = 'a' AND region = 'x'; how LIMIT cuts through several
\* series is the subject of C08): its newest row (ORDER BY time DESC LIMIT 1), its second-oldest row (LIMIT 1 OFFSET 1)
OfProbe(R)          == {r \in R : r.s.host = "a" /\ r.s.region = "x"}
NewestOfProbe(R)    == {r \in OfProbe(R) : \A r2 \in OfProbe(R) : r2.t <= r.t}
SecondOfProbe(R)    == {r \in OfProbe(R) : Cardinality({r2 \in OfProbe(R) : r2.t < r.t}) = 1}
\* the first series in tag order (GROUP BY * SLIMIT 1)
HRank(h) == CASE h = "a" -> 1 [] h = "b" -> 2 [] h = "c" -> 3 [] OTHER -> 4
RRank(x) == CASE x = "x" -> 1 [] x = "y" -> 2 [] OTHER -> 3
SRank(s) == 10 * HRank(s.host) + RRank(s.region)
FirstSeries(R)      == {r \in R : \A r2 \in R : SRank(r.s) <= SRank(r2.s)}
\* GROUP BY time with fill(): one window per shard group (positions 1..8 of the group), buckets of two units
WinBuckets(g)       == {10 * g + k : k \in {1, 3, 5, 7}}
InWin(R, g)         == {r \in R : GroupOf(r.t) = g}
InBucket(R, b)      == {r \in R : Bucket(r.t) = b}
FillZero(R)         == UNION {IF InWin(R, g) = {} THEN {}
                                ELSE {[b |-> b, c |-> Cardinality(InBucket(R, b))] : b \in WinBuckets(g)} : g \in Groups}
PrevSum(R, g, b)    == LET bs == {x \in WinBuckets(g) : x <= b /\ InBucket(R, x) # {}}
                       IN IF bs = {} THEN -1 ELSE SumV(InBucket(R, Max(bs)))     \* -1: no value yet (null)
FillPrevious(R)     == UNION {IF InWin(R, g) = {} THEN {}
                                ELSE {[b |-> b, c |-> PrevSum(R, g, b)] : b \in WinBuckets(g)} : g \in Groups}
\* sub-queries: an aggregate over a filtered inner selection, an aggregate over a grouped inner selection
SubCount(R)         == Cardinality(TagNe(R))
SubMaxBy(R)         == [h \in {r.s.host : r \in R} |-> Max({r.v : r \in {x \in R : x.s.host = h}})]
\* listings: over the live series of the named measurement instance
ShowSeries(S)       == S
ShowTagKeys(S)      == IF S = {} THEN {} ELSE {"host", "region"}
ShowTagValues(S, k) == {s[k] : s \in S}
SeriesCardinality(S)== Cardinality(S)                     \* SHOW SERIES EXACT CARDINALITY FROM rp.m
PromSeries(S)       == ShowSeries(S)                      \* /api/v1/series?match[]=m
PromLabelValues(S,k)== ShowTagValues(S, k)                \* /api/v1/label/host/values?match[]=m
\* catalogue listings: a measurement is listed, with its field, as long as it exists
ShowFieldKeys(e)    == IF e THEN {"value"} ELSE {}        \* SHOW FIELD KEYS FROM rp.m
ShowMeasurements(w) == {NameOf(i) : i \in {j \in Insts : Exists(w, j)}}   \* SHOW MEASUREMENTS [WITH MEASUREMENT =~ ...]

\* the design's expectation: every shape is a projection of the same live row set
SeriesOfRows(R) == {r.s : r \in R}

-----------------------------------------------------------------------------
\* world transformers; dv = deviation set in force for that world, memrows = rows of the memory layer
MaxTOf(R, s) == LET ts == {r.t : r \in {x \in R : x.s = s}} IN IF ts = {} THEN 0 ELSE Max(ts)

WWrite(w, i, keys, v0, dv, oldrows) ==
  LET new  == ~w.ex[i]
      g    == IF new THEN w.gen[i] + 1 ELSE w.gen[i]
      ks   == SetToSeq(keys)
      nr0  == {RowOf(ks[j][1], ks[j][2], v0 + j - 1, g) : j \in 1..Len(ks)}
      keep == {r \in w.rows[i] : <<r.s, r.t>> \notin keys}
      \* mutation seed: a re-created measurement reuses the old version suffix, the old files are visible again
      \* (reuse_version_after_finish: only once the background deletion has removed the old catalogue entry)
      back == IF new /\ ("recreate_reuses_version" \in dv \/ ("reuse_version_after_finish" \in dv /\ w.mph[i] = "none"))
                THEN oldrows ELSE {}
      \* mutation seed: a write to a series key that DROP SERIES removed lands on the removed series id and is never seen
      lost == IF "write_dropped_series_lost" \in dv /\ ~new THEN {r \in nr0 : r.s \notin w.idx[i] /\ SX(r) \in w.zomb[i]} ELSE {}
      nr   == nr0 \ lost
      rp   == RpOf(i)
      xs   == {IdxOf(GroupOf(k[2])) : k \in keys}
      \* as implemented: rows written to a series id of the deleted set through an index group that does not consult the set
      zr   == IF "late_index_unwired" \in dv /\ ~new THEN {r \in nr : SX(r) \in w.zomb[i]} ELSE {}
  IN [w EXCEPT !.ex[i] = TRUE, !.gen[i] = g,
               !.ver[i] = IF new THEN @ + 1 ELSE @,
               !.rows[i] = keep \cup nr \cup back,
               !.idx[i] = @ \cup {r.s : r \in nr} \cup {r.s : r \in back},
               !.wal[i] = {r \in @ : <<r.s, r.t>> \notin keys},
               !.nidx[rp] = IF NameOf(i) = "n" THEN "yes" ELSE @,
               \* DBPTInfo.NewMergeSetIndex: a new index group is NOT handed the policy's deleted set (the design: it is)
               !.ig[rp] = @ \cup xs,
               !.wired[rp] = IF "late_index_unwired" \in dv THEN @ ELSE @ \cup xs,
               !.zomb[i] = IF new THEN {} ELSE @,
               !.zmem[i] = IF new THEN {} ELSE {r \in @ : <<r.s, r.t>> \notin keys} \cup zr]

\* instances hit by DROP SERIES FROM i: the named one; as implemented also every other policy's
\* measurement with the same versioned name (the store request carries no policy)
DropTargets(w, i, dv) ==
  {i} \cup (IF "cross_rp_drop" \in dv
              THEN {j \in Insts : NameOf(j) = NameOf(i) /\ Usable(w, j) /\ w.ex[j] /\ w.ver[j] = w.ver[i]}
              ELSE {})

\* tag = additional cause recorded for every instance that loses rows (as-implemented world)
WDropSeries(w, i, p, dv, memrows, tag) ==
  LET T == DropTargets(w, i, dv)
      D(j)    == {s \in w.idx[j] : Sat(p, s)}
      unw     == "late_index_unwired" \in dv
      \* storeTsids: the first DROP SERIES that finds series in a policy creates the policy's deleted set and hands it to
      \* the index groups that exist at that moment
      hit     == {RpOf(j) : j \in {t \in T : D(t) # {}}}
      del2    == [r \in RPs |-> w.delidx[r] \/ r \in hit]
      wired2  == [r \in RPs |-> IF r \in hit /\ ~w.delidx[r] THEN w.ig[r] ELSE w.wired[r]]
      named(j)== {r \in w.rows[j] : r.s \in D(j)}
      \* as implemented the rows reached through an index group that does not consult the deleted set stay visible
      stay(j) == IF unw THEN {r \in named(j) : XOf(r) \notin wired2[RpOf(j)]} ELSE {}
      gone(j) == named(j) \ stay(j)
      \* mutation seed: the drop forgets the rows still in the memtable
      rm(j)   == IF "drop_forgets_memtable" \in dv THEN gone(j) \ memrows[j] ELSE gone(j)
      \* as implemented the index entries of a dropped incarnation with the same versioned name are reached too
      DT      == IF "cross_rp_drop" \in dv THEN {j \in Insts : NameOf(j) = NameOf(i) /\ Usable(w, j)} ELSE {}
      \* DropSeries.Process flushes every shard through whose index group it found series
      flushed == UNION {{<<RpOf(j), XOf(r)>> : r \in named(j)} : j \in T}
      \* series ids now in the deleted set although readable (as implemented); for the mutation seed
      \* write_dropped_series_lost the design world remembers every id it removed
      removed(j) == IF unw THEN {SX(r) : r \in stay(j)}
                    ELSE IF "write_dropped_series_lost" \in dv THEN {SX(r) : r \in named(j)} ELSE {}
  IN [w EXCEPT !.rows = [j \in Insts |-> IF j \in T THEN w.rows[j] \ rm(j) ELSE w.rows[j]],
               \* mutation seed: the tag listing keeps the dropped values
               !.idx  = [j \in Insts |-> IF j \in T /\ "taglisting_keeps_dropped" \notin dv
                                           THEN w.idx[j] \ {s \in D(j) : \A r \in stay(j) : r.s # s} ELSE w.idx[j]],
               !.ghm  = [j \in Insts |-> IF j \in T THEN w.ghm[j] \cup gone(j) ELSE w.ghm[j]],
               !.wal  = [j \in Insts |-> IF j \in T /\ "wal_replay_resurrects" \in dv
                                           THEN w.wal[j] \cup (gone(j) \cap memrows[j]) ELSE w.wal[j]],
               !.dead = [j \in Insts |-> IF j \in DT THEN {d \in w.dead[j] : ~(d.ver = w.ver[i] /\ Sat(p, d.s))} ELSE w.dead[j]],
               !.cause = [j \in Insts |-> (IF j \in T \ {i} /\ gone(j) # {} THEN w.cause[j] \cup {"cross"} ELSE w.cause[j])
                                           \cup (IF j \in T /\ stay(j) # {} THEN {"unwired"} ELSE {})
                                           \cup (IF j \in T /\ tag # "" /\ named(j) # {} THEN {tag} ELSE {})],
               !.delidx = del2, !.wired = wired2,
               !.zomb = [j \in Insts |-> IF j \in T THEN w.zomb[j] \cup removed(j) ELSE w.zomb[j]],
               !.zmem = [j \in Insts |-> {r \in w.zmem[j] : <<RpOf(j), XOf(r)>> \notin flushed}]]

\* flushNow: shard.DropMeasurement flushes the shards of the policy (with Phased this happens in the Store step)
WDropMeasurement(w, i, dv, memrows, flushNow) ==
  LET keep == IF "drop_forgets_memtable" \in dv THEN w.rows[i] \cap memrows[i] ELSE {}
  IN [w EXCEPT !.ex[i] = FALSE, !.rows[i] = keep, !.idx[i] = {r.s : r \in keep},
               !.ghm[i] = {}, !.ghq[i] = {}, !.cause[i] = {},
               \* shard.DropMeasurement flushes the whole shard: nothing of the policy is left in the log only
               !.wal = [j \in Insts |-> IF flushNow /\ RpOf(j) = RpOf(i) THEN {} ELSE w.wal[j]],
               !.zomb[i] = {},
               !.zmem = [j \in Insts |-> IF j = i \/ (flushNow /\ RpOf(j) = RpOf(i)) THEN {} ELSE w.zmem[j]],
               !.dead[i] = IF "dead_index_listed" \in dv THEN @ \cup {[ver |-> w.ver[i], s |-> s] : s \in w.idx[i]} ELSE @,
               !.nidx[RpOf(i)] = IF NameOf(i) = "n" /\ @ = "yes" THEN "maybe" ELSE @]

WDropRP(w, rp) ==
  [w EXCEPT !.rps = @ \ {rp},
            !.ex   = [j \in Insts |-> IF RpOf(j) = rp THEN FALSE ELSE w.ex[j]],
            !.ver  = [j \in Insts |-> IF RpOf(j) = rp THEN -1 ELSE w.ver[j]],
            !.rows = [j \in Insts |-> IF RpOf(j) = rp THEN {} ELSE w.rows[j]],
            !.idx  = [j \in Insts |-> IF RpOf(j) = rp THEN {} ELSE w.idx[j]],
            !.ghm  = [j \in Insts |-> IF RpOf(j) = rp THEN {} ELSE w.ghm[j]],
            !.ghq  = [j \in Insts |-> IF RpOf(j) = rp THEN {} ELSE w.ghq[j]],
            !.wal  = [j \in Insts |-> IF RpOf(j) = rp THEN {} ELSE w.wal[j]],
            !.dead = [j \in Insts |-> IF RpOf(j) = rp THEN {} ELSE w.dead[j]],
            !.cause = [j \in Insts |-> IF RpOf(j) = rp THEN {} ELSE w.cause[j]],
            !.zomb = [j \in Insts |-> IF RpOf(j) = rp THEN {} ELSE w.zomb[j]],
            !.zmem = [j \in Insts |-> IF RpOf(j) = rp THEN {} ELSE w.zmem[j]],
            !.mph  = [j \in Insts |-> IF RpOf(j) = rp THEN "none" ELSE w.mph[j]],
            !.ig[rp] = {}, !.wired[rp] = {}, !.delidx[rp] = FALSE, !.ackc[rp] = FALSE,
            !.nidx[rp] = "no"]

WCreateRP(w, rp) == [w EXCEPT !.rps = @ \cup {rp}]

WDropDatabase(w) ==
  [w EXCEPT !.db = FALSE, !.rps = {}, !.ex = [j \in Insts |-> FALSE], !.ver = [j \in Insts |-> -1],
            !.rows = NoRows, !.idx = NoRows, !.ghm = NoRows, !.ghq = NoRows,
            !.wal = NoRows, !.dead = NoRows, !.cause = NoRows, !.zomb = NoRows, !.zmem = NoRows,
            !.mph = NoPhase, !.rpph = [r \in RPs |-> "none"], !.ackc = [r \in RPs |-> FALSE],
            !.ig = [r \in RPs |-> {}], !.wired = [r \in RPs |-> {}], !.delidx = [r \in RPs |-> FALSE],
            !.nidx = [r \in RPs |-> "no"]]

WCreateDatabase(w) == [w EXCEPT !.db = TRUE, !.rps = RPs]

\* a compaction may purge rows of series marked deleted (engine/immutable/compact.go skips them)
WCompact(w) == [w EXCEPT !.ghq = [j \in Insts |-> w.ghq[j] \cup w.ghm[j]], !.ghm = NoRows]

\* a flush empties the memtable: nothing is left in the write-ahead log only
WFlush(w) == [w EXCEPT !.wal = NoRows, !.zmem = NoRows]

\* as implemented: the rows of a series dropped while they were still in the write-ahead log are replayed by the
\* next start and come back (as rows of a new series)
WRestartWal(w, dv) ==
  IF "wal_replay_resurrects" \in dv
    THEN [w EXCEPT !.rows = [j \in Insts |-> w.rows[j] \cup w.wal[j]],
                   !.idx  = [j \in Insts |-> w.idx[j] \cup {r.s : r \in w.wal[j]}],
                   !.ghm  = [j \in Insts |-> w.ghm[j] \ w.wal[j]],
                   !.ghq  = [j \in Insts |-> w.ghq[j] \ w.wal[j]],
                   !.cause = [j \in Insts |-> IF w.wal[j] # {} THEN w.cause[j] \cup {"wal"} ELSE w.cause[j]],
                   !.wal  = NoRows]
    ELSE w
\* as implemented: a start hands the deleted set to every index group on disk (OpenIndexes): the rows of the series
\* ids of the deleted set that were still readable disappear now - except those that were only in the write-ahead
\* log, which the replay writes to a NEW series of the same key
WRestartIdx(w, dv) ==
  IF "late_index_unwired" \in dv
    THEN LET doomed(j) == {r \in w.rows[j] : SX(r) \in w.zomb[j]} \ w.zmem[j]
             left(j)   == w.rows[j] \ doomed(j)
         IN [w EXCEPT !.rows = [j \in Insts |-> left(j)],
                      !.idx  = [j \in Insts |-> {s \in w.idx[j] : \E r \in left(j) : r.s = s}],
                      !.zomb = NoRows, !.zmem = NoRows,
                      !.wired = w.ig, !.delidx = [r \in RPs |-> w.ig[r] # {}]]
    ELSE w
WRestartImpl(w, dv) == WRestartIdx(WRestartWal(w, dv), dv)

\* mutation seed: a restart resurrects the series dropped by DROP SERIES
WRestart(w, dv, dr) ==
  IF "restart_resurrects" \in dv
    THEN [w EXCEPT !.rows = [j \in Insts |-> w.rows[j] \cup {d.r : d \in {x \in dr : x.i = j /\ x.how = "series" /\ x.g = w.gen[j] /\ w.ex[j]}}],
                   !.idx  = [j \in Insts |-> w.idx[j]  \cup {d.r.s : d \in {x \in dr : x.i = j /\ x.how = "series" /\ x.g = w.gen[j] /\ w.ex[j]}}]]
    ELSE WRestartIdx(w, dv)

\* drop_series_volatile: DROP SERIES is acknowledged when its series ids are in the memory of the deleted-set table
\* (MergeSetIndex.WriteDeleteTsids -> Table.AddItems); the table writes them out within the next second or two.  A kill
\* before that loses the record: everything the statement removed is back after the start.
Snap(w) == [on |-> TRUE, rows |-> w.rows, idx |-> w.idx, ghm |-> w.ghm, ghq |-> w.ghq, zomb |-> w.zomb, cause |-> w.cause,
            dead |-> w.dead]
NP(w) == [w EXCEPT !.pre = NoPre]
Volatile(w0, w1, dv) == IF "drop_series_volatile" \in dv THEN [w1 EXCEPT !.pre = Snap(w0)] ELSE NP(w1)
UndoLast(w, dv) ==
  IF "drop_series_volatile" \in dv /\ w.pre.on
    THEN [w EXCEPT !.rows = w.pre.rows, !.idx = w.pre.idx, !.ghm = w.pre.ghm, !.ghq = w.pre.ghq, !.zomb = w.pre.zomb,
                   !.dead = w.pre.dead,
                   !.cause = [j \in Insts |-> IF w.pre.rows[j] # w.rows[j] \/ w.pre.idx[j] # w.idx[j]
                                                 THEN w.pre.cause[j] \cup {"volatile"} ELSE w.pre.cause[j]],
                   !.pre = NoPre]
    ELSE NP(w)

-----------------------------------------------------------------------------
\* layers of the design world
MemRows  == [i \in Insts |-> loc[i].mem]
AllLoc(i) == loc[i].mem \cup loc[i].fl \cup loc[i].oo \cup loc[i].co
Without(l, R) == [mem |-> l.mem \ R, fl |-> l.fl \ R, oo |-> l.oo \ R, co |-> l.co \ R]
\* layers follow the world: rows no longer live leave their layer, new rows enter the memtable
LocAfter(w2) == [i \in Insts |-> LET l == Without(loc[i], AllLoc(i) \ w2.rows[i])
                                 IN [l EXCEPT !.mem = @ \cup (w2.rows[i] \ AllLoc(i))]]
\* flush: a memtable row goes to an ordered file if it is newer than everything flushed of its
\* series, else to an out-of-order file
FlushLoc(is) == [i \in Insts |->
   IF i \in is
     THEN LET filed == loc[i].fl \cup loc[i].co \cup loc[i].oo
              ord   == {r \in loc[i].mem : r.t > MaxTOf(filed, r.s)}
          IN [mem |-> {}, fl |-> loc[i].fl \cup ord, oo |-> loc[i].oo \cup (loc[i].mem \ ord), co |-> loc[i].co]
     ELSE loc[i]]
CompactLoc == [i \in Insts |-> [mem |-> loc[i].mem, fl |-> {}, oo |-> {}, co |-> loc[i].co \cup loc[i].fl \cup loc[i].oo]]

-----------------------------------------------------------------------------
\* export helpers (sets become sequences; the replay canonicalises the order)
RowJ(r)   == [h |-> r.s.host, r |-> r.s.region, t |-> r.t, v |-> r.v]
RowsJ(R)  == SetToSeq({RowJ(r) : r \in R})
TVJ(R)    == SetToSeq({[t |-> r.t, v |-> r.v] : r \in R})
FunJ(f, V(_)) == SetToSeq({[h |-> h, x |-> V(f[h])] : h \in DOMAIN f})
Id(x) == x
SerJ(S)   == SetToSeq({[h |-> s.host, r |-> s.region] : s \in S})

ShapesOf(R, k) ==
  [plain |-> RowsJ(Plain(R)), eq |-> RowsJ(TagEq(R)), ne |-> RowsJ(TagNe(R)), re |-> RowsJ(TagRe(R)),
   nre |-> RowsJ(TagNre(R)), or |-> RowsJ(TagOr(R)), and |-> RowsJ(TagAnd(R)),
   ff |-> RowsJ(FieldFilter(R, k)),
   gtag |-> FunJ(GroupByTag(R), TVJ), gtime |-> SetToSeq({[b |-> b, c |-> GroupByTime(R)[b]] : b \in DOMAIN GroupByTime(R)}),
   cnt |-> Count(R), sum |-> SumV(R), cntg |-> FunJ(CountBy(R), Id), sumg |-> FunJ(SumBy(R), Id),
   cntre |-> Count(TagRe(R)),
   last |-> RowsJ(NewestOfProbe(R)), lim |-> RowsJ(SecondOfProbe(R)), slim |-> RowsJ(FirstSeries(R)),
   fill0 |-> SetToSeq(FillZero(R)), fillp |-> SetToSeq(FillPrevious(R)),
   subcnt |-> SubCount(R), submax |-> FunJ(SubMaxBy(R), Id)]

ListingOf(S, e) == [series |-> SerJ(ShowSeries(S)), tkeys |-> SetToSeq(ShowTagKeys(S)),
                    thost |-> SetToSeq(ShowTagValues(S, "host")), tregion |-> SetToSeq(ShowTagValues(S, "region")),
                    scard |-> SeriesCardinality(S), fkeys |-> SetToSeq(ShowFieldKeys(e))]

\* design expectation after an action (world w): per measurement instance every selection shape over its live
\* rows and every listing over its live series; the measurements of the database
ExpOf(w, k) == [k |-> k,
                inst |-> [i \in Insts |-> [sel |-> ShapesOf(Live(w, i), k), list |-> ListingOf(LiveIdx(w, i), Exists(w, i))]],
                meas |-> SetToSeq(ShowMeasurements(w))]

\* what the as-implemented world predicts: live rows and series, rows of deleted series still on disk (must /
\* maybe), whether scans by measurement name skip the deleted set (entries of "n" follow those of "m"), the
\* version suffix (listings and DROP SERIES reach every policy holding the same versioned name)
NameScanLeak(w, i) == IF "name_scan_leak" \in ImplDev /\ NameOf(i) = "m" /\ Usable(w, i) THEN w.nidx[RpOf(i)] ELSE "no"
Flag(d) == IF d \in ImplDev THEN "yes" ELSE "no"
YN(b) == IF b THEN "yes" ELSE "no"
ImpOf(w) == [inst |-> [i \in Insts |-> [live |-> RowsJ(Live(w, i)),
                                         ser  |-> SerJ(LiveIdx(w, i)),
                                         ex   |-> IF Usable(w, i) /\ w.ex[i] THEN "yes" ELSE "no",
                                         ver  |-> w.ver[i],
                                         usable |-> IF Usable(w, i) THEN "yes" ELSE "no",
                                         dead |-> SetToSeq({[ver |-> d.ver, h |-> d.s.host, r |-> d.s.region] : d \in w.dead[i]}),
                                         cause |-> SetToSeq(w.cause[i]),
                                         gm |-> RowsJ(IF Usable(w, i) /\ w.ex[i] THEN w.ghm[i] ELSE {}),
                                         gq |-> RowsJ(IF Usable(w, i) /\ w.ex[i] THEN w.ghq[i] ELSE {}),
                                         scan |-> NameScanLeak(w, i)]],
             rp |-> [r \in RPs |-> [ackc |-> YN(w.ackc[r]), ph |-> w.rpph[r],
                                    ig |-> SetToSeq(w.ig[r]), wired |-> SetToSeq(w.wired[r])]],
             dbph |-> w.dbph,
             flags |-> [resuf |-> Flag("or_suffix_leak"), schema |-> Flag("tagkeys_from_schema"),
                        listrp |-> Flag("listing_ignores_rp"), slimit |-> Flag("slimit_ignored"),
                        timedrop |-> Flag("drop_series_time_ignored"), busyack |-> Flag("create_busy_acked")]]

LayersJ == [i \in Insts |-> [mem |-> Cardinality(loc'[i].mem), fl |-> Cardinality(loc'[i].fl),
                             oo |-> Cardinality(loc'[i].oo), co |-> Cardinality(loc'[i].co)]]

Log(a, args) == hist' = IF FullLog
                          THEN Append(hist, [a |-> a, args |-> args, exp |-> ExpOf(wd', nv' \div 2), imp |-> ImpOf(wi'),
                                             lay |-> LayersJ])
                          ELSE Append(hist, [a |-> a])

PredJ(p) == [k |-> p.k, t1 |-> p.t1, v1 |-> SetToSeq(p.v1), t2 |-> p.t2, v2 |-> SetToSeq(p.v2)]

-----------------------------------------------------------------------------
Init == /\ wd = InitWorld /\ wi = InitWorld /\ loc = EmptyLoc /\ dropped = {} /\ nv = 1 /\ nw = 0
        /\ gk = 0 /\ seg = 0 /\ hist = <<>>

Local  == /\ (FreeGlobals \/ seg < SegMax \/ gk >= Len(Skeleton))
          /\ seg' = seg + 1 /\ gk' = gk
Global(a) == /\ (FreeGlobals \/ (gk < Len(Skeleton) /\ Skeleton[gk + 1] = a))
             /\ seg' = 0 /\ gk' = gk + 1

\* rows a drop names, by the design rule (independent of Dev)
NamedSeries(i, p) == {r \in wd.rows[i] : Sat(p, r.s)}
Tag(i, R, how) == {[i |-> i, g |-> r.g, r |-> r, how |-> how] : r \in R}
\* rows of earlier generations of i (for the mutation seeds recreate_reuses_version / reuse_version_after_finish)
OldRows(i) == {d.r : d \in {x \in dropped : x.i = i /\ x.how = "measurement"}}

\* (overwriting a live row is the subject of C02: here a write never hits the key of a LIVE row; the key of a
\* dropped row is written again freely - that is the "fresh series" clause)
Occupied(i) == {<<r.s, r.t>> : r \in wd.rows[i] \cup wi.rows[i]}
Write(i, keys) ==
  /\ Usable(wd, i) /\ nw < MaxWrites /\ Local
  /\ keys \cap Occupied(i) = {}
  /\ wd' = NP(WWrite(wd, i, keys, nv, Dev, OldRows(i)))
  /\ wi' = NP(WWrite(wi, i, keys, nv, ImplDev \cap {"late_index_unwired"}, {}))
  /\ loc' = LocAfter(wd')
  /\ nv' = nv + Cardinality(keys) /\ nw' = nw + 1
  /\ UNCHANGED dropped
  /\ Log("Write", [i |-> i, rows |-> RowsJ({r \in wi'.rows[i] : r.v >= nv})])

\* a write to a measurement whose database or retention policy is gone (or being deleted): refused, nothing changes
RefusedRows(i, keys) == LET ks == SetToSeq(keys)
                        IN {RowOf(ks[j][1], ks[j][2], nv + j - 1, 0) : j \in 1..Len(ks)}
WriteRefused(i, keys) ==
  /\ ~Usable(wd, i) /\ Local
  /\ nv' = nv + Cardinality(keys)
  /\ wd' = NP(wd) /\ wi' = NP(wi)
  /\ UNCHANGED <<loc, dropped, nw>>
  /\ Log("WriteRefused", [i |-> i, rows |-> RowsJ(RefusedRows(i, keys))])

DropSeries(i, p) ==
  /\ Usable(wd, i) /\ wd.ex[i] /\ Usable(wi, i) /\ wi.ex[i] /\ Local
  /\ wd' = Volatile(wd, WDropSeries(wd, i, p, Dev, MemRows, ""), Dev)
  /\ wi' = Volatile(wi, WDropSeries(wi, i, p, ImplDev, MemRows, ""), ImplDev)
  /\ loc' = LocAfter(wd')
  /\ dropped' = dropped \cup Tag(i, NamedSeries(i, p), "series")
  /\ UNCHANGED <<nv, nw>>
  /\ Log("DropSeries", [i |-> i, p |-> PredJ(p)])

\* DROP SERIES WHERE ... without FROM is rejected by the executor: not acknowledged, nothing changes
DropSeriesNoFrom(p) ==
  /\ wd.db /\ Local
  /\ wd' = NP(wd) /\ wi' = NP(wi)
  /\ UNCHANGED <<loc, dropped, nv, nw>>
  /\ Log("DropSeriesNoFrom", [p |-> PredJ(p)])

\* DROP SERIES FROM i WHERE <p> AND time <op> <t>: there is no time-bounded DROP SERIES (InfluxQL: "DROP SERIES doesn't
\* support time in WHERE clause"); the design refuses the statement and nothing changes.  As implemented
\* (drop_series_time_ignored) it is acknowledged and the time condition is ignored: the whole series go.
DropSeriesTime(i, p, op, t) ==
  /\ Usable(wd, i) /\ wd.ex[i] /\ Usable(wi, i) /\ wi.ex[i] /\ Local
  /\ wd' = IF "drop_series_time_ignored" \in Dev THEN Volatile(wd, WDropSeries(wd, i, p, Dev, MemRows, ""), Dev) ELSE NP(wd)
  /\ wi' = IF "drop_series_time_ignored" \in ImplDev THEN Volatile(wi, WDropSeries(wi, i, p, ImplDev, MemRows, "timedrop"), ImplDev)
                                                       ELSE NP(wi)
  /\ loc' = LocAfter(wd')
  /\ UNCHANGED <<dropped, nv, nw>>
  /\ Log("DropSeriesTime", [i |-> i, p |-> PredJ(p), op |-> op, t |-> t])

\* DELETE FROM i WHERE ... and DROP SHARD n are answered "unsupported command": nothing changes
Unsupported(what, i) ==
  /\ wd.db /\ Local
  /\ wd' = NP(wd) /\ wi' = NP(wi)
  /\ UNCHANGED <<loc, dropped, nv, nw>>
  /\ Log("Unsupported", [what |-> what, i |-> i])

\* ---- wholesale drops, in one step (Phased = FALSE) ------------------------------------------------------------
\* shard.DropMeasurement flushes the whole shard first: the other measurements of the policy lose their memtable
DropMeasurement(i) ==
  /\ ~Phased /\ Usable(wd, i) /\ wd.ex[i] /\ Local
  /\ wd' = NP(WDropMeasurement(wd, i, Dev, MemRows, TRUE))
  /\ wi' = NP(WDropMeasurement(wi, i, ImplDev, NoRows, TRUE))
  /\ loc' = LET fl == FlushLoc(InstsOfRp(RpOf(i)) \ {i})
            IN [j \in Insts |-> IF j = i THEN Without(loc[j], AllLoc(j) \ wd'.rows[j]) ELSE fl[j]]
  /\ dropped' = dropped \cup Tag(i, wd.rows[i], "measurement")
  /\ UNCHANGED <<nv, nw>>
  /\ Log("DropMeasurement", [i |-> i])

DropRP(rp) ==
  /\ ~Phased /\ wd.db /\ rp \in wd.rps /\ Local
  /\ wd' = NP(WDropRP(wd, rp)) /\ wi' = NP(WDropRP(wi, rp))
  /\ loc' = LocAfter(wd')
  /\ dropped' = dropped \cup UNION {Tag(i, wd.rows[i], "rp") : i \in InstsOfRp(rp)}
  /\ UNCHANGED <<nv, nw>>
  /\ Log("DropRP", [rp |-> rp])

CreateRP(rp) ==
  /\ wd.db /\ rp \notin wd.rps /\ wd.rpph[rp] = "none" /\ Local
  /\ wd' = NP(WCreateRP(wd, rp)) /\ wi' = NP(WCreateRP(wi, rp))
  /\ UNCHANGED <<loc, dropped, nv, nw>>
  /\ Log("CreateRP", [rp |-> rp])

DropDatabase ==
  /\ ~Phased /\ wd.db /\ Local
  /\ wd' = NP(WDropDatabase(wd)) /\ wi' = NP(WDropDatabase(wi))
  /\ loc' = LocAfter(wd')
  /\ dropped' = dropped \cup UNION {Tag(i, wd.rows[i], "database") : i \in Insts}
  /\ UNCHANGED <<nv, nw>>
  /\ Log("DropDatabase", <<>>)

CreateDatabase ==
  /\ ~wd.db /\ wd.dbph = "none" /\ Local
  /\ wd' = NP(WCreateDatabase(wd)) /\ wi' = NP(WCreateDatabase(wi))
  /\ UNCHANGED <<loc, dropped, nv, nw>>
  /\ Log("CreateDatabase", <<>>)

\* ---- wholesale drops, in the three steps of the code (Phased = TRUE) ----------------------------------------
\* race = rows of writes that are in flight while the statement runs: whether they land before the mark (and are
\* dropped) or after it (and are refused), none of them may be readable afterwards
RaceRows(i, keys) == LET ks == SetToSeq(keys)
                     IN {RowOf(ks[j][1], ks[j][2], nv + j - 1, 0) : j \in 1..Len(ks)}
RaceJ(i, keys) == [i |-> i, rows |-> RowsJ(RaceRows(i, keys))]

DropRPMark(rp, ri, rkeys) ==
  /\ Phased /\ wd.db /\ rp \in wd.rps /\ Local
  /\ RpOf(ri) = rp
  /\ wd' = NP([WDropRP(wd, rp) EXCEPT !.rpph[rp] = "marked"])
  /\ wi' = NP([WDropRP(wi, rp) EXCEPT !.rpph[rp] = "marked"])
  /\ loc' = LocAfter(wd')
  /\ dropped' = dropped \cup UNION {Tag(i, wd.rows[i], "rp") : i \in InstsOfRp(rp)}
  /\ nv' = nv + Cardinality(rkeys) /\ UNCHANGED nw
  /\ Log("DropRPMark", [rp |-> rp, race |-> RaceJ(ri, rkeys)])

DropRPStore(rp) ==
  /\ Phased /\ wd.rpph[rp] = "marked" /\ Local
  /\ wd' = NP([wd EXCEPT !.rpph[rp] = "purged"]) /\ wi' = NP([wi EXCEPT !.rpph[rp] = "purged"])
  /\ UNCHANGED <<loc, dropped, nv, nw>>
  /\ Log("DropRPStore", [rp |-> rp])

DropRPFinish(rp) ==
  /\ Phased /\ wd.rpph[rp] = "purged" /\ Local
  \* as implemented (create_busy_acked) the acknowledged CREATE was answered from the entry that is removed now
  /\ wd' = NP([wd EXCEPT !.rpph[rp] = "none"]) /\ wi' = NP([wi EXCEPT !.rpph[rp] = "none"])
  /\ UNCHANGED <<loc, dropped, nv, nw>>
  /\ Log("DropRPFinish", [rp |-> rp])

\* CREATE RETENTION POLICY while the name is still taken by the policy being deleted: refused, nothing changes.
\* As implemented (create_busy_acked) the statement is acknowledged - Data.CheckCanCreateRetentionPolicy finds the
\* mark-deleted entry, sees equal parameters and reports "exists" - and the policy disappears a moment later.
CreateRPBusy(rp) ==
  /\ Phased /\ wd.db /\ rp \notin wd.rps /\ wd.rpph[rp] # "none" /\ Local
  /\ wd' = NP(IF "create_busy_acked" \in Dev THEN [wd EXCEPT !.ackc[rp] = TRUE] ELSE wd)
  /\ wi' = NP(IF "create_busy_acked" \in ImplDev THEN [wi EXCEPT !.ackc[rp] = TRUE] ELSE wi)
  /\ UNCHANGED <<loc, dropped, nv, nw>>
  /\ Log("CreateRPBusy", [rp |-> rp])

DropDatabaseMark(ri, rkeys) ==
  /\ Phased /\ wd.db /\ Local
  /\ wd' = NP([WDropDatabase(wd) EXCEPT !.dbph = "marked"])
  /\ wi' = NP([WDropDatabase(wi) EXCEPT !.dbph = "marked"])
  /\ loc' = LocAfter(wd')
  /\ dropped' = dropped \cup UNION {Tag(i, wd.rows[i], "database") : i \in Insts}
  /\ nv' = nv + Cardinality(rkeys) /\ UNCHANGED nw
  /\ Log("DropDatabaseMark", [race |-> RaceJ(ri, rkeys)])

DropDatabaseStore ==
  /\ Phased /\ wd.dbph = "marked" /\ Local
  /\ wd' = NP([wd EXCEPT !.dbph = "purged"]) /\ wi' = NP([wi EXCEPT !.dbph = "purged"])
  /\ UNCHANGED <<loc, dropped, nv, nw>>
  /\ Log("DropDatabaseStore", <<>>)

DropDatabaseFinish ==
  /\ Phased /\ wd.dbph = "purged" /\ Local
  /\ wd' = NP([wd EXCEPT !.dbph = "none"]) /\ wi' = NP([wi EXCEPT !.dbph = "none"])
  /\ UNCHANGED <<loc, dropped, nv, nw>>
  /\ Log("DropDatabaseFinish", <<>>)

\* CREATE DATABASE while the database of that name is being deleted: refused ("is being delete"), nothing changes
CreateDatabaseBusy ==
  /\ Phased /\ ~wd.db /\ wd.dbph # "none" /\ Local
  /\ wd' = NP(wd) /\ wi' = NP(wi)
  /\ UNCHANGED <<loc, dropped, nv, nw>>
  /\ Log("CreateDatabaseBusy", <<>>)

\* DROP MEASUREMENT: the statement marks the catalogue entry; a write may re-create the measurement (under a new
\* version) while the stores still delete the files of the old version and before the old entry is removed
DropMeasurementMark(i) ==
  /\ Phased /\ Usable(wd, i) /\ wd.ex[i] /\ wd.mph[i] = "none" /\ Local
  /\ wd' = NP([WDropMeasurement(wd, i, Dev, MemRows, FALSE) EXCEPT !.mph[i] = "marked"])
  /\ wi' = NP([WDropMeasurement(wi, i, ImplDev, NoRows, FALSE) EXCEPT !.mph[i] = "marked"])
  /\ loc' = LocAfter(wd')
  /\ dropped' = dropped \cup Tag(i, wd.rows[i], "measurement")
  /\ UNCHANGED <<nv, nw>>
  /\ Log("DropMeasurementMark", [i |-> i])

\* the stores flush the shards of the policy and delete the files of the OLD version
\* mutation seed store_purges_recreated: the files of the measurement re-created meanwhile go too
StorePurge(w, i, dv) ==
  LET w1 == [w EXCEPT !.mph[i] = "purged",
                      !.wal = [j \in Insts |-> IF RpOf(j) = RpOf(i) THEN {} ELSE w.wal[j]],
                      !.zmem = [j \in Insts |-> IF RpOf(j) = RpOf(i) THEN {} ELSE w.zmem[j]]]
  IN IF "store_purges_recreated" \in dv /\ w.ex[i] THEN [w1 EXCEPT !.rows[i] = {}, !.idx[i] = {}] ELSE w1
DropMeasurementStore(i) ==
  /\ Phased /\ wd.mph[i] = "marked" /\ Local
  /\ wd' = NP(StorePurge(wd, i, Dev)) /\ wi' = NP(StorePurge(wi, i, {}))
  /\ loc' = LET fl == FlushLoc(InstsOfRp(RpOf(i)))
            IN [j \in Insts |-> Without(fl[j], (fl[j].mem \cup fl[j].fl \cup fl[j].oo \cup fl[j].co) \ wd'.rows[j])]
  /\ UNCHANGED <<dropped, nv, nw>>
  /\ Log("DropMeasurementStore", [i |-> i])

DropMeasurementFinish(i) ==
  /\ Phased /\ wd.mph[i] = "purged" /\ Local
  /\ wd' = NP([wd EXCEPT !.mph[i] = "none"]) /\ wi' = NP([wi EXCEPT !.mph[i] = "none"])
  /\ UNCHANGED <<loc, dropped, nv, nw>>
  /\ Log("DropMeasurementFinish", [i |-> i])

\* ---- global actions --------------------------------------------------------------------------------------------
Flush ==
  /\ Global("Flush")
  /\ loc' = FlushLoc(Insts)
  /\ wi' = NP(WFlush(wi))
  /\ wd' = NP(wd)
  /\ UNCHANGED <<dropped, nv, nw>>
  /\ Log("Flush", <<>>)

Compact ==
  /\ Global("Compact")
  /\ loc' = CompactLoc
  /\ wi' = NP(WCompact(wi))
  /\ wd' = NP(wd)
  /\ UNCHANGED <<dropped, nv, nw>>
  /\ Log("Compact", <<>>)

\* neither kind of restart flushes: the memtable comes back from the write-ahead log; a background deletion that
\* was under way goes on after the start (the phases are untouched)
Restart(kind) ==
  /\ Global(kind)
  \* a kill loses the record of a DROP SERIES acknowledged immediately before it (as implemented); a clean stop writes it out
  /\ wd' = WRestart(IF kind = "RestartKill" THEN UndoLast(wd, Dev) ELSE NP(wd), Dev, dropped)
  /\ wi' = WRestartImpl(IF kind = "RestartKill" THEN UndoLast(wi, ImplDev) ELSE NP(wi), ImplDev)
  /\ loc' = LocAfter(wd')
  /\ UNCHANGED <<dropped, nv, nw>>
  /\ Log(kind, <<>>)

KeySets == {ks \in SUBSET Key : Cardinality(ks) \in 1..MaxBatch}
\* the choices offered in one step; simulation configs override them with random samples
WriteChoices == Insts \X KeySets
DropChoices  == Insts \X Preds
NoFromChoices== {Leaf("eq", "host", {"a"})}
InstChoices  == Insts
RpChoices    == RPs
Rare         == TRUE      \* simulation: the wholesale drops are offered less often
RareDb       == TRUE
TimeDropChoices   == {}   \* <<inst, pred, op, t>>
UnsupportedChoices== {}   \* <<what, inst>>
RefusedChoices    == {}   \* <<inst, keys>>
RaceChoices(rp)   == {<<CHOOSE i \in InstsOfRp(rp) : TRUE, {}>>}      \* <<inst of rp, keys in flight>>
DbRaceChoices     == {<<"rp1.m", {}>>}

Next ==
  /\ Len(hist) < Depth
  /\ \/ \E c \in WriteChoices : Write(c[1], c[2])
     \/ \E c \in DropChoices : DropSeries(c[1], c[2])
     \/ \E p \in NoFromChoices : DropSeriesNoFrom(p)
     \/ \E c \in TimeDropChoices : DropSeriesTime(c[1], c[2], c[3], c[4])
     \/ \E c \in UnsupportedChoices : Unsupported(c[1], c[2])
     \/ \E c \in RefusedChoices : WriteRefused(c[1], c[2])
     \/ \E i \in InstChoices : DropMeasurement(i)
     \/ (Rare /\ \E rp \in RpChoices : DropRP(rp))
     \/ \E rp \in RPs : CreateRP(rp)
     \/ (RareDb /\ DropDatabase)
     \/ CreateDatabase
     \/ \E i \in InstChoices : DropMeasurementMark(i)
     \/ \E i \in Insts : DropMeasurementStore(i) \/ DropMeasurementFinish(i)
     \/ (Rare /\ \E rp \in RpChoices : \E c \in RaceChoices(rp) : DropRPMark(rp, c[1], c[2]))
     \/ \E rp \in RPs : DropRPStore(rp) \/ DropRPFinish(rp) \/ CreateRPBusy(rp)
     \/ (RareDb /\ \E c \in DbRaceChoices : DropDatabaseMark(c[1], c[2]))
     \/ DropDatabaseStore \/ DropDatabaseFinish \/ CreateDatabaseBusy
     \/ Flush
     \/ Compact
     \/ Restart("RestartClean")
     \/ Restart("RestartKill")

Spec == Init /\ [][Next]_vars

-----------------------------------------------------------------------------
\* INVARIANTS (on the design world)
TypeOK == /\ \A i \in Insts : wd.rows[i] \subseteq [s : Series, t : Times, v : 1..(nv - 1), g : 1..wd.gen[i]]
          /\ \A i \in Insts : wd.idx[i] \subseteq Series
          /\ \A i \in Insts : \A r1, r2 \in wd.rows[i] : (r1.s = r2.s /\ r1.t = r2.t) => r1 = r2
          /\ \A r \in RPs : wd.wired[r] \subseteq wd.ig[r] /\ wd.ig[r] \subseteq IdxIds
          /\ wd.dbph \in {"none", "marked", "purged"}

\* the layers partition the rows
LayersOK == \A i \in Insts :
   /\ AllLoc(i) = wd.rows[i]
   /\ loc[i].mem \cap loc[i].fl = {} /\ loc[i].mem \cap loc[i].oo = {} /\ loc[i].mem \cap loc[i].co = {}
   /\ loc[i].fl \cap loc[i].oo = {} /\ loc[i].fl \cap loc[i].co = {} /\ loc[i].oo \cap loc[i].co = {}

\* every read shape is the projection of the same live row set: listings (index) and selections (rows) agree
AllShapesAgree == \A i \in Insts : LiveIdx(wd, i) = SeriesOfRows(Live(wd, i))

\* no read shape returns a dropped key, in any later state: the row-returning shapes are sub-sets /
\* aggregates of Plain, the listings are projections of the index
DroppedStaysGone ==
  \A d \in dropped :
     /\ d.r \notin Plain(Live(wd, d.i))
     /\ (d.r.s \in ShowSeries(LiveIdx(wd, d.i))) => (\E r \in Live(wd, d.i) : r.s = d.r.s)

\* rows of a re-created measurement all belong to its current generation
FreshAfterRecreate == \A i \in Insts : \A r \in Live(wd, i) : r.g = wd.gen[i]

\* the deleted-series set reaches every index group of its policy: no series id is in the set while its index
\* group does not consult it
DeletedSetEverywhere == \A r \in RPs : wd.wired[r] = wd.ig[r]

\* an acknowledged CREATE RETENTION POLICY holds: the policy exists (until a later drop)
AckedCreateHolds == \A r \in RPs : wd.ackc[r] => (wd.db /\ r \in wd.rps)

\* OthersUntouched (action property): rows the action did not name are unchanged
Named(i, r) == \E d \in dropped' \ dropped : d.i = i /\ d.r = r
OthersUntouchedStep ==
  \A i \in Insts : \A r \in wd.rows[i] :
      (r \notin wd'.rows[i]) => (Named(i, r) \/ \E r2 \in wd'.rows[i] : r2.s = r.s /\ r2.t = r.t /\ r2.v > r.v)
OthersUntouched == [][OthersUntouchedStep]_vars

\* WritesLand (action property): every row of an acknowledged write is readable afterwards - also when its
\* series key was dropped before (a fresh series) and when its measurement is being deleted (a fresh measurement)
WritesLandStep ==
  (nw' = nw + 1) => \A v \in nv..(nv' - 1) : \E i \in Insts : \E r \in Live(wd', i) : r.v = v
WritesLand == [][WritesLandStep]_vars

\* the as-implemented world keeps the same catalogue as the design
ImplCatalogue == /\ wi.db = wd.db /\ wi.rps = wd.rps /\ wi.ex = wd.ex /\ wi.gen = wd.gen
                 /\ wi.dbph = wd.dbph /\ wi.rpph = wd.rpph /\ wi.mph = wd.mph
=============================================================================
