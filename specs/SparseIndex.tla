----------------------------- MODULE SparseIndex -----------------------------
(***************************************************************************)
(* Property C20: the column-store sparse primary-key index never prunes a  *)
(* fragment that contains a row satisfying the condition.                  *)
(*                                                                         *)
(* The module is a transcription of the ClickHouse-style key-condition     *)
(* algorithm that engine/index/sparseindex ports:                          *)
(*   Build            = PKIndexWriterImpl.Build   (primary_index.go): the  *)
(*                      first key of every fragment plus the last row      *)
(*   NewKeyCondition  = NewKeyCondition / convertToRPNElem /               *)
(*                      genRPNElementByOp (condition.go, util.go): the     *)
(*                      condition tree in reverse polish notation with the *)
(*                      atoms InRange NotInRange InSet AlwaysTrue Unknown  *)
(*   Scan             = PKIndexReaderImpl.Scan: MayBeInRange ->            *)
(*                      checkInAnyRange (key-prefix hyper-rectangles) ->   *)
(*                      CheckInRange (mask algebra of mark.go over the     *)
(*                      ranges of range.go), driven by doBinarySearch or   *)
(*                      doExclusionSearch                                  *)
(* Dev = {} is the sound design and satisfies NeverSkipsMatch.  Members of *)
(* Dev switch one rule to a wrong variant.                                 *)
(*  mutation seeds (self-test: each one makes TLC find a counterexample,    *)
(*  and Distinguishes(D) below turns every one into directed test cases):  *)
(*   le_as_lt                  `<=` builds the range of `<`                *)
(*   ge_as_gt                  `>=` builds the range of `>`                *)
(*   or_as_and                 Mark.Or computed as Mark.And                *)
(*   last_fragment_off_by_one  the index entry closing the last fragment   *)
(*                             is the last row but one                     *)
(*   null_as_minus_infinity    a null index cell becomes -infinity         *)
(*   -- checkInAnyRange works IN PLACE on ONE slice of ranges `rgs` that   *)
(*      all hyper-rectangles of one MayBeInRange call share; the slips of  *)
(*      that shared state:                                                 *)
(*   stale_range_between_rectangles  checkRangeLeftRightBound does not     *)
(*                             reset rgs[prefixSize+1..] to whole ranges:  *)
(*                             the right-bound rectangle sees what the     *)
(*                             left-bound rectangle narrowed               *)
(*   left_point_stale          checkRangeLeftBound does not re-point       *)
(*                             rgs[prefixSize] to [x1]: it keeps (x1..x2)  *)
(*   right_point_stale         checkRangeRightBound does not re-point      *)
(*                             rgs[prefixSize] to [x2]: it keeps [x1]      *)
(*   last_column_open          the rectangle of the last used key column   *)
(*                             excludes its bounds                         *)
(*   -- the search procedures of primary_index.go:                         *)
(*   excl_drops_leftmost       doExclusionSearch does not push the         *)
(*                             leftmost part of a range it splits          *)
(*   bin_end_off_by_one        doBinarySearch ends the range one fragment  *)
(*                             early (End = left instead of right)         *)
(*  variants that lose precision only (TLC finds no counterexample; they   *)
(*  show what the invariant does NOT depend on):                           *)
(*   lt_as_le, and_as_or (canBeTrue grows), binary_search_always (given    *)
(*   MayCoversMatch binary search returns a contiguous cover of all        *)
(*   matching fragments whatever the condition)                            *)
(*  as-implemented behaviour of findings (known_findings.json; F-C20-1 is   *)
(*  fixed in /repo and kept as a regression seed):                         *)
(*   right_bound_overwrites    F-C20-1 checkRangeRightBound returns the    *)
(*                             mask of the last hyper-rectangle only       *)
(*   unknown_op_drops_element  F-C20-3 no RPN element for LIKE / MATCH     *)
(*   in_is_error               F-C20-3 NewKeyCondition fails on IN         *)
(*   matchphrase_as_equality   F-C20-4 MATCHPHRASE becomes the range [v,v] *)
(*  The operators take the deviation set as their first parameter `dv`, so *)
(*  that one run yields the design's selection (dv = Dev) and the          *)
(*  prediction of the as-implemented model (dv = Dev \cup AsImplemented).  *)
(***************************************************************************)
EXTENDS Integers, Sequences, FiniteSets, TLC, SequencesExt, FiniteSetsExt

CONSTANTS Ks,         \* numbers of key columns explored (subset of 1..3)
          Vals,       \* non-null key values (subset of 0..2)
          WithNull,   \* whether key cells may be null
          MaxRows,    \* rows per record
          FragSizes,  \* rows per fragment (the last fragment may be shorter)
          CondDepth,  \* depth of the condition trees enumerated exhaustively
          Depth,      \* actions per behaviour (Build, NewKeyCondition, Scan = 3)
          WithImpl,   \* also compute the prediction of the as-implemented model (export configurations)
          Dev         \* deviations; {} = the design

VARIABLES phase,  \* "init" | "built" | "cond" | "done"
          k,      \* number of key columns
          rows,   \* the sorted key record: sequence of rows, a row = sequence of k cells
          g,      \* rows per fragment
          ct,     \* per key column "ia" (integer column whose values 0,1,2 are consecutive integers) or "o" (any other)
          cond,   \* the condition tree of the query
          tb,     \* time bounds [c |-> time key column or 0, lo, hi]
          out,    \* result of Scan: [match, design, impl, implo, implmp], each but match = [fails, may, sel]
          hist

vars == <<phase, k, rows, g, ct, cond, tb, out, hist>>
view == <<phase, k, rows, g, ct, cond, tb, out>>

\* a null key cell sorts after every value and is +infinity in the index (createFieldRefFunc)
\* the value scale: -2 = -infinity, -1 = below every value, 0..2 = the values, 3 = above every value,
\* 4 = +infinity = null.  (-1 and 3 only arise as the closed form of an open integer bound, see AtomElem)
Null   == 4
PosInf == 4
NegInf == -2
KV == Vals \cup (IF WithNull THEN {Null} ELSE {})
\* the values of key column c (configurations over a tiny domain narrow single columns)
ColVals(c) == Vals
ColKV(c) == ColVals(c) \cup (IF WithNull THEN {Null} ELSE {})

Tup(kk) == {t \in [1..kk -> KV] : \A c \in 1..kk : t[c] \in ColKV(c)}

RECURSIVE LexLE(_, _, _)
LexLE(a, b, i) == IF i > Len(a) THEN TRUE
                  ELSE IF a[i] < b[i] THEN TRUE
                  ELSE IF a[i] > b[i] THEN FALSE
                  ELSE LexLE(a, b, i + 1)
RowLE(a, b) == LexLE(a, b, 1)
RowLT(a, b) == RowLE(a, b) /\ a # b

\* all sorted records of exactly n rows
RECURSIVE SortedRecs(_, _)
SortedRecs(kk, n) ==
  IF n = 1 THEN {<<t>> : t \in Tup(kk)}
  ELSE UNION {{Append(r, t) : t \in {u \in Tup(kk) : RowLE(r[Len(r)], u)}} : r \in SortedRecs(kk, n - 1)}

AllRecs(kk) == UNION {SortedRecs(kk, n) : n \in 1..MaxRows}

-----------------------------------------------------------------------------
(* Fragments and the index record: GenFixRowsPerSegment + generateColumn.    *)
NFrag(n, gg) == (n + gg - 1) \div gg
\* index row j (0-based, 0..nf): first row of fragment j; row nf = the last row
IdxRowM(dv, rs, gg, j) ==   \* mutation seed: the entry closing the last fragment is taken one row early
  IF j < NFrag(Len(rs), gg) THEN rs[j * gg + 1]
  ELSE IF "last_fragment_off_by_one" \in dv /\ Len(rs) > 1 THEN rs[Len(rs) - 1] ELSE rs[Len(rs)]
\* the key the reader compares with: a null cell is +infinity (createFieldRefFunc: SetPositiveInfinity)
IdxKey(dv, row) == IF "null_as_minus_infinity" \in dv
                   THEN TLCEval([i \in 1..Len(row) |-> IF row[i] = Null THEN NegInf ELSE row[i]]) ELSE row
Index(dv, rs, gg) == TLCEval([j \in 0..NFrag(Len(rs), gg) |-> IdxKey(dv, IdxRowM(dv, rs, gg, j))])
FragOfRow(i, gg) == (i - 1) \div gg        \* 0-based fragment of the 1-based row i

-----------------------------------------------------------------------------
(* Condition trees.                                                          *)
(*  [t |-> "cmp", c, op, v]   key column c compared with the literal v       *)
(*  [t |-> "in", c, vs]       key column c IN the set vs                     *)
(*  [t |-> "strop", c, op, v] string operator (like / match / matchphrase)   *)
(*  [t |-> "nonkey"]          an atom on a column that is not in the key     *)
(*  [t |-> "and"/"or", l, r]                                                 *)
CmpOps == {"eq", "ne", "lt", "le", "gt", "ge"}
StrOps == {"like", "match", "matchphrase"}

CmpAtoms(kk) == UNION {{[t |-> "cmp", c |-> c, op |-> o, v |-> v] : o \in CmpOps, v \in ColVals(c)} : c \in 1..kk}
InAtoms(kk)  == UNION {{[t |-> "in", c |-> c, vs |-> s] : s \in (SUBSET ColVals(c)) \ {{}}} : c \in 1..kk}
StrAtoms(kk) == UNION {{[t |-> "strop", c |-> c, op |-> o, v |-> v] : o \in StrOps, v \in ColVals(c)} : c \in 1..kk}
NonKey == [t |-> "nonkey"]

\* the atoms of the exhaustive configurations (IN, string operators in the larger ones)
ExhAtoms(kk) == CmpAtoms(kk) \cup {NonKey}

\* condition trees to depth d; AND / OR of the same two sub-trees in either order are semantically equal
\* (the mask algebra is commutative), so the exhaustive enumeration takes each unordered pair once
RECURSIVE Trees(_, _)
Trees(atoms, d) ==
  IF d = 0 THEN atoms
  ELSE LET sq == SetToSeq(Trees(atoms, d - 1))
           n  == Len(sq)
       IN atoms \cup UNION {UNION {{[t |-> o, l |-> sq[i], r |-> sq[j]] : j \in i..n} : i \in 1..n} : o \in {"and", "or"}}

IsAtom(c) == c.t \notin {"and", "or"}

RECURSIVE HasMatchPhrase(_)
HasMatchPhrase(c) == IF c.t \in {"and", "or"} THEN HasMatchPhrase(c.l) \/ HasMatchPhrase(c.r)
                     ELSE c.t = "strop" /\ c.op = "matchphrase"

\* the key columns a string operator is applied to (these must be string columns)
RECURSIVE StrCols(_)
StrCols(c) == IF c.t \in {"and", "or"} THEN StrCols(c.l) \cup StrCols(c.r)
              ELSE IF c.t = "strop" THEN {c.c} ELSE {}

\* Row-level truth (the oracle): comparisons with null are false; an atom on a non-key column, and a
\* string operator on a non-null cell, MAY be true (the index must allow for it).
EvalAtom(a, row) ==
  CASE a.t = "cmp" ->
         LET x == row[a.c] IN
         IF x = Null THEN FALSE
         ELSE (CASE a.op = "eq" -> x = a.v   [] a.op = "ne" -> x # a.v
                [] a.op = "lt" -> x < a.v   [] a.op = "le" -> x <= a.v
                [] a.op = "gt" -> x > a.v   [] a.op = "ge" -> x >= a.v)
    [] a.t = "in"     -> row[a.c] \in a.vs
    [] a.t = "strop"  -> row[a.c] # Null
    [] a.t = "nonkey" -> TRUE

RECURSIVE Eval(_, _)
Eval(c, row) == IF c.t = "and" THEN Eval(c.l, row) /\ Eval(c.r, row)
                ELSE IF c.t = "or" THEN Eval(c.l, row) \/ Eval(c.r, row)
                ELSE EvalAtom(c, row)

\* NewKeyCondition(timeCondition, condition, ..): the time bounds are ANDed in front
\* (binaryfilterfunc.GetTimeCondition + CombineConditionWithAnd)
NoTB == [c |-> 0, lo |-> NegInf, hi |-> PosInf]
TimeCond(t) ==
  LET ge == [t |-> "cmp", c |-> t.c, op |-> "ge", v |-> t.lo]
      le == [t |-> "cmp", c |-> t.c, op |-> "le", v |-> t.hi]
  IN IF t.lo = t.hi THEN [t |-> "cmp", c |-> t.c, op |-> "eq", v |-> t.lo]
     ELSE IF t.lo # NegInf /\ t.hi # PosInf THEN [t |-> "and", l |-> ge, r |-> le]
     ELSE IF t.lo # NegInf THEN ge ELSE le
HasTB(t) == t.c # 0 /\ (t.lo # NegInf \/ t.hi # PosInf)
FullCond(c, t) == IF HasTB(t) THEN [t |-> "and", l |-> TimeCond(t), r |-> c] ELSE c

-----------------------------------------------------------------------------
(* Ranges (range.go) and masks (mark.go).                                    *)
Rg(l, r, li, ri) == [l |-> l, r |-> r, li |-> li, ri |-> ri]
Point(x) == Rg(x, x, TRUE, TRUE)
Whole == Rg(NegInf, PosInf, FALSE, FALSE)                  \* createWholeRangeWithoutBound
\* createLeftBounded / createRightBounded (the special case [+Inf, +Inf] / [-Inf, -Inf] included)
LeftB(x, li)  == Rg(x, PosInf, li, li /\ x = PosInf)
RightB(x, ri) == Rg(NegInf, x, ri /\ x = NegInf, ri)

LeftLEQ(rg, x)  == rg.l < x \/ (rg.li /\ x = rg.l)
RightGEQ(rg, x) == x < rg.r \/ (rg.ri /\ x = rg.r)
RightLQ(a, b)   == a.r < b.l \/ ((~a.ri \/ ~b.li) /\ b.l = a.r)
RgIntersects(a, b) == ~(RightLQ(a, b) \/ RightLQ(b, a))
RgContains(a, b)   == LeftLEQ(a, b.l) /\ RightGEQ(a, b.r)

M(t, f) == [t |-> t, f |-> f]          \* (canBeTrue, canBeFalse)
MAnd(dv, a, b) == IF "and_as_or" \in dv THEN M(a.t \/ b.t, a.f /\ b.f) ELSE M(a.t /\ b.t, a.f \/ b.f)
MOr(dv, a, b) == IF "or_as_and" \in dv THEN M(a.t /\ b.t, a.f \/ b.f) ELSE M(a.t \/ b.t, a.f /\ b.f)
MNot(a)    == M(a.f, a.t)
Complete(a) == a.t /\ a.f
ConsiderOnlyBeTrue == M(FALSE, TRUE)

-----------------------------------------------------------------------------
(* RPN elements (genRPNElementByOp).                                         *)
\* createRightBounded / createLeftBounded turn an open bound on an INTEGER column into a closed one
\* (Range.turnOpenRangeIntoClosed: (.., v) becomes (.., v-1]); for a column whose values are consecutive
\* integers v-1 is the previous value, otherwise it lies strictly between two values and behaves like
\* the open bound.
AtomElem(dv, ty, a) ==
  CASE a.t = "cmp" ->
        (CASE a.op = "eq" -> [e |-> "InRange",    c |-> a.c, rg |-> Point(a.v)]
           [] a.op = "ne" -> [e |-> "NotInRange", c |-> a.c, rg |-> Point(a.v)]
           [] a.op = "lt" -> [e |-> "InRange",    c |-> a.c, rg |-> IF "lt_as_le" \in dv THEN RightB(a.v, TRUE)
                                                                     ELSE IF ty[a.c] = "ia" THEN RightB(a.v - 1, TRUE)
                                                                     ELSE RightB(a.v, FALSE)]
           [] a.op = "le" -> [e |-> "InRange",    c |-> a.c, rg |-> RightB(a.v, "le_as_lt" \notin dv)]
           [] a.op = "gt" -> [e |-> "InRange",    c |-> a.c, rg |-> IF ty[a.c] = "ia" THEN LeftB(a.v + 1, TRUE)
                                                                     ELSE LeftB(a.v, FALSE)]
           [] a.op = "ge" -> [e |-> "InRange",    c |-> a.c, rg |-> LeftB(a.v, "ge_as_gt" \notin dv)])
    [] a.t = "in"     -> [e |-> "InSet", c |-> a.c, vs |-> a.vs]
    [] a.t = "strop"  -> IF a.op = "matchphrase" /\ "matchphrase_as_equality" \in dv
                           THEN [e |-> "InRange", c |-> a.c, rg |-> Point(a.v)]
                           ELSE [e |-> "Unknown", c |-> a.c]
    [] a.t = "nonkey" -> [e |-> "AlwaysTrue", c |-> 0]

\* as implemented, genRPNElementByVal appends NOTHING for an operator genRPNElementByOp does not
\* know (like, match): the element is missing from the RPN
Dropped(dv, a) == a.t = "strop" /\ a.op # "matchphrase" /\ "unknown_op_drops_element" \in dv

RECURSIVE ToRPN(_, _, _)
ToRPN(dv, ty, c) == IF IsAtom(c) THEN (IF Dropped(dv, c) THEN <<>> ELSE <<AtomElem(dv, ty, c)>>)
            ELSE ToRPN(dv, ty, c.l) \o ToRPN(dv, ty, c.r) \o <<[e |-> IF c.t = "and" THEN "AND" ELSE "OR", c |-> 0]>>

IsKeyElem(e) == e.e \in {"InRange", "NotInRange", "InSet", "Unknown"}
MaxKeyIndex(rpn) == LET cs == {rpn[i].c : i \in {j \in 1..Len(rpn) : IsKeyElem(rpn[j])}}
                    IN IF cs = {} THEN 0 ELSE Max(cs)          \* 1-based; 0 = no key column used

\* does the stack machine of CheckInRange run through (exactly one mask left)?  depends on the shape only
RECURSIVE StackOK(_, _, _)
StackOK(rpn, i, depth) ==
  IF i > Len(rpn) THEN depth = 1
  ELSE IF rpn[i].e \in {"AND", "OR"} THEN depth >= 2 /\ StackOK(rpn, i + 1, depth - 1)
  ELSE StackOK(rpn, i + 1, depth + 1)

\* an InSet element makes NewKeyCondition fail as implemented (SetLiteral is not converted)
HasIn(rpn) == \E i \in 1..Len(rpn) : rpn[i].e = "InSet"

ElemMask(e, rgs) ==
  CASE e.e = "InRange"    -> M(RgIntersects(e.rg, rgs[e.c]), ~RgContains(e.rg, rgs[e.c]))
    [] e.e = "NotInRange" -> MNot(M(RgIntersects(e.rg, rgs[e.c]), ~RgContains(e.rg, rgs[e.c])))
    [] e.e = "InSet"      -> M(\E v \in e.vs : RgIntersects(Point(v), rgs[e.c]),
                               ~(\E v \in e.vs : RgContains(Point(v), rgs[e.c])))
    [] e.e = "Unknown"    -> M(TRUE, TRUE)
    [] e.e = "AlwaysTrue" -> M(TRUE, FALSE)

\* CheckInRange: the stack machine over the RPN (only called on well-formed RPN)
RECURSIVE RunRPN(_, _, _, _, _)
RunRPN(dv, rpn, i, st, rgs) ==
  IF i > Len(rpn) THEN st[1]
  ELSE LET e == rpn[i] n == Len(st) IN
       IF e.e = "AND" THEN RunRPN(dv, rpn, i + 1, Append(SubSeq(st, 1, n - 2), MAnd(dv, st[n - 1], st[n])), rgs)
       ELSE IF e.e = "OR" THEN RunRPN(dv, rpn, i + 1, Append(SubSeq(st, 1, n - 2), MOr(dv, st[n - 1], st[n])), rgs)
       ELSE RunRPN(dv, rpn, i + 1, Append(st, ElemMask(e, rgs)), rgs)

CheckInRange(dv, rpn, rgs) == RunRPN(dv, rpn, 1, <<>>, rgs)

-----------------------------------------------------------------------------
(* checkInAnyRange: the condition over the keys between two index entries L  *)
(* and R (both inclusive) decomposed into hyper-rectangles by key prefix:    *)
(*    (x1 .. x2) x (-inf .. +inf),  [x1] x [y1 .. +inf),  [x2] x (-inf .. y2] *)
(* p = number of key columns already fixed (prefixSize).                     *)
(*                                                                           *)
(* As written in condition.go the rectangles are NOT built one by one: there *)
(* is ONE slice of ranges `rgs` per MayBeInRange call, and every step        *)
(* (common-prefix loop, checkRangeLeftRightBound, checkRangeLeftBound,       *)
(* checkRangeRightBound and their recursive calls) narrows or resets single  *)
(* entries of it IN PLACE before it calls CheckInRange.  What a later        *)
(* rectangle sees in the columns it does not assign is what the earlier      *)
(* steps left there.  The transcription therefore threads the slice through: *)
(* every step returns [m |-> its mask, rgs |-> the slice as it leaves it].   *)
(* The algorithm is right because checkRangeLeftRightBound RESETS the        *)
(* columns behind prefixSize to whole ranges, and because the left / right   *)
(* bound steps re-point column prefixSize before they recurse.               *)
RECURSIVE PrefixEnd(_, _, _, _)
PrefixEnd(L, R, p, ks) == IF p < ks /\ L[p + 1] = R[p + 1] THEN PrefixEnd(L, R, p + 1, ks) ELSE p

MR(m, rgs) == [m |-> m, rgs |-> rgs]

RECURSIVE AnyRange(_, _, _, _, _, _, _, _, _)
AnyRange(dv, rpn, ks, L, R, lb, rb, rgs0, p0) ==
  IF ~lb /\ ~rb THEN MR(CheckInRange(dv, rpn, rgs0), rgs0)
  ELSE
    \* the common-prefix loop: rgs[prefixSize] = [x, x] while the two keys agree
    LET p    == IF lb /\ rb THEN PrefixEnd(L, R, p0, ks) ELSE p0
        rgs1 == TLCEval([i \in 1..ks |-> IF i > p0 /\ i <= p THEN Point(L[i]) ELSE rgs0[i]])
    IN
    IF p = ks THEN MR(CheckInRange(dv, rpn, rgs1), rgs1)
    ELSE
      LET c == p + 1 IN
      IF c = ks
      THEN \* checkRangeLeftRightBound, prefixSize+1 == keySize: the last used column, bounds included
           LET cl   == "last_column_open" \notin dv
               rgs2 == [rgs1 EXCEPT ![c] = IF lb /\ rb THEN Rg(L[c], R[c], cl, cl)
                                           ELSE IF lb THEN LeftB(L[c], cl) ELSE RightB(R[c], cl)]
           IN MR(CheckInRange(dv, rpn, rgs2), rgs2)
      ELSE
        \* checkRangeLeftRightBound: (x1 .. x2) x whole ranges; the loop that resets rgs[prefixSize+1..]
        LET mid  == IF lb /\ rb THEN Rg(L[c], R[c], FALSE, FALSE)
                    ELSE IF lb THEN LeftB(L[c], FALSE) ELSE RightB(R[c], FALSE)
            rgsM == TLCEval([i \in 1..ks |-> IF i = c THEN mid
                                             ELSE IF i > c /\ "stale_range_between_rectangles" \notin dv THEN Whole
                                             ELSE rgs1[i]])
            m0   == MOr(dv, ConsiderOnlyBeTrue, CheckInRange(dv, rpn, rgsM))
        IN
        IF Complete(m0) THEN MR(m0, rgsM)
        ELSE
          \* checkRangeLeftBound: rgs[prefixSize] = [x1], recursion with the left keys only
          LET rgsLin == IF "left_point_stale" \in dv THEN rgsM ELSE [rgsM EXCEPT ![c] = Point(L[c])]
              lres   == IF lb THEN AnyRange(dv, rpn, ks, L, R, TRUE, FALSE, rgsLin, c) ELSE MR(m0, rgsM)
              mL     == IF lb THEN MOr(dv, m0, lres.m) ELSE m0
          IN
          IF lb /\ Complete(mL) THEN MR(mL, lres.rgs)
          ELSE IF ~rb THEN MR(mL, lres.rgs)
          ELSE \* checkRangeRightBound: rgs[prefixSize] = [x2], recursion with the right keys only, on the
               \* slice as the left-bound step left it
               LET rgsRin == IF "right_point_stale" \in dv THEN lres.rgs ELSE [lres.rgs EXCEPT ![c] = Point(R[c])]
                   rres   == AnyRange(dv, rpn, ks, L, R, FALSE, TRUE, rgsRin, c)
               IN IF "right_bound_overwrites" \in dv
                    THEN MR(rres.m, rres.rgs)    \* F-C20-1 (fixed): checkRangeRightBound returned `mark`, not `res`
                    ELSE MR(MOr(dv, mL, rres.m), rres.rgs)

\* MayBeInRange over the index entries s..e (0-based): may a row of the fragments s..e-1 satisfy the condition
\* (a fresh slice of whole ranges per call)
MayBe(dv, rpn, ks, idx, s, e) ==
  AnyRange(dv, rpn, ks, idx[s], idx[e], TRUE, TRUE, TLCEval([i \in 1..ks |-> Whole]), 0).m.t

-----------------------------------------------------------------------------
(* The two search procedures of primary_index.go over a table                *)
(*   may[<<s, e>>] for 0 <= s < e <= nf.                                     *)
RECURSIVE BinLeft(_, _, _)
BinLeft(may, l, r) == IF l + 1 < r
                      THEN LET m == (l + r) \div 2 IN IF may[<<0, m>>] THEN BinLeft(may, l, m) ELSE BinLeft(may, m, r)
                      ELSE l
RECURSIVE BinRight(_, _, _, _)
BinRight(may, l, r, nf) == IF l + 1 < r
                           THEN LET m == (l + r) \div 2 IN IF may[<<m, nf>>] THEN BinRight(may, m, r, nf) ELSE BinRight(may, l, m, nf)
                           ELSE r
BinarySearch(dv, may, nf) ==
  LET s == BinLeft(may, 0, nf)
      e == BinRight(may, s, nf, nf) - (IF "bin_end_off_by_one" \in dv THEN 1 ELSE 0)
  IN IF s < e /\ may[<<s, e>>] THEN s..(e - 1) ELSE {}

\* the ranges pushed for a range that may match and is wider than one fragment (right to left, the
\* leftmost part last so that it is popped first)
RECURSIVE Pushes(_, _, _, _, _)
Pushes(dv, s, en, step, acc) == IF en > s + step THEN Pushes(dv, s, en - step, step, Append(acc, <<en - step, en>>))
                                ELSE IF "excl_drops_leftmost" \in dv /\ acc # <<>> THEN acc
                                ELSE Append(acc, <<s, en>>)

RECURSIVE Excl(_, _, _, _, _, _)
Excl(dv, may, stack, res, coarse, minMarks) ==
  IF stack = <<>> THEN res
  ELSE
    LET n == Len(stack) mr == stack[n] rest == SubSeq(stack, 1, n - 1) IN
    IF ~may[mr] THEN Excl(dv, may, rest, res, coarse, minMarks)
    ELSE IF mr[2] = mr[1] + 1
    THEN IF res = <<>> \/ mr[1] - res[Len(res)][2] > minMarks
           THEN Excl(dv, may, rest, Append(res, mr), coarse, minMarks)
           ELSE Excl(dv, may, rest, [res EXCEPT ![Len(res)] = <<res[Len(res)][1], mr[2]>>], coarse, minMarks)
    ELSE LET step == (mr[2] - mr[1] - 1) \div coarse + 1
         IN Excl(dv, may, rest \o Pushes(dv, mr[1], mr[2], step, <<>>), res, coarse, minMarks)

ExclusionSearch(dv, may, nf, coarse, minMarks) ==
  LET res == Excl(dv, may, << <<0, nf>> >>, <<>>, coarse, minMarks)
  IN UNION {res[i][1]..(res[i][2] - 1) : i \in 1..Len(res)}

\* the reader settings replayed by the harness: name -> (force exclusion search, CoarseIndexFragment, minMarksForSeek)
SettingNames == {"autoc2m0", "exclc2m0", "exclc3m0", "exclc8m0", "exclc2m1", "exclc3m1", "autoc8m1"}
Settings == [ autoc2m0 |-> <<FALSE, 2, 0>>, exclc2m0 |-> <<TRUE, 2, 0>>, exclc3m0 |-> <<TRUE, 3, 0>>,
              exclc8m0 |-> <<TRUE, 8, 0>>, exclc2m1 |-> <<TRUE, 2, 1>>, exclc3m1 |-> <<TRUE, 3, 1>>,
              autoc8m1 |-> <<FALSE, 8, 1>> ]

\* the table may[<<s, e>>] = MayBeInRange over the index entries s..e, for all 0 <= s < e <= nf
Pairs(nf) == {pr \in (0..nf) \X (0..nf) : pr[1] < pr[2]}
MayTab(dv, rpn, idx, nf) ==
  LET ks == MaxKeyIndex(rpn)
  IN TLCEval([pr \in Pairs(nf) |-> MayBe(dv, rpn, ks, idx, pr[1], pr[2])])

\* PKIndexReaderImpl.Scan for one setting, given the table
ScanSel(dv, rpn, may, nf, st) ==
  LET bin == (MaxKeyIndex(rpn) = 1 \/ "binary_search_always" \in dv) /\ ~st[1]   \* CanDoBinarySearch: only the first key column is used
  IN IF bin THEN BinarySearch(dv, may, nf) ELSE ExclusionSearch(dv, may, nf, st[2], st[3])

MatchFrags(c, rs, gg) == {FragOfRow(i, gg) : i \in {j \in 1..Len(rs) : Eval(c, rs[j])}}

SetSeq(S) == SetToSortSeq(S, <)

\* the as-implemented model: every deviation that is an OPEN known finding. The deviations of the repaired findings
\* (right_bound_overwrites F-C20-1, unknown_op_drops_element F-C20-3 LIKE/MATCH part, matchphrase_as_equality F-C20-4)
\* stay in the specification as mutation seeds; a real result that differs from the design is then a violation.
AsImplemented == {"in_is_error"}

\* the condition fails (error or panic) instead of selecting: unbalanced RPN, or (as implemented) IN
Fails(dv, rpn) == rpn # <<>> /\ (~StackOK(rpn, 1, 0) \/ ("in_is_error" \in dv /\ HasIn(rpn)))

\* [fails, may, sel]: the outcome of Scan under the deviations dv, for the settings named in SettingNames
SelForS(dv, names, ty, c, rs, gg) ==
  LET idx == Index(dv, rs, gg)
      nf  == NFrag(Len(rs), gg)
      rpn == ToRPN(dv, ty, c)
  IN IF Fails(dv, rpn) THEN [fails |-> TRUE, may |-> <<>>, sel |-> [s \in names |-> {}]]
     ELSE IF rpn = <<>>                             \* HavePrimaryKey() = false: the index is not used
     THEN [fails |-> FALSE, may |-> [pr \in Pairs(nf) |-> TRUE], sel |-> [s \in names |-> 0..(nf - 1)]]
     ELSE LET may == MayTab(dv, rpn, idx, nf)
          IN [fails |-> FALSE, may |-> may, sel |-> [s \in names |-> ScanSel(dv, rpn, may, nf, Settings[s])]]
SelFor(dv, ty, c, rs, gg) == SelForS(dv, SettingNames, ty, c, rs, gg)

NoSel == [fails |-> FALSE, may |-> <<>>, sel |-> <<>>]

AllO(kk) == [i \in 1..kk |-> "o"]

ScanOutW(wi, names, c, rs, gg, ty) ==
  LET impl == IF wi THEN SelForS(Dev \cup AsImplemented, names, ty, c, rs, gg) ELSE NoSel
  IN
  [ match  |-> MatchFrags(c, rs, gg),
    design |-> SelForS(Dev, names, ty, c, rs, gg),                       \* the design (plus the mutation seeds in Dev)
    impl   |-> impl,                                             \* the as-implemented model
    \* the as-implemented model when no column is an integer column (the harness' predictor for F-C20-2)
    implo  |-> IF wi /\ ty # AllO(Len(ty)) THEN SelForS(Dev \cup AsImplemented, names, AllO(Len(ty)), c, rs, gg) ELSE impl,
    \* the as-implemented model without right_bound_overwrites (tells F-C20-4 from F-C20-1 when both could apply)
    implmp |-> IF wi /\ HasMatchPhrase(c)
                 THEN SelForS(Dev \cup (AsImplemented \ {"right_bound_overwrites"}), names, ty, c, rs, gg) ELSE impl ]
ScanOut(c, rs, gg, ty) == ScanOutW(WithImpl, SettingNames, c, rs, gg, ty)

\* what the Scan step of an exported behaviour carries
ScanExp(o) == [match |-> SetSeq(o.match), implerr |-> o.impl.fails,
               sel  |-> [s \in DOMAIN o.design.sel |-> SetSeq(o.design.sel[s])],
               impl |-> [s \in DOMAIN o.impl.sel |-> SetSeq(o.impl.sel[s])],
               implo |-> [s \in DOMAIN o.implo.sel |-> SetSeq(o.implo.sel[s])],
               implmp |-> [s \in DOMAIN o.implmp.sel |-> SetSeq(o.implmp.sel[s])]]

-----------------------------------------------------------------------------
Log(a, args, exp) == hist' = Append(hist, [a |-> a, args |-> args, exp |-> exp])

NoCond == [t |-> "none"]
NoOut  == [match |-> {}, design |-> NoSel, impl |-> NoSel, implo |-> NoSel, implmp |-> NoSel]

Init == /\ phase = "init" /\ k = 0 /\ rows = <<>> /\ g = 0 /\ ct = <<>> /\ cond = NoCond /\ tb = NoTB /\ out = NoOut
        /\ hist = <<>>

\* the (record, fragment size) offered to Build, the condition trees and the time bounds offered to
\* NewKeyCondition; simulation configurations override these with random samples
RecChoices(kk)   == AllRecs(kk)
CondChoices(kk)  == Trees(ExhAtoms(kk), CondDepth)
TBChoices(kk, c) == {NoTB}
TypeChoices(kk)  == {AllO(kk)}

Build(kk, rs, gg, ty) ==
  /\ phase = "init"
  /\ phase' = "built" /\ k' = kk /\ rows' = rs /\ g' = gg /\ ct' = ty
  /\ UNCHANGED <<cond, tb, out>>
  /\ Log("Build", [k |-> kk, g |-> gg, rows |-> rs, types |-> ty],
                  [nf |-> NFrag(Len(rs), gg), idx |-> [j \in 1..(NFrag(Len(rs), gg) + 1) |-> Index(Dev, rs, gg)[j - 1]]])

NewKeyCondition(c, t) ==
  /\ phase = "built"
  /\ phase' = "cond" /\ cond' = c /\ tb' = t
  /\ UNCHANGED <<k, rows, g, ct, out>>
  /\ LET rpn  == ToRPN(Dev, ct, FullCond(c, t))
         irpn == ToRPN(Dev \cup AsImplemented, ct, FullCond(c, t))
     IN Log("NewKeyCondition", [cond |-> c, tb |-> t],
            [rpnlen |-> Len(rpn), maxkey |-> MaxKeyIndex(rpn),
             implrpnlen |-> Len(irpn), implmaxkey |-> MaxKeyIndex(irpn), implerr |-> Fails(Dev \cup AsImplemented, irpn)])

Scan ==
  /\ phase = "cond"
  /\ phase' = "done"
  /\ out' = ScanOut(FullCond(cond, tb), rows, g, ct)
  /\ UNCHANGED <<k, rows, g, ct, cond, tb>>
  /\ Log("Scan", <<>>, ScanExp(out'))

Next ==
  /\ Len(hist) < Depth
  /\ \/ phase = "init"  /\ \E kk \in Ks : \E rs \in RecChoices(kk) : \E gg \in FragSizes : \E ty \in TypeChoices(kk) : Build(kk, rs, gg, ty)
     \/ phase = "built" /\ \E c \in CondChoices(k) : \E t \in TBChoices(k, c) : NewKeyCondition(c, t)
     \/ phase = "cond"  /\ Scan

Spec == Init /\ [][Next]_vars

-----------------------------------------------------------------------------
TypeOK == /\ phase \in {"init", "built", "cond", "done"}
          /\ phase # "init" => /\ k \in Ks /\ Len(rows) \in 1..MaxRows /\ g \in FragSizes
                               /\ \A i \in 1..Len(rows) : rows[i] \in Tup(k)
                               /\ ct \in [1..k -> {"o", "ia"}]

Sorted == \A i \in 1..(Len(rows) - 1) : RowLE(rows[i], rows[i + 1])

\* C20: every fragment that contains a row satisfying the condition is selected, for every setting
NeverSkipsMatch ==
  phase = "done" => /\ ~out.design.fails
                    /\ \A s \in DOMAIN out.design.sel : out.match \subseteq out.design.sel[s]

\* the reason why every search strategy and every coarse-index setting is sound: MayBeInRange holds for
\* EVERY run of fragments that contains a fragment with a matching row
MayCoversMatch ==
  phase = "done" => \A f \in out.match : \A pr \in DOMAIN out.design.may :
                       (pr[1] <= f /\ f < pr[2]) => out.design.may[pr]

\* the selection only names existing fragments
SelInBounds ==
  phase = "done" => \A s \in DOMAIN out.design.sel : out.design.sel[s] \subseteq 0..(NFrag(Len(rows), g) - 1)

-----------------------------------------------------------------------------
(* Distinguishing cases.  In a "done" state the case (record, fragment size, *)
(* key columns, condition, time bounds) DISTINGUISHES the deviation D from   *)
(* the design when the two Scans differ in a way that matters for C20: for   *)
(* some reader setting there is a fragment with a matching row that the      *)
(* design selects and D does not (or D fails where the design selects).      *)
(* Every such case is a directed test: real code that has slipped the way D  *)
(* describes must skip that fragment on it.  SparseIndexMC exports them.     *)
RECURSIVE HasOp(_, _)
HasOp(c, o) == IF c.t \in {"and", "or"} THEN HasOp(c.l, o) \/ HasOp(c.r, o) ELSE c.t = "cmp" /\ c.op = o

\* cheap necessary conditions: they only save evaluating D's Scan where it cannot differ from the design's
Relevant(D) ==
  LET fc == FullCond(cond, tb)
      mk == MaxKeyIndex(ToRPN(Dev, ct, fc))
      n  == Len(rows)
      nf == NFrag(n, g)
  IN CASE D = "le_as_lt" -> HasOp(fc, "le")
       [] D = "ge_as_gt" -> HasOp(fc, "ge")
       [] D = "lt_as_le" -> HasOp(fc, "lt")
       [] D = "last_fragment_off_by_one" -> n > 1 /\ rows[n - 1] # rows[n]
       [] D = "null_as_minus_infinity" -> \E j \in 0..nf : \E i \in 1..k : IdxRowM(Dev, rows, g, j)[i] = Null
       [] D = "stale_range_between_rectangles" -> mk >= 3
       [] D \in {"left_point_stale", "right_point_stale", "right_bound_overwrites"} -> mk >= 2
       [] D = "excl_drops_leftmost" -> nf >= 2
       [] D = "matchphrase_as_equality" -> HasMatchPhrase(fc)
       [] OTHER -> TRUE

Distinguishes(D) ==
  /\ phase = "done" /\ ~out.design.fails /\ out.match # {}
  /\ Relevant(D)
  /\ LET d == SelFor(Dev \cup {D}, ct, FullCond(cond, tb), rows, g)
     IN \/ d.fails
        \/ \E s \in DOMAIN out.design.sel : \E f \in out.match : f \in out.design.sel[s] /\ f \notin d.sel[s]
=============================================================================
