-------------------------- MODULE TraceReplication --------------------------
(***************************************************************************)
(* C05, implementation -> specification. The driver runs a TLC-generated   *)
(* fault schedule against a real 3-meta / 3-store / 1-sql cluster          *)
(* (database with REPLICAS 3) and records the client-visible history under *)
(* one global sequence counter:                                            *)
(*   Reset(cells, stores)                                                  *)
(*   WBegin(w, cells) / WErr / WAck / WFail   one sequential writer; a     *)
(*        write is one line-protocol batch giving the value w (globally    *)
(*        unique, increasing) to each cell in cells. A failed attempt      *)
(*        (WErr: HTTP error or timeout) may or may not have taken effect;  *)
(*        the driver retries the SAME batch until it is acknowledged or    *)
(*        its retry budget is exhausted (WFail).                           *)
(*   QBegin(q) / QErr(q) / QEnd(q, rows) / QFail(q)   queries through      *)
(*        ts-sql (which replica answers is the system's choice);           *)
(*        rows = [[cell, value], ...]                                      *)
(*   Kill(i) / Restart(i) / Settled(i)   SIGKILL and restart of store i;   *)
(*        Settled(i) = the driver has seen store i registered and alive    *)
(*        again and the catch-up grace period has elapsed                  *)
(*   Flush, Switch (operator moved the master partition): stuttering       *)
(*                                                                         *)
(* The stores are not observed. A write takes effect at an unknown instant *)
(* between WBegin and WAck: meanwhile a cell may hold the old or the new   *)
(* value (store[x] is the SET of values cell x may hold). After WAck the   *)
(* cell holds w. After WFail the outcome stays unknown (w remains          *)
(* possible until a later write to the cell is acknowledged).              *)
(*                                                                         *)
(* A history is accepted iff                                               *)
(*  - at most a minority of the stores is down at any time (driver rule);  *)
(*  - every query that ran while a majority of the stores was up AND       *)
(*    caught up (down \cup catching-up is at most a minority during the    *)
(*    whole query) returns, for every cell, a value the cell could hold at *)
(*    some instant of the query: never older than a write acknowledged     *)
(*    before the query began, never invented, no cell missing;             *)
(*  - a query overlapping the catch-up window of a restarted store while   *)
(*    another store is down is only required not to invent values;         *)
(*  - no write and no query exhausts its retry budget (the budget is far   *)
(*    longer than fail-over; with a majority up a leader exists again in   *)
(*    bounded time): WFail / QFail are never accepted.                     *)
(***************************************************************************)
EXTENDS Integers, Sequences, FiniteSets, TLC, Json

Trace == ndJsonDeserialize("trace.ndjson")

VARIABLES store,    \* cell -> set of values the cell may currently hold ({0} = never written)
          ever,     \* cell -> every value ever begun for the cell (and 0)
          pend,     \* the write in flight: [w, cells] or NoWrite
          open,     \* query id -> [seen: cell -> set of values held since QBegin, strict: BOOLEAN]
          cells, stores, down, catching,
          l

vars == <<store, ever, pend, open, cells, stores, down, catching, l>>

NoWrite == [w |-> 0, cells |-> {}]
IsEvent(e) == l <= Len(Trace) /\ Trace[l].ev = e /\ l' = l + 1
ToSet(s) == {s[i] : i \in 1..Len(s)}
Minority(S) == Cardinality(S) * 2 < Cardinality(stores)
\* a majority of the replicas is up and caught up
Healthy(d, c) == Minority(d \cup c)

TraceReset ==
  /\ IsEvent("Reset")
  /\ cells' = ToSet(Trace[l].cells) /\ stores' = ToSet(Trace[l].stores)
  /\ store' = [x \in ToSet(Trace[l].cells) |-> {0}]
  /\ ever' = [x \in ToSet(Trace[l].cells) |-> {0}]
  /\ pend' = NoWrite /\ open' = << >> /\ down' = {} /\ catching' = {}

WBegin ==
  /\ IsEvent("WBegin")
  /\ pend = NoWrite
  /\ LET w == Trace[l].w  xs == ToSet(Trace[l].cells) IN
       /\ xs \subseteq cells /\ xs # {}
       /\ \A x \in xs : \A v \in ever[x] : v < w            \* values of a cell increase with time
       /\ pend' = [w |-> w, cells |-> xs]
       /\ store' = [x \in cells |-> IF x \in xs THEN store[x] \cup {w} ELSE store[x]]
       /\ ever' = [x \in cells |-> IF x \in xs THEN ever[x] \cup {w} ELSE ever[x]]
       /\ open' = [q \in DOMAIN open |-> [open[q] EXCEPT !.seen = [x \in cells |-> IF x \in xs THEN @[x] \cup {w} ELSE @[x]]]]
  /\ UNCHANGED <<cells, stores, down, catching>>

\* an attempt failed or timed out: unknown outcome, the same batch is sent again
WErr ==
  /\ IsEvent("WErr") /\ pend # NoWrite
  /\ UNCHANGED <<store, ever, pend, open, cells, stores, down, catching>>

WAck ==
  /\ IsEvent("WAck") /\ pend # NoWrite
  /\ store' = [x \in cells |-> IF x \in pend.cells THEN {pend.w} ELSE store[x]]
  /\ pend' = NoWrite
  /\ UNCHANGED <<ever, open, cells, stores, down, catching>>

\* retry budget exhausted. Only acceptable if no majority was available, which the driver never lets happen.
WFail ==
  /\ IsEvent("WFail") /\ pend # NoWrite
  /\ ~Minority(down)
  /\ pend' = NoWrite
  /\ UNCHANGED <<store, ever, open, cells, stores, down, catching>>

QBegin ==
  /\ IsEvent("QBegin")
  /\ Trace[l].q \notin DOMAIN open
  /\ open' = [q \in DOMAIN open \cup {Trace[l].q} |->
                IF q = Trace[l].q THEN [seen |-> [x \in cells |-> store[x]], strict |-> Healthy(down, catching)] ELSE open[q]]
  /\ UNCHANGED <<store, ever, pend, cells, stores, down, catching>>

RowIdx(rows, x) == {i \in 1..Len(rows) : rows[i][1] = x}
ValOf(rows, x) == IF RowIdx(rows, x) = {} THEN 0 ELSE rows[CHOOSE i \in RowIdx(rows, x) : TRUE][2]

QEnd ==
  /\ IsEvent("QEnd")
  /\ Trace[l].q \in DOMAIN open
  /\ LET q == Trace[l].q
         rows == Trace[l].rows IN
       /\ \A i \in 1..Len(rows) : rows[i][1] \in cells                         \* no invented cell
       /\ \A x \in cells : Cardinality(RowIdx(rows, x)) <= 1                   \* no duplicate
       /\ \A x \in cells : ValOf(rows, x) \in ever[x]                          \* no invented value
       /\ open[q].strict => \A x \in cells : ValOf(rows, x) \in open[q].seen[x]   \* a value held during the query
       /\ open' = [qq \in DOMAIN open \ {q} |-> open[qq]]
  /\ UNCHANGED <<store, ever, pend, cells, stores, down, catching>>

\* a failed attempt of a query (the driver sends it again under a new id)
QErr ==
  /\ IsEvent("QErr")
  /\ Trace[l].q \in DOMAIN open
  /\ open' = [qq \in DOMAIN open \ {Trace[l].q} |-> open[qq]]
  /\ UNCHANGED <<store, ever, pend, cells, stores, down, catching>>

QFail ==
  /\ IsEvent("QFail") /\ ~Minority(down)
  /\ UNCHANGED <<store, ever, pend, open, cells, stores, down, catching>>

Weaken(d, c) == [q \in DOMAIN open |-> [open[q] EXCEPT !.strict = @ /\ Healthy(d, c)]]

Kill ==
  /\ IsEvent("Kill")
  /\ LET i == Trace[l].i IN
       /\ i \in stores \ down
       /\ Minority(down \cup {i})                    \* the driver never takes a majority away
       /\ down' = down \cup {i} /\ catching' = catching \ {i}
       /\ open' = Weaken(down \cup {i}, catching \ {i})
  /\ UNCHANGED <<store, ever, pend, cells, stores>>

Restart ==
  /\ IsEvent("Restart")
  /\ LET i == Trace[l].i IN
       /\ i \in down
       /\ down' = down \ {i} /\ catching' = catching \cup {i}
       /\ open' = Weaken(down \ {i}, catching \cup {i})
  /\ UNCHANGED <<store, ever, pend, cells, stores>>

Settled ==
  /\ IsEvent("Settled")
  /\ catching' = catching \ {Trace[l].i}
  /\ UNCHANGED <<store, ever, pend, open, cells, stores, down>>

Noop == /\ \/ IsEvent("Flush") \/ IsEvent("Switch") \/ IsEvent("Note")
        /\ UNCHANGED <<store, ever, pend, open, cells, stores, down, catching>>

TraceNext == TraceReset \/ WBegin \/ WErr \/ WAck \/ WFail \/ QBegin \/ QEnd \/ QErr \/ QFail \/ Kill \/ Restart \/ Settled \/ Noop

TraceInit == /\ store = << >> /\ ever = << >> /\ pend = NoWrite /\ open = << >>
             /\ cells = {} /\ stores = {} /\ down = {} /\ catching = {} /\ l = 1 /\ TLCSet(1, 1)
TraceSpec == TraceInit /\ [][TraceNext]_vars

HighWater == IF l > TLCGet(1) THEN TLCSet(1, l) ELSE TRUE
TraceAccepted == PrintT(<<"REACHED", TLCGet(1), Len(Trace)>>) /\ TLCGet(1) = Len(Trace) + 1
\* index (1-based) of the first event that could not be matched, for the report
Reached == TLCGet(1)
=============================================================================
