--------------------------- MODULE RetentionPure ---------------------------
EXTENDS Retention, Json, SequencesExt
\* ---- the pure form: Engine.ExpiredShards over (kind of shard, end of span, duration, time zone) -------
\* instants are ticks relative to the clock reading PureNow; the harness maps a tick to a unit of its
\* choice (2 s .. 1 h) and the clock reading to the middle of (PureNow-1, PureNow)
PureNow == 10
\* durations: 0 = unlimited, 1..7 ticks, and two very long FINITE durations (98 = about 250 years, 99 = the longest
\* duration the catalogue can hold, about 292 years): end + duration lies beyond every clock reading, so such a shard
\* is never expired - and beyond what 64-bit nanoseconds since 1970 can express, which is where the arithmetic of the
\* expiry test must not wrap around
LongDurations == {98, 99}
PureCases == {[kind |-> k, e |-> e, d |-> d, tz |-> z, exp |-> RawExpired(d, e, PureNow)] :
                 k \in {"open", "lazy", "nil"}, e \in 0..12, d \in (0..7) \cup LongDurations, z \in {"utc", "east", "west"}}
PureSpec == Init /\ [][FALSE]_vars
\* (a constant-level definition: TLC evaluates it once when it starts, which prints the case list)
PureExport == PrintT(<<"TRACE", ToJson(SetToSeq(PureCases))>>)
PureInv == PureExport
=============================================================================
