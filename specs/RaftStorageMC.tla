---------------------------- MODULE RaftStorageMC ----------------------------
EXTENDS RaftStorage, Json
\* Export of behaviours for replay into the real store (Mode B): one JSON line per behaviour that
\* reached the depth bound.
\* simulation: a few random Save argument tuples per step instead of all of them, so that snapshots,
\* prefix deletions and reopen are chosen about as often as saves (parameterised by the state so that
\* TLC does not cache them as constants)
SimSave(x, j) == LET withEnts == {a \in SaveArgs : a.n > 0}
                 IN IF j <= 2 /\ withEnts # {} THEN RandomElement(withEnts) ELSE RandomElement(SaveArgs)
SimSaves == {SimSave(ns, j) : j \in 1..3}
SimOne(x, S) == IF S = {} THEN {} ELSE {RandomElement(S)}
SimSnaps == SimOne(ns, {i \in 1..MaxIdx : i > st.snap.i /\ i >= RFirst(st) /\ i <= RLast(st)})
SimDels  == SimOne(ns, {i \in 1..(MaxIdx + 1) : i >= FirstI(st) - 1 /\ i <= LastRawI(st) + 1})
\* exhaustive mode: a Save carries either entries or meta data (hard state / snapshot), not both; the
\* combined form is exercised by the simulation behaviours
ExhSaves == {a \in SaveArgs : a.n = 0 \/ (a.h = 0 /\ a.si = 0)}
\* systematic export: entries-only saves of 2 or 3 entries, or a hard-state-only save; the view keeps one
\* path per distinct store state and step count
BfsSaves == {a \in SaveArgs : (a.n \in {2, 3} /\ a.h = 0 /\ a.si = 0) \/ (a.n = 0 /\ a.h = 1 /\ a.si = 0)}
viewD == <<st, open, nr, nb, Len(hist)>>
\* ---- the size-rotation family (MaxBig > 0) ----
\* exhaustive: entries-only saves (hard state / snapshot ride on saves without entries), every mask
\* systematic export: entries-only saves of 2..MaxBatch entries that carry at least one Big payload, or small
\* saves of exactly MaxBatch entries (to fill files with old tails); one path per distinct state and step count
BfsSizeSaves == {a \in SaveArgs : a.n \in 2..MaxBatch /\ a.h = 0 /\ a.si = 0}
BfsSizeMasks(n) == {bm \in Masks(n) : bm # 0 \/ n = MaxBatch}
\* simulation: per offered Save one mask with one or two Big payloads (or a third of the entries) and the
\* all-small mask, so that the MaxBig payloads are spread over several saves
SimMaskOf(x, n) == LET few == {bm \in Masks(n) : bm # 0 /\ NBig(bm, n) <= 2}
                   IN IF few = {} THEN {0} ELSE {RandomElement(few)}
SimMasks(n) == IF n = 0 THEN {0} ELSE SimMaskOf(ns, n) \cup (IF RandomElement(1..3) = 1 THEN {0} ELSE {})
Export == (Len(hist) = Depth) => PrintT(<<"TRACE", ToJson(hist)>>)
\* size-rotation family: only behaviours in which some file was rolled by size (a file that is not the
\* current one has fewer than FileCap slots)
Rolled == \E k \in 1..Len(hist) : \E j \in 1..(Len(hist[k].exp.files) - 1) : hist[k].exp.files[j].n < FileCap
\* ... in which a Huge payload was saved
HasHuge == \E k \in 1..Len(hist) : hist[k].a = "Save" /\ hist[k].args.bm # 0 /\ hist[k].args.bc = Huge
ExportHuge == (Len(hist) = Depth /\ HasHuge) => PrintT(<<"TRACE", ToJson(hist)>>)
ExportRolled == (Len(hist) = Depth /\ Rolled) => PrintT(<<"TRACE", ToJson(hist)>>)
=============================================================================
