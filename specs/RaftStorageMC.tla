---------------------------- MODULE RaftStorageMC ----------------------------
EXTENDS RaftStorage, Json
\* Export of behaviours for replay into the real store (Mode B): one JSON line per behaviour that
\* reached the depth bound.
\* simulation: a few random Save argument tuples per step instead of all of them, so that snapshots,
\* prefix deletions and reopen are chosen about as often as saves (parameterised by the state so that
\* TLC does not cache them as constants)
SimSave(x, j) == LET withEnts == {a \in SaveArgs : a.n > 0}
                 IN IF j <= 2 /\ withEnts # {} THEN RandomElement(withEnts) ELSE RandomElement(SaveArgs)
SimSaves == {SimSave(ns, j) : j \in 1..3}
SimOne(x, S) == IF S = {} THEN {} ELSE {RandomElement(S)}
SimSnaps == SimOne(ns, {i \in 1..MaxIdx : i > st.snap.i /\ i >= RFirst(st) /\ i <= RLast(st)})
SimDels  == SimOne(ns, {i \in 1..(MaxIdx + 1) : i >= FirstI(st) - 1 /\ i <= LastRawI(st) + 1})
\* exhaustive mode: a Save carries either entries or meta data (hard state / snapshot), not both; the
\* combined form is exercised by the simulation behaviours
ExhSaves == {a \in SaveArgs : a.n = 0 \/ (a.h = 0 /\ a.si = 0)}
\* systematic export: entries-only saves of 2 or 3 entries, or a hard-state-only save; the view keeps one
\* path per distinct store state and step count
BfsSaves == {a \in SaveArgs : (a.n \in {2, 3} /\ a.h = 0 /\ a.si = 0) \/ (a.n = 0 /\ a.h = 1 /\ a.si = 0)}
viewD == <<st, open, nr, Len(hist)>>
Export == (Len(hist) = Depth) => PrintT(<<"TRACE", ToJson(hist)>>)
=============================================================================
