------------------------------- MODULE PreAgg -------------------------------
(***************************************************************************)
(* C09 - aggregates served from stored statistics equal aggregates over    *)
(* the rows.                                                               *)
(*                                                                         *)
(* One shard of one measurement as a stack of layers (Layout.tla):         *)
(*   active memtable > out-of-order files (newest first) > ordered files.  *)
(* Every file holds, per series, one CHUNK: its rows sorted by time, cut   *)
(* into SEGMENTS of at most MaxSeg rows ([data] max-rows-per-segment),     *)
(* each with its time range (tssp_file_meta.go:SegmentRange), and, per     *)
(* column, the STORED statistics count, sum, min, max with the time stamps *)
(* of min and max (pre_aggregation.go, built by column_builder.go:         *)
(* BuildPreAgg whenever a file is written: flush, out-of-order merge,      *)
(* compaction).  The statistics are STATE (files[i].stats), not a derived  *)
(* quantity: the property is about their being trusted.                    *)
(*                                                                         *)
(* Actions (one per code step)                                             *)
(*   Write        shard.WriteRows                                          *)
(*   Flush        tsMemTableImpl.FlushChunks: rows newer than the series'  *)
(*                last flushed time -> ordered file, others -> out-of-     *)
(*                order file; statistics built (BuildPreAgg)               *)
(*   MergeOOO     MmsTables.MergeOutOfOrder (merge_performer.go)           *)
(*   Compact      MmsTables.LevelCompact of CompactMin level-0 files       *)
(*                (stream_compact.go / compact.go)                         *)
(*   Ask(q)       one aggregate query.  SplitEval is the read split as the *)
(*                code splits it:                                          *)
(*                  Eligible(q)  = iterators_helper.go:matchPreAgg         *)
(*                  ChunkIn      = ChunkMeta.allRowsInRange                *)
(*                  StatPart / DataPart = readSumCount, readMinMax: stored *)
(*                                 statistics iff the chunk lies inside    *)
(*                                 the range, else the segments that       *)
(*                                 overlap the range are decoded           *)
(*                  FirstOfChunk / LastOfChunk = FirstLastReader.Read      *)
(*                                 (segment walk with its two shortcuts)   *)
(*                  MemPart      = readMemTableMetaRecord                  *)
(*                  Combine      = AggregateData / the reducers            *)
(*                the oracle is QuerySem: the function applied to the rows *)
(*                the plain select returns (Filtered(data, q)).            *)
(*                                                                         *)
(* Invariant PreAggEq: under the statement's side condition (exact hint,   *)
(* field filter or time bucket present, or no (series, time) written in    *)
(* more than one flush generation - gens records the generations of every  *)
(* key) the split read equals the oracle.  Outside it the split read       *)
(* double counts (documented trade-off); such cases are generated and only *)
(* logged (hist.side = FALSE).                                             *)
(*                                                                         *)
(* Dev: mutation seeds (each must break PreAggEq)                          *)
(*   stats_for_partial_chunk   statistics used when the chunk only         *)
(*                             overlaps the range                          *)
(*   stats_not_rebuilt_compact compaction keeps the first input's          *)
(*                             statistics                                  *)
(*   stats_not_rebuilt_merge   the out-of-order merge keeps the ordered    *)
(*                             file's statistics                           *)
(*   edge_exclusive            the data path drops rows at the upper edge  *)
(*   null_counted              BuildPreAgg counts rows, not values         *)
(*   hint_ignored              the shortcut is taken despite the hint      *)
(*   bucket_ignored            ... despite GROUP BY time()                 *)
(*   filter_ignored            ... despite a field filter                  *)
(*   mem_forgotten             memtable rows are not added to the          *)
(*                             statistics of the files                     *)
(* and the as-implemented model of the open finding F-C09-1                *)
(*   firstlast_time_of_chunk   FirstLastReader reports the CHUNK's first / *)
(*                             last time for a value found in a later /    *)
(*                             earlier segment                             *)
(* of F-C09-2                                                              *)
(*   desc_shortcut_swapped     reading descending, the no-null shortcut of *)
(*                             FirstLastReader takes row 0 / the last row  *)
(*                             of a column decoded in reversed order       *)
(* of F-C09-3                                                              *)
(*   mem_last_time_of_record   the memtable part pairs the last value of a *)
(*                             column with the time of the record's last   *)
(*                             row (calls on two fields)                   *)
(* and of F-C08-2 on this path                                             *)
(*   desc_any_partial          reading descending, first / last keep the   *)
(*                             partial result by position, not by time     *)
(***************************************************************************)
EXTENDS QuerySem

CONSTANTS MaxSeg,       \* rows per segment
          CompactMin,   \* level-0 files merged by one compaction
          MaxFiles,     \* bound on files per kind
          MaxWrites,    \* bound on Write actions
          Schedule,     \* <<>>: any action at any step; else the kind of every step ("W","F","M","C","Q")
          KindChoices,  \* field kinds offered to Init
          Modes,        \* write disciplines of the client offered to Init: "any", "fresh" (no key is written twice),
                        \* "append" (every row is newer than all rows of its series)
          BatchChoices(_),   \* batches offered to Write (parameter: state dependent, see BUILDING.md)
          AskChoices(_)      \* queries offered to Ask

VARIABLES mem,     \* rows of the active memtable
          ord,     \* ordered files, oldest first: [gen, lvl, rows, stats]
          unord,   \* out-of-order files, oldest first
          gen,     \* current flush generation
          gens,    \* {<<series, time, generation>>}: where every key was written
          nw       \* writes so far

pvars == <<data, cur, hist, cm, mem, ord, unord, gen, gens, nw>>
pview == <<data, cur, cm, mem, ord, unord, gen, gens, nw>>

-----------------------------------------------------------------------------
(* rows and layers *)
KeyOf(r)    == <<r.s, r.t>>
KeysOf(R)   == {KeyOf(r) : r \in R}
RowAt(R, k) == CHOOSE r \in R : KeyOf(r) = k
NoVals      == [f \in FieldSet |-> NULL]

\* field-wise replace: the newer layer wins for every field it carries
OverRows(new, old) ==
  LET kn == KeysOf(new)  ko == KeysOf(old)
  IN {r \in old : KeyOf(r) \notin kn} \cup {r \in new : KeyOf(r) \notin ko}
     \cup {[s |-> k[1], t |-> k[2],
            v |-> [f \in FieldSet |-> IF RowAt(new, k).v[f] # NULL THEN RowAt(new, k).v[f] ELSE RowAt(old, k).v[f]]] :
           k \in kn \cap ko}

RECURSIVE OverAllRows(_)
OverAllRows(ls) == IF ls = <<>> THEN {} ELSE OverRows(Head(ls), OverAllRows(Tail(ls)))

RowsOf(files) == [i \in 1..Len(files) |-> files[i].rows]
\* what a plain select reads: memtable > out-of-order (newest first) > ordered (newest first)
Contents == OverAllRows(<<mem>> \o Reverse(RowsOf(unord)) \o Reverse(RowsOf(ord)))

SeriesIn(R) == {r.s : r \in R}
TimesOf(R, s) == {r.t : r \in {x \in R : x.s = s}}
LastFlush(s) == LET ts == UNION {TimesOf(ord[i].rows, s) : i \in 1..Len(ord)}
                IN IF ts = {} THEN -1000 ELSE Max(ts)

-----------------------------------------------------------------------------
(* chunks, segments, stored statistics *)
\* the chunk of series s in a set of rows: its rows as a sequence sorted by time
ChunkRows(R, s) == LET ts == SortAsc(TimesOf(R, s)) IN [i \in 1..Len(ts) |-> RowAt(R, <<s, ts[i]>>)]

\* segment i of a chunk of n rows covers the row positions SegLo(i)..SegHi(i, n)
NSegs(n)     == (n + MaxSeg - 1) \div MaxSeg
SegLo(i)     == (i - 1) * MaxSeg + 1
SegHi(i, n)  == IF i * MaxSeg < n THEN i * MaxSeg ELSE n

NoStat == [n |-> 0, sum |-> 0, minv |-> 0, mint |-> 0, maxv |-> 0, maxt |-> 0]
\* pre_aggregation.go: count and sum of the values, min / max with the time of their FIRST occurrence
StatOfPts(P) ==
  IF P = {} THEN NoStat
  ELSE [n |-> Cardinality(P), sum |-> PSum(P),
        minv |-> PMinV(P), mint |-> Min({p[1] : p \in {x \in P : x[2] = PMinV(P)}}),
        maxv |-> PMaxV(P), maxt |-> Min({p[1] : p \in {x \in P : x[2] = PMaxV(P)}})]

\* column_builder.go:BuildPreAgg over the rows of one chunk
BuildPreAgg(R, s, f) ==
  LET S == {r \in R : r.s = s}
      st == StatOfPts(Pts(S, f, {}))
  IN IF "null_counted" \in Dev /\ S # {} THEN [st EXCEPT !.n = Cardinality(S)] ELSE st

BuildStats(R) == [sf \in (1..NS) \X FieldSet |-> BuildPreAgg(R, sf[1], sf[2])]

MkFile(g, lvl, R) == [gen |-> g, lvl |-> lvl, rows |-> R, stats |-> BuildStats(R)]

-----------------------------------------------------------------------------
(* the write history: flush generations of every key *)
NoCrossGen   == \A x, y \in gens : (x[1] = y[1] /\ x[2] = y[2]) => x[3] = y[3]
\* no key lies in two layers NOW (implied by NoCrossGen; restored by merges and compactions)
AllLayers == <<mem>> \o RowsOf(unord) \o RowsOf(ord)
NoDupNow  == \A i, j \in 1..Len(AllLayers) : i < j => KeysOf(AllLayers[i]) \cap KeysOf(AllLayers[j]) = {}

-----------------------------------------------------------------------------
(* queries: QuerySem aggregate queries with the exact-statistics hint *)
Hinted(q) == q.hint
WithHint(q, h) == [kind |-> q.kind, sel |-> q.sel, calls |-> q.calls, dims |-> q.dims, tlo |-> q.tlo, thi |-> q.thi,
                   tagc |-> q.tagc, fldc |-> q.fldc, conn |-> q.conn, w |-> q.w, fill |-> q.fill, fillv |-> q.fillv,
                   lim |-> q.lim, off |-> q.off, hint |-> h]

\* iterators_helper.go:matchPreAgg - calls only (all seven functions are pre-aggregate calls; mean = sum / count),
\* no interval, no field filter, no exact hint
Eligible(q, dv) ==
  /\ q.kind = "agg"
  /\ q.w = NONE    \/ "bucket_ignored" \in dv
  /\ q.fldc.k = "none" \/ "filter_ignored" \in dv
  /\ ~q.hint       \/ "hint_ignored" \in dv

\* the statement's side condition
SideCond(q) == q.hint \/ q.fldc.k # "none" \/ q.w # NONE \/ NoCrossGen

\* The read context rc of the split read: the deviations in force plus the flag "read_descending" (ReadContext.Ascending
\* = FALSE).  An ORDER BY time DESC query reads descending only with GROUP BY tags: NewQuerySchemaWithSources turns an
\* eligible query without GROUP BY ascending.
RDesc == "read_descending"
ReadCtx(q, dv, desc) == IF desc /\ q.dims # <<>> THEN dv \cup {RDesc} ELSE dv

\* the query's time range as the engine sees it (inclusive bounds; NONE = unbounded)
TLo(q) == IF q.tlo = NONE THEN -1000000 ELSE q.tlo
THi(q) == IF q.thi = NONE THEN 1000000 ELSE q.thi - 1
\* the data path's time filter (FilterByTime / findRowIdxRange)
InTR(q, t, dv) == t >= TLo(q) /\ (IF "edge_exclusive" \in dv /\ q.thi # NONE THEN t < THi(q) ELSE t <= THi(q))

-----------------------------------------------------------------------------
(* the split read of one chunk *)
\* a partial result: count, sum and candidate points <<time reported, value, true time>> for min max first last
NoPart == [n |-> 0, sum |-> 0, minp |-> {}, maxp |-> {}, firstp |-> {}, lastp |-> {}]

\* values of column f in rows (a sequence, positions lo..hi) inside the range
SegPts(rows, lo, hi, f, q, dv) ==
  {<<rows[i].t, rows[i].v[f]>> : i \in {j \in lo..hi : rows[j].v[f] # NULL /\ InTR(q, rows[j].t, dv)}}

Overlaps(q, tmin, tmax) == TLo(q) <= tmax /\ THi(q) >= tmin

\* location.go:readData / reader.go:readSumCountFromData, readMinMaxFromData - the segments that overlap the range
DataPts(rows, f, q, dv) ==
  LET n == Len(rows)
  IN UNION {SegPts(rows, SegLo(i), SegHi(i, n), f, q, dv) :
              i \in {j \in 1..NSegs(n) : Overlaps(q, rows[SegLo(j)].t, rows[SegHi(j, n)].t)}}

\* ChunkMeta.allRowsInRange
ChunkIn(rows, q, dv) ==
  IF "stats_for_partial_chunk" \in dv THEN Overlaps(q, rows[1].t, rows[Len(rows)].t)
  ELSE TLo(q) <= rows[1].t /\ THi(q) >= rows[Len(rows)].t

\* FirstLastReader.Read, first = TRUE: walk the segments upwards.  Result: {} or {<<time reported, value, true time>>}
RECURSIVE FirstWalk(_, _, _, _, _, _, _)
FirstWalk(rows, st, f, q, i, numeric, dv) ==
  LET n == Len(rows) IN
  IF i > NSegs(n) THEN {}
  ELSE LET lo == SegLo(i)  hi == SegHi(i, n)
           smin == rows[lo].t  smax == rows[hi].t
       IN IF ~Overlaps(q, smin, smax) THEN FirstWalk(rows, st, f, q, i + 1, numeric, dv)
          \* readFirstOrLastFromPreAgg: the chunk's minimum sits on this segment's first row
          ELSE IF numeric /\ st.n > 0 /\ TLo(q) <= smin /\ st.mint = smin THEN {<<st.mint, st.minv, st.mint>>}
          \* no null in the segment and it starts inside the range: its first row
          ELSE IF (\A j \in lo..hi : rows[j].v[f] # NULL) /\ smin >= TLo(q)
                 THEN {<<IF "firstlast_time_of_chunk" \in dv THEN rows[1].t ELSE smin,
                         \* the column was decoded in reading order: row 0 is the segment's LAST row when reading descending
                         IF RDesc \in dv /\ "desc_shortcut_swapped" \in dv THEN rows[hi].v[f] ELSE rows[lo].v[f], smin>>}
          ELSE LET ps == SegPts(rows, lo, hi, f, q, dv)
               IN IF ps = {} THEN FirstWalk(rows, st, f, q, i + 1, numeric, dv)
                  ELSE LET t0 == Min({p[1] : p \in ps}) IN {<<t0, (CHOOSE p \in ps : p[1] = t0)[2], t0>>}

RECURSIVE LastWalk(_, _, _, _, _, _, _)
LastWalk(rows, st, f, q, i, numeric, dv) ==
  LET n == Len(rows) IN
  IF i < 1 THEN {}
  ELSE LET lo == SegLo(i)  hi == SegHi(i, n)
           smin == rows[lo].t  smax == rows[hi].t
       IN IF ~Overlaps(q, smin, smax) THEN LastWalk(rows, st, f, q, i - 1, numeric, dv)
          ELSE IF numeric /\ st.n > 0 /\ THi(q) >= smax /\ st.maxt = smax THEN {<<st.maxt, st.maxv, st.maxt>>}
          ELSE IF (\A j \in lo..hi : rows[j].v[f] # NULL) /\ smax <= THi(q)
                 THEN {<<IF "firstlast_time_of_chunk" \in dv THEN rows[n].t ELSE smax,
                         IF RDesc \in dv /\ "desc_shortcut_swapped" \in dv THEN rows[lo].v[f] ELSE rows[hi].v[f], smax>>}
          ELSE LET ps == SegPts(rows, lo, hi, f, q, dv)
               IN IF ps = {} THEN LastWalk(rows, st, f, q, i - 1, numeric, dv)
                  ELSE LET t0 == Max({p[1] : p \in ps}) IN {<<t0, (CHOOSE p \in ps : p[1] = t0)[2], t0>>}

Ext(ps, pick) == {<<p[1], p[2], p[1]>> : p \in {x \in ps : x[2] = pick}}

\* partial of the points ps read from data
PartOfPts(ps) ==
  IF ps = {} THEN NoPart
  ELSE [n |-> Cardinality(ps), sum |-> FoldSet(LAMBDA p, acc : acc + p[2], 0, ps),
        minp |-> Ext(ps, Min({p[2] : p \in ps})), maxp |-> Ext(ps, Max({p[2] : p \in ps})),
        firstp |-> LET t0 == Min({p[1] : p \in ps}) IN {<<p[1], p[2], p[1]>> : p \in {x \in ps : x[1] = t0}},
        lastp  |-> LET t0 == Max({p[1] : p \in ps}) IN {<<p[1], p[2], p[1]>> : p \in {x \in ps : x[1] = t0}}]

\* tssp_file.go:readSegmentMetaRecord for the chunk of series s in file F
ChunkPart(F, s, f, q, dv) ==
  LET rows == ChunkRows(F.rows, s)
      st   == F.stats[<<s, f>>]
      numeric == Numeric(data.kinds[f])
  IN IF rows = <<>> \/ ~Overlaps(q, rows[1].t, rows[Len(rows)].t) THEN NoPart
     ELSE LET dp == PartOfPts(DataPts(rows, f, q, dv))
              fl == [firstp |-> FirstWalk(rows, st, f, q, 1, numeric, dv),
                     lastp  |-> LastWalk(rows, st, f, q, NSegs(Len(rows)), numeric, dv)]
              \* desc_any_partial (F-C08-2): reading descending, the row search follows the reading order, so first() /
              \* last() of a chunk can be any of its points inside the range (besides the shortcuts' candidates)
              anyp == RDesc \in dv /\ "desc_any_partial" \in dv
              allp == {<<p[1], p[2], p[1]>> : p \in DataPts(rows, f, q, dv)}
              fp == IF anyp THEN fl.firstp \cup allp ELSE fl.firstp
              lp == IF anyp THEN fl.lastp \cup allp ELSE fl.lastp
          IN IF ChunkIn(rows, q, dv)
               \* readSumCount / readMinMax: the stored statistics
               THEN [n |-> st.n, sum |-> st.sum,
                     minp |-> IF st.n = 0 THEN {} ELSE {<<st.mint, st.minv, st.mint>>},
                     maxp |-> IF st.n = 0 THEN {} ELSE {<<st.maxt, st.maxv, st.maxt>>},
                     firstp |-> fp, lastp |-> lp]
               ELSE [dp EXCEPT !.firstp = fp, !.lastp = lp]

\* series_iter / readMemTableMetaRecord: the memtable rows of the series inside the range
\* mem_last_time_of_record (as implemented, F-C09-3): setXxxColumnMeta pairs the last VALUE of the column with the time of
\* the record's last ROW; the record holds the rows in which any of the queried columns has a value (KickNilRow), so
\* with calls on two fields the time can belong to a row in which this column is null
CallFields(q) == {q.calls[c].f : c \in 1..Len(q.calls)}
MemPart(s, f, q, dv) ==
  IF "mem_forgotten" \in dv /\ (ord # <<>> \/ unord # <<>>) THEN NoPart
  ELSE LET rec == {x \in mem : x.s = s /\ InTR(q, x.t, dv) /\ \E g \in CallFields(q) : x.v[g] # NULL}
           p   == PartOfPts({<<r.t, r.v[f]>> : r \in {x \in rec : x.v[f] # NULL}})
           anyp == RDesc \in dv /\ "desc_any_partial" \in dv
           allp == {<<r.t, r.v[f], r.t>> : r \in {x \in rec : x.v[f] # NULL}}
           p1  == IF "mem_last_time_of_record" \in dv /\ p.lastp # {}
                    THEN [p EXCEPT !.lastp = {<<Max({r.t : r \in rec}), x[2], x[3]>> : x \in p.lastp}]
                    ELSE p
       IN IF anyp THEN [p1 EXCEPT !.firstp = @ \cup allp, !.lastp = @ \cup allp] ELSE p1

\* AggregateData (count, sum add up; min max first last keep the better candidate; ties keep both)
Keep(ps, key(_), best(_)) == IF ps = {} THEN {} ELSE LET b == best({key(p) : p \in ps}) IN {p \in ps : key(p) = b}
\* desc_any_partial (as implemented, F-C08-2): reading descending, first / last follow the position, not the time stamp:
\* any of the partial results may win
Combine(a, b, dv) ==
  LET anyp == RDesc \in dv /\ "desc_any_partial" \in dv
  IN [n |-> a.n + b.n, sum |-> a.sum + b.sum,
      minp   |-> Keep(a.minp \cup b.minp, LAMBDA p : p[2], Min),
      maxp   |-> Keep(a.maxp \cup b.maxp, LAMBDA p : p[2], Max),
      firstp |-> IF anyp THEN a.firstp \cup b.firstp ELSE Keep(a.firstp \cup b.firstp, LAMBDA p : p[1], Min),
      lastp  |-> IF anyp THEN a.lastp \cup b.lastp ELSE Keep(a.lastp \cup b.lastp, LAMBDA p : p[1], Max)]

RECURSIVE CombineAll(_, _)
CombineAll(ps, dv) == IF ps = <<>> THEN NoPart ELSE Combine(Head(ps), CombineAll(Tail(ps), dv), dv)

Files == ord \o unord
SeriesPart(s, f, q, dv) ==
  CombineAll(<<MemPart(s, f, q, dv)>> \o [i \in 1..Len(Files) |-> ChunkPart(Files[i], s, f, q, dv)], dv)

\* the series the index selects for the query and the tag groups they fall into
SelSeries(q) == {s \in 1..NS : TagCond(q.tagc, [s |-> s])}
GroupOfSeries(s, dims) == [i \in 1..Len(dims) |-> SeriesTab[s][dims[i]]]

GroupPart(g, f, q, dv) ==
  LET ss == SetToSeq({s \in SelSeries(q) : GroupOfSeries(s, q.dims) = g})
  IN CombineAll([i \in 1..Len(ss) |-> SeriesPart(ss[i], f, q, dv)], dv)

\* cell and time alternatives of one call from a combined partial (QuerySem's cell forms)
PartCell(fn, p) ==
  LET vals(ps) == <<"v">> \o SortAsc({x[2] : x \in ps})
  IN CASE fn = "count" -> IF p.n = 0 THEN NullCell ELSE <<"c", p.n>>
       [] fn = "sum"   -> IF p.n = 0 THEN NullCell ELSE <<"v", p.sum>>
       [] fn = "mean"  -> IF p.n = 0 THEN NullCell ELSE <<"m", p.sum, p.n>>
       [] fn = "min"   -> IF p.minp = {} THEN NullCell ELSE vals(p.minp)
       [] fn = "max"   -> IF p.maxp = {} THEN NullCell ELSE vals(p.maxp)
       [] fn = "first" -> IF p.firstp = {} THEN NullCell ELSE vals(p.firstp)
       [] OTHER        -> IF p.lastp = {} THEN NullCell ELSE vals(p.lastp)
PartTimes(fn, p) ==
  LET ts(ps) == SortAsc({x[1] : x \in ps})
  IN CASE fn = "min" -> ts(p.minp) [] fn = "max" -> ts(p.maxp) [] fn = "first" -> ts(p.firstp) [] OTHER -> ts(p.lastp)

\* the answer of the shortcut: one row per tag group that has a value
SplitGroups(q) == {GroupOfSeries(s, q.dims) : s \in SelSeries(q)}
SplitSeries1(q, g, dv) ==
  LET nc   == Len(q.calls)
      part == [c \in 1..nc |-> GroupPart(g, q.calls[c].f, q, dv)]
      cell == [c \in 1..nc |-> PartCell(q.calls[c].fn, part[c])]
      sole == nc = 1 /\ q.calls[1].fn \in Selectors
  IN [tags |-> TagsOfKey(q.dims, g), cols |-> [c \in 1..nc |-> q.calls[c].fn],
      some |-> \E c \in 1..nc : cell[c] # NullCell,
      rows |-> << [t |-> IF sole /\ cell[1] # NullCell THEN PartTimes(q.calls[1].fn, part[1])
                         ELSE <<IF q.tlo = NONE THEN EPOCH ELSE q.tlo>>,
                   c |-> cell] >>]

SplitEvalRc(q, dv) ==
  IF ~Eligible(q, dv) \/ q.w # NONE \/ q.fldc.k # "none"
    \* not eligible: rows are read, merged and aggregated (the other path);
    \* a mutant that takes the shortcut despite bucket / filter answers as if they were absent
    THEN IF Eligible(q, dv) THEN AggEval([kinds |-> data.kinds, rows |-> Contents], [q EXCEPT !.w = NONE, !.fldc = NoFld], FALSE, {})
         ELSE AggEval([kinds |-> data.kinds, rows |-> Contents], q, FALSE, {})
  ELSE LET gs == SetToSeq(SplitGroups(q))
           ss == [i \in 1..Len(gs) |-> SplitSeries1(q, gs[i], dv)]
           ok == SelectSeq(ss, LAMBDA s : s.some)
       IN [i \in 1..Len(ok) |-> [tags |-> ok[i].tags, cols |-> ok[i].cols, rows |-> ok[i].rows]]

SplitEval(q, dv, desc) == SplitEvalRc(q, ReadCtx(q, dv, desc))

\* how the chunks touched by an eligible query are served: from the stored statistics, from decoded segments, and how
\* many memtable parts take part (export only: the replay reports how often the shortcut was really exercised)
ServedBy(q) ==
  IF ~Eligible(q, Dev) THEN [stat |-> 0, data |-> 0, mem |-> 0, multiseg |-> 0]
  ELSE LET cs == {<<i, s>> \in (1..Len(Files)) \X SelSeries(q) :
                    LET rows == ChunkRows(Files[i].rows, s)
                    IN rows # <<>> /\ Overlaps(q, rows[1].t, rows[Len(rows)].t)}
           In(c) == ChunkIn(ChunkRows(Files[c[1]].rows, c[2]), q, Dev)
       IN [stat |-> Cardinality({c \in cs : In(c)}), data |-> Cardinality({c \in cs : ~In(c)}),
           mem  |-> Cardinality({s \in SelSeries(q) : \E r \in mem : r.s = s /\ InTR(q, r.t, Dev)}),
           multiseg |-> Cardinality({c \in cs : Len(ChunkRows(Files[c[1]].rows, c[2])) > MaxSeg})]

\* the oracle: the function applied to the rows the plain select returns
Oracle(q) == AggEval(data, q, FALSE, {})

\* a split answer agrees with the oracle: same groups, same rows; cells equal, alternatives of tied points included
CellAgrees(x, o) ==
  IF x[1] = "v" /\ o[1] = "v" THEN {x[i] : i \in 2..Len(x)} \subseteq {o[i] : i \in 2..Len(o)} ELSE x = o
RowAgrees(x, o) ==
  /\ {x.t[i] : i \in 1..Len(x.t)} \subseteq {o.t[i] : i \in 1..Len(o.t)}
  /\ Len(x.c) = Len(o.c) /\ \A c \in 1..Len(x.c) : CellAgrees(x.c[c], o.c[c])
SeriesAgrees(x, o) ==
  /\ x.tags = o.tags /\ Len(x.rows) = Len(o.rows)
  /\ \A i \in 1..Len(x.rows) : RowAgrees(x.rows[i], o.rows[i])
Agrees(xs, os) ==
  /\ Len(xs) = Len(os)
  /\ \A i \in 1..Len(xs) : \E j \in 1..Len(os) : SeriesAgrees(xs[i], os[j])

-----------------------------------------------------------------------------
(* boundaries of the stored segments and files: where the time ranges of the queries are put *)
ChunkBounds(R) ==
  UNION {LET rows == ChunkRows(R, s) n == Len(rows)
         IN UNION {{rows[SegLo(i)].t, rows[SegHi(i, n)].t} : i \in 1..NSegs(n)} : s \in SeriesIn(R)}
Bounds == UNION {ChunkBounds(Files[i].rows) : i \in 1..Len(Files)}
            \cup UNION {{Min(TimesOf(mem, s)), Max(TimesOf(mem, s))} : s \in SeriesIn(mem)}

\* first rows of the later segments / last rows of the earlier segments of chunks with several segments: a range that
\* starts (ends) there leaves whole segments of the chunk outside
InnerStarts == UNION {UNION {LET rows == ChunkRows(Files[i].rows, s) n == Len(rows)
                             IN {rows[SegLo(j)].t : j \in 2..NSegs(n)} : s \in SeriesIn(Files[i].rows)} : i \in 1..Len(Files)}
InnerEnds   == UNION {UNION {LET rows == ChunkRows(Files[i].rows, s) n == Len(rows)
                             IN {rows[SegHi(j, n)].t : j \in 1..(NSegs(n) - 1)} : s \in SeriesIn(Files[i].rows)} : i \in 1..Len(Files)}

Shape == [no |-> Len(ord), nu |-> Len(unord), mem |-> Cardinality(mem)]

-----------------------------------------------------------------------------
PInit == /\ data \in {[kinds |-> k, rows |-> {}] : k \in KindChoices}
         /\ cur = NoQ /\ hist = <<>> /\ cm \in {[on |-> FALSE, mode |-> m] : m \in Modes}
         /\ mem = {} /\ ord = <<>> /\ unord = <<>> /\ gen = 1 /\ gens = {} /\ nw = 0

PLog(e) == hist' = IF Logging THEN Append(hist, e) ELSE Append(hist, 0)

RowsJson(R) == LET ks == SetToSeq(R) IN [i \in 1..Len(ks) |-> ks[i]]

\* shard.WriteRows: a batch of rows with distinct keys (an empty batch: the behaviour skips this write)
Write(batch) ==
  /\ nw < MaxWrites
  /\ \A a, b \in batch : KeyOf(a) = KeyOf(b) => a = b
  /\ \A r \in batch : \E f \in FieldSet : r.v[f] # NULL
  /\ cm.mode \in {"fresh", "append"} => KeysOf(batch) \cap KeysOf(data.rows) = {}
  /\ cm.mode = "append" => \A r \in batch : \A t \in TimesOf(data.rows, r.s) : r.t > t
  /\ mem' = OverRows(batch, mem)
  /\ data' = [data EXCEPT !.rows = OverRows(batch, @)]
  /\ gens' = gens \cup {<<r.s, r.t, gen>> : r \in batch}
  /\ nw' = nw + 1
  /\ UNCHANGED <<cur, cm, ord, unord, gen>>
  /\ PLog([a |-> "Write", kinds |-> data.kinds, rows |-> RowsJson(batch)])

\* FlushChunks: rows newer than the series' last flushed time go to the ordered file (all of them when there is none)
Flush ==
  /\ Len(ord) < MaxFiles /\ Len(unord) < MaxFiles
  /\ LET orows == {r \in mem : ord = <<>> \/ r.t > LastFlush(r.s)}
         urows == mem \ orows
     IN /\ ord' = IF orows # {} THEN Append(ord, MkFile(gen, 0, orows)) ELSE ord
        /\ unord' = IF urows # {} THEN Append(unord, MkFile(gen, 0, urows)) ELSE unord
  /\ mem' = {}
  /\ gen' = IF mem = {} THEN gen ELSE gen + 1
  /\ UNCHANGED <<data, cur, cm, gens, nw>>
  /\ PLog([a |-> "Flush", shape |-> Shape'])

\* MergeOutOfOrder: every out-of-order row goes into the first ordered file that reaches its time
UnordAll == OverAllRows(Reverse(RowsOf(unord)))
MaxTOf(R, s) == IF TimesOf(R, s) = {} THEN -1000 ELSE Max(TimesOf(R, s))
Target(k) == CHOOSE i \in 1..Len(ord) :
                /\ MaxTOf(ord[i].rows, k[1]) >= k[2]
                /\ \A j \in 1..(i - 1) : MaxTOf(ord[j].rows, k[1]) < k[2]
MergeOOO ==
  /\ IF unord # <<>> /\ ord # <<>>
       THEN /\ ord' = [i \in 1..Len(ord) |->
                         LET add == {r \in UnordAll : Target(KeyOf(r)) = i}
                             R   == OverRows(add, ord[i].rows)
                         IN IF add = {} THEN ord[i]
                            ELSE IF "stats_not_rebuilt_merge" \in Dev
                                   THEN [ord[i] EXCEPT !.rows = R]
                                   ELSE MkFile(ord[i].gen, ord[i].lvl, R)]
            /\ unord' = <<>>
       ELSE UNCHANGED <<ord, unord>>
  /\ UNCHANGED <<data, cur, cm, mem, gen, gens, nw>>
  /\ PLog([a |-> "Merge", shape |-> Shape'])

\* LevelCompact(0): the first CompactMin consecutive level-0 files become one level-1 file
Lvl0Run == IF \E i \in 1..Len(ord) : ord[i].lvl = 0
             THEN LET a == Min({i \in 1..Len(ord) : ord[i].lvl = 0})
                  IN {i \in a..Len(ord) : \A j \in a..i : ord[j].lvl = 0}
             ELSE {}
Compact ==
  /\ IF Cardinality(Lvl0Run) >= CompactMin
       THEN LET a  == Min(Lvl0Run)
                b  == a + CompactMin - 1
                R  == UNION {ord[i].rows : i \in a..b}
                nf == IF "stats_not_rebuilt_compact" \in Dev
                        THEN [gen |-> ord[a].gen, lvl |-> 1, rows |-> R, stats |-> ord[a].stats]
                        ELSE MkFile(ord[a].gen, 1, R)
            IN ord' = SubSeq(ord, 1, a - 1) \o <<nf>> \o SubSeq(ord, b + 1, Len(ord))
       ELSE UNCHANGED ord
  /\ UNCHANGED <<data, cur, cm, mem, unord, gen, gens, nw>>
  /\ PLog([a |-> "Compact", shape |-> Shape'])

\* as-implemented models of the open findings: the answers they predict for the shortcut
\* as-implemented models of the open findings on the shortcut path; descOnly: they act on the descending read only
KnownModels == << [id |-> "F-C09-1", dev |-> "firstlast_time_of_chunk", descOnly |-> FALSE],
                  [id |-> "F-C09-3", dev |-> "mem_last_time_of_record", descOnly |-> FALSE],
                  [id |-> "F-C09-2", dev |-> "desc_shortcut_swapped",   descOnly |-> TRUE],
                  [id |-> "F-C08-2", dev |-> "desc_any_partial",        descOnly |-> TRUE] >>
HasFirstLast(q) == \E c \in 1..Len(q.calls) : q.calls[c].fn \in {"first", "last"}
\* the answers the models predict for the shortcut, alone and in combination: every distinct prediction once, under the
\* smallest set of findings that yields it (ids); nothing when all models together predict the design's answer
KnownPreds(q, desc) ==
  IF ~Eligible(q, Dev) \/ ~HasFirstLast(q) THEN <<>> ELSE
  LET base == SplitEval(q, Dev, desc)
      app  == {i \in 1..Len(KnownModels) : ~KnownModels[i].descOnly \/ (desc /\ q.dims # <<>>)}
      DevsOf(S) == {KnownModels[i].dev : i \in S}
      full == SplitEval(q, Dev \cup DevsOf(app), desc)
  IN IF full = base THEN <<>>
     ELSE LET subs == SetToSortSeq((SUBSET app) \ {{}}, LAMBDA A, B : Cardinality(A) < Cardinality(B))
              ans  == [k \in 1..Len(subs) |-> SplitEval(q, Dev \cup DevsOf(subs[k]), desc)]
              keep == SelectSeq([k \in 1..Len(subs) |-> k],
                                LAMBDA k : ans[k] # base /\ \A j \in 1..(k - 1) : ans[j] # ans[k])
          IN [n \in 1..Len(keep) |-> [ids |-> {KnownModels[i].id : i \in subs[keep[n]]}, ans |-> ans[keep[n]]]]

AskAgg(q) ==
  /\ q.kind = "agg" /\ WellFormed(data, q)
  /\ cur' = q
  /\ UNCHANGED <<data, cm, mem, ord, unord, gen, gens, nw>>
  /\ PLog([a |-> "Ask", q |-> q, kinds |-> data.kinds, elig |-> Eligible(q, Dev), side |-> SideCond(q), cross |-> ~NoCrossGen, dup |-> ~NoDupNow,
           shape |-> Shape, served |-> ServedBy(q), exp |-> Oracle(q), agree |-> Agrees(SplitEval(q, Dev, FALSE), Oracle(q)),
           split |-> IF Agrees(SplitEval(q, Dev, FALSE), Oracle(q)) THEN <<>> ELSE SplitEval(q, Dev, FALSE),
           known |-> [asc |-> KnownPreds(q, FALSE), desc |-> KnownPreds(q, TRUE)]])

Step(k) ==
  CASE k = "W" -> \E b \in BatchChoices(nw) : Write(b)
    [] k = "F" -> Flush
    [] k = "M" -> MergeOOO
    [] k = "C" -> Compact
    [] OTHER   -> data.rows # {} /\ \E q \in AskChoices(Len(hist)) : AskAgg(q)

PNext ==
  /\ Len(hist) < Depth
  /\ IF Schedule = <<>> THEN \E k \in {"W", "F", "M", "C", "Q"} : Step(k)
                        ELSE Len(hist) < Len(Schedule) /\ Step(Schedule[Len(hist) + 1])

PSpec == PInit /\ [][PNext]_pvars

-----------------------------------------------------------------------------
(* invariants *)
\* C09: under the side condition the shortcut answers what the function yields on the rows of the plain select
\* (in the design the read direction has no influence: the descending read is evaluated under deviations only)
PreAggEq == (cur # NoQ /\ SideCond(cur)) => \A desc \in (IF Dev = {} THEN {FALSE} ELSE BOOLEAN) : Agrees(SplitEval(cur, Dev, desc), Oracle(cur))
\* stronger than the statement (not demanded from the code): also when no key lies in two layers NOW
PreAggEqNow == (cur # NoQ /\ NoDupNow) => Agrees(SplitEval(cur, Dev, FALSE), Oracle(cur))

\* the logical contents are what the layers hold (C02, restated: the oracle reads the same rows as the plain select)
ContentsEqData == Contents = data.rows
\* the stored statistics of every file describe its rows (what flush, merge and compaction must maintain)
StatsFresh == \A i \in 1..Len(Files) : Files[i].stats = BuildStats(Files[i].rows)
\* ordered files of a series do not overlap in time; out-of-order rows lie behind the ordered data
OrderedDisjoint == \A i, j \in 1..Len(ord) : \A s \in 1..NS :
   (i < j /\ TimesOf(ord[i].rows, s) # {} /\ TimesOf(ord[j].rows, s) # {}) => Max(TimesOf(ord[i].rows, s)) < Min(TimesOf(ord[j].rows, s))
NoCrossImpliesNoDup == NoCrossGen => NoDupNow
=============================================================================
