------------------------------ MODULE TraceView ------------------------------
(***************************************************************************)
(* C04, implementation -> specification. The concurrent driver records the *)
(* client-visible history of one shard: WBegin/WAck (a writer client       *)
(* writes value w to one cell; every value is globally unique and values   *)
(* written to one cell increase with time because each cell has a single   *)
(* writer), QBegin/QEnd (a reader client's full-range query and the rows   *)
(* it returned), Flush/Reorg/Close begin and end. The store itself is not  *)
(* observed: a write takes effect at an unknown instant between WBegin and *)
(* WAck, so between these two events the cell may hold the old or the new  *)
(* value (store[cell] is the SET of values the cell may currently hold).   *)
(*                                                                         *)
(* A history is accepted iff every query result is explained:              *)
(*   - each returned cell value is a value that cell held at some instant  *)
(*     between QBegin and QEnd (so it includes every write acknowledged    *)
(*     before QBegin, contains nothing that was never written, and nothing *)
(*     that was already overwritten before the query began);               *)
(*   - a cell that held a value when the query began is not missing;       *)
(*   - successive queries of one client never go back in time for a cell.  *)
(* Flushes and reorganisations must not change any of this: they are       *)
(* stuttering steps of the abstract store.                                 *)
(***************************************************************************)
EXTENDS Integers, Sequences, FiniteSets, TLC, Json

Trace == ndJsonDeserialize("trace.ndjson")

VARIABLES store,    \* cell -> set of values the cell may currently hold ({0} = never written)
          pend,     \* writer client -> [w, cell, applied] or NoWrite
          open,     \* query id -> [c, seen] for queries in progress; seen: cell -> set of values held since QBegin
          last,     \* client -> cell -> last value this client has been shown
          cells, clients, closing,
          l

vars == <<store, pend, open, last, cells, clients, closing, l>>

NoWrite == [w |-> 0, cell |-> "", applied |-> TRUE]

IsEvent(e) == l <= Len(Trace) /\ Trace[l].ev = e /\ l' = l + 1

ToSet(s) == {s[i] : i \in 1..Len(s)}

TraceReset ==
  /\ IsEvent("Reset")
  /\ cells' = ToSet(Trace[l].cells) /\ clients' = ToSet(Trace[l].clients)
  /\ store' = [c \in ToSet(Trace[l].cells) |-> {0}]
  /\ pend' = [c \in ToSet(Trace[l].clients) |-> NoWrite]
  /\ open' = << >>
  /\ last' = [c \in ToSet(Trace[l].clients) |-> [x \in ToSet(Trace[l].cells) |-> 0]]
  /\ closing' = FALSE

WBegin ==
  /\ IsEvent("WBegin")
  /\ LET c == Trace[l].c  x == Trace[l].cell  w == Trace[l].w IN
       /\ pend[c] = NoWrite
       /\ x \in cells
       /\ pend' = [pend EXCEPT ![c] = [w |-> w, cell |-> x, applied |-> FALSE]]
       /\ store' = [store EXCEPT ![x] = @ \cup {w}]                 \* from now on the cell may hold w
       /\ open' = [q \in DOMAIN open |-> [open[q] EXCEPT !.seen[x] = @ \cup {w}]]
  /\ UNCHANGED <<last, cells, clients, closing>>

WAck ==
  /\ IsEvent("WAck")
  /\ pend[Trace[l].c] # NoWrite
  /\ store' = [store EXCEPT ![pend[Trace[l].c].cell] = {pend[Trace[l].c].w}]   \* acknowledged: it holds w now
  /\ pend' = [pend EXCEPT ![Trace[l].c] = NoWrite]
  /\ UNCHANGED <<open, last, cells, clients, closing>>

\* a failed write is tolerated only while the shard is being closed; it may or may not have taken effect
WErr ==
  /\ IsEvent("WErr") /\ closing
  /\ pend' = [pend EXCEPT ![Trace[l].c] = NoWrite]
  /\ UNCHANGED <<store, open, last, cells, clients, closing>>

QBegin ==
  /\ IsEvent("QBegin")
  /\ Trace[l].q \notin DOMAIN open
  /\ open' = [q \in DOMAIN open \cup {Trace[l].q} |->
                IF q = Trace[l].q THEN [c |-> Trace[l].c, seen |-> [x \in cells |-> store[x]]] ELSE open[q]]
  /\ UNCHANGED <<store, pend, last, cells, clients, closing>>

RowsFn(rows) == [x \in cells |-> IF \E i \in 1..Len(rows) : rows[i][1] = x
                                   THEN (CHOOSE i \in 1..Len(rows) : rows[i][1] = x) ELSE 0]
ValOf(rows, x) == IF RowsFn(rows)[x] = 0 THEN 0 ELSE rows[RowsFn(rows)[x]][2]

QEnd ==
  /\ IsEvent("QEnd")
  /\ Trace[l].q \in DOMAIN open
  /\ LET q == Trace[l].q
         rows == Trace[l].rows
         c == open[q].c IN
       /\ \A i \in 1..Len(rows) : rows[i][1] \in cells
       \* a query that overlaps the closing of the shard only has to terminate (the driver reads the
       \* shard object directly, below the engine's "shard closed" check); all others are judged
       /\ closing \/ /\ \A x \in cells : ValOf(rows, x) \in open[q].seen[x]   \* a value held during the query
                     /\ \A x \in cells : ValOf(rows, x) >= last[c][x]         \* monotone reads per client
       /\ last' = IF closing THEN last ELSE [last EXCEPT ![c] = [x \in cells |-> ValOf(rows, x)]]
       /\ open' = [qq \in DOMAIN open \ {q} |-> open[qq]]
  /\ UNCHANGED <<store, pend, cells, clients, closing>>

\* a failed query is tolerated only while the shard is being closed
QErr ==
  /\ IsEvent("QErr") /\ closing
  /\ open' = [qq \in DOMAIN open \ {Trace[l].q} |-> open[qq]]
  /\ UNCHANGED <<store, pend, last, cells, clients, closing>>

Noop == /\ \/ IsEvent("FlushBegin") \/ IsEvent("FlushEnd") \/ IsEvent("ReorgBegin") \/ IsEvent("ReorgEnd") \/ IsEvent("CloseEnd")
        /\ UNCHANGED <<store, pend, open, last, cells, clients, closing>>

CloseBegin == /\ IsEvent("CloseBegin") /\ closing' = TRUE
              /\ UNCHANGED <<store, pend, open, last, cells, clients>>

TraceNext == TraceReset \/ WBegin \/ WAck \/ WErr \/ QBegin \/ QEnd \/ QErr \/ Noop \/ CloseBegin

TraceInit == /\ store = << >> /\ pend = << >> /\ open = << >> /\ last = << >>
             /\ cells = {} /\ clients = {} /\ closing = FALSE /\ l = 1 /\ TLCSet(1, 1)
TraceSpec == TraceInit /\ [][TraceNext]_vars

HighWater == IF l > TLCGet(1) THEN TLCSet(1, l) ELSE TRUE
TraceAccepted == TLCGet(1) = Len(Trace) + 1
=============================================================================
