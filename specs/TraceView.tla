------------------------------ MODULE TraceView ------------------------------
(***************************************************************************)
(* C04, implementation -> specification. The concurrent driver records the *)
(* client-visible history of one shard: WBegin/WAck (a writer client       *)
(* writes value w to one cell; every value is globally unique and values   *)
(* written to one cell increase with time because each cell has a single   *)
(* writer), QBegin/QEnd (a reader client's full-range query and the rows   *)
(* it returned), Flush/Reorg/Close begin and end. The store itself is not  *)
(* observed: the moment a write takes effect (Apply, between WBegin and     *)
(* WAck) is an internal step left to TLC.                                  *)
(*                                                                         *)
(* A history is accepted iff TLC can place the Apply steps so that every   *)
(* query result is explained:                                              *)
(*   - each returned cell value is a value that cell held at some instant  *)
(*     between QBegin and QEnd (so it includes every write acknowledged    *)
(*     before QBegin, contains nothing that was never written, and nothing *)
(*     that was already overwritten before the query began);               *)
(*   - a cell that held a value when the query began is not missing;       *)
(*   - successive queries of one client never go back in time for a cell.  *)
(* Flushes and reorganisations must not change any of this: they are       *)
(* stuttering steps of the abstract store.                                 *)
(***************************************************************************)
EXTENDS Integers, Sequences, FiniteSets, TLC, Json

Trace == ndJsonDeserialize("trace.ndjson")

VARIABLES store,    \* cell -> current value (0 = never written)
          pend,     \* writer client -> [w, cell, applied] or NoWrite
          open,     \* query id -> [c, seen] for queries in progress; seen: cell -> set of values held since QBegin
          last,     \* client -> cell -> last value this client has been shown
          cells, clients, closing,
          l

vars == <<store, pend, open, last, cells, clients, closing, l>>

NoWrite == [w |-> 0, cell |-> "", applied |-> TRUE]

IsEvent(e) == l <= Len(Trace) /\ Trace[l].ev = e /\ l' = l + 1

ToSet(s) == {s[i] : i \in 1..Len(s)}

TraceReset ==
  /\ IsEvent("Reset")
  /\ cells' = ToSet(Trace[l].cells) /\ clients' = ToSet(Trace[l].clients)
  /\ store' = [c \in ToSet(Trace[l].cells) |-> 0]
  /\ pend' = [c \in ToSet(Trace[l].clients) |-> NoWrite]
  /\ open' = << >>
  /\ last' = [c \in ToSet(Trace[l].clients) |-> [x \in ToSet(Trace[l].cells) |-> 0]]
  /\ closing' = FALSE

WBegin ==
  /\ IsEvent("WBegin")
  /\ LET c == Trace[l].c IN
       /\ pend[c] = NoWrite
       /\ Trace[l].cell \in cells
       /\ pend' = [pend EXCEPT ![c] = [w |-> Trace[l].w, cell |-> Trace[l].cell, applied |-> FALSE]]
  /\ UNCHANGED <<store, open, last, cells, clients, closing>>

\* internal: the write takes effect; every query in progress may now see the new value
Apply(c) ==
  /\ pend[c] # NoWrite /\ ~pend[c].applied
  /\ store' = [store EXCEPT ![pend[c].cell] = pend[c].w]
  /\ pend' = [pend EXCEPT ![c].applied = TRUE]
  /\ open' = [q \in DOMAIN open |-> [open[q] EXCEPT !.seen[pend[c].cell] = @ \cup {pend[c].w}]]
  /\ UNCHANGED <<last, cells, clients, closing, l>>

WAck ==
  /\ IsEvent("WAck")
  /\ pend[Trace[l].c] # NoWrite /\ pend[Trace[l].c].applied      \* acknowledged => it has taken effect
  /\ pend' = [pend EXCEPT ![Trace[l].c] = NoWrite]
  /\ UNCHANGED <<store, open, last, cells, clients, closing>>

\* a failed write is tolerated only while the shard is being closed; it may or may not have taken effect
WErr ==
  /\ IsEvent("WErr") /\ closing
  /\ pend' = [pend EXCEPT ![Trace[l].c] = NoWrite]
  /\ UNCHANGED <<store, open, last, cells, clients, closing>>

QBegin ==
  /\ IsEvent("QBegin")
  /\ Trace[l].q \notin DOMAIN open
  /\ open' = [q \in DOMAIN open \cup {Trace[l].q} |->
                IF q = Trace[l].q THEN [c |-> Trace[l].c, seen |-> [x \in cells |-> {store[x]}]] ELSE open[q]]
  /\ UNCHANGED <<store, pend, last, cells, clients, closing>>

RowsFn(rows) == [x \in cells |-> IF \E i \in 1..Len(rows) : rows[i][1] = x
                                   THEN (CHOOSE i \in 1..Len(rows) : rows[i][1] = x) ELSE 0]
ValOf(rows, x) == IF RowsFn(rows)[x] = 0 THEN 0 ELSE rows[RowsFn(rows)[x]][2]

QEnd ==
  /\ IsEvent("QEnd")
  /\ Trace[l].q \in DOMAIN open
  /\ LET q == Trace[l].q
         rows == Trace[l].rows
         c == open[q].c IN
       /\ \A i \in 1..Len(rows) : rows[i][1] \in cells
       \* a query that overlaps the closing of the shard only has to terminate (the driver reads the
       \* shard object directly, below the engine's "shard closed" check); all others are judged
       /\ closing \/ /\ \A x \in cells : ValOf(rows, x) \in open[q].seen[x]   \* a value held during the query
                     /\ \A x \in cells : ValOf(rows, x) >= last[c][x]         \* monotone reads per client
       /\ last' = IF closing THEN last ELSE [last EXCEPT ![c] = [x \in cells |-> ValOf(rows, x)]]
       /\ open' = [qq \in DOMAIN open \ {q} |-> open[qq]]
  /\ UNCHANGED <<store, pend, cells, clients, closing>>

\* a failed query is tolerated only while the shard is being closed
QErr ==
  /\ IsEvent("QErr") /\ closing
  /\ open' = [qq \in DOMAIN open \ {Trace[l].q} |-> open[qq]]
  /\ UNCHANGED <<store, pend, last, cells, clients, closing>>

Noop == /\ \/ IsEvent("FlushBegin") \/ IsEvent("FlushEnd") \/ IsEvent("ReorgBegin") \/ IsEvent("ReorgEnd") \/ IsEvent("CloseEnd")
        /\ UNCHANGED <<store, pend, open, last, cells, clients, closing>>

CloseBegin == /\ IsEvent("CloseBegin") /\ closing' = TRUE
              /\ UNCHANGED <<store, pend, open, last, cells, clients>>

TraceNext == TraceReset \/ WBegin \/ WAck \/ WErr \/ QBegin \/ QEnd \/ QErr \/ Noop \/ CloseBegin
             \/ \E c \in clients : Apply(c)

TraceInit == /\ store = << >> /\ pend = << >> /\ open = << >> /\ last = << >>
             /\ cells = {} /\ clients = {} /\ closing = FALSE /\ l = 1 /\ TLCSet(1, 1)
TraceSpec == TraceInit /\ [][TraceNext]_vars

HighWater == IF l > TLCGet(1) THEN TLCSet(1, l) ELSE TRUE
TraceAccepted == TLCGet(1) = Len(Trace) + 1
=============================================================================
