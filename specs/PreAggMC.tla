------------------------------ MODULE PreAggMC ------------------------------
EXTENDS PreAgg, Json
(***************************************************************************)
(* Generators for the modes of PreAgg:                                     *)
(*   exh   (exhaustive): every history of writes / flushes / merges /      *)
(*         compactions over a tiny universe; the invariants quantify over  *)
(*         EVERY query of ExhQueries in every reachable layout             *)
(*   sim   (export): scheduled behaviours - the step kinds are fixed by    *)
(*         Schedule (all behaviours replayed on one server share the       *)
(*         flushes), batches and queries are random; the time ranges of    *)
(*         the queries are drawn from the boundaries of the stored         *)
(*         segments and files (Bounds)                                     *)
(***************************************************************************)

Export == (Len(hist) = Depth) => PrintT(<<"TRACE", ToJson(hist)>>)

NoChoices1(x) == {}
\* schedules (cfg files cannot hold sequences): the step kinds shared by all behaviours replayed on one server
NoSchedule == <<>>
\* memtable, file + memtable, two files, out-of-order files, after the out-of-order merge
SchedS1 == <<"W", "Q", "Q", "F", "Q", "Q", "W", "Q", "Q", "Q", "F", "Q", "Q", "W", "F", "W", "Q", "Q", "Q", "F", "Q", "Q", "M", "Q", "Q", "Q">>
\* eight flush generations, a level compaction, then a memtable on top of the compacted file
SchedS2 == <<"W", "F", "W", "F", "W", "F", "Q", "Q", "W", "F", "W", "F", "W", "F", "W", "F", "W", "F", "Q", "Q", "Q",
             "C", "Q", "Q", "Q", "W", "Q", "Q", "F", "M", "Q", "Q">>
\* short: one file and a memtable (the smoke / mutation-seed schedule)
SchedS0 == <<"W", "F", "Q", "W", "Q", "F", "Q", "Q">>
NoChoices2(D, x) == {}
DimChoices == {<<>>, <<"t1">>, <<"t2">>, <<"t1", "t2">>}

-----------------------------------------------------------------------------
(* exhaustive mode *)
ExhKinds == {[f \in FieldSet |-> "int"]}
ExhF == IF "fa" \in FieldSet THEN "fa" ELSE CHOOSE f \in FieldSet : TRUE     \* the aggregated field
\* the value of a cell is fixed by its time and the number of the write (not monotonic in either), so that a batch is
\* a choice of keys and shapes only; shape "a": the aggregated field has a value, shape "b": it is null and another
\* field (if there is one) carries the row
ExhValSeq == SetToSortSeq(Vals, LAMBDA a, b : (a * 7) % 5 < (b * 7) % 5)     \* the values in a scrambled order
ExhVal(t, k) == ExhValSeq[((2 * t + k) % Len(ExhValSeq)) + 1]
ExhShapes == IF FieldSet = {ExhF} THEN {"a"} ELSE {"a", "b"}
ExhRow(s, t, sh, k) == [s |-> s, t |-> t, v |-> [f \in FieldSet |-> IF f = ExhF THEN (IF sh = "a" THEN ExhVal(t, k) ELSE NULL)
                                                                  ELSE (IF sh = "b" THEN 1 ELSE NULL)]]
CONSTANT ExhBatch          \* rows per batch
ExhBatches(k) ==
  LET rows == {ExhRow(s, t, sh, k) : s \in 1..NS, t \in Times, sh \in ExhShapes}
  IN {b \in SUBSET rows : b # {} /\ Cardinality(b) <= ExhBatch /\ \A p, r \in b : KeyOf(p) = KeyOf(r) => p = r}

MkQ(calls, dims, lo, hi, fldc, w, hint) ==
  WithHint(MkAgg(calls, dims, lo, hi, NoTag, fldc, "and", w, "none", 0), hint)
ExhLo == {NONE} \cup {t \in Times : t > Min(Times)}
ExhHi == {NONE} \cup {t + 1 : t \in {x \in Times : x < Max(Times)}}
ExhMid == Min(Times) + 2
CONSTANT ExhLite          \* TRUE: a reduced query universe (the mutation-seed runs)
ExhRanges == IF ExhLite THEN {<<NONE, NONE>>, <<ExhMid, NONE>>, <<NONE, ExhMid>>, <<Min(Times) + 1, ExhMid + 1>>}
             ELSE {r \in ExhLo \X ExhHi : r[1] = NONE \/ r[2] = NONE \/ r[1] < r[2]}
ExhFns1 == IF ExhLite THEN {"count", "first", "last"} ELSE {"count", "sum", "min", "max", "first", "last"}
ExhDims == IF NS > 1 THEN {<<>>, <<"t1">>} ELSE {<<>>}
C1(fn) == <<[fn |-> fn, f |-> ExhF]>>
ExhQueries ==
  {MkQ(C1(fn), <<>>, r[1], r[2], NoFld, NONE, FALSE) : fn \in ExhFns1, r \in ExhRanges}
  \cup
  {MkQ(C1(fn), d, NONE, hi, NoFld, NONE, h) : fn \in {"count", "mean", "first", "max"}, d \in ExhDims, hi \in {NONE, ExhMid}, h \in BOOLEAN}
  \cup
  {MkQ(C1(fn), <<>>, Min(Times), Max(Times) + 1, fw[1], fw[2], FALSE) :
       fn \in {"count", "last"}, fw \in {<<NoFld, 2>>, <<[k |-> "gt", f |-> ExhF, c |-> Min(Vals)], NONE>>}}
  \cup
  {MkQ(<<[fn |-> "last", f |-> ExhF], [fn |-> "count", f |-> ExhF]>>, <<>>, lo, NONE, NoFld, NONE, FALSE) : lo \in {NONE, ExhMid}}
  \cup   \* calls on two different fields
  {MkQ(<<[fn |-> "last", f |-> ExhF], [fn |-> "count", f |-> g]>>, <<>>, NONE, NONE, NoFld, NONE, FALSE) : g \in FieldSet \ {ExhF}}

\* C09 over every query of the universe, in the current layout
\* (the read direction matters under two deviations only: both directions are evaluated when one of them is in force)
ExhDirs == IF Dev \cap {"desc_shortcut_swapped", "desc_any_partial"} = {} THEN {FALSE} ELSE BOOLEAN
PreAggEqAll ==
  \A q \in ExhQueries : (WellFormed(data, q) /\ SideCond(q)) => \A desc \in ExhDirs : Agrees(SplitEval(q, Dev, desc), Oracle(q))
PreAggEqNowAll ==
  NoDupNow => \A q \in ExhQueries : WellFormed(data, q) => Agrees(SplitEval(q, Dev, FALSE), Oracle(q))
\* the documented trade-off is real: a cross-generation overwrite without hint CAN double count (checked as a
\* property that must be VIOLATED, see the neg cfg)
NoDoubleCount ==
  \A q \in ExhQueries : WellFormed(data, q) => Agrees(SplitEval(q, Dev, FALSE), Oracle(q))

-----------------------------------------------------------------------------
(* simulation mode: every random choice is bound by a quantifier over a singleton set (drawn once) *)
RE(S) == RandomElement(S)
SimKinds == {TLCEval([f \in FieldSet |-> k[f]]) : k \in [FieldSet -> Kinds]}
SimVals == {-1, 0, 1, 2, 3}

ModeOf == cm.mode

MainSeries == 1
SimSeries(x) == IF RE(1..10) <= 6 THEN MainSeries ELSE RE(1..NS)
SimCell(kind, x) == IF RE(1..10) <= 2 THEN NULL
                    ELSE IF kind = "bool" THEN RE({0, 1}) ELSE RE(Vals)
SimV(x) == TLCEval([f \in FieldSet |-> SimCell(data.kinds[f], x)])
MaxWritten(s) == LET ts == TimesOf(data.rows, s) IN IF ts = {} THEN Min(Times) - 1 ELSE Max(ts)
SimTime(s, x) ==
  CASE ModeOf = "append" -> LET m == MaxWritten(s) IN IF m + 1 > Max(Times) THEN Max(Times) ELSE RE((m + 1)..(IF m + 3 < Max(Times) THEN m + 3 ELSE Max(Times)))
    [] OTHER -> RE(Times)
SimRow(x) == UNION {{[s |-> s, t |-> t, v |-> v] : t \in {SimTime(s, x)}, v \in {SimV(x)}} : s \in {SimSeries(x)}}
RECURSIVE SimRowSet(_, _)
SimRowSet(n, x) == IF n = 0 THEN {} ELSE SimRow(x + n) \cup SimRowSet(n - 1, x)
\* a batch: rows with distinct keys that carry a value; in the modes without overwrites keys written before are left out
SimBatch(x) ==
  LET raw  == SimRowSet(RE(3..12), x)
      val  == {r \in raw : \E f \in FieldSet : r.v[f] # NULL}
      new  == IF ModeOf = "any" THEN val ELSE {r \in val : KeyOf(r) \notin KeysOf(data.rows)}
      uniq == {r \in new : \A p \in new : KeyOf(p) = KeyOf(r) => p = r}
  IN uniq
CONSTANT SkipW         \* n > 0: one write in n is skipped by the behaviour (empty batch); 0: never
SimBatches(x) == {IF SkipW > 0 /\ RE(1..SkipW) = 1 THEN {} ELSE SimBatch(x)}

\* time ranges from the stored boundaries: below / on / above an edge of a segment, file or memtable
\* (a third of the bounds sits on the first / last row of an inner segment of a chunk with several segments)
SimLo(x) == LET k == RE(1..6) IN
            IF k <= 2 \/ Bounds = {} THEN NONE
            ELSE IF k <= 4 \/ InnerStarts = {} THEN RE({b + d : b \in Bounds, d \in {-1, 0, 1}})
            ELSE RE({b + d : b \in InnerStarts, d \in {-1, 0}})
SimHi(x) == LET k == RE(1..6) IN
            IF k <= 2 \/ Bounds = {} THEN NONE
            ELSE IF k <= 4 \/ InnerEnds = {} THEN RE({b + d : b \in Bounds, d \in {0, 1, 2}})
            ELSE RE({b + d : b \in InnerEnds, d \in {1, 2}})
SimTagC(x) == IF RE(1..4) <= 3 THEN NoTag
              ELSE RE({[k |-> "eq", key |-> "t1", val |-> "a", vals |-> {}],
                       [k |-> "ne", key |-> "t1", val |-> "a", vals |-> {}],
                       [k |-> "eq", key |-> "t2", val |-> "x", vals |-> {}]})
\* first() and last() (the segment walk) are asked for more often than the other functions
SimCall(x) == UNION {{[fn |-> fn, f |-> f] : fn \in {IF RE(1..10) <= 3 THEN RE({"first", "last"}) ELSE RE(FnsOf(data.kinds[f]))}} : f \in {RE(Existing(data))}}
SimCalls(x) ==
  UNION {{IF n <= 2 \/ c2 = c1 THEN <<c1>> ELSE <<c1, c2>> : c2 \in SimCall(x + 1)} : c1 \in SimCall(x), n \in {RE(1..4)}}
\* a field filter: mostly on an aggregated field (a filter on another field is F-C08-6's predicate)
SimFld(cs, x) ==
  IF RE(1..5) <= 4 THEN {NoFld}
  ELSE UNION {{[k |-> op, f |-> f, c |-> IF data.kinds[f] = "bool" THEN RE({0, 1}) ELSE RE(0..Max(Vals))] :
                  op \in {IF Numeric(data.kinds[f]) THEN RE({"gt", "le", "eq", "ne", "lt", "ge"})
                          ELSE IF data.kinds[f] = "bool" THEN "eq" ELSE RE({"eq", "ne"})}} :
              f \in {IF RE(1..5) <= 4 THEN cs[1].f ELSE RE(Existing(data))}}
SimQ2(cs, x) ==
  {LET sw == lh[1] # NONE /\ lh[2] # NONE /\ lh[2] <= lh[1]        \* an empty range: the ends are swapped
       l0 == IF sw THEN lh[2] - 1 ELSE lh[1]
       h0 == IF sw THEN lh[1] + 1 ELSE lh[2]
       lo == IF iv[1] = NONE THEN l0 ELSE IF l0 = NONE THEN Min(Times) ELSE l0
       hi == IF iv[1] = NONE THEN h0 ELSE IF h0 = NONE THEN Max(Times) + 1 ELSE h0
   IN WithHint(MkAgg(cs, d, lo, hi, tc, fc, "and", iv[1], iv[2], 0), h) :
     d \in {IF RE(1..2) = 1 THEN <<>> ELSE RE(DimChoices)}, lh \in {<<SimLo(x), SimHi(x)>>},
     tc \in {SimTagC(x)}, fc \in SimFld(cs, x), h \in {RE(1..5) = 1},
     iv \in {IF RE(1..5) <= 4 THEN <<NONE, "none">> ELSE <<RE({2, 3, 4, 5}), RE({"none", "null"})>>}}
SimQuery(x) == UNION {SimQ2(cs, x) : cs \in SimCalls(x)}
SimQueries(x) == {q \in SimQuery(x) : WellFormed(data, q)}
=============================================================================
