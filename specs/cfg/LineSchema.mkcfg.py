#!/usr/bin/env python3
"""Writes the LineSchema.*.cfg files (the constants of LineProtocol.tla, which LineSchema.tla EXTENDS, are fixed to a
minimal automaton: the schema layer only uses its token classes and ImplDev). Run from specs/cfg."""
import os
LP = '''  Chars = {"P"}
  TailChars = {}
  FirstChars = {"P"}
  ValToks = {"I_SMALL"}
  TsToks = {"TS_NS"}
  Precs = {""}
  MaxLen = 1
  MaxStr = 1
  MaxTags = 0
  MaxFields = 1
  TailLen = 0
  Dev = {}
  ImplDev = {"empty_tag_skipped", "tagval_equals_literal", "quote_scan_key", "int_via_float64"}
  FixedDev = {"fsuffix_unvalidated", "quote_scan", "float_fastfloat", "ts_mult_wraps"}
'''
IMPL = '{"tag_shadowed_by_field", "stale_endtime_conflict_drops_line"}'     # models of the open findings F-C06-9, F-C06-10
FIXED = '{}'                                                                # models of repaired defects (regression states)
INV = "NoForeignValue ValidFieldsKept LastWriteWins OneCellPerField SchemaFromKept ReplyFaithful ImplOnlyWhenFired"
ALLTOKS = ('{"I_SMALL", "I_NEG", "I_ZERO", "I_2P53P1", "I_BIG", "I_MAX", "I_MIN", "F_SIMPLE", "F_NEG", "F_INT", "F_INTEGRAL", '
           '"F_EXP", "F_NEGZERO", "F_FSUFFIX", "B_t", "B_T", "B_true", "B_f", "B_False", "B_FALSE", "STR"}')


def setof(xs):
    return "{" + ", ".join(str(x) if isinstance(x, int) else '"%s"' % x for x in xs) + "}"


def cfg(name, keys, tagkeys, fieldkeys, tagvals, times, late, toks, maxtags, maxfields, maxlines, maxbatch, dev=(),
        view=True, invs=INV, export=None, props=True, sim=False):
    toks = toks if isinstance(toks, str) else setof(toks)
    txt = "SPECIFICATION SSpec\nCONSTANTS\n" + LP
    txt += "  SKeys = %s\n  STagKeys = %s\n  SFieldKeys = %s\n  STagVals = %s\n  STimes = %s\n  SLateTimes = %s\n" % (
        setof(keys), setof(tagkeys), setof(fieldkeys), setof(tagvals), setof(times), setof(late))
    txt += "  SToks = %s\n  SMaxTags = %d\n  SMaxFields = %d\n  SMaxLines = %d\n  SMaxBatch = %d\n" % (toks, maxtags, maxfields, maxlines, maxbatch)
    txt += "  SDev = %s\n  SImplDev = %s\n  SFixedDev = %s\n" % (setof(dev), IMPL, FIXED)
    if sim:
        txt += "  SLinesOffer <- SimLines\n  AllLines <- SimLines\n  FieldSeqs <- NoSeqs\n  TagSeqs <- NoSeqs\n"
    if view:
        txt += "VIEW sview\n"
    txt += "INVARIANTS " + invs + (" " + export if export else "") + "\nCHECK_DEADLOCK FALSE\n"
    if props:
        txt += "PROPERTIES SchemaMonotone\n"
    open("LineSchema.%s.cfg" % name, "w").write(txt)


IF = ["I_SMALL", "F_SIMPLE"]
# Mode A
# exh: three fields, every conflict pattern, three lines in one or two requests
cfg("exh.quick", [1, 2, 3], [], [1, 2, 3], ["x"], [1], [], IF, 0, 3, 3, 2)
# exh2: a name used as tag and as field, a later shard group, all four types on one name
cfg("exh2.quick", [1, 2, 3], [2, 3], [1, 2], ["x"], [1, 2], [2], IF, 1, 2, 2, 2)
cfg("exh.thorough", [1, 2, 3], [3], [1, 2, 3], ["x"], [1, 2], [2], IF, 1, 3, 3, 2)
cfg("exh2.thorough", [1, 2, 3], [2, 3], [1, 2], ["x"], [1, 2], [2], IF, 1, 2, 3, 3)
cfg("exh3.thorough", [1, 2, 3], [3], [1, 2], ["x"], [1], [], ["I_SMALL", "F_SIMPLE", "STR", "B_T"], 1, 2, 3, 2)
# Mode B, BFS exports (no VIEW: every path; every closed prefix is a case of its own)
# pairs: every type pair, two fields, one or two requests
cfg("bfs.pairs", [1, 2], [], [1, 2], ["x"], [1], [], ["I_SMALL", "F_SIMPLE", "STR", "B_T"], 0, 2, 2, 2,
    view=False, export="SExport", props=False)
# multi: up to four fields, 0..4 conflicts at every position (the dropFieldByIndex class)
cfg("bfs.multi", [1, 2, 3, 4], [], [1, 2, 3, 4], ["x"], [1], [], IF, 0, 4, 2, 1, view=False, export="SExport", props=False)
# clash: a name used as tag and as field, lines in a later shard group
cfg("bfs.clash", [1, 2], [2], [1, 2], ["x"], [1, 2], [2], IF, 1, 2, 3, 2, view=False, export="SExport", props=False)
# over: the same (series, time) written again with other field subsets, two series, two times, batches
cfg("bfs.over", [1, 2, 3], [3], [1, 2], ["x"], [1, 2], [], ["F_SIMPLE"], 1, 2, 3, 3, view=False, export="SExport", props=False)
# Mode B, simulation
cfg("sim", [1, 2, 3, 4, 5, 6, 7, 8], [6, 7, 8], [1, 2, 3, 4, 5, 6], ["x", "y"], [1, 2, 3], [3], ALLTOKS, 2, 6, 4, 3,
    view=False, export="SExport", props=False, sim=True)
# mutation seeds / as-implemented deviations in the design state: each must give a counterexample
for dv in ["conflict_drop_shifts_indexes", "conflict_value_stored_reinterpreted", "valid_field_dropped_with_conflict",
           "conflict_drops_line", "batch_conflict_rejects_other_lines", "schema_retyped_by_conflict",
           "overwrite_keeps_old_value", "overwrite_replaces_row", "conflict_acknowledged",
           "tag_shadowed_by_field", "stale_endtime_conflict_drops_line"]:
    cfg("dev." + dv, [1, 2, 3, 4], [3, 4], [1, 2, 3], ["x"], [1, 2], [2], IF, 1, 3, 3, 2, dev=[dv],
        invs=INV.replace(" ImplOnlyWhenFired", ""))
