# regenerates specs/cfg/ExprRoundTrip.*.cfg (the cfg files are the source of truth for the check; this is how they were written)
cd /verif/specs/cfg
rm -f ExprRoundTrip.*.cfg
ALLOPS='{"OR", "AND", "=", "!=", "<", "<=", ">", ">=", "=~", "!~", "+", "-", "|", "^", "*", "/", "%", "&"}'
IMPL='{"float_int_print", "neg_desugar_mul", "dur_trunc_us", "hand_no_bitwise", "yacc_and_or_same_prec", "yacc_int_saturate"}'
ALLLITS='{"i_small", "i_neg", "i_max", "i_min", "u_big", "f_int", "f_frac", "f_tiny", "f_big", "f_negbig", "s_plain", "s_quote", "s_bslash", "s_nl", "s_dq", "s_time", "d_dur", "d_ns", "b_true", "b_false", "x_plain", "x_slash", "x_bslash"}'
ALLREFS='{"r_plain", "r_quoted", "r_typed", "r_qtyped", "r_tag", "r_dotted"}'
mk() {
cat > $1 <<EOF
SPECIFICATION Spec
CONSTANTS
  Ops = $2
  Lits = $3
  Refs = $4
  Fns = $5
  MaxArity = $6
  TreeDepth = $7
  Dev = $8
  ImplDev = $9
${10}
CHECK_DEADLOCK FALSE
EOF
}
INV="INVARIANTS PlanIsTree PlanProducible WireIsText RoundTrip"
# all operators, one operand kind, calls: every tree of 3 node levels
mk ExprRoundTrip.struct.quick.cfg "$ALLOPS" '{"x_plain"}' '{"r_plain"}' '{"f"}' 1 2 '{}' "$IMPL" "VIEW view
$INV Export"
mk ExprRoundTrip.struct.thorough.cfg "$ALLOPS" '{"x_plain", "f_int"}' '{"r_plain"}' '{}' 0 2 '{}' "$IMPL" "VIEW view
$INV Export"
# one operator per precedence level, every tree of 4 node levels
mk ExprRoundTrip.deep.quick.cfg '{"OR", "AND", "=", "/"}' '{}' '{"r_plain"}' '{}' 0 3 '{}' "$IMPL" "VIEW view
$INV Export"
mk ExprRoundTrip.deep.thorough.cfg '{"OR", "AND", "=", "-", "/"}' '{}' '{"r_plain"}' '{}' 0 3 '{}' "$IMPL" "VIEW view
$INV Export"
# every literal / identifier class under every operator
mk ExprRoundTrip.lits.cfg "$ALLOPS" "$ALLLITS" "$ALLREFS" '{"f"}' 1 1 '{}' "$IMPL" "VIEW view
$INV Export"
# seeded random deep trees over everything
mk ExprRoundTrip.sim.cfg "$ALLOPS" "$ALLLITS" "$ALLREFS" '{"f", "g"}' 2 4 '{}' "$IMPL" "  TreeChoices <- SimTrees
$INV Export"
# self-test: every deviation must give a counterexample of the named invariant
lit() { case $1 in float_int_print) echo '{"f_int"}';; dur_trunc_us) echo '{"d_ns"}';; yacc_int_saturate) echo '{"i_min"}';; *) echo '{}';; esac; }
inv() { case $1 in right_assoc|cmp_binds_tighter|yacc_int_saturate) echo PlanIsTree;; *) echo RoundTrip;; esac; }
for d in print_drops_paren right_assoc cmp_binds_tighter float_int_print neg_desugar_mul dur_trunc_us hand_no_bitwise yacc_and_or_same_prec yacc_int_saturate; do
mk ExprRoundTrip.dev.$d.cfg '{"OR", "AND", "=", "-", "*", "/", "|"}' "$(lit $d)" '{"r_plain"}' '{}' 0 2 "{\"$d\"}" '{}' "VIEW view
INVARIANTS $(inv $d)"
done
ls | grep ExprRoundTrip
