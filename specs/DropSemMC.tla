----------------------------- MODULE DropSemMC -----------------------------
EXTENDS DropSem, Json
\* Simulation: a few random choices per action class and step instead of all of them, so that the
\* action classes are picked about equally often (every operator depends on the state so that TLC does
\* not cache it as a constant).
\* half of the written rows go to a series the instance already knows (live or dropped): out-of-order rows and
\* writes to a dropped series become frequent
KnownSeries(i) == wd.idx[i] \cup {d.r.s : d \in {x \in dropped : x.i = i}}
SimSeries(i, x) == IF KnownSeries(i) # {} /\ RandomElement(1..2) = 1 THEN RandomElement(KnownSeries(i)) ELSE RandomElement(Series)
SimKeys(i, x) == LET n == RandomElement(1..MaxBatch)
                 IN {<<SimSeries(i, x + j), RandomElement(Times)>> : j \in 1..n} \ Occupied(i)
SimWrite(x)  == LET i == RandomElement(Insts) IN <<i, SimKeys(i, x)>>
SimWrites    == {w \in {SimWrite(nv + j) : j \in 1..2} : w[2] # {}}
Existing     == {i \in Insts : Usable(wd, i) /\ wd.ex[i]}
SimDrops     == IF Existing = {} THEN {} ELSE {<<RandomElement(Existing), RandomElement(Preds)>> : j \in 1..2}
SimInst      == IF Existing = {} THEN {} ELSE {RandomElement(Existing)}
SimRp        == IF wd.rps = {} THEN {} ELSE {RandomElement(wd.rps)}
SimRare      == RandomElement(1..(4 + 0 * nv)) = 1
SimRareDb    == Existing # {} /\ RandomElement(1..(7 + 0 * nv)) = 1
SimNoFrom    == IF RandomElement(1..(6 + 0 * nv)) = 1 THEN {RandomElement(Preds)} ELSE {}
\* exhaustive mode: a small alphabet of predicates (none / some / all, one of each operator family)
SmallPreds   == {Leaf("eq", "host", {"a"}), Leaf("ne", "host", {"a"}), Leaf("re", "host", {"a", "b"}),
                 Two("or", "a", "x"), Leaf("all", "host", {}), Leaf("none", "host", {})}
SmallDrops   == Insts \X SmallPreds
OneInst      == {"rp1.m"}
\* skeletons of global actions (a cfg file cannot hold a tuple)
SkelNone == <<>>
SkelA == <<"Flush", "RestartKill", "Flush">>
SkelB == <<"Flush", "Flush", "Compact", "RestartClean">>
SkelC == <<"RestartKill", "Flush", "RestartClean">>
SkelD == <<"Flush", "Compact", "RestartKill", "Flush", "Compact">>
SkelE == <<"RestartClean", "Flush", "Flush", "RestartKill">>
Export == (Len(hist) = Depth) => PrintT(<<"TRACE", ToJson(hist)>>)
=============================================================================
