----------------------------- MODULE DropSemMC -----------------------------
EXTENDS DropSem, Json
\* Simulation: a few random choices per action class and step instead of all of them, so that the
\* action classes are picked about equally often (every operator depends on the state so that TLC does
\* not cache it as a constant).
\* half of the written rows go to a series the instance already knows (live or dropped): out-of-order rows and
\* writes to a dropped series become frequent
KnownSeries(i) == wd.idx[i] \cup {d.r.s : d \in {x \in dropped : x.i = i}}
SimSeries(i, x) == IF KnownSeries(i) # {} /\ RandomElement(1..2) = 1 THEN RandomElement(KnownSeries(i)) ELSE RandomElement(Series)
SimKeys(i, x) == LET n == RandomElement(1..MaxBatch)
                 IN {<<SimSeries(i, x + j), RandomElement(Times)>> : j \in 1..n} \ Occupied(i)
SimWrite(x)  == LET i == RandomElement(Insts) IN <<i, SimKeys(i, x)>>
SimWrites    == {w \in {SimWrite(nv + j) : j \in 1..2} : w[2] # {}}
Existing     == {i \in Insts : Usable(wd, i) /\ wd.ex[i]}
SimDrops     == IF Existing = {} THEN {} ELSE {<<RandomElement(Existing), RandomElement(Preds)>> : j \in 1..2}
SimInst      == IF Existing = {} THEN {} ELSE {RandomElement(Existing)}
SimRp        == IF wd.rps = {} THEN {} ELSE {RandomElement(wd.rps)}
SimRare      == RandomElement(1..(4 + 0 * nv)) = 1
SimRareDb    == Existing # {} /\ RandomElement(1..(7 + 0 * nv)) = 1
SimNoFrom    == IF RandomElement(1..(6 + 0 * nv)) = 1 THEN {RandomElement(Preds)} ELSE {}
\* the statements the design refuses: a time-bounded DROP SERIES (at most one per behaviour: as implemented it
\* drops whole series, after which the two worlds differ), DELETE and DROP SHARD
TimeDropDone == \E n \in 1..Len(hist) : hist[n].a = "DropSeriesTime"
\* ... offered where the measurement has rows in more than one shard group (the bound then separates rows that the statement
\* names from rows it does not), with a predicate that selects something
Spread       == {i \in Existing : Cardinality({GroupOf(r.t) : r \in wd.rows[i]}) > 1}
HitPreds(i)  == {p \in Preds : \E r \in wd.rows[i] : Sat(p, r.s)}
SimTimeDrops == IF Spread = {} \/ TimeDropDone THEN {}
                ELSE LET i == RandomElement(Spread)
                     IN {<<i, RandomElement(HitPreds(i)), RandomElement({"lt", "gt"}), RandomElement({t \in Times : t % 10 = 1})>>}
SimUnsupported == IF RandomElement(1..(5 + 0 * nv)) # 1 THEN {}
                  ELSE {<<RandomElement({"Delete", "DeleteTime", "DropShard"}), RandomElement(Insts)>>}
\* groups: a write goes to ONE shard group, most often the newest one written so far or the next one (the data of a
\* measurement grows forward in time), sometimes an old one
SimGroup(x)  == LET used == {GroupOf(r.t) : r \in UNION {wd.rows[i] : i \in Insts}} \cup {d.r.t \div 10 : d \in dropped}
                    top  == IF used = {} THEN 0 ELSE Max(used)
                    nxt  == IF top + 1 \in Groups THEN top + 1 ELSE top
                IN RandomElement({top, top, nxt, nxt, RandomElement(Groups)})
\* every other batch straddles two shard groups
SimKeysG(i, x) == LET n == RandomElement(1..MaxBatch)
                      g == SimGroup(x)
                      g2 == IF RandomElement(1..2) = 1 THEN RandomElement(Groups) ELSE g
                      ts == {t \in Times : GroupOf(t) \in {g, g2}}
                  IN {<<SimSeries(i, x + j), RandomElement(ts)>> : j \in 1..n} \ Occupied(i)
SimWriteG(x) == LET i == RandomElement({"rp1.m", "rp1.m", "rp1.m", "rp2.m", "rp2.m", "rp1.n"}) IN <<i, SimKeysG(i, x)>>
SimWritesG   == {w \in {SimWriteG(nv + j) : j \in 1..2} : w[2] # {}}
\* phases: writes to whatever the design refuses, rows in flight during a wholesale drop
Unusable     == {i \in Insts : ~Usable(wd, i)}
SimRefused   == IF Unusable = {} THEN {} ELSE LET i == RandomElement(Unusable) IN {<<i, {<<RandomElement(Series), RandomElement(Times)>>}>>}
SimRace(rp)  == LET i == RandomElement(InstsOfRp(rp))
                IN {<<i, {<<RandomElement(Series), RandomElement(Times)>> : j \in 1..RandomElement(1..2)}>>}
SimDbRace    == LET i == RandomElement(Insts)
                IN {<<i, {<<RandomElement(Series), RandomElement(Times)>> : j \in 1..RandomElement(1..2)}>>}
\* while a background deletion is under way the other statements are offered less often: the phases and the statements
\* racing with them make up most of what happens next
Busy         == wd.dbph # "none" \/ (\E r \in RPs : wd.rpph[r] # "none") \/ (\E i \in Insts : wd.mph[i] # "none")
Quiet(x)     == Busy /\ RandomElement(1..(3 + 0 * x)) # 1
SimWritesP   == IF Quiet(nv) THEN {} ELSE {w \in {SimWrite(nv + 1)} : w[2] # {}}
\* the write that re-creates a measurement being deleted
BusyInsts    == {i \in Insts : Usable(wd, i) /\ ~wd.ex[i] /\ wd.mph[i] # "none"}
SimRecreate  == IF BusyInsts = {} THEN {} ELSE LET i == RandomElement(BusyInsts) IN {w \in {<<i, SimKeys(i, nv)>>} : w[2] # {}}
SimWritesPP  == SimWritesP \cup SimRecreate
SimDropsP    == IF Quiet(nv + 1) THEN {} ELSE SimDrops
SimNoFromP   == IF Busy THEN {} ELSE SimNoFrom
SimUnsupportedP == IF Busy THEN {} ELSE SimUnsupported
SimRareP     == RandomElement(1..(2 + 0 * nv)) = 1
SimRareDbP   == Existing # {} /\ RandomElement(1..(4 + 0 * nv)) = 1
\* exhaustive mode: a small alphabet of predicates (none / some / all, one of each operator family)
SmallPreds   == {Leaf("eq", "host", {"a"}), Leaf("ne", "host", {"a"}), Leaf("re", "host", {"a", "b"}),
                 Two("or", "a", "x"), Leaf("all", "host", {}), Leaf("none", "host", {})}
SmallDrops   == Insts \X SmallPreds
OneInst      == {"rp1.m"}
TinyPreds    == {Leaf("eq", "host", {"a"}), Leaf("all", "host", {})}
TinyDrops    == {"rp1.m"} \X TinyPreds
TwoInsts     == {"rp1.m", "rp2.m"}
TinyWrites   == TwoInsts \X KeySets
TinyTimeDrops== {<<"rp1.m", Leaf("eq", "host", {"a"}), "lt", 2>>}
TinyUnsupported == {<<"Delete", "rp1.m">>}
TinyRefused  == {<<i, {<<[host |-> "a", region |-> "x"], 1>>}>> : i \in {"rp1.m", "rp2.m"}}
TinyRace(rp) == {<<CHOOSE i \in InstsOfRp(rp) : NameOf(i) = "m", {<<[host |-> "a", region |-> "x"], 1>>}>>}
TinyDbRace   == {<<"rp1.m", {<<[host |-> "a", region |-> "x"], 1>>}>>}
OneRp        == {"rp2"}
PhasedOn     == TRUE
\* two shard groups served by one index group, a third with its own
IdxShared(g) == IF g = 1 THEN 0 ELSE g
\* skeletons of global actions (a cfg file cannot hold a tuple)
SkelNone == <<>>
SkelA == <<"Flush", "RestartKill", "Flush">>
SkelB == <<"Flush", "Flush", "Compact", "RestartClean">>
SkelC == <<"RestartKill", "Flush", "RestartClean">>
SkelD == <<"Flush", "Compact", "RestartKill", "Flush", "Compact">>
SkelE == <<"RestartClean", "Flush", "Flush", "RestartKill">>
SkelG == <<"RestartClean", "Flush", "RestartKill">>
SkelH == <<"Flush", "RestartKill", "RestartClean">>
SkelP == <<"RestartKill", "Flush", "RestartClean">>
SkelQ == <<"RestartClean", "RestartKill", "Flush">>
Export == (Len(hist) = Depth) => PrintT(<<"TRACE", ToJson(hist)>>)
=============================================================================
