---------------------------- MODULE LineProtocol ----------------------------
(***************************************************************************)
(* C06: the line protocol as a character-CLASS automaton.                  *)
(*                                                                         *)
(*   line := mst ("," tagkey "=" tagval)* " "+ fkey "=" fval               *)
(*                ("," fkey "=" fval)* (" "+ timestamp)? " "*              *)
(*                                                                         *)
(* One action (Consume) per consumed class; EOL finishes the line.  The    *)
(* state of an automaton is the DECODED POINT so far (measurement, tags,   *)
(* typed fields, timestamp) or Reject.  Decoded strings are sequences of   *)
(* input POSITIONS: the replay side gives every position a concrete text   *)
(* and the decoded string is the concatenation of the texts it names.      *)
(*                                                                         *)
(* Character classes:  P plain  U non-ASCII  C ","  S " "  E "="  Q '"'    *)
(*                     B "\"                                               *)
(* Value tokens (offered where a field value starts) and timestamp tokens  *)
(* (offered where the timestamp starts) are atomic classes; anywhere else  *)
(* their text is plain text, which class P already covers.                 *)
(*                                                                         *)
(* Escaping (documented rules; lib/util/lifted/vm/protoparser/influx):     *)
(*  - measurement, tag key, tag value, field key: a backslash escapes      *)
(*    "," " " "=" and "\"; before anything else it stays literal; quotes   *)
(*    are ordinary characters there;                                       *)
(*  - string field value: delimited by unescaped quotes, a backslash       *)
(*    escapes '"' and "\" only; "," " " "=" are ordinary inside;           *)
(*  - an unescaped "=" inside a tag value, an empty tag key / value, an    *)
(*    unquoted string, anything after the closing quote or after a value   *)
(*    token other than "," / " " / end of line is invalid.                 *)
(* openGemini restrictions that are part of the reference: measurement     *)
(* names may not contain "," or "\" (influx/meta/validator.go), the        *)
(* unsigned suffix u is unknown (Reject), the suffix f after a valid       *)
(* number is a float (parser_test.go relies on 38f), timestamps are        *)
(* 0 .. 2^63-2 after scaling by the precision.                             *)
(*                                                                         *)
(* Deviation names (parameter dv of every rule):                           *)
(*  mutation seeds   accept_no_field, unescape_drops_backslash,            *)
(*                   reject_recovers, bool_T_false                         *)
(*  as-implemented = the code as it is, models of OPEN findings (ImplDev): *)
(*   structure       empty_tag_skipped, tagval_equals_literal (F-C06-7),   *)
(*                   quote_scan_key (F-C06-8)                              *)
(*   value level     int_via_float64 (F-C06-1): the decoded value is       *)
(*                   marked `via`, the replay side applies the arithmetic  *)
(*   batch level     batch_last_line_decides (F-C06-6; BatchStatus ..)     *)
(*  models of REPAIRED defects (FixedDev), the code as it was before the   *)
(*  fix: commits; kept as mutation seeds and as regression predictions:    *)
(*   structure       fsuffix_unvalidated (F-C06-4), quote_scan (F-C06-5:   *)
(*                   quote_scan_key + the old parseFieldStrValue)          *)
(*   value level     float_fastfloat (F-C06-2), ts_mult_wraps (F-C06-3)    *)
(* The design automaton d runs with Dev ({} = the documented grammar).     *)
(* The prediction automata m[D] run with Dev \cup D:                       *)
(*   D = {x}, x \in ImplDev, and D = ImplDev: the as-implemented automaton;*)
(*       a divergence of the real code equal to one of these outcomes is   *)
(*       attributed to the open finding(s) of known_findings.json;         *)
(*   D = ImplDev \cup {x}, x \in FixedDev: what the code would do again if *)
(*       the fix of x were lost; a divergence equal to one of these (and   *)
(*       to no as-implemented outcome) is a REGRESSION and is reported as  *)
(*       a violation naming the repaired finding.                          *)
(***************************************************************************)
EXTENDS Integers, Sequences, FiniteSets, TLC

CONSTANTS Chars,       \* character classes offered
          TailChars,   \* classes offered after the design automaton rejected (Reject is absorbing)
          FirstChars,  \* classes allowed at position 1
          ValToks,     \* value tokens offered where a field value starts
          TsToks,      \* timestamp tokens
          Precs,       \* precisions offered with a timestamp token ("" = none given)
          MaxLen,      \* classes per line (EOL not counted)
          MaxStr,      \* positions per decoded string
          MaxTags, MaxFields,
          TailLen,     \* classes consumed after the design automaton rejected
          Dev,         \* deviations of the design automaton ({} = the design)
          ImplDev,     \* as-implemented deviations = models of the open findings (prediction automata)
          FixedDev     \* models of repaired defects (regression prediction automata)

VARIABLES line,   \* sequence of consumed classes
          prec,   \* precision given with the timestamp token
          d,      \* design automaton
          m,      \* [deviation set -> automaton]
          done    \* EOL consumed

vars == <<line, prec, d, m, done>>

CharClasses == {"P", "U", "C", "S", "E", "Q", "B"}
Esc4 == {"C", "S", "E", "B"}          \* what a backslash escapes outside string values

IntOK    == {"I_SMALL", "I_NEG", "I_ZERO", "I_2P53", "I_2P53P1", "I_BIG", "I_MAX", "I_MIN"}
IntBad   == {"I_OVERFLOW", "I_UNDERFLOW", "I_JUNK"}
FloatOK  == {"F_SIMPLE", "F_NEG", "F_INT", "F_INTEGRAL", "F_LEADDOT", "F_TRAILDOT", "F_NEGZERO", "F_EXP",
             "F_BIGMANT", "F_EXTREME", "F_PLUS", "F_FSUFFIX"}
FloatBad == {"F_OVERFLOW", "F_SPECIAL"}
BoolT    == {"B_t", "B_T", "B_true", "B_True", "B_TRUE"}
BoolF    == {"B_f", "B_F", "B_false", "B_False", "B_FALSE"}
OtherBad == {"B_BAD", "U_SUFFIX", "N_JUNK", "N_JUNKF"}
AllValToks == IntOK \cup IntBad \cup FloatOK \cup FloatBad \cup BoolT \cup BoolF \cup OtherBad

TsOK  == {"TS_NS", "TS_ZERO"}
AllTsToks == TsOK \cup {"TS_MAX", "TS_WRAP", "TS_OVER", "TS_OVERFLOW", "TS_NEG", "TS_JUNK"}
FinePrecs == {"", "ns", "n"}

TokType(t, dv) ==
  IF t \in IntOK THEN "int"
  ELSE IF t \in FloatOK THEN "float"
  ELSE IF t \in BoolT \cup BoolF THEN "bool"
  ELSE IF t = "N_JUNKF" /\ "fsuffix_unvalidated" \in dv THEN "float"
  ELSE "reject"

TokVia(t, dv) ==
  IF t \in IntOK /\ "int_via_float64" \in dv THEN "f64"
  ELSE IF t = "N_JUNKF" THEN "ff"
  ELSE IF t \in FloatOK /\ "float_fastfloat" \in dv THEN "ff"
  ELSE ""

BoolVal(t, dv) ==
  IF t \in BoolT THEN (IF t = "B_T" /\ "bool_T_false" \in dv THEN "false" ELSE "true")
  ELSE IF t \in BoolF THEN "false" ELSE ""

\* "ok" | "wrap" (accepted with the wrapped product, deviation only) | "reject"
TsKind(t, p, dv) ==
  IF t \in TsOK THEN "ok"
  ELSE IF t = "TS_MAX" /\ p \in FinePrecs THEN "ok"
  ELSE IF t = "TS_WRAP" /\ p \notin FinePrecs /\ "ts_mult_wraps" \in dv THEN "wrap"
  ELSE "reject"

-----------------------------------------------------------------------------
NoField == [k |-> <<>>, t |-> "", tok |-> "", s |-> <<>>, via |-> "", val |-> "", e |-> 0]

A0 == [st |-> "Mst", esc |-> FALSE, cur |-> <<>>, key |-> <<>>, mst |-> <<>>, tags |-> <<>>, fields |-> <<>>,
       pend |-> NoField, ts |-> "TS_MISSING", tsvia |-> "", struct |-> {}, amb |-> {}, why |-> "",
       tail |-> 0, used |-> {}, vnq |-> 0, inq |-> FALSE, vq |-> FALSE, vsq |-> FALSE, vlq |-> FALSE, vle |-> FALSE, vn |-> 0, vtok |-> ""]

Rej(a, w) == [a EXCEPT !.st = "Reject", !.why = w]
Str(a, i) == [a EXCEPT !.struct = @ \cup {i}]

\* a class that is not an unescaped separator of the current position
Lit(a, c, i, dv) ==
  IF a.esc THEN
    IF c \in Esc4 THEN [a EXCEPT !.cur = Append(@, i), !.esc = FALSE, !.struct = @ \cup {i - 1}]
    ELSE IF "unescape_drops_backslash" \in dv THEN [a EXCEPT !.cur = Append(@, i), !.esc = FALSE]
    ELSE [a EXCEPT !.cur = @ \o <<i - 1, i>>, !.esc = FALSE]
  ELSE IF c = "B" THEN [a EXCEPT !.esc = TRUE]
  ELSE [a EXCEPT !.cur = Append(@, i)]

\* influx/meta/validator.go: unsupportedCharsInMstName
MstOK(h, ms) == \A j \in 1..Len(ms) : h[ms[j]] \notin {"C", "B"}

LeaveMst(a, h, i, next) ==
  IF ~MstOK(h, a.cur) THEN Rej(a, "measurement name with , or \\ (validator.go)")
  ELSE Str([a EXCEPT !.mst = a.cur, !.cur = <<>>, !.st = next], i)

StepMst(a, h, c, i, dv) ==
  IF a.esc \/ c \notin {"C", "S"} THEN Lit(a, c, i, dv)
  ELSE IF c = "C" THEN (IF a.cur = <<>> THEN Rej(a, "empty measurement") ELSE LeaveMst(a, h, i, "TagKey"))
  ELSE IF a.cur = <<>> THEN Str(a, i)                          \* leading white space
  ELSE LeaveMst(a, h, i, "FieldKey")

StepTagKey(a, c, i, dv) ==
  IF a.esc \/ c \notin {"C", "S", "E"} THEN Lit(a, c, i, dv)
  ELSE IF c = "E" THEN
    IF a.cur = <<>> /\ "empty_tag_skipped" \notin dv THEN Rej(a, "empty tag key")
    ELSE Str([a EXCEPT !.key = a.cur, !.cur = <<>>, !.st = "TagVal",
                       !.used = IF a.cur = <<>> THEN @ \cup {"empty_tag_skipped"} ELSE @], i)
  ELSE Rej(a, "tag without value")

StepTagVal(a, c, i, dv) ==
  IF a.esc \/ c \notin {"C", "S", "E"} THEN Lit(a, c, i, dv)
  ELSE IF c = "E" THEN
    IF "tagval_equals_literal" \in dv THEN [a EXCEPT !.cur = Append(@, i), !.used = @ \cup {"tagval_equals_literal"}] ELSE Rej(a, "unescaped = in tag value")
  ELSE IF a.cur = <<>> /\ "empty_tag_skipped" \notin dv THEN Rej(a, "missing tag value")
  ELSE LET keep == a.cur # <<>> /\ a.key # <<>>
           tg   == IF keep THEN Append(a.tags, [k |-> a.key, v |-> a.cur]) ELSE a.tags
       IN Str([a EXCEPT !.tags = tg, !.cur = <<>>, !.key = <<>>, !.st = IF c = "C" THEN "TagKey" ELSE "FieldKey",
                        !.used = IF keep THEN @ ELSE @ \cup {"empty_tag_skipped"}], i)

-----------------------------------------------------------------------------
\* field section, documented grammar
StepFieldKeyD(a, c, i, dv) ==
  IF a.esc \/ c \notin {"C", "S", "E"} THEN
     LET b == Lit(a, c, i, dv) IN IF c = "Q" THEN [b EXCEPT !.amb = @ \cup {"quote_in_field_key"}] ELSE b
  ELSE IF c = "E" THEN
    IF a.cur = <<>> THEN Rej(a, "empty field key")
    ELSE Str([a EXCEPT !.key = a.cur, !.cur = <<>>, !.st = "FieldVal"], i)
  ELSE IF c = "S" /\ a.cur = <<>> /\ a.fields = <<>> THEN Str(a, i)
  ELSE Rej(a, "field without value")

TokField(a, c, dv, e) == [k |-> a.key, t |-> TokType(c, dv), tok |-> c, s |-> <<>>, via |-> TokVia(c, dv), val |-> BoolVal(c, dv), e |-> e]

StepFieldValD(a, c, i, dv) ==
  IF c = "Q" THEN Str([a EXCEPT !.st = "FieldValStr", !.cur = <<>>], i)
  ELSE IF c \in AllValToks THEN
    IF TokType(c, dv) = "reject" THEN Rej(a, "invalid field value")
    ELSE Str([a EXCEPT !.st = "FieldValEnd", !.pend = TokField(a, c, dv, i),
                       !.used = IF c = "N_JUNKF" THEN @ \cup {"fsuffix_unvalidated"} ELSE @], i)
  ELSE Rej(a, "unquoted string or empty value")

StepFieldValStrD(a, c, i, dv) ==
  IF a.esc THEN
    IF c \in {"Q", "B"} THEN [a EXCEPT !.cur = Append(@, i), !.esc = FALSE, !.struct = @ \cup {i - 1}]
    ELSE [a EXCEPT !.cur = @ \o <<i - 1, i>>, !.esc = FALSE]
  ELSE IF c = "B" THEN [a EXCEPT !.esc = TRUE]
  ELSE IF c = "Q" THEN
    Str([a EXCEPT !.st = "FieldValEnd", !.cur = <<>>,
                  !.pend = [k |-> a.key, t |-> "string", tok |-> "", s |-> a.cur, via |-> "", val |-> "", e |-> i]], i)
  ELSE [a EXCEPT !.cur = Append(@, i)]

CommitD(a) == [a EXCEPT !.fields = Append(@, a.pend), !.pend = NoField, !.key = <<>>]

StepFieldValEndD(a, c, i, dv) ==
  IF c = "C" THEN Str([CommitD(a) EXCEPT !.st = "FieldKey"], i)
  ELSE IF c = "S" THEN Str([CommitD(a) EXCEPT !.st = "Timestamp"], i)
  ELSE Rej(a, "garbage after field value")

-----------------------------------------------------------------------------
\* field section as implemented. parser.go finds the end of the field section and of every field with
\* nextUnquotedChar, i.e. by the PARITY of the unescaped quotes seen so far (field keys included), takes
\* the key up to the first unescaped "=", and if the rest holds an unescaped quote hands it to
\* parseFieldStrValue, else to parseFieldNumValue.
\*  quote_scan_key (F-C06-8, the code as it is since fix 3a54b7c): parseFieldStrValue accepts exactly a
\*    text that starts with an unescaped quote, ends with an unescaped quote and has no unescaped quote
\*    in between; every other text holding an unescaped quote is rejected. What is left of the parity
\*    scan is visible in field KEYS only: a separator that follows an odd number of quotes is swallowed
\*    into the key (or into a value, which then is no number and no string: rejected).
\*  quote_scan (F-C06-5, the code before 3a54b7c): the same scan, but parseFieldStrValue returns "" for a
\*    text that does not START with a quote and otherwise only checks that the LAST byte is a quote.
QScan(dv) == "quote_scan" \in dv \/ "quote_scan_key" \in dv
OldStr(dv) == "quote_scan" \in dv           \* parseFieldStrValue before 3a54b7c
QName(dv) == IF "quote_scan" \in dv THEN "quote_scan" ELSE "quote_scan_key"
StepFieldKeyI(a, c, i, dv) ==
  IF a.esc THEN Lit(a, c, i, dv)
  ELSE IF c = "B" THEN [a EXCEPT !.esc = TRUE]
  ELSE IF c = "Q" THEN [a EXCEPT !.cur = Append(@, i), !.inq = ~a.inq]
  ELSE IF c = "E" THEN
    IF a.cur = <<>> THEN Rej(a, "empty field key")
    ELSE Str([a EXCEPT !.key = a.cur, !.cur = <<>>, !.st = "IVal", !.vq = FALSE, !.vsq = FALSE, !.vlq = FALSE,
                       !.vle = FALSE, !.vn = 0, !.vnq = 0, !.vtok = ""], i)
  ELSE IF c \in {"C", "S"} /\ a.inq THEN [a EXCEPT !.cur = Append(@, i), !.used = @ \cup {QName(dv)}]
  ELSE IF c = "S" /\ a.cur = <<>> /\ a.fields = <<>> THEN Str(a, i)
  ELSE IF c \in {"C", "S"} THEN Rej(a, "field without value")
  ELSE [a EXCEPT !.cur = Append(@, i)]

ButLast(s) == SubSeq(s, 1, Len(s) - 1)

\* texts that end in the letter f
EndsInF == {"B_f", "N_JUNKF", "F_FSUFFIX"}
\* tokens whose text is a number without suffix: with an "f" behind it the text is an f-suffix float
NumberTexts == FloatOK \ {"F_FSUFFIX"}

CommitI(a, h, e, dv) ==
  IF a.vn = 0 THEN Rej(a, "empty value")
  ELSE IF a.vq THEN
    IF a.vsq THEN
      \* first byte a quote, last byte a quote; since 3a54b7c also: the last quote is not escaped and is
      \* the second unescaped quote of the text
      IF a.vn >= 2 /\ a.vlq /\ ~a.esc /\ (OldStr(dv) \/ (a.vnq = 2 /\ ~a.vle)) THEN
        LET inner == Tail(a.cur)
            last  == inner[Len(inner)]
            body  == IF a.vle THEN Append(ButLast(inner), last - 1) ELSE ButLast(inner)
        IN [a EXCEPT !.fields = Append(@, [k |-> a.key, t |-> "string", tok |-> "", s |-> body, via |-> "", val |-> "", e |-> e]),
                     !.cur = <<>>, !.key = <<>>,
                     !.used = IF a.vnq # 2 \/ a.vle THEN @ \cup {"quote_scan"} ELSE @]
      ELSE Rej(a, "missing closing quote")
    ELSE IF OldStr(dv) THEN
         [a EXCEPT !.fields = Append(@, [k |-> a.key, t |-> "string", tok |-> "", s |-> <<>>, via |-> "qscan", val |-> "", e |-> e]),
                   !.cur = <<>>, !.key = <<>>, !.used = @ \cup {"quote_scan"}]
    ELSE Rej(a, "value with a quote that is not a quoted string")
  ELSE IF a.vn = 1 /\ a.vtok # "" /\ TokType(a.vtok, dv) # "reject" THEN
    [a EXCEPT !.fields = Append(@, TokField(a, a.vtok, dv, e)), !.cur = <<>>, !.key = <<>>,
              !.used = IF a.vtok = "N_JUNKF" THEN @ \cup {"fsuffix_unvalidated"} ELSE @]
  ELSE IF a.vn > 1 /\ h[e] \in EndsInF /\ ~a.esc /\ "fsuffix_unvalidated" \in dv THEN
    \* several classes swallowed into one value by the quote parity, the last text ends in f: the whole text
    \* in front of that f goes through ParseBestEffort unvalidated (fsuffix_unvalidated)
    [a EXCEPT !.fields = Append(@, [k |-> a.key, t |-> "float", tok |-> "", s |-> <<>>, via |-> "ffjunk", val |-> "", e |-> e]),
              !.cur = <<>>, !.key = <<>>, !.used = @ \cup {"fsuffix_unvalidated"}]
  ELSE IF a.vn = 2 /\ a.vtok # "" THEN
    \* a number token followed by the text "f" (StepIVal keeps vtok for exactly this pair): together they are
    \* the f-suffix spelling of that number. Tokens are adjacent only after the design automaton rejected.
    [a EXCEPT !.fields = Append(@, TokField(a, a.vtok, dv, e)), !.cur = <<>>, !.key = <<>>]
  ELSE Rej(a, "invalid field value")

StepIVal(a, h, c, i, dv) ==
  IF c \in {"C", "S"} /\ ~a.esc /\ ~a.inq THEN
    LET b == CommitI(a, h, i - 1, dv)
    IN IF b.st = "Reject" THEN b ELSE Str([b EXCEPT !.st = IF c = "C" THEN "FieldKey" ELSE "Timestamp"], i)
  ELSE IF a.esc THEN
    IF c \in {"Q", "B"} THEN [a EXCEPT !.cur = Append(@, i), !.esc = FALSE, !.vn = @ + 1, !.vlq = (c = "Q"), !.vle = (c = "Q"), !.vtok = ""]
    ELSE [a EXCEPT !.cur = @ \o <<i - 1, i>>, !.esc = FALSE, !.vn = @ + 1, !.vlq = FALSE, !.vle = FALSE, !.vtok = ""]
  ELSE IF c = "B" THEN [a EXCEPT !.esc = TRUE, !.vn = @ + 1, !.vlq = FALSE, !.vle = FALSE, !.vtok = ""]
  ELSE IF c = "Q" THEN [a EXCEPT !.cur = Append(@, i), !.inq = ~a.inq, !.vq = TRUE, !.vsq = (IF a.vn = 0 THEN TRUE ELSE a.vsq),
                                 !.vn = @ + 1, !.vnq = @ + 1, !.vlq = TRUE, !.vle = FALSE, !.vtok = ""]
  ELSE [a EXCEPT !.cur = Append(@, i), !.vn = @ + 1, !.vlq = FALSE, !.vle = FALSE,
                 !.vtok = IF a.vn = 0 /\ c \in AllValToks THEN c
                          ELSE IF a.vn = 1 /\ c = "B_f" /\ a.vtok \in NumberTexts THEN a.vtok ELSE "",
                 \* a separator swallowed by the quote parity although the value is not a string
                 !.used = IF c \in {"C", "S"} /\ a.inq /\ ~a.vsq THEN @ \cup {QName(dv)} ELSE @]

-----------------------------------------------------------------------------
StepTimestamp(a, c, p, i, dv) ==
  IF c = "S" THEN Str(a, i)
  ELSE IF c \in AllTsToks THEN
    LET k == TsKind(c, p, dv)
    IN IF k = "reject" THEN Rej(a, "timestamp invalid or out of range")
       ELSE Str([a EXCEPT !.st = "TimestampEnd", !.ts = c, !.tsvia = IF k = "wrap" THEN "wrap" ELSE ""], i)
  ELSE Rej(a, "bad timestamp")

StepTimestampEnd(a, c, i) == IF c = "S" THEN Str(a, i) ELSE Rej(a, "garbage after timestamp")

Step(a, h, c, p, i, dv) ==
  IF a.st = "Reject" THEN
    (IF "reject_recovers" \in dv /\ c = "S" THEN [a EXCEPT !.st = "FieldKey", !.cur = <<>>, !.esc = FALSE]
     ELSE [a EXCEPT !.tail = @ + 1])          \* Reject is absorbing
  ELSE IF a.st = "Mst" THEN StepMst(a, h, c, i, dv)
  ELSE IF a.st = "TagKey" THEN StepTagKey(a, c, i, dv)
  ELSE IF a.st = "TagVal" THEN StepTagVal(a, c, i, dv)
  ELSE IF a.st = "FieldKey" THEN (IF QScan(dv) THEN StepFieldKeyI(a, c, i, dv) ELSE StepFieldKeyD(a, c, i, dv))
  ELSE IF a.st = "FieldVal" THEN StepFieldValD(a, c, i, dv)
  ELSE IF a.st = "FieldValStr" THEN StepFieldValStrD(a, c, i, dv)
  ELSE IF a.st = "FieldValEnd" THEN StepFieldValEndD(a, c, i, dv)
  ELSE IF a.st = "IVal" THEN StepIVal(a, h, c, i, dv)
  ELSE IF a.st = "Timestamp" THEN StepTimestamp(a, c, p, i, dv)
  ELSE IF a.st = "TimestampEnd" THEN StepTimestampEnd(a, c, i)
  ELSE a

\* two strings made only of single-character classes are equal iff their class sequences are; P, U and
\* tokens are concretised differently at every position
SameText(h, x, y) == /\ Len(x) = Len(y)
                     /\ \A j \in 1..Len(x) : h[x[j]] = h[y[j]] /\ h[x[j]] \in CharClasses \ {"P", "U"}
DupTag(h, a) == \E i, j \in 1..Len(a.tags) : i < j /\ SameText(h, a.tags[i].k, a.tags[j].k)
DupField(h, a) == \E i, j \in 1..Len(a.fields) : i < j /\ SameText(h, a.fields[i].k, a.fields[j].k)

Finish(a0, h, dv) ==
  LET a == IF a0.st = "FieldValEnd" THEN [CommitD(a0) EXCEPT !.st = "Timestamp"]
           ELSE IF a0.st = "IVal" THEN (LET b == CommitI(a0, h, Len(h), dv) IN IF b.st = "Reject" THEN b ELSE [b EXCEPT !.st = "Timestamp"])
           ELSE a0
  IN IF a.st = "Reject" THEN a
     ELSE IF a.st \in {"Timestamp", "TimestampEnd"} THEN
       IF DupTag(h, a) THEN Rej(a, "duplicate tag key")
       ELSE [a EXCEPT !.st = "Accept", !.amb = IF DupField(h, a) THEN @ \cup {"duplicate_field_key"} ELSE @]
     ELSE IF "accept_no_field" \in dv /\ a.st = "FieldKey" /\ a.cur = <<>> THEN [a EXCEPT !.st = "Accept"]
     ELSE Rej(a, "incomplete line")

-----------------------------------------------------------------------------
DevSets == {{x} : x \in ImplDev} \cup (IF ImplDev = {} THEN {} ELSE {ImplDev})
           \cup {ImplDev \cup {x} : x \in FixedDev}

Init == /\ line = <<>> /\ prec = "" /\ d = A0 /\ m = [D \in DevSets |-> A0] /\ done = FALSE

Within(a) == /\ Len(a.cur) <= MaxStr
             /\ Len(a.tags) + (IF a.st \in {"TagKey", "TagVal"} THEN 1 ELSE 0) <= MaxTags
             /\ Len(a.fields) + (IF a.st \in {"FieldKey", "FieldVal", "FieldValStr", "FieldValEnd", "IVal"} /\ (a.fields # <<>> \/ a.cur # <<>> \/ a.key # <<>>) THEN 1 ELSE 0) <= MaxFields

\* classes offered in the current state of the design automaton
BaseOffer ==
  IF Len(line) = 0 THEN FirstChars
  ELSE IF d.st = "Reject" THEN TailChars
  ELSE IF d.st = "FieldVal" THEN Chars \cup ValToks
  ELSE IF d.st = "Timestamp" THEN Chars \cup TsToks
  ELSE Chars

Offer == BaseOffer      \* the simulation config replaces it by a random subset
EolOK == TRUE           \* the simulation config ends most lines only where they are complete

Consume(c, p) ==
  LET i  == Len(line) + 1
      h  == Append(line, c)
      d2 == Step(d, h, c, p, i, Dev)
  IN /\ line' = h
     /\ d' = d2
     /\ m' = [D \in DevSets |-> Step(m[D], h, c, p, i, Dev \cup D)]
     /\ prec' = IF c \in AllTsToks THEN p ELSE prec
     /\ UNCHANGED done

Next ==
  /\ ~done
  /\ \/ /\ Len(line) < MaxLen
        /\ \E c \in Offer :
             \E p \in (IF c \in AllTsToks THEN Precs ELSE {""}) :
               /\ (c = "TS_WRAP" => p \notin FinePrecs)
               /\ Consume(c, p)
               /\ (d.st # "Reject" => Within(d'))
               /\ (d.st = "Reject" => d.tail < TailLen)
     \/ /\ Len(line) > 0 /\ EolOK
        /\ line' = line /\ prec' = prec /\ done' = TRUE
        /\ d' = Finish(d, line, Dev)
        /\ m' = [D \in DevSets |-> Finish(m[D], line, Dev \cup D)]

Spec == Init /\ [][Next]_vars
-----------------------------------------------------------------------------
\* Invariants of the grammar (design automaton d)
RECURSIVE Flat2(_), Flat3(_)
Flat2(tags) == IF tags = <<>> THEN <<>> ELSE tags[1].k \o tags[1].v \o Flat2(Tail(tags))
Flat3(fs) == IF fs = <<>> THEN <<>> ELSE fs[1].k \o fs[1].s \o Flat3(Tail(fs))
Decoded(a) == a.mst \o Flat2(a.tags) \o Flat3(a.fields)
SeqSet(s) == {s[j] : j \in 1..Len(s)}

\* every accepted line has a measurement and at least one field
AcceptHasField == d.st = "Accept" => (Len(d.fields) >= 1 /\ d.mst # <<>>)

\* a separator of the position never reaches a decoded string unescaped
Escaped(a, j) == j > 1 /\ line[j - 1] = "B" /\ (j - 1) \in a.struct
SepFree(a, s, seps) == \A j \in SeqSet(s) : line[j] \in seps => Escaped(a, j)
NoUnescapedSeparator ==
  d.st # "Reject" =>
    /\ SepFree(d, d.mst, {"C", "S"})
    /\ \A x \in 1..Len(d.tags) : SepFree(d, d.tags[x].k, {"C", "S", "E"}) /\ SepFree(d, d.tags[x].v, {"C", "S", "E"})
    /\ \A x \in 1..Len(d.fields) : SepFree(d, d.fields[x].k, {"C", "S", "E"}) /\ SepFree(d, d.fields[x].s, {"Q"})

\* every consumed position is either structure (separator, delimiter, escaping backslash, token, skipped
\* white space) or appears exactly once, in input order, in exactly one decoded string
Conservation ==
  d.st = "Accept" =>
    LET dec == Decoded(d)
    IN /\ Cardinality(SeqSet(dec)) = Len(dec)
       /\ SeqSet(dec) \cap d.struct = {}
       /\ SeqSet(dec) \cup d.struct = 1..Len(line)
       /\ \A x, y \in 1..Len(dec) : x < y => dec[x] < dec[y]

\* quotes are special only as the two delimiters of a string field value
QuotesOnlyDelimitStrings ==
  d.st = "Accept" =>
    Cardinality({j \in d.struct : line[j] = "Q"}) = 2 * Cardinality({x \in 1..Len(d.fields) : d.fields[x].t = "string"})

\* every tag seen is kept with a non-empty key and value
TagsComplete ==
  d.st = "Accept" => \A x \in 1..Len(d.tags) : d.tags[x].k # <<>> /\ d.tags[x].v # <<>>

\* a typed value keeps its type and a boolean its truth value
ValueFaithful ==
  d.st = "Accept" => \A x \in 1..Len(d.fields) :
     LET f == d.fields[x]
     IN /\ f.t \in {"int", "float", "bool", "string"}
        /\ (f.t = "int" => f.tok \in IntOK)
        /\ (f.t = "float" => f.tok \in FloatOK)
        /\ (f.t = "bool" => (f.tok \in BoolT /\ f.val = "true") \/ (f.tok \in BoolF /\ f.val = "false"))
        /\ (f.t = "string" => f.tok = "")
        /\ f.via = ""

\* an accepted timestamp is in range after scaling by the precision, never a wrapped product
TimestampFaithful ==
  d.st = "Accept" => d.tsvia = "" /\ (d.ts = "TS_MISSING" \/ TsKind(d.ts, prec, {}) = "ok")

\* Reject is absorbing (action property)
RejectAbsorbing == [][d.st = "Reject" => d'.st = "Reject"]_vars

\* the structural as-implemented deviations change nothing for a line the documented grammar accepts
\* without ambiguity: they only concern invalid input
Out(a) == IF a.st = "Accept" THEN [kind |-> "Accept", mst |-> a.mst, tags |-> a.tags, fields |-> a.fields, ts |-> a.ts, tsvia |-> a.tsvia]
          ELSE [kind |-> "Reject"]
StructDevs == {"empty_tag_skipped", "tagval_equals_literal", "fsuffix_unvalidated", "quote_scan", "quote_scan_key"}
DevOnlyOnInvalid ==
  (done /\ d.st = "Accept" /\ d.amb = {}) =>
     \A D \in DevSets : (D \subseteq StructDevs) => Out(m[D]) = Out(d)

\* batches: a request is answered with an error iff some line is invalid, an invalid line stores
\* nothing, and an acknowledged request has stored every valid line. vs[i] = line i is valid.
\* as implemented (batch_last_line_decides, F-C06-6): the status is that of the LAST line of the block
BatchStatus(vs, dv) ==
  IF "batch_last_line_decides" \in dv THEN (IF vs[Len(vs)] THEN 204 ELSE 400)
  ELSE IF \A i \in 1..Len(vs) : vs[i] THEN 204 ELSE 400
BatchStored(vs, i, dv) == vs[i] /\ BatchStatus(vs, dv) = 204
BatchOK ==
  \A n \in 1..3 : \A vs \in [1..n -> BOOLEAN] :
     /\ (BatchStatus(vs, Dev) = 204) = (\A i \in 1..n : vs[i])
     /\ \A i \in 1..n : ~vs[i] => ~BatchStored(vs, i, Dev)
     /\ BatchStatus(vs, Dev) = 204 => \A i \in 1..n : vs[i] => BatchStored(vs, i, Dev)
=============================================================================
