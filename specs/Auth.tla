-------------------------------- MODULE Auth --------------------------------
(***************************************************************************)
(* Authentication and authorisation of the HTTP front end (C19).           *)
(*                                                                         *)
(* Code sites (lib/util/lifted/influx/httpd unless said otherwise):        *)
(*   Wrapped      : handler.go:NewHandler, AddRoutes (a handler with the   *)
(*                  signature (w, r, user) is wrapped by authenticate; one *)
(*                  with (w, r) is public), ServeHTTP (prefixes dispatched *)
(*                  outside the router)                                    *)
(*   Authenticate : handler.go:ParseCredentials (u/p URL parameters first, *)
(*                  then Authorization: Bearer | Token | Basic) and        *)
(*                  handler.go:authenticate -> metaclient                  *)
(*                  Client.Authenticate / Auth.Authenticate (password),    *)
(*                  jwt.Parse + Client.User (bearer)                       *)
(*   Holds        : meta/userinfo.go:AuthorizeDatabase,                    *)
(*                  AuthorizeUnrestricted                                  *)
(*   StmtNeeds    : influxql/ast.go:RequiredPrivileges per statement       *)
(*   query branch of Outcome : auth/auth.go:QueryAuthorizer.AuthorizeQuery *)
(*                  -> meta/authorizer.go:UserInfo.AuthorizeQuery (ALL     *)
(*                  statements are authorised before the first runs)       *)
(*   HandlerNeeds : auth/auth.go:WriteAuthorizer (serveWrite,              *)
(*                  servePromWriteBase, serveOTLP, fence handlers),        *)
(*                  handler.go:checkAuthorization (prom / log queries),    *)
(*                  handler.go:checkAuth / serveSysCtrl (admin only)       *)
(*   result cache : handler_prom.go:servePromBaseQuery -> results_cache.go *)
(*                  ResultsCache.Do / handleHit / handleMiss (range        *)
(*                  queries; key = metric store, database, retention       *)
(*                  policy, query text, step, time bucket - NOT the user)  *)
(*   side ports   : the HTTP ports of the meta and the store role:         *)
(*                  app/ts-meta/meta/handler.go:ServeHTTP / WrapHandler,   *)
(*                  app/ts-store/run/handler.go:ServeHTTP / WrapHandler -> *)
(*                  lib/httpserver/handler.go:Authenticate (the wrapper of *)
(*                  these ports: ParseCredentials, user name and password  *)
(*                  only; a Bearer token is "unsupported authentication")  *)
(*   admin actions: coordinator/statement_executor.go:executeGrant /       *)
(*                  Revoke / CreateUser / DropUser / SetPasswordUser ->    *)
(*                  meta/data.go:SetPrivilege, CreateUser, DropUser,       *)
(*                  UpdateUser, DropDatabase (removes the privileges)      *)
(*                                                                         *)
(* The request is decided by the MECHANISM (Outcome): the steps above in   *)
(* the order of the code.  The property is stated against the independent, *)
(* declarative ENTITLEMENT (Allowed): what the privilege table says the    *)
(* requester may do.  Every mechanism operator takes the deviation set dv  *)
(* explicitly so that one run exports the design's outcome (dv = {}) and   *)
(* the prediction of the as-implemented deviations (dv = ImplDev); the     *)
(* state evolves and the invariants are evaluated with the constant Dev.   *)
(* Dev = {} is the design and satisfies every invariant.                   *)
(*                                                                         *)
(* Facts of the implementation that are part of the design here: there is  *)
(* exactly one administrator, it cannot be dropped and GRANT/REVOKE ALL    *)
(* PRIVILEGES TO/FROM <user> is always refused (data.go:SetAdminPrivilege  *)
(* returns ErrGrantOrRevokeAdmin); GRANT replaces the privilege on the     *)
(* database, REVOKE clears bits of it; DROP DATABASE removes every         *)
(* privilege on it.                                                        *)
(***************************************************************************)
EXTENDS Integers, Sequences, FiniteSets, TLC

CONSTANTS Users,        \* ordinary users (the administrator "admin" always exists)
          Dbs,          \* databases: exist initially, can be dropped and re-created
          RouteClasses, \* route classes requests are drawn from
          StmtKinds,    \* statement kinds of the query endpoint requests are drawn from
          Transports,   \* credential transports requests are drawn from
          MaxStmts,     \* 1..2 statements per query request
          MaxRows,      \* bound on rows[d]
          MaxCreated,   \* bound on the number of databases created through requests
          Fixture,      \* BOOLEAN: start from the fixed privilege table of the matrix run
          WithRootActs, \* BOOLEAN: administrator actions enabled
          Depth,        \* length of exported behaviours
          MaxInflight,  \* 0: requests are atomic; 1: a request may be split into Begin (authentication) and Finish
          Record,       \* BOOLEAN: fill hist with the exported expectations (export runs only)
          ImplDev,      \* as-implemented deviations (exported prediction)
          Dev           \* deviations switched on for state evolution and invariants; {} = the design

VARIABLES users,    \* [Users -> [ex: BOOLEAN, pwv: 1..3, priv: [Dbs -> Levels]]]
          dbs,      \* existing databases (subset of Dbs)
          rows,     \* [Dbs -> 0..MaxRows] rows written through requests (0 when the database does not exist)
          rps,      \* [Dbs -> BOOLEAN] the extra retention policy exists (catalogue object requests may add / drop)
          created,  \* number of databases created through requests (fresh names; nothing targets them later)
          order,    \* the user table of the SQL node after the administrator: live ordinary users in creation order
                    \* (meta/data.go: Users is a slice; CreateUser appends, DropUser closes the gap in place)
          cache,    \* the response cache of the SQL front end: the databases a cached answer of the cacheable read exists
                    \* for.  The key is the REQUEST (database, query text, step ..), not the requester.
          inflight, \* requests that are authenticated but not yet authorised (at most MaxInflight; <<>> in most configs)
          last,     \* the last step: what was asked, what the mechanism did, what the requester was entitled to
          hist      \* exported behaviour

vars == <<users, dbs, rows, rps, created, cache, order, inflight, last, hist>>
\* (the number of steps is part of the view: the exhaustive runs are bounded by Depth, and a state reached again by a
\* shorter path must be expanded again)
view == <<users, dbs, rows, rps, created, cache, order, inflight, last, Len(hist)>>

Root   == "admin"                      \* the administrator
Ghost  == "ghost"                      \* a name no user ever had
Levels == {"none", "read", "write", "all"}
Grantable == {"read", "write", "all"}
HasRead(l)  == l \in {"read", "all"}
HasWrite(l) == l \in {"write", "all"}

\* executeGrantStatement: SetPrivilege(user, db, p) - the new privilege REPLACES the old one
GrantLevel(old, p) == p
\* executeRevokeStatement: priv = old &^ p (READ = 1, WRITE = 2, ALL = 3)
RevokeLevel(old, p) ==
  CASE p = "all"   -> "none"
    [] p = "read"  -> (CASE old = "all" -> "write" [] old = "read"  -> "none" [] OTHER -> old)
    [] p = "write" -> (CASE old = "all" -> "read"  [] old = "write" -> "none" [] OTHER -> old)

State == [users |-> users, dbs |-> dbs, rows |-> rows, rps |-> rps, created |-> created, cache |-> cache]

-----------------------------------------------------------------------------
\* Requests

\* credentials: none at all; syntactically broken; or a user name with a password / token
\*   pw "cur" = the current password (bearer: token signed with the shared secret, not expired)
\*   pw "old" = the password before the last SET PASSWORD, garbage if there was none (bearer: expired token)
\*   pw "bad" = a wrong password (bearer: token signed with another secret)
CredNone == [k |-> "none", u |-> "", pw |-> ""]
CredMalformed == [k |-> "malformed", u |-> "", pw |-> ""]
UserCreds == [k : {"user"}, u : Users \cup {Root, Ghost}, pw : {"cur", "old", "bad"}]
Creds == {CredNone, CredMalformed} \cup UserCreds

\* transports: Authorization: Basic | Token u:p | Bearer jwt ; u= p= URL parameters ;
\* "mixed" = the credentials travel as URL parameters AND an Authorization: Basic header with the administrator's
\* valid credentials is attached (ParseCredentials: the URL parameters win)
AllTransports == {"basic", "token", "url", "bearer", "mixed"}

\* Anonymous by design: liveness / status and pre-flight
AnonClasses  == {"ping", "preflight"}
\* needs WRITE on the target database
WriteClasses == {"write", "fence", "lk_write"}
\* needs READ on the target database
\*   cread = the cacheable read (Prometheus range / instant query over a time range old enough to be cached)
ReadClasses  == {"read", "cread", "lk_query", "lk_consume", "lk_show", "lk_noop"}
\* needs a valid user, nothing else (server statistics); lk_list additionally filters what it shows
AuthnClasses == {"metrics", "expvar", "lk_list"}
\* administrator only (catalogue changes, control of the server, internals)
\*   the side ports (operations ports of the meta and the store role) show and control node internals:
\*   m_internals = GET /getdata, /debug, /analysisCache of the meta port; m_control = its POST routes (takeover, balance,
\*   movePt, snapshots, recovery ..); m_stats / s_stats = /debug/vars of the meta / store port
RootClasses  == {"createdb", "control", "failpoint", "pprof", "debugquery", "runtimecfg", "lk_mgmt",
                 "m_internals", "m_control", "m_stats", "s_stats"}
\* server roles: every route class is served by the HTTP port of one role
SideClasses  == {"m_internals", "m_control", "m_stats", "s_stats"}
PortOf(rc)   == IF rc \in {"m_internals", "m_control", "m_stats"} THEN "meta" ELSE IF rc = "s_stats" THEN "store" ELSE "sql"
\* registered but switched off: refuses everybody
OffClasses   == {"flux"}
AllClasses   == AnonClasses \cup WriteClasses \cup ReadClasses \cup AuthnClasses \cup RootClasses \cup OffClasses \cup {"query"}

\* statement kinds of /query (classes of statements with the same RequiredPrivileges shape and effect)
\*   sel        SELECT .. FROM [on..]m                      READ on (on | db)
\*   sel_into   SELECT .. INTO [on..]t FROM m               READ on db, WRITE on (on | db)
\*   show_in    SHOW MEASUREMENTS|SERIES|TAG KEYS|.. [ON on] READ on (on | db)
\*   show_dbs   SHOW DATABASES                              none (answer filtered by privilege)
\*   delete     DELETE FROM m | DROP SERIES FROM m          WRITE on db (no ON clause); rows of a victim measurement
\*   drop_rp    DROP RETENTION POLICY rpx ON (on | db)      WRITE on (on | db)
\*   create_db  CREATE DATABASE <fresh>                     administrator
\*   drop_db    DROP DATABASE (on | db)                     administrator
\*   create_rp  CREATE RETENTION POLICY rpx ON (on | db)    administrator
\*   user_admin CREATE USER / DROP USER / SET PASSWORD / GRANT / REVOKE (on a scratch user)   administrator
\*   root_show  SHOW USERS / SHOW GRANTS / SHOW STATS / SHOW SHARDS ..                        administrator
\*   root_ddl   DROP / CREATE MEASUREMENT, ALTER RETENTION POLICY, DROP SHARD, KILL QUERY,
\*              CREATE / DROP SUBSCRIPTION, SET CONFIG ..  (on the db URL parameter)           administrator
AllStmtKinds == {"sel", "sel_into", "show_in", "show_dbs", "delete", "drop_rp", "create_db", "drop_db", "create_rp",
                 "user_admin", "root_show", "root_ddl"}
OnKinds == {"sel", "sel_into", "show_in", "drop_rp", "drop_db", "create_rp"}   \* kinds that can name a database themselves

Eff(r, k) == IF r.on # "" /\ k \in OnKinds THEN r.on ELSE r.db

\* influxql/ast.go:RequiredPrivileges (ExecutionPrivilege{Admin, Name, Privilege}); Name "" = the db URL parameter
StmtNeeds(k, r) ==
  CASE k = "sel"        -> {<<"read", Eff(r, k)>>}
    [] k = "sel_into"   -> {<<"read", r.db>>, <<"write", Eff(r, k)>>}
    [] k = "show_in"    -> {<<"read", Eff(r, k)>>}
    [] k = "show_dbs"   -> {}
    [] k = "delete"     -> {<<"write", r.db>>}
    [] k = "drop_rp"    -> {<<"write", Eff(r, k)>>}
    [] k \in {"create_db", "drop_db", "create_rp", "user_admin", "root_show", "root_ddl"} -> {<<"root", "">>}

StmtSet(r) == {r.stmts[i] : i \in 1..Len(r.stmts)}

\* what the request needs, by the design's route table
Needs(r) ==
  CASE r.rc \in AnonClasses  -> {}
    [] r.rc \in WriteClasses -> {<<"write", r.db>>}
    [] r.rc \in ReadClasses  -> {<<"read", r.db>>}
    [] r.rc \in AuthnClasses -> {<<"authn", "">>}
    [] r.rc \in RootClasses  -> {<<"root", "">>}
    [] r.rc \in OffClasses   -> {<<"nobody", "">>}
    [] r.rc = "query"        -> {<<"authn", "">>} \cup UNION {StmtNeeds(k, r) : k \in StmtSet(r)}

-----------------------------------------------------------------------------
\* The ENTITLEMENT (declarative; independent of the mechanism): who the requester really is and what the
\* privilege table gives him.

\* the user a credential stands for: only a live user with his current password / a valid token
Principal(S, c) ==
  IF c.k = "user" /\ c.pw = "cur" /\ (c.u = Root \/ (c.u \in Users /\ S.users[c.u].ex)) THEN c.u ELSE "NOBODY"

Granted(S, u, n) ==
  CASE n[1] = "nobody" -> FALSE
    [] u = Root        -> TRUE
    [] n[1] = "authn"  -> TRUE
    [] n[1] = "root"   -> FALSE
    [] n[1] = "read"   -> n[2] \in Dbs /\ HasRead(S.users[u].priv[n[2]])
    [] n[1] = "write"  -> n[2] \in Dbs /\ HasWrite(S.users[u].priv[n[2]])

Allowed(S, r) ==
  Needs(r) = {} \/ (Principal(S, r.cred) # "NOBODY" /\ \A n \in Needs(r) : Granted(S, Principal(S, r.cred), n))

\* databases whose existence a user may learn from a listing (SHOW DATABASES, repository list)
MaySee(S, u) == IF u = Root THEN S.dbs
                ELSE IF u \in Users THEN {d \in S.dbs : S.users[u].priv[d] # "none"}
                ELSE {}

-----------------------------------------------------------------------------
\* The MECHANISM

\* handler.go:AddRoutes / ServeHTTP: is the route wrapped by authenticate?
Wrapped(dv, rc) ==
  CASE rc \in AnonClasses -> FALSE
    [] rc = "failpoint"  -> "unwrapped_failpoint" \notin dv      \* registered with the (w, r) signature
    [] rc \in {"pprof", "debugquery"} -> "unwrapped_debug" \notin dv   \* dispatched by ServeHTTP before the router
    [] rc = "expvar"     -> "unwrapped_expvar" \notin dv
    [] rc = "runtimecfg" -> "unwrapped_runtimecfg" \notin dv
    [] OTHER -> TRUE

\* handler.go:ParseCredentials + authenticate: the user the request runs as.
\*   "REJECT" = 401; "NIL" = the handler runs with user == nil (only reachable through a deviation here, because an
\*   administrator always exists)
\*   lib/httpserver/handler.go:Authenticate (the wrapper of the side ports) knows user name + password only:
\*   a Bearer token is answered 401 "unsupported authentication" whatever it says.  "CONTINUE" = the wrapper has
\*   written the 401 and runs the handler all the same (deviation reject_then_continue).
Authenticate(dv, S, r) ==
  LET c == r.cred IN
  CASE c.k = "none"      -> "REJECT"                       \* unable to parse authentication credentials
    [] c.k = "malformed" /\ ~(r.rc \in SideClasses /\ r.tr = "bearer") -> "REJECT"
    [] r.rc \in SideClasses /\ r.tr = "bearer" -> IF "reject_then_continue" \in dv THEN "CONTINUE" ELSE "REJECT"
    [] OTHER ->
       LET live == c.u = Root \/ (c.u \in Users /\ S.users[c.u].ex)
           pwok == \/ c.pw = "cur"
                   \/ c.pw = "old" /\ "stale_password_accepted" \in dv /\ r.tr # "bearer" /\ c.u \in Users /\ S.users[c.u].pwv > 1
                   \/ "url_creds_unchecked" \in dv /\ r.tr \in {"url", "mixed"}
                   \/ "bearer_unsigned" \in dv /\ r.tr = "bearer"
       IN  IF ~live THEN (IF "unknown_user_anonymous" \in dv THEN "NIL" ELSE "REJECT")
           ELSE IF pwok THEN c.u ELSE "REJECT"

\* meta/userinfo.go:AuthorizeDatabase
LevelFor(dv, S, u, d) ==
  IF "other_db_priv_honoured" \in dv
  THEN LET R == \E x \in Dbs : HasRead(S.users[u].priv[x])
           W == \E x \in Dbs : HasWrite(S.users[u].priv[x])
       IN IF R /\ W THEN "all" ELSE IF R THEN "read" ELSE IF W THEN "write" ELSE "none"
  ELSE IF d \in Dbs THEN S.users[u].priv[d] ELSE "none"

Holds(dv, S, u, n) ==
  CASE n[1] = "nobody" -> FALSE
    [] u = "NIL"       -> "unknown_user_anonymous" \in dv     \* a handler that forgets the nil check
    [] u = Root        -> TRUE
    [] n[1] = "authn"  -> TRUE
    [] n[1] = "root"   -> FALSE
    [] n[1] = "read"   -> HasRead(LevelFor(dv, S, u, n[2]))
    [] n[1] = "write"  -> \/ HasWrite(LevelFor(dv, S, u, n[2]))
                          \/ "readonly_may_write" \in dv /\ HasRead(LevelFor(dv, S, u, n[2]))

\* what the handler of the route class checks after authentication
HandlerNeeds(dv, r) ==
  CASE r.rc = "createdb" /\ "noauthz_createdb" \in dv -> {<<"authn", "">>}
    [] r.rc \in {"lk_mgmt", "lk_show", "lk_write", "lk_consume", "lk_noop"} /\ "noauthz_logkeeper" \in dv -> {<<"authn", "">>}
    [] r.rc \in SideClasses /\ "noauthz_sideport" \in dv -> {<<"authn", "">>}     \* the wrapper authenticates, nobody authorises
    [] r.rc = "query" /\ "explicit_db_ignored" \in dv ->
         {<<"authn", "">>} \cup UNION {StmtNeeds(k, [r EXCEPT !.on = ""]) : k \in StmtSet(r)}
    [] OTHER -> Needs(r)

NoEff == [k |-> "none", d |-> ""]

\* the effect of one statement / of a non-query request when it runs
StmtEffect(S, k, r) ==
  CASE k = "sel_into"  -> IF Eff(r, k) \in S.dbs /\ r.db \in S.dbs THEN [k |-> "row", d |-> Eff(r, k)] ELSE NoEff
    [] k = "delete"    -> IF r.db \in S.dbs THEN [k |-> "del", d |-> r.db] ELSE NoEff
    [] k = "drop_rp"   -> IF Eff(r, k) \in S.dbs /\ S.rps[Eff(r, k)] THEN [k |-> "rp_del", d |-> Eff(r, k)] ELSE NoEff
    [] k = "create_rp" -> IF Eff(r, k) \in S.dbs /\ ~S.rps[Eff(r, k)] THEN [k |-> "rp_add", d |-> Eff(r, k)] ELSE NoEff
    [] k = "create_db" -> [k |-> "db_add", d |-> ""]
    [] k = "drop_db"   -> IF Eff(r, k) \in S.dbs THEN [k |-> "db_del", d |-> Eff(r, k)] ELSE NoEff
    [] k = "user_admin" -> [k |-> "scratch_user", d |-> ""]
    [] k = "root_ddl"  -> IF r.db \in S.dbs THEN [k |-> "ddl", d |-> r.db] ELSE NoEff
    [] OTHER -> NoEff

\* what one statement / request discloses when it runs: tokens <<kind, database>>
StmtDisc(dv, S, u, k, r) ==
  CASE k = "sel"       -> IF Eff(r, k) \in S.dbs THEN {<<"rows", Eff(r, k)>>} ELSE {}
    [] k = "show_in"   -> IF Eff(r, k) \in S.dbs THEN {<<"cat", Eff(r, k)>>} ELSE {}
    [] k = "show_dbs"  -> {<<"name", d>> : d \in IF "listing_unfiltered" \in dv THEN S.dbs ELSE MaySee(S, u)}
    [] k = "root_show" -> {<<"users", "">>}
    [] OTHER -> {}

RouteEffect(S, r) ==
  CASE r.rc \in {"write", "lk_write"} -> IF r.db \in S.dbs THEN [k |-> "row", d |-> r.db] ELSE NoEff
    [] r.rc = "createdb" -> [k |-> "db_add", d |-> ""]
    [] r.rc \in {"control", "failpoint", "m_control"} -> [k |-> "ctl", d |-> ""]
    [] r.rc = "lk_mgmt"  -> [k |-> "lk_obj", d |-> r.db]
    [] OTHER -> NoEff

RouteDisc(dv, S, u, r) ==
  CASE r.rc \in {"read", "lk_query", "lk_consume"} -> IF r.db \in S.dbs THEN {<<"rows", r.db>>} ELSE {}
    [] r.rc = "cread"     -> IF r.db \in S.dbs \/ r.db \in S.cache THEN {<<"rows", r.db>>} ELSE {}   \* (a cached answer outlives its database)
    [] r.rc = "lk_show"   -> IF r.db \in S.dbs THEN {<<"cat", r.db>>} ELSE {}
    [] r.rc = "lk_list"   -> {<<"name", d>> : d \in IF "noauthz_logkeeper" \in dv \/ "listing_unfiltered" \in dv THEN S.dbs ELSE MaySee(S, u)}
    [] r.rc \in {"metrics", "expvar", "m_stats", "s_stats"} -> {<<"stats", "">>}
    [] r.rc \in {"pprof", "debugquery", "runtimecfg", "m_internals"} -> {<<"internals", "">>}
    [] OTHER -> {}

\* the outcome of a request in state S under the deviations dv:
\*   st    "ok" | "unauthenticated" (401) | "forbidden" (403)
\*   effs  sequence of effects applied, in order
\*   disc  set of disclosed tokens
\*   fill  the cache keys (databases) the request leaves an answer for in the response cache
Refuse(st) == [st |-> st, effs |-> <<>>, disc |-> {}, fill |-> {}]
EffSeq(e) == IF e = NoEff THEN <<>> ELSE <<e>>
\* the part of a request after authentication: the handler runs as user u
Decide(dv, S, r, u) ==
  IF r.rc = "query" THEN
       LET rr == IF "explicit_db_ignored" \in dv THEN [r EXCEPT !.on = ""] ELSE r
           ok(i) == \A n \in ({<<"authn", "">>} \cup StmtNeeds(r.stmts[i], rr)) : Holds(dv, S, u, n)
           allok == \A n \in HandlerNeeds(dv, r) : Holds(dv, S, u, n)
           \* UserInfo.AuthorizeQuery authorises every statement before ExecuteQuery starts;
           \* the deviation authorises a statement only when its turn comes
           run == IF "lazy_multi_stmt" \in dv
                  THEN {i \in 1..Len(r.stmts) : \A j \in 1..i : ok(j)}
                  ELSE IF allok THEN 1..Len(r.stmts) ELSE {}
           effseq == [i \in 1..Len(r.stmts) |-> IF i \in run THEN StmtEffect(S, r.stmts[i], r) ELSE NoEff]
       IN [st |-> IF run = 1..Len(r.stmts) THEN "ok" ELSE "forbidden",
           effs |-> SelectSeq(effseq, LAMBDA e : e # NoEff),
           disc |-> UNION {StmtDisc(dv, S, u, r.stmts[i], r) : i \in run}, fill |-> {}]
  ELSE IF r.rc = "cread" /\ r.db \in S.cache /\ "cache_hit_skips_authz" \in dv
       \* results_cache.go:handleHit - a full hit is answered from the cache; checkAuthorization sits in execQuery, which
       \* only a (partial) miss reaches
       THEN [st |-> "ok", effs |-> <<>>, disc |-> RouteDisc(dv, S, u, r), fill |-> {}]
  ELSE IF \A n \in HandlerNeeds(dv, r) : Holds(dv, S, u, n)
       \* design: the authorisation decision is taken for EVERY request, before a cached answer may be returned; an
       \* authorised miss leaves its answer in the cache
       THEN [st |-> "ok", effs |-> EffSeq(RouteEffect(S, r)), disc |-> RouteDisc(dv, S, u, r),
             fill |-> IF r.rc = "cread" /\ r.db \in S.dbs THEN {r.db} ELSE {}]
       ELSE Refuse("forbidden")

Outcome(dv, S, r) ==
  IF r.rc \in AnonClasses THEN [st |-> "ok", effs |-> <<>>, disc |-> {}, fill |-> {}]
  ELSE IF ~Wrapped(dv, r.rc)
  THEN \* the handler has no user parameter: it cannot check anything
       [st |-> "ok", effs |-> EffSeq(RouteEffect(S, r)), disc |-> RouteDisc(dv, S, Root, r), fill |-> {}]
  ELSE
  LET u == Authenticate(dv, S, r) IN
  IF u = "REJECT" THEN Refuse("unauthenticated")
  ELSE IF u = "CONTINUE"
  THEN \* the wrapper of the side ports has answered 401 - and calls the handler, which knows no user
       [st |-> "unauthenticated", effs |-> EffSeq(RouteEffect(S, r)), disc |-> RouteDisc(dv, S, Root, r), fill |-> {}]
  ELSE Decide(dv, S, r, u)

\* applying effects to the state
Apply1(S, e) ==
  CASE e.k = "row"    -> [S EXCEPT !.rows[e.d] = IF @ < MaxRows THEN @ + 1 ELSE @]
    [] e.k = "rp_add" -> [S EXCEPT !.rps[e.d] = TRUE]
    [] e.k = "rp_del" -> [S EXCEPT !.rps[e.d] = FALSE]
    [] e.k = "db_add" -> [S EXCEPT !.created = IF @ < MaxCreated THEN @ + 1 ELSE @]
    [] e.k = "db_del" -> [S EXCEPT !.dbs = @ \ {e.d}, !.rows[e.d] = 0, !.rps[e.d] = FALSE,
                                   !.users = [x \in Users |-> [S.users[x] EXCEPT !.priv[e.d] = IF "dropped_db_priv_survives" \in Dev THEN @ ELSE "none"]]]
    [] OTHER -> S            \* del, ddl, ctl, lk_obj, scratch_user: performed, not tracked in the state
RECURSIVE ApplyAll(_, _)
ApplyAll(S, es) == IF es = <<>> THEN S ELSE ApplyAll(Apply1(S, Head(es)), Tail(es))

Acted(o) == o.effs # <<>> \/ o.disc # {}
Filled(S, o) == [S EXCEPT !.cache = @ \cup o.fill]

\* what a user may do: the mechanism's answer for every (user, database) cell
May(dv, S) == [u \in Users |-> [d \in Dbs |->
                 [r |-> S.users[u].ex /\ d \in S.dbs /\ Holds(dv, S, u, <<"read", d>>),
                  w |-> S.users[u].ex /\ d \in S.dbs /\ Holds(dv, S, u, <<"write", d>>)]]]

-----------------------------------------------------------------------------
\* Request alphabet

DbArgs == Dbs
OnArgs == Dbs \cup {""}
SecondKinds == {"sel", "delete", "create_db", "drop_db", "sel_into"}

StmtSeqs == {<<k>> : k \in StmtKinds} \cup
            (IF MaxStmts >= 2 THEN {<<k1, k2>> : k1 \in StmtKinds, k2 \in StmtKinds \cap SecondKinds} ELSE {})

\* canonical forms: no credentials / malformed ones have no interesting transport; "mixed" only with user credentials
CredTr == {<<CredNone, "basic">>} \cup {<<CredMalformed, t>> : t \in Transports \ {"mixed"}} \cup (UserCreds \X Transports)

QueryReqs == {[rc |-> "query", cred |-> ct[1], tr |-> ct[2], db |-> d, on |-> o, stmts |-> s] :
                ct \in CredTr, d \in DbArgs, o \in OnArgs, s \in StmtSeqs}
RouteReqs == {[rc |-> c, cred |-> ct[1], tr |-> ct[2], db |-> d, on |-> "", stmts |-> <<>>] :
                c \in RouteClasses \ {"query"}, ct \in CredTr, d \in DbArgs}
\* a statement list that names no database itself gets no ON argument
WellFormed(r) == r.rc # "query" \/ r.on = "" \/ \E k \in StmtSet(r) : k \in OnKinds
AllReqs == {r \in (IF "query" \in RouteClasses THEN QueryReqs ELSE {}) \cup RouteReqs : WellFormed(r)}

\* overridden in the simulation configs
ReqChoices == AllReqs

-----------------------------------------------------------------------------
\* Behaviours

NoLast == [a |-> "none"]

FixturePriv(u, d) ==       \* u1: read-only on db1, u2: write-only on db1, u3: everything on db2, others nothing
  CASE u = "u1" /\ d = "db1" -> "read"
    [] u = "u2" /\ d = "db1" -> "write"
    [] u = "u3" /\ d = "db2" -> "all"
    [] OTHER -> "none"

Init ==
  /\ users = IF Fixture THEN [u \in Users |-> [ex |-> TRUE, pwv |-> 2, priv |-> [d \in Dbs |-> FixturePriv(u, d)]]]
             ELSE [u \in Users |-> [ex |-> FALSE, pwv |-> 1, priv |-> [d \in Dbs |-> "none"]]]
  /\ dbs = Dbs
  /\ rows = [d \in Dbs |-> 0]
  /\ rps = [d \in Dbs |-> FALSE]
  /\ created = 0
  /\ cache = {}
  /\ order = IF Fixture THEN <<"u1", "u2", "u3">> ELSE <<>>
  /\ inflight = <<>>
  /\ last = NoLast
  /\ hist = <<>>

Without(seq, x) == SelectSeq(seq, LAMBDA y : y # x)
RootStep(a, args, S2) ==
  /\ users' = S2.users /\ dbs' = S2.dbs /\ rows' = S2.rows /\ rps' = S2.rps /\ created' = S2.created /\ cache' = S2.cache
  /\ order' = CASE a = "CreateUser" -> Append(order, args.u)
                [] a = "DropUser"   -> Without(order, args.u)
                [] OTHER -> order
  /\ UNCHANGED inflight
  /\ last' = [a |-> a, args |-> args]
  /\ hist' = Append(hist, IF ~Record THEN [a |-> a] ELSE
                           [a |-> a, args |-> args,
                            exp |-> [may |-> May({}, S2), dbs |-> S2.dbs,
                                     live |-> {u \in Users : S2.users[u].ex}]])

\* CREATE USER u WITH PASSWORD ..   (data.go:CreateUser)
CreateUser(u) ==
  /\ ~users[u].ex
  /\ RootStep("CreateUser", [u |-> u], [State EXCEPT !.users[u] = [ex |-> TRUE, pwv |-> 1, priv |-> [d \in Dbs |-> "none"]]])

\* DROP USER u   (data.go:DropUser); a later CREATE USER u starts without privileges
DropUser(u) ==
  /\ users[u].ex
  /\ RootStep("DropUser", [u |-> u], [State EXCEPT !.users[u] = [ex |-> FALSE, pwv |-> 1, priv |-> [d \in Dbs |-> "none"]]])

\* SET PASSWORD FOR u = ..   (data.go:UpdateUser; metaclient Auth.UpdateAuthCache drops the cached password)
SetPassword(u) ==
  /\ users[u].ex /\ users[u].pwv < 3
  /\ RootStep("SetPassword", [u |-> u], [State EXCEPT !.users[u].pwv = @ + 1])

\* GRANT p ON d TO u   (data.go:SetPrivilege)
Grant(u, d, p) ==
  /\ users[u].ex /\ d \in dbs
  /\ RootStep("Grant", [u |-> u, d |-> d, p |-> p],
              IF "grant_all_dbs" \in Dev
              THEN [State EXCEPT !.users[u].priv = [x \in Dbs |-> GrantLevel(@[x], p)]]
              ELSE [State EXCEPT !.users[u].priv[d] = GrantLevel(@, p)])

\* REVOKE p ON d FROM u
Revoke(u, d, p) ==
  /\ users[u].ex /\ d \in dbs
  /\ RootStep("Revoke", [u |-> u, d |-> d, p |-> p], [State EXCEPT !.users[u].priv[d] = RevokeLevel(@, p)])

\* GRANT ALL PRIVILEGES TO u / REVOKE ALL PRIVILEGES FROM u: always refused (data.go:SetAdminPrivilege)
SetAdmin(u, on) ==
  /\ users[u].ex
  /\ RootStep("SetAdmin", [u |-> u, on |-> IF on THEN "on" ELSE "off"], State)

\* DROP DATABASE d by the administrator, and CREATE DATABASE d again
DropDatabase(d) ==
  /\ d \in dbs
  /\ RootStep("DropDatabase", [d |-> d], Apply1(State, [k |-> "db_del", d |-> d]))
CreateDatabase(d) ==
  /\ d \notin dbs
  /\ RootStep("CreateDatabase", [d |-> d], [State EXCEPT !.dbs = @ \cup {d}])

\* one HTTP request
Request(r) ==
  LET S  == State
      o  == Outcome(Dev, S, r)
      S2 == Filled(ApplyAll(S, o.effs), o)
      od == Outcome({}, S, r)
      oi == Outcome(ImplDev, S, r)
      Sum(x) == [st |-> x.st, acted |-> Acted(x), effs |-> x.effs, disc |-> x.disc]
  IN
  /\ users' = S2.users /\ dbs' = S2.dbs /\ rows' = S2.rows /\ rps' = S2.rps /\ created' = S2.created /\ cache' = S2.cache
  /\ UNCHANGED <<order, inflight>>
  /\ last' = [a |-> "Request", allowed |-> Allowed(S, r), st |-> o.st, acted |-> Acted(o), changed |-> S2 # S,
              leak |-> {t \in o.disc : t[1] = "name" /\ t[2] \notin MaySee(S, Principal(S, r.cred))}]
  /\ hist' = Append(hist, IF ~Record THEN [a |-> "Request"] ELSE
                           [a |-> "Request", args |-> r,
                            exp |-> Sum(od), imp |-> Sum(oi),
                            why |-> {x \in ImplDev : Outcome({x}, S, r) # od},
                            hit |-> r.rc = "cread" /\ r.db \in S.cache,
                            allowed |-> Allowed(S, r)])

\* ---- a request in two steps: the wrapper authenticates (Begin), later the handler authorises and runs (Finish);
\* administrator actions may come in between.  handler.go:authenticate keeps the *UserInfo that
\* metaclient Client.Authenticate returned.  Design: that is the user's record as it was at authentication (a value).
\* Deviation user_slot_alias: it is a pointer INTO the user table (data.go:GetUser returns &data.Users[i]) and the table
\* of the SQL node is changed in place (metaclient applyDataOps -> data.go:DropUser closes the gap): after a DROP USER
\* of an earlier user the pointer shows the record of the user that moved into the slot.
Pos(seq, x) == CHOOSE i \in 1..Len(seq) : seq[i] = x
Begin(r) ==
  LET S == State
      u == Authenticate(Dev, S, r)
  IN /\ Len(inflight) < MaxInflight
     /\ r.rc \notin AnonClasses /\ Wrapped(Dev, r.rc)
     /\ u \in Users                   \* (the administrator's slot is the first and never moves)
     /\ inflight' = Append(inflight, [r |-> r, u |-> u, slot |-> Pos(order, u), rec |-> S.users[u], ok0 |-> Allowed(S, r)])
     /\ UNCHANGED <<users, dbs, rows, rps, created, cache, order>>
     /\ last' = [a |-> "Begin"]
     /\ hist' = Append(hist, IF ~Record THEN [a |-> "Begin"] ELSE [a |-> "Begin", args |-> r, exp |-> [st |-> "pending"]])

\* the record the handler sees
SeenRec(dv, S, ord, p) ==
  IF "user_slot_alias" \in dv /\ p.slot <= Len(ord) THEN S.users[ord[p.slot]] ELSE p.rec
Finish ==
  LET S  == State
      p  == Head(inflight)
      As(dv) == [S EXCEPT !.users[p.u] = SeenRec(dv, S, order, p)]
      o  == Decide(Dev, As(Dev), p.r, p.u)
      S2 == Filled(ApplyAll(S, o.effs), o)
      od == Decide({}, As({}), p.r, p.u)
      oi == Decide(ImplDev, As(ImplDev), p.r, p.u)
      Sum(x) == [st |-> x.st, acted |-> Acted(x), effs |-> x.effs, disc |-> x.disc]
      okNow == Allowed(S, p.r)
  IN /\ inflight # <<>>
     /\ users' = S2.users /\ dbs' = S2.dbs /\ rows' = S2.rows /\ rps' = S2.rps /\ created' = S2.created /\ cache' = S2.cache
     /\ inflight' = Tail(inflight)
     /\ UNCHANGED order
     \* allowed = the requester held what the request needs at some point between authentication and execution
     /\ last' = [a |-> "Request", allowed |-> p.ok0 \/ okNow, st |-> o.st, acted |-> Acted(o), changed |-> S2 # S, leak |-> {}]
     /\ hist' = Append(hist, IF ~Record THEN [a |-> "Finish"] ELSE
                           [a |-> "Finish", args |-> p.r, exp |-> Sum(od), imp |-> Sum(oi),
                            why |-> {x \in ImplDev : Decide({x}, As({x}), p.r, p.u) # od},
                            seen |-> IF p.slot <= Len(order) THEN order[p.slot] ELSE p.u,
                            allowed |-> p.ok0 \/ okNow])

RootAct(a, u, d, p) == [a |-> a, u |-> u, d |-> d, p |-> p]
AllRootActs ==
  {RootAct(a, u, "", "") : a \in {"CreateUser", "DropUser", "SetPassword", "SetAdminOn", "SetAdminOff"}, u \in Users}
  \cup {RootAct(a, u, d, p) : a \in {"Grant", "Revoke"}, u \in Users, d \in Dbs, p \in Grantable}
  \cup {RootAct(a, "", d, "") : a \in {"DropDatabase", "CreateDatabase"}, d \in Dbs}
\* overridden in the simulation configs
RootChoices == AllRootActs

Bounded == Len(hist) < Depth

RootEnabled == Bounded /\ WithRootActs
DoCreateUser     == RootEnabled /\ \E x \in RootChoices : x.a = "CreateUser" /\ CreateUser(x.u)
DoDropUser       == RootEnabled /\ \E x \in RootChoices : x.a = "DropUser" /\ DropUser(x.u)
DoSetPassword    == RootEnabled /\ \E x \in RootChoices : x.a = "SetPassword" /\ SetPassword(x.u)
DoSetAdmin       == RootEnabled /\ \E x \in RootChoices : \/ x.a = "SetAdminOn" /\ SetAdmin(x.u, TRUE)
                                                          \/ x.a = "SetAdminOff" /\ SetAdmin(x.u, FALSE)
DoGrant          == RootEnabled /\ \E x \in RootChoices : x.a = "Grant" /\ Grant(x.u, x.d, x.p)
DoRevoke         == RootEnabled /\ \E x \in RootChoices : x.a = "Revoke" /\ Revoke(x.u, x.d, x.p)
DoDropDatabase   == RootEnabled /\ \E x \in RootChoices : x.a = "DropDatabase" /\ DropDatabase(x.d)
DoCreateDatabase == RootEnabled /\ \E x \in RootChoices : x.a = "CreateDatabase" /\ CreateDatabase(x.d)

ReqNext == Bounded /\ \E r \in ReqChoices : Request(r)
\* overridden in the race configs
BeginChoices == IF MaxInflight > 0 THEN ReqChoices ELSE {}
BeginNext  == Bounded /\ MaxInflight > 0 /\ \E r \in BeginChoices : Begin(r)
FinishNext == Bounded /\ MaxInflight > 0 /\ Finish

Next == DoCreateUser \/ DoDropUser \/ DoSetPassword \/ DoSetAdmin \/ DoGrant \/ DoRevoke \/ DoDropDatabase \/ DoCreateDatabase \/ ReqNext
        \/ BeginNext \/ FinishNext

Spec == Init /\ [][Next]_vars

-----------------------------------------------------------------------------
\* Properties

TypeOK ==
  /\ users \in [Users -> [ex : BOOLEAN, pwv : 1..3, priv : [Dbs -> Levels]]]
  /\ dbs \subseteq Dbs
  /\ rows \in [Dbs -> 0..MaxRows]
  /\ rps \in [Dbs -> BOOLEAN]
  /\ created \in 0..MaxCreated
  /\ cache \subseteq Dbs
  /\ {order[i] : i \in 1..Len(order)} = {u \in Users : users[u].ex} /\ Len(order) = Cardinality({u \in Users : users[u].ex})
  /\ Len(inflight) <= MaxInflight

\* C19, first sentence: whatever was performed (an effect, a disclosure, a success answer) was allowed
NoActionWithoutPrivilege ==
  last.a = "Request" => ((last.acted \/ last.changed \/ last.st = "ok") => last.allowed)

\* a request that is not allowed performs no part of the action: the state is untouched
NoPartialEffect ==
  last.a = "Request" => (~last.allowed => ~last.changed /\ ~last.acted)

\* listings never name a database the requester holds nothing on
ListingsFiltered ==
  last.a = "Request" => last.leak = {}

\* a user that does not exist, and a database that does not exist, carry no privilege
NoDanglingPrivilege ==
  \A u \in Users, d \in Dbs : (~users[u].ex \/ d \notin dbs) => users[u].priv[d] = "none"

StateP == [users |-> users', dbs |-> dbs', rows |-> rows', rps |-> rps', created |-> created', cache |-> cache']

\* C19, second sentence: GRANT / REVOKE change what the mechanism lets that user do on exactly that database,
\* and change it to what was granted
GrantRevokeExact ==
  [][ (last'.a \in {"Grant", "Revoke"}) =>
        LET a == last'.args
            m1 == May(Dev, State)
            m2 == May(Dev, StateP)
        IN /\ \A u \in Users, d \in Dbs : (u # a.u \/ d # a.d) => m2[u][d] = m1[u][d]
           /\ last'.a = "Grant" => m2[a.u][a.d] = [r |-> HasRead(a.p), w |-> HasWrite(a.p)]
           /\ last'.a = "Revoke" => /\ (a.p \in {"read", "all"} => ~m2[a.u][a.d].r)
                                    /\ (a.p \in {"write", "all"} => ~m2[a.u][a.d].w)
                                    /\ (a.p = "read" => m2[a.u][a.d].w = m1[a.u][a.d].w)
                                    /\ (a.p = "write" => m2[a.u][a.d].r = m1[a.u][a.d].r)
    ]_vars

\* no other administrator action touches a privilege cell it does not name; new users and new databases start empty
OthersKeepPrivileges ==
  [][ (last'.a \in {"CreateUser", "DropUser", "SetPassword", "SetAdmin", "DropDatabase", "CreateDatabase"}) =>
        LET a == last'.args
            m1 == May(Dev, State)
            m2 == May(Dev, StateP)
        IN \A u \in Users, d \in Dbs :
             /\ (last'.a \in {"CreateUser", "DropUser"} /\ u # a.u) => m2[u][d] = m1[u][d]
             /\ (last'.a \in {"DropDatabase", "CreateDatabase"} /\ d # a.d) => m2[u][d] = m1[u][d]
             /\ (last'.a \in {"SetPassword", "SetAdmin"}) => m2[u][d] = m1[u][d]
             /\ (last'.a = "CreateUser" /\ u = a.u) => m2[u][d] = [r |-> FALSE, w |-> FALSE]
             /\ (last'.a = "CreateDatabase" /\ d = a.d) => m2[u][d] = [r |-> FALSE, w |-> FALSE]
    ]_vars

=============================================================================
