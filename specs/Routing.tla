------------------------------- MODULE Routing -------------------------------
(***************************************************************************)
(* Where a point is written and which shards a query consults (C11).       *)
(*                                                                         *)
(* Write side  = coordinator/points_writer.go:updateShardGroupAndShardKey  *)
(*   group  : write_helper.go:createShardGroup -> meta/data.go:            *)
(*            CreateShardGroup/newShardGroup (span = timestamp truncated   *)
(*            to the group duration, half open [start,end))                *)
(*   key    : parser.go:UnmarshalShardKeyByTag (name,k1=v1,k2=v2 for the   *)
(*            shard-key tags; every tag when the shard key is empty; a row *)
(*            lacking a shard-key tag is rejected)                         *)
(*   shard  : HASH  meta/shardinfo.go:ShardFor(HashID(key) mod m)          *)
(*            RANGE meta/shardinfo.go:DestShard (Min <= key < Max)         *)
(* Read side   = coordinator/shard_mapper.go:mapMstShards                  *)
(*   time   : influxql.ConditionExpr (time bounds are intersected and      *)
(*            removed from the condition)                                  *)
(*   groups : metaclient ShardGroupsByTimeRange / ShardGroupInfo.Overlaps  *)
(*   shards : meta/shardinfo.go:TargetShards + getConditionTags            *)
(*                                                                         *)
(* A shard is identified by <<group start, slot>>; slot = position in the  *)
(* modulus domain (HASH) or index of the key interval (RANGE).  The hash   *)
(* is not interpreted: PruneSound has to hold for every Hash; the model    *)
(* checker tries the functions MCHash(salt, .), the harness the real one.  *)
(*                                                                         *)
(* Every pruning operator takes the deviation set dv explicitly so that    *)
(* one run can export the prediction of each deviation model; invariants   *)
(* use the constant Dev.  Dev = {} is the sound design.                    *)
(***************************************************************************)
EXTENDS Integers, Sequences, FiniteSets, TLC, SequencesExt, FiniteSetsExt

CONSTANTS TagKeys,    \* sequence of tag keys, ascending (tags of a row are sorted by key)
          TagVals,    \* sequence of tag values, ascending
          OptTags,    \* tag keys a row may lack (value "")
          FieldVals,  \* values of the integer field "usage"
          Times,      \* timestamps of rows
          GroupDur,   \* shard-group duration (abstract time units)
          SplitOff,   \* a re-sharded RANGE group starts at (group start + SplitOff)
          Setups,     \* set of setup records (see below)
          Atoms,      \* leaves of condition trees
          ParenInner, \* subset of BOOLEAN: may an operand of a depth-2 node be parenthesised
          ParenOuter, \* same for the operands of the root of a depth-3 tree
          MaxLevel,   \* 1..3: depth of the condition trees that are enumerated
          Depth,      \* number of steps of a behaviour (1 Setup + Depth-1 ProbeCond)
          Record,     \* BOOLEAN: fill hist (export runs only)
          EnumAll,    \* BOOLEAN: Next enumerates every condition tree up to MaxLevel
          ChunkSize,  \* > 0: Next probes the conditions of CondSetP in chunks of this size (export runs)
          ImplDevs,   \* deviation names whose models are exported for attribution
          Dev         \* deviations switched on for the invariants; {} = the design

CONSTANT Hash(_, _)   \* Hash(salt, key sequence) \in Nat, uninterpreted

VARIABLES setup,      \* the configuration under test (chosen at Init)
          slice,      \* which part of the condition trees this behaviour enumerates (work sharing only)
          cur,        \* the condition probed last (NoCond before the first probe)
          n,          \* number of steps so far
          hist        \* exported behaviour

vars == <<setup, slice, cur, n, hist>>
view == <<setup, slice, cur>>

(* setup = [type   : "hash" | "range",
            sk     : sequence of tag keys (ascending) = the shard key; <<>> = none,
            sk2    : the shard key after ALTER MEASUREMENT .. SHARDKEY (= sk when never altered),
            alter  : the alteration happens after the groups of `created' with a smaller index exist
                     (99 = never); every group created later - also on demand by a write - uses sk2
                     (MeasurementInfo.GetShardKey: the key whose first shard-group id is <= the group's id),
            m      : modulus domain size (HASH: partitions, or the measurement's shard count),
            pt     : partitions of the cluster (reported to the harness; m <= pt),
            created: set of group indexes created before the first write,
            split  : RANGE: index of the group that is re-sharded (-1 = never),
            bounds : RANGE: ascending sequence of key sequences, the split points,
            salt   : which hash function the model checker uses]                          *)

NoCond == [k |-> "none"]
NegInf == -1000
PosInf == 1000

KeySet == {TagKeys[i] : i \in 1..Len(TagKeys)}
ValSet == {TagVals[i] : i \in 1..Len(TagVals)}
KeyIdx(k) == CHOOSE i \in 1..Len(TagKeys) : TagKeys[i] = k
ValIdx(v) == IF v = "" THEN 0 ELSE CHOOSE i \in 1..Len(TagVals) : TagVals[i] = v

-----------------------------------------------------------------------------
\* Rows
RowSet == {r \in [tags : [KeySet -> ValSet \cup {""}], u : FieldVals, t : Times] :
              \A k \in KeySet : r.tags[k] = "" => k \in OptTags}

\* the shard key in force for the shard group with index gi
SkOfIdx(S, gi) == IF gi \in S.created /\ gi < S.alter THEN S.sk ELSE S.sk2
SkAt(S, t) == SkOfIdx(S, t \div GroupDur)

\* UnmarshalShardKeyByTag: ErrPointShouldHaveAllShardKey
Accepted(S, r) == \A i \in 1..Len(SkAt(S, r.t)) : r.tags[SkAt(S, r.t)[i]] # ""

PresentKeys(r) == SelectSeq(TagKeys, LAMBDA k : r.tags[k] # "")
\* the key that is hashed / range-compared, as a sequence of <<tag key, tag value>>
WKey(S, r) == IF SkAt(S, r.t) = <<>>
                THEN [i \in 1..Len(PresentKeys(r)) |-> <<PresentKeys(r)[i], r.tags[PresentKeys(r)[i]]>>]
                ELSE [i \in 1..Len(SkAt(S, r.t)) |-> <<SkAt(S, r.t)[i], r.tags[SkAt(S, r.t)[i]]>>]

-----------------------------------------------------------------------------
\* Order of key sequences = byte order of "name,k1=v1,k2=v2" (a proper prefix is smaller)
PairLess(p, q) == \/ KeyIdx(p[1]) < KeyIdx(q[1])
                  \/ p[1] = q[1] /\ ValIdx(p[2]) < ValIdx(q[2])
RECURSIVE SeqLess(_, _)
SeqLess(a, b) == IF a = <<>> THEN b # <<>>
                 ELSE IF b = <<>> THEN FALSE
                 ELSE IF Head(a) = Head(b) THEN SeqLess(Tail(a), Tail(b))
                 ELSE PairLess(Head(a), Head(b))
SeqLeq(a, b) == a = b \/ SeqLess(a, b)
IsPrefixOf(p, s) == Len(p) <= Len(s) /\ SubSeq(s, 1, Len(p)) = p

\* ShardInfo.Contain: Min <= key < Max; slot i (0-based) has Min = bounds[i], Max = bounds[i+1]
DestSlot(bounds, key) == Cardinality({j \in 1..Len(bounds) : SeqLeq(bounds[j], key)})

-----------------------------------------------------------------------------
\* Shard groups
GIdx(t) == t \div GroupDur
\* every row creates the group of its timestamp before its shard key is looked at
AllG(S) == S.created \cup {GIdx(t) : t \in Times}

Modulus(S) == IF S.type = "hash" THEN S.m ELSE Len(S.bounds) + 1

GroupsOf(S, g) ==
  LET plain   == [start |-> g * GroupDur, end |-> (g + 1) * GroupDur, bounds |-> <<>>, m |-> S.m, sk |-> SkOfIdx(S, g)]
      single  == [plain EXCEPT !.m = 1]
      bounded == [plain EXCEPT !.bounds = S.bounds, !.m = Len(S.bounds) + 1]
  IN IF S.type = "hash" THEN {plain}
     ELSE IF S.split < 0 \/ g < S.split THEN {single}
     ELSE IF g > S.split THEN {bounded}
     ELSE {single, [bounded EXCEPT !.start = g * GroupDur + SplitOff]}

GroupsC(S) == UNION {GroupsOf(S, g) : g \in AllG(S)}
\* (constant table, so that TLC computes the groups of a setup once)
GroupTab == TLCEval([S \in Setups |-> GroupsC(S)])
Groups(S) == GroupTab[S]

\* ShardGroupInfo.Contains
GContains(g, t) == IF "group_end_inclusive" \in Dev THEN g.start <= t /\ t <= g.end
                  ELSE g.start <= t /\ t < g.end
\* RetentionPolicyInfo.ShardGroupByTimestampAndEngineType scans from the end of the list sorted by
\* (end, start): a re-sharded group (same end, later start) hides its predecessor
\* (deviation stale_group_cache = write_helper.go:createShardGroup, which keeps the previous row's group
\* as long as it Contains() the timestamp, hidden or not)
Shadowed(S, g, t) == /\ "stale_group_cache" \notin Dev
                     /\ \E h \in Groups(S) : h.end = g.end /\ h.start > g.start /\ GContains(h, t)
Covering(S, t) == {g \in Groups(S) : GContains(g, t) /\ ~Shadowed(S, g, t)}

SlotFor(S, g, r) == IF S.type = "hash" THEN Hash(S.salt, WKey(S, r)) % g.m
                    ELSE DestSlot(g.bounds, WKey(S, r))

CoveringShards(S, r) == {<<g.start, SlotFor(S, g, r)>> : g \in Covering(S, r.t)}
WriteGroup(S, r) == CHOOSE g \in Covering(S, r.t) : TRUE
WriteRoute(S, r) == <<WriteGroup(S, r).start, SlotFor(S, WriteGroup(S, r), r)>>

RowSeq == SetToSeq(RowSet)
\* per setup, the shard every row is written to (constant, so TLC computes it once)
NoRoute == <<-1, -1>>
RouteTab == TLCEval([S \in Setups |->
               TLCEval([i \in 1..Len(RowSeq) |-> IF Accepted(S, RowSeq[i]) THEN WriteRoute(S, RowSeq[i]) ELSE NoRoute])])

-----------------------------------------------------------------------------
\* Condition trees
\*   [k |-> "teq",  key, val]   key = 'val'
\*   [k |-> "tneq", key, val]   key != 'val'
\*   [k |-> "tre",  key, vals]  key =~ /^(v1|v2)$/   (rewritten to equalities before pruning)
\*   [k |-> "tnre", key, vals]  key !~ /^(v1|v2)$/
\*   [k |-> "tany", key, vals]  key =~ /^v1$|^v2$/   (not rewritten)
\*   [k |-> "fgt",  num]        usage > num          [k |-> "flt", num]  usage < num
\*   [k |-> "tge"|"tgt"|"tle"|"tlt", t]   time bounds
\*   [k |-> "and"|"or", l, r]   [k |-> "par", e]
IsTime(c) == c.k \in {"tge", "tgt", "tle", "tlt"}
IsBin(c)  == c.k \in {"and", "or"}

Wrap(p, e) == IF p THEN [k |-> "par", e |-> e] ELSE e
Bin(op, pl, pr, l, r) == [k |-> op, l |-> Wrap(pl, l), r |-> Wrap(pr, r)]

Level1 == Atoms
Level2 == Level1 \cup {Bin(op, pl, pr, l, r) : op \in {"and", "or"}, pl \in ParenInner, pr \in ParenInner,
                                               l \in Level1, r \in Level1}
Operands == IF MaxLevel >= 3 THEN Level2 ELSE Level1
ParenTop == IF MaxLevel >= 3 THEN ParenOuter ELSE ParenInner

RECURSIVE HasTime(_)
HasTime(c) == IF IsBin(c) THEN HasTime(c.l) \/ HasTime(c.r)
              ELSE IF c.k = "par" THEN HasTime(c.e) ELSE IsTime(c)
\* InfluxQL combines time bounds with AND only
RECURSIVE WellFormed(_)
WellFormed(c) == IF c.k = "or" THEN ~HasTime(c.l) /\ ~HasTime(c.r) /\ WellFormed(c.l) /\ WellFormed(c.r)
                 ELSE IF c.k = "and" THEN WellFormed(c.l) /\ WellFormed(c.r)
                 ELSE IF c.k = "par" THEN WellFormed(c.e) ELSE TRUE

\* the tree is what the parser builds from its text: AND binds tighter than OR, both associate to the
\* left, anything else needs the parentheses to be in the tree (they matter to the pruning code)
OkLeft(op, x)  == ~IsBin(x) \/ x.k = op \/ (op = "or" /\ x.k = "and")
OkRight(op, x) == ~IsBin(x) \/ (op = "or" /\ x.k = "and")
RECURSIVE Expressible(_)
Expressible(c) == IF IsBin(c) THEN OkLeft(c.k, c.l) /\ OkRight(c.k, c.r) /\ Expressible(c.l) /\ Expressible(c.r)
                  ELSE IF c.k = "par" THEN Expressible(c.e) ELSE TRUE

InVals(v, vals) == \E i \in 1..Len(vals) : vals[i] = v

\* truth of the condition with the time bounds taken out (they only occur under AND)
RECURSIVE EvalP(_, _)
EvalP(c, r) ==
  CASE c.k = "and"  -> EvalP(c.l, r) /\ EvalP(c.r, r)
    [] c.k = "or"   -> EvalP(c.l, r) \/ EvalP(c.r, r)
    [] c.k = "par"  -> EvalP(c.e, r)
    [] c.k = "teq"  -> r.tags[c.key] = c.val
    [] c.k = "tneq" -> r.tags[c.key] # c.val
    [] c.k = "tre"  -> InVals(r.tags[c.key], c.vals)
    [] c.k = "tany" -> InVals(r.tags[c.key], c.vals)
    [] c.k = "tnre" -> ~InVals(r.tags[c.key], c.vals)
    [] c.k = "fgt"  -> r.u > c.num
    [] c.k = "flt"  -> r.u < c.num
    [] OTHER        -> TRUE

Imax(a, b) == IF a > b THEN a ELSE b
Imin(a, b) == IF a < b THEN a ELSE b
\* influxql.ConditionExpr/getTimeRange: inclusive <<lo, hi>>
RECURSIVE TimeRange(_)
TimeRange(c) ==
  CASE c.k = "tge" -> <<c.t, PosInf>>
    [] c.k = "tgt" -> <<c.t + 1, PosInf>>
    [] c.k = "tle" -> <<NegInf, c.t>>
    [] c.k = "tlt" -> <<NegInf, c.t - 1>>
    [] IsBin(c)    -> LET a == TimeRange(c.l) b == TimeRange(c.r) IN <<Imax(a[1], b[1]), Imin(a[2], b[2])>>
    [] c.k = "par" -> TimeRange(c.e)
    [] OTHER       -> <<NegInf, PosInf>>

EvalIn(tr, c, r) == tr[1] <= r.t /\ r.t <= tr[2] /\ EvalP(c, r)
Eval(c, r) == EvalIn(TimeRange(c), c, r)

-----------------------------------------------------------------------------
\* What the pruning code sees: ConditionExpr removes the time bounds, RewriteRegexConditions turns
\* exact regexes into (parenthesised) equalities and drops one pair of parentheses at the root.
Nil == [k |-> "nil"]
RECURSIVE StripTime(_)
StripTime(c) ==
  IF IsTime(c) THEN Nil
  ELSE IF IsBin(c) THEN
         LET l == StripTime(c.l) r == StripTime(c.r)
         IN IF r = Nil THEN l ELSE IF l = Nil THEN r ELSE [k |-> c.k, l |-> l, r |-> r]
  ELSE IF c.k = "par" THEN
         LET e == StripTime(c.e) IN IF e = Nil THEN Nil ELSE [k |-> "par", e |-> e]
  ELSE c

RECURSIVE Chain(_, _, _, _)
Chain(op, leaf, key, vals) ==
  IF Len(vals) = 1 THEN [k |-> leaf, key |-> key, val |-> vals[1]]
  ELSE [k |-> op, l |-> Chain(op, leaf, key, SubSeq(vals, 1, Len(vals) - 1)),
                  r |-> [k |-> leaf, key |-> key, val |-> vals[Len(vals)]]]

RECURSIVE Rewrite(_)
Rewrite(c) ==
  IF c.k = "tre" THEN
       IF Len(c.vals) = 1 THEN Chain("or", "teq", c.key, c.vals)
       ELSE [k |-> "par", e |-> Chain("or", "teq", c.key, c.vals)]
  ELSE IF c.k = "tnre" THEN
       IF Len(c.vals) = 1 THEN Chain("and", "tneq", c.key, c.vals)
       ELSE [k |-> "par", e |-> Chain("and", "tneq", c.key, c.vals)]
  ELSE IF IsBin(c) THEN [k |-> c.k, l |-> Rewrite(c.l), r |-> Rewrite(c.r)]
  ELSE IF c.k = "par" THEN [k |-> "par", e |-> Rewrite(c.e)]
  ELSE c

Prep(c) == LET s == StripTime(c)
               w == IF s = Nil THEN Nil ELSE Rewrite(s)
           IN IF w.k = "par" THEN w.e ELSE w

-----------------------------------------------------------------------------
\* getConditionTags: the equality groups of a condition.  A group is a sequence of <<key, value>>;
\* the result is a sequence of groups, <<>> = "unknown: any shard may hold a match".
\* Sound rules: parentheses are transparent; AND = cross product (unknown is neutral);
\* OR = concatenation, unknown absorbs.
Cross(L, R) == [x \in 1..(Len(L) * Len(R)) |-> L[((x - 1) \div Len(R)) + 1] \o R[((x - 1) % Len(R)) + 1]]
RECURSIVE ConcatAll(_)
ConcatAll(ss) == IF ss = <<>> THEN <<>> ELSE Head(ss) \o ConcatAll(Tail(ss))

RECURSIVE CondTags(_, _)
CondTags(dv, c) ==
  CASE c.k = "teq"  -> << << <<c.key, c.val>> >> >>
    [] c.k = "tneq" -> IF "neq_as_eq" \in dv THEN << << <<c.key, c.val>> >> >> ELSE <<>>
    [] c.k = "par"  -> IF "paren_unknown" \in dv THEN <<>> ELSE CondTags(dv, c.e)
    [] c.k = "and"  -> LET L == CondTags(dv, c.l) R == CondTags(dv, c.r)
                       IN IF L = <<>> THEN R ELSE IF R = <<>> THEN L
                          ELSE IF "and_merges_all" \in dv
                                 THEN [i \in 1..Len(L) |-> L[i] \o ConcatAll(R)]
                                 ELSE Cross(L, R)
    [] c.k = "or"   -> LET L == CondTags(dv, c.l) R == CondTags(dv, c.r)
                       IN IF L = <<>> THEN (IF "or_keeps_other_side" \in dv THEN R ELSE <<>>)
                          ELSE IF R = <<>> THEN (IF "or_keeps_other_side" \in dv THEN L ELSE <<>>)
                          ELSE L \o R
    [] OTHER        -> <<>>

\* TargetShards' merge of a (stably key-sorted) group with the shard key: the longest prefix of the
\* shard key whose tags all occur in the group, each with the first value given for it
RECURSIVE KeyPrefix(_, _)
KeyPrefix(sk, grp) ==
  IF sk = <<>> THEN <<>>
  ELSE LET hits == SelectSeq(grp, LAMBDA p : p[1] = Head(sk))
       IN IF hits = <<>> THEN <<>> ELSE <<hits[1]>> \o KeyPrefix(Tail(sk), grp)

All == [all |-> TRUE, keys |-> <<>>]

\* [all |-> consult every shard of the group, keys |-> the key sequences whose shards are consulted]
PruneKeys(dv, S, sk, c) ==
  LET p  == Prep(c)
      gs == IF p = Nil THEN <<>> ELSE CondTags(dv, p)
      P  == [i \in 1..Len(gs) |-> KeyPrefix(sk, gs[i])]
  IN IF sk = <<>> \/ gs = <<>> THEN All
     ELSE IF S.type = "hash" /\ "partial_key_narrows" \notin dv /\ \E i \in 1..Len(P) : Len(P[i]) < Len(sk) THEN All
     ELSE [all |-> FALSE,
           keys |-> IF "buffer_not_reset" \in dv
                      THEN [i \in 1..Len(P) |-> ConcatAll(SubSeq(P, 1, i))]
                      ELSE P]

\* RANGE, as designed: the slots that can hold a full key extending the prefix
FullKeys(S) == {[i \in 1..Len(S.sk) |-> <<S.sk[i], f[i]>>] : f \in [1..Len(S.sk) -> ValSet]}
\* RANGE, ShardInfo.ContainPrefix on abstract keys (used when a deviation produces keys that are no prefixes)
ContainPrefix(bounds, s, p) ==
  LET lo == IF s = 0 THEN <<>> ELSE bounds[s]
      hi == IF s = Len(bounds) THEN <<>> ELSE bounds[s + 1]
      gtMin == \/ lo = <<>>
               \/ IF Len(lo) > Len(p) THEN SeqLeq(SubSeq(lo, 1, Len(p)), p) ELSE SeqLeq(lo, p)
      ltMax == hi = <<>> \/ SeqLess(p, hi)
  IN gtMin /\ ltMax

SlotsOfKey(dv, S, g, key) ==
  IF S.type = "hash" THEN {Hash(S.salt, key) % g.m}
  ELSE IF dv = {} THEN {DestSlot(g.bounds, fk) : fk \in {x \in FullKeys(S) : IsPrefixOf(key, x)}}
  ELSE {s \in 0..Len(g.bounds) : ContainPrefix(g.bounds, s, key)}

SlotsOf(dv, S, g, pk) ==
  IF pk.all THEN 0..(g.m - 1)
  ELSE UNION {SlotsOfKey(dv, S, g, pk.keys[i]) : i \in 1..Len(pk.keys)}

\* ShardGroupInfo.Overlaps(min, max)
Overlaps(dv, g, tr) == IF "overlap_strict" \in dv THEN g.start < tr[2] /\ g.end > tr[1]
                       ELSE g.start <= tr[2] /\ g.end > tr[1]

\* coordinator/shard_mapper.go:mapMstShards asks the measurement for the shard key of each group
\* (deviation sticky_shard_key = as implemented: the key of the first group of the list is kept for all)
OverlapGroups(dv, S, c) == {h \in Groups(S) : Overlaps(dv, h, TimeRange(c))}
FirstGroup(gs) == CHOOSE g \in gs : \A h \in gs : g.end < h.end \/ (g.end = h.end /\ g.start <= h.start)
PruneWith(dv, S, c, pk1, pk2) ==
  LET gs == OverlapGroups(dv, S, c)
      pkOf(g) == IF "sticky_shard_key" \in dv
                   THEN (IF FirstGroup(gs).sk = S.sk THEN pk1 ELSE pk2)
                   ELSE (IF g.sk = S.sk THEN pk1 ELSE pk2)
  IN UNION {{<<g.start, s>> : s \in SlotsOf(dv, S, g, pkOf(g))} : g \in gs}
\* (the key sets are bound by quantifiers so that TLC evaluates each of them once)
Prune(dv, S, c) ==
  UNION {UNION {PruneWith(dv, S, c, pk1, pk2) : pk2 \in {IF S.sk2 = S.sk THEN pk1 ELSE PruneKeys(dv, S, S.sk2, c)}}
           : pk1 \in {PruneKeys(dv, S, S.sk, c)}}

-----------------------------------------------------------------------------
\* Behaviours: a setup, then conditions probed against every row

RowExp(S, r) ==
  IF Accepted(S, r)
    THEN [tags |-> r.tags, u |-> r.u, t |-> r.t, acc |-> 1, gs |-> WriteGroup(S, r).start,
          ge |-> WriteGroup(S, r).end, slot |-> WriteRoute(S, r)[2], wkey |-> WKey(S, r), sk |-> SkAt(S, r.t)]
    ELSE [tags |-> r.tags, u |-> r.u, t |-> r.t, acc |-> 0, gs |-> 0, ge |-> 0, slot |-> 0, wkey |-> <<>>, sk |-> SkAt(S, r.t)]

GroupList(S) == LET gs == SetToSeq(Groups(S))
                IN [i \in 1..Len(gs) |-> [start |-> gs[i].start, end |-> gs[i].end, m |-> gs[i].m, bounds |-> gs[i].bounds,
                                          sk |-> gs[i].sk]]

SetupStep(S) == [a |-> "Setup",
                 args |-> [type |-> S.type, sk |-> S.sk, sk2 |-> S.sk2, alter |-> S.alter, m |-> S.m, pt |-> S.pt, created |-> SetToSeq(S.created),
                           split |-> S.split, bounds |-> S.bounds, dur |-> GroupDur, splitoff |-> SplitOff],
                 exp |-> [rows |-> [i \in 1..Len(RowSeq) |-> RowExp(S, RowSeq[i])], groups |-> GroupList(S)]]

ProbeStep(S, c) ==
  [a |-> "ProbeCond",
   args |-> [cond |-> c],
   exp |-> [tr |-> TimeRange(c),
            match |-> LET rt == RouteTab[S] tr == TimeRange(c)
                      IN [i \in 1..Len(RowSeq) |-> IF rt[i] # NoRoute /\ EvalIn(tr, c, RowSeq[i]) THEN 1 ELSE 0],
            \* per deviation set: the key sets under the original (p1) and the altered (p2) shard key; the
            \* harness applies them per group (sticky_shard_key: the first group's choice for all groups)
            models |-> LET Ds == SetToSeq(SUBSET (IF S.sk2 = S.sk THEN ImplDevs \ {"sticky_shard_key"} ELSE ImplDevs))
                       IN [i \in 1..Len(Ds) |->
                             [dev |-> SetToSeq(Ds[i]),
                              p1 |-> PruneKeys(Ds[i] \ {"sticky_shard_key"}, S, S.sk, c),
                              p2 |-> IF S.sk2 = S.sk THEN All ELSE PruneKeys(Ds[i] \ {"sticky_shard_key"}, S, S.sk2, c)]]]]

\* the root shapes of the enumerated trees; "small" = the trees that are operands themselves
Slices == IF EnumAll /\ MaxLevel >= 2
            THEN {<<"small", FALSE, FALSE>>} \cup ({"and", "or"} \X ParenTop \X ParenTop)
            ELSE {<<"small", FALSE, FALSE>>}

Init == /\ setup \in Setups
        /\ slice \in Slices
        /\ cur = NoCond
        /\ n = 1
        /\ hist = IF Record THEN <<SetupStep(setup)>> ELSE <<>>

ProbeCond(c) ==
  /\ Expressible(c)
  /\ WellFormed(c)
  /\ cur' = c
  /\ n' = n + 1
  /\ hist' = IF Record THEN Append(hist, ProbeStep(setup, c)) ELSE hist
  /\ UNCHANGED <<setup, slice>>

\* export runs: the well-formed trees up to MaxLevel as one sequence, probed ChunkSize at a time so
\* that a behaviour (Setup + one chunk) carries many conditions
\* (parameterised so that TLC does not evaluate the set when it is not used)
CondSetP(x) ==
  {c \in (IF MaxLevel = 1 THEN Level1
          ELSE Operands \cup {Bin(op, pl, pr, l, r) : op \in {"and", "or"}, pl \in ParenTop, pr \in ParenTop,
                                                      l \in Operands, r \in Operands}) :
     Expressible(c) /\ WellFormed(c)}

\* (a constant: TLC evaluates it once; empty unless the run exports chunks)
CondSeqC == IF ChunkSize > 0 THEN SetToSeq(CondSetP(0)) ELSE <<>>

ProbeChunk ==
  \E b \in 1..((Len(CondSeqC) + ChunkSize - 1) \div ChunkSize) :
       /\ cur' = CondSeqC[Imin(b * ChunkSize, Len(CondSeqC))]
       /\ n' = n + 1
       /\ hist' = hist \o [i \in 1..(Imin(b * ChunkSize, Len(CondSeqC)) - (b - 1) * ChunkSize) |->
                              ProbeStep(setup, CondSeqC[(b - 1) * ChunkSize + i])]
       /\ UNCHANGED <<setup, slice>>

\* EnumAll: every tree up to MaxLevel (nested quantifiers, so that the set is never materialised);
\* simulation configs set EnumAll = FALSE and override SampleConds with a random sample
SampleConds(x) == {}

Next == /\ n < Depth
        /\ \/ \E c \in SampleConds(n) : ProbeCond(c)
           \/ ChunkSize > 0 /\ ProbeChunk
           \/ /\ EnumAll
              /\ IF slice[1] = "small" THEN \E c \in Operands : ProbeCond(c)
                 ELSE \E l \in Operands, r \in Operands : ProbeCond(Bin(slice[1], slice[2], slice[3], l, r))

Spec == Init /\ [][Next]_vars

-----------------------------------------------------------------------------
\* C11, write side: an accepted row lies in exactly one shard whose group covers its timestamp,
\* and that is the shard it is written to (depends on the setup only: checked on the initial states)
UniqueCoveringShard ==
  (cur = NoCond /\ slice[1] = "small") =>
    \A r \in RowSet : Accepted(setup, r) =>
       /\ Cardinality(Covering(setup, r.t)) = 1
       /\ Cardinality(CoveringShards(setup, r)) = 1
       /\ WriteRoute(setup, r) \in CoveringShards(setup, r)
       /\ WriteRoute(setup, r)[2] \in 0..(WriteGroup(setup, r).m - 1)

\* C11, read side: a row that satisfies the query lies in a consulted shard
\* (written as one set inclusion: TLC does not cache LET definitions that depend on the state, so
\* the consulted set must not be mentioned under the quantifier over rows)
MatchingRoutes(S, c) ==
  {RouteTab[S][i] : i \in {j \in 1..Len(RowSeq) : RouteTab[S][j] # NoRoute /\ EvalIn(TimeRange(c), c, RowSeq[j])}}
PruneSoundFor(dv, S, c) == MatchingRoutes(S, c) \subseteq Prune(dv, S, c)
PruneSound == cur # NoCond => PruneSoundFor(Dev, setup, cur)

\* no condition and no time bound consults everything
NoCondAll == (cur = NoCond /\ slice[1] = "small") =>
               Prune(Dev, setup, [k |-> "fgt", num |-> NegInf]) =
                   UNION {{<<g.start, s>> : s \in 0..(g.m - 1)} : g \in Groups(setup)}
=============================================================================
