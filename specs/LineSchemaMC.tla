--------------------------- MODULE LineSchemaMC ---------------------------
EXTENDS LineSchema, Json, SequencesExt
\* Export for replay: one JSON object per closed request sequence: the requests (decoded lines with the value token,
\* type, via and val attributes of LineProtocol.tla; expected status and dropped count, by the design and as
\* implemented), the cells the measurement must hold at the end and its schema, by the design and as implemented.
LineJ(l) == [tags |-> l.tags, time |-> l.time, late |-> l.time \in SLateTimes,
             fields |-> [i \in 1..Len(l.fields) |->
                          [k |-> l.fields[i].k, tok |-> l.fields[i].tok, t |-> FType(l.fields[i].tok),
                           via |-> IF l.fields[i].tok = "STR" THEN "" ELSE TokVia(l.fields[i].tok, ImplDev),
                           val |-> IF l.fields[i].tok = "STR" THEN "" ELSE BoolVal(l.fields[i].tok, {})]]]
ReqJ(r) == [lines |-> [i \in 1..Len(r.lines) |-> LineJ(r.lines[i])], st |-> r.st, dropped |-> r.dropped]
SchJ(sch) == LET ks == SortedSeqOf(SKeys) IN [i \in 1..Len(ks) |-> [k |-> ks[i], ty |-> sch[ks[i]].ty]]
\* the prediction states in which a deviation fired (the others equal the design state: ImplOnlyWhenFired)
SCase == LET DS == SetToSeq({D \in SDevSets : trig[D] # {}})
         IN [reqs |-> [i \in 1..Len(shist) |-> ReqJ(shist[i])],
             view |-> SetToSeq(ds.st), sch |-> SchJ(ds.sch),
             preds |-> [j \in 1..Len(DS) |->
                         [dev |-> SetToSeq(DS[j]), trig |-> SetToSeq(trig[DS[j]]),
                          replies |-> [i \in 1..Len(shist) |-> [st |-> shist[i].ist[DS[j]], dropped |-> shist[i].idropped[DS[j]]]],
                          view |-> SetToSeq(is[DS[j]].st), sch |-> SchJ(is[DS[j]].sch)]]]
SExport == (req.lines = <<>> /\ shist # <<>>) => PrintT(<<"TRACE", ToJson(SCase)>>)
\* the BFS export configs print the behaviours of full length only
SExportFull == (req.lines = <<>> /\ nline = SMaxLines) => PrintT(<<"TRACE", ToJson(SCase)>>)

\* simulation: a few random lines per step; most fields repeat the type the name already has, some meet it with
\* another type, some are new (parameterised by the state so that TLC does not cache the random choice)
TokOfType(ty) == {t \in SToks : FType(t) = ty}
SimLineP(n) ==
  LET sch == ds.sch
      fk == TLCEval([k \in SFieldKeys |->
               LET r == RandomElement(1..10)
               IN IF r <= 3 THEN "-"
                  ELSE IF r <= 7 /\ sch[k].ty \in FieldTypes /\ TokOfType(sch[k].ty) # {} THEN RandomElement(TokOfType(sch[k].ty))
                  ELSE RandomElement(SToks)])
      fks0 == {k \in SFieldKeys : fk[k] # "-"}
      fks1 == IF fks0 = {} THEN {RandomElement(SFieldKeys)} ELSE fks0
      fseq0 == SortedSeqOf(fks1)
      fseq == SubSeq(fseq0, 1, IF Len(fseq0) > SMaxFields THEN SMaxFields ELSE Len(fseq0))
      fset == {fseq[i] : i \in 1..Len(fseq)}
      tk == TLCEval([k \in STagKeys |-> IF RandomElement(1..5) <= 2 THEN RandomElement(STagVals) ELSE "-"])
      tseq0 == SortedSeqOf({k \in STagKeys : tk[k] # "-" /\ k \notin fset})
      tseq == SubSeq(tseq0, 1, IF Len(tseq0) > SMaxTags THEN SMaxTags ELSE Len(tseq0))
  IN [tags |-> [i \in 1..Len(tseq) |-> [k |-> tseq[i], v |-> tk[tseq[i]]]],
      time |-> RandomElement(STimes),
      fields |-> [i \in 1..Len(fseq) |-> [k |-> fseq[i], tok |-> IF fk[fseq[i]] = "-" THEN RandomElement(SToks) ELSE fk[fseq[i]]]]]
SimLines == {SimLineP(nline), SimLineP(nline + 1000)}
NoSeqs == {}      \* the simulation config replaces FieldSeqs / TagSeqs (TLC evaluates constant definitions at start-up)
=============================================================================
