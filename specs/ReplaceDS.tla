----------------------------- MODULE ReplaceDS -----------------------------
(***************************************************************************)
(* The second replace protocol: down-sample replacement                    *)
(* (shard.StartDownSample -> shard.ReplaceDownSampleFiles ->               *)
(* MmsTables.ReplaceDownSampleFiles, and shard.DownSampleRecover ->        *)
(* DownSampleRecoverReplaceFiles at start-up), at the granularity of       *)
(* single file-system steps, with a crash possible between any two of them *)
(* and again during recovery. One log (<shard>/downsample_log/<id>) covers *)
(* the files of ALL measurements of the shard.                             *)
(*                                                                         *)
(*  CreateNew(g,i)  down-sampled file i of measurement g created as        *)
(*                  <name>.tssp.init and being written                     *)
(*  WriteNew(g,i)   ... complete (written + synced), still .init           *)
(*  LogCreate/LogWrite  writeDownSampleInfo: log created / content written *)
(*                  and synced (a crash in between leaves a log without a  *)
(*                  valid checksum)                                        *)
(*  RenameNew(g,i)  RenameTmpFiles of every measurement                    *)
(*  DeleteOld(g,j)  old file removed, or renamed to <name>.init when a     *)
(*                  reader still holds it                                  *)
(*  MetaUpdate      the shard's new down-sample level is reported to       *)
(*                  ts-meta (updateShardIentOnMeta)                        *)
(*  LogRemove       the log is removed                                     *)
(*  Crash; recovery (DownSampleRecover, before the table store is opened): *)
(*  RecReadLog      a log that cannot be read (too short, bad checksum) is *)
(*                  REMOVED and ignored; a good one is always rolled       *)
(*                  FORWARD - there is no roll-back branch                 *)
(*  RecRenameNew, RecDeleteOld, RecMeta, RecRemoveLog, RecLoad             *)
(*                                                                         *)
(* Contents are abstract: the old files hold the raw rows ("pre"), the new *)
(* files their aggregates ("post"). C03 for this protocol: once the        *)
(* replacement finished or the shard was re-opened, the visible files are  *)
(* exactly the old set or exactly the new set - never a mixture, never     *)
(* both - and they are the new set iff the log had become valid; ts-meta   *)
(* knows the level whenever the new set serves.                            *)
(***************************************************************************)
EXTENDS Integers, Sequences, FiniteSets, TLC

CONSTANTS NGroups,   \* measurements of the shard              1..NGroups
          NOld,      \* old files per measurement              1..NOld
          NNew,      \* new files per measurement              1..NNew
          MaxCrash,
          Dev

VARIABLES old,      \* [Groups \X Olds -> "final" | "tmp" | "gone"]    (tmp = renamed to .init while in use)
          new,      \* [Groups \X News -> "none" | "partial" | "init" | "final" | "torn"]
          dlog,     \* "none" | "dirty" | "ok"
          pc,       \* "writing" | "logging" | "replacing" | "meta" | "done"
          mode,     \* "run" | "down" | "rec"
          rpc,      \* recovery position
          decision, \* "none" | "forward" | "skip"
          level,    \* down-sample level known to ts-meta (0 | 1)
          logged,   \* the log became valid at some point (history variable)
          ncrash,
          done

vars == <<old, new, dlog, pc, mode, rpc, decision, level, logged, ncrash, done>>

Groups == 1..NGroups
Olds == 1..NOld
News == 1..NNew
OldIds == Groups \X Olds
NewIds == Groups \X News

\* the files a reader (or Open) sees: final names only
VisibleOld == {x \in OldIds : old[x] = "final"}
VisibleNew == {x \in NewIds : new[x] \in {"final", "torn"}}

Init == /\ old = [x \in OldIds |-> "final"] /\ new = [x \in NewIds |-> "none"]
        /\ dlog = "none" /\ pc = "writing" /\ mode = "run" /\ rpc = "none" /\ decision = "none"
        /\ level = 0 /\ logged = FALSE /\ ncrash = 0 /\ done = FALSE

Running == mode = "run" /\ ~done

\* files are written measurement by measurement, one after the other
Before(x, y) == x[1] < y[1] \/ (x[1] = y[1] /\ x[2] < y[2])

CreateNew(x) == /\ Running /\ pc = "writing" /\ new[x] = "none"
                /\ \A y \in NewIds : Before(y, x) => new[y] \notin {"none", "partial"}
                /\ new' = [new EXCEPT ![x] = "partial"]
                /\ UNCHANGED <<old, dlog, pc, mode, rpc, decision, level, logged, ncrash, done>>

WriteNew(x) == /\ Running /\ pc = "writing" /\ new[x] = "partial"
               /\ new' = [new EXCEPT ![x] = "init"]
               /\ UNCHANGED <<old, dlog, pc, mode, rpc, decision, level, logged, ncrash, done>>

LogCreate == /\ Running /\ pc = "writing"
             /\ IF "ds_log_before_files_complete" \in Dev
                  THEN \A x \in NewIds : new[x] \in {"partial", "init"}
                  ELSE \A x \in NewIds : new[x] = "init"
             /\ dlog' = "dirty" /\ pc' = "logging"
             /\ UNCHANGED <<old, new, mode, rpc, decision, level, logged, ncrash, done>>

LogWrite == /\ Running /\ pc = "logging"
            /\ dlog' = "ok" /\ logged' = TRUE /\ pc' = "replacing"
            /\ UNCHANGED <<old, new, mode, rpc, decision, level, ncrash, done>>

RenameNew(x) == /\ Running /\ new[x] = "init"
                /\ \/ pc = "replacing"
                   \/ ("ds_rename_before_log" \in Dev /\ pc \in {"writing", "logging"})
                /\ new' = [new EXCEPT ![x] = "final"]
                /\ UNCHANGED <<old, dlog, pc, mode, rpc, decision, level, logged, ncrash, done>>

AllRenamed == \A x \in NewIds : new[x] \in {"final", "torn"}

DeleteOld(x) == /\ Running /\ old[x] = "final" /\ pc = "replacing" /\ AllRenamed
                /\ \/ dlog = "ok"
                   \/ "ds_log_removed_early" \in Dev
                /\ \E st \in {"gone", "tmp"} : old' = [old EXCEPT ![x] = st]
                /\ UNCHANGED <<new, dlog, pc, mode, rpc, decision, level, logged, ncrash, done>>

AllDeleted == \A x \in OldIds : old[x] # "final"

MetaUpdate == /\ Running /\ pc = "replacing" /\ AllRenamed /\ AllDeleted
              /\ level' = 1 /\ pc' = "meta"
              /\ UNCHANGED <<old, new, dlog, mode, rpc, decision, logged, ncrash, done>>

LogRemove == /\ Running /\ dlog = "ok"
             /\ \/ pc = "meta"
                \/ ("ds_log_removed_early" \in Dev /\ pc = "replacing" /\ AllRenamed)
             /\ dlog' = "none"
             /\ pc' = IF pc = "meta" THEN "done" ELSE pc
             /\ UNCHANGED <<old, new, mode, rpc, decision, level, logged, ncrash, done>>

Finish == /\ Running
          /\ \/ pc = "done"
             \/ (pc = "meta" /\ dlog = "none")
          /\ done' = TRUE
          /\ UNCHANGED <<old, new, dlog, pc, mode, rpc, decision, level, logged, ncrash>>

Crash == /\ mode \in {"run", "rec"} /\ ncrash < MaxCrash
         /\ mode' = "down" /\ ncrash' = ncrash + 1 /\ rpc' = "none" /\ decision' = "none"
         /\ UNCHANGED <<old, new, dlog, pc, level, logged, done>>

\* DownSampleRecover: readDownSampleLogFile fails on a log without a valid checksum -> the log is removed
RecReadLog ==
  /\ mode = "down" /\ mode' = "rec"
  /\ decision' = CASE dlog = "none" -> "skip"
                   [] dlog = "dirty" -> IF "ds_bad_log_rolls_forward" \in Dev THEN "forward" ELSE "skip"
                   [] OTHER -> "forward"
  /\ dlog' = IF dlog = "dirty" /\ "ds_bad_log_rolls_forward" \notin Dev THEN "none" ELSE dlog
  /\ rpc' = "fix"
  /\ UNCHANGED <<old, new, pc, level, logged, ncrash, done>>

\* renameFiles: every listed new file found under its .init name is renamed (a half-written one too:
\* the directory listing knows names, not contents)
RecRenameNew(x) == /\ mode = "rec" /\ rpc = "fix" /\ decision = "forward" /\ new[x] \in {"init", "partial"}
                   /\ new' = [new EXCEPT ![x] = IF new[x] = "init" THEN "final" ELSE "torn"]
                   /\ UNCHANGED <<old, dlog, pc, mode, rpc, decision, level, logged, ncrash, done>>

NoneLeftToRename == \A x \in NewIds : new[x] \notin {"init", "partial"}

\* deleteFiles removes the listed old files that still carry their final name (one that was renamed to
\* .init is left to the loader, which discards temporary files)
RecDeleteOld(x) == /\ mode = "rec" /\ rpc = "fix" /\ decision = "forward" /\ NoneLeftToRename
                   /\ "ds_recovery_keeps_old" \notin Dev
                   /\ old[x] = "final"
                   /\ old' = [old EXCEPT ![x] = "gone"]
                   /\ UNCHANGED <<new, dlog, pc, mode, rpc, decision, level, logged, ncrash, done>>

FixDone == decision = "forward" => /\ NoneLeftToRename
                                   /\ ("ds_recovery_keeps_old" \in Dev \/ AllDeleted)

RecMeta == /\ mode = "rec" /\ rpc = "fix" /\ FixDone
           /\ level' = IF decision = "forward" THEN 1 ELSE level
           /\ rpc' = "unlog"
           /\ UNCHANGED <<old, new, dlog, pc, mode, decision, logged, ncrash, done>>

RecRemoveLog == /\ mode = "rec" /\ rpc = "unlog"
                /\ dlog' = "none" /\ rpc' = "load"
                /\ UNCHANGED <<old, new, pc, mode, decision, level, logged, ncrash, done>>

\* MmsTables.Open loads every file with a final name; temporary files are discarded
RecLoad == /\ mode = "rec" /\ rpc = "load"
           /\ new' = [x \in NewIds |-> IF new[x] \in {"init", "partial"} THEN "none" ELSE new[x]]
           /\ old' = [x \in OldIds |-> IF old[x] = "tmp" THEN "gone" ELSE old[x]]
           /\ mode' = "run" /\ rpc' = "none" /\ done' = TRUE
           /\ UNCHANGED <<dlog, pc, decision, level, logged, ncrash>>

Next == \/ \E x \in NewIds : CreateNew(x) \/ WriteNew(x) \/ RenameNew(x) \/ RecRenameNew(x)
        \/ \E x \in OldIds : DeleteOld(x) \/ RecDeleteOld(x)
        \/ LogCreate \/ LogWrite \/ MetaUpdate \/ LogRemove \/ Finish
        \/ Crash \/ RecReadLog \/ RecMeta \/ RecRemoveLog \/ RecLoad

Spec == Init /\ [][Next]_vars

-----------------------------------------------------------------------------
TypeOK == /\ mode \in {"run", "down", "rec"} /\ dlog \in {"none", "dirty", "ok"}
          /\ decision \in {"none", "forward", "skip"} /\ level \in {0, 1}

Serving == mode = "run" /\ done

\* C03 for the down-sample replacement: the old contents or the new contents, never a mixture or both
Atomic == Serving => \/ (VisibleOld = OldIds /\ VisibleNew = {})
                     \/ (VisibleOld = {} /\ VisibleNew = NewIds)
\* ... and which of the two is decided by the log: the new contents iff the log had become valid
Decided == Serving => ((VisibleNew # {}) <=> logged)
\* no half-written file is ever visible under a final name
NoTornVisible == \A x \in NewIds : new[x] # "torn"
\* ts-meta knows the level whenever the down-sampled files serve
LevelKnown == (Serving /\ VisibleNew # {}) => level = 1

\* action properties of the forward protocol (checked on recorded traces as well)
LogBeforeRename == [][ (\E x \in NewIds : new[x] = "init" /\ new'[x] = "final") /\ mode = "run" => dlog = "ok" ]_vars
RenameBeforeDelete == [][ (\E x \in OldIds : old[x] = "final" /\ old'[x] # "final") /\ mode = "run" => AllRenamed ]_vars
LogRemovedAfterDeletes == [][ (dlog = "ok" /\ dlog' = "none" /\ mode = "run") => AllDeleted ]_vars
=============================================================================
