---- MODULE DropSemMC_TTrace_1790361914 ----
EXTENDS Sequences, TLCExt, DropSemMC, Toolbox, Naturals, TLC

_expression ==
    LET DropSemMC_TEExpression == INSTANCE DropSemMC_TEExpression
    IN DropSemMC_TEExpression!expression
----

_trace ==
    LET DropSemMC_TETrace == INSTANCE DropSemMC_TETrace
    IN DropSemMC_TETrace!trace
----

_inv ==
    ~(
        TLCGet("level") = Len(_TETrace)
        /\
        loc = (("rp1.m" :> [mem |-> {[s |-> [host |-> "a", region |-> "x"], t |-> 1, g |-> 1, v |-> 1], [s |-> [host |-> "a", region |-> "x"], t |-> 1, g |-> 2, v |-> 2]}, fl |-> {}, oo |-> {}, co |-> {}] @@ "rp1.n" :> [mem |-> {}, fl |-> {}, oo |-> {}, co |-> {}] @@ "rp2.m" :> [mem |-> {}, fl |-> {}, oo |-> {}, co |-> {}]))
        /\
        hist = (<<[a |-> "Write"], [a |-> "DropMeasurement"], [a |-> "Write"]>>)
        /\
        wi = ([idx |-> ("rp1.m" :> {[host |-> "a", region |-> "x"]} @@ "rp1.n" :> {} @@ "rp2.m" :> {}), ex |-> ("rp1.m" :> TRUE @@ "rp1.n" :> FALSE @@ "rp2.m" :> FALSE), rps |-> {"rp1", "rp2"}, rows |-> ("rp1.m" :> {[s |-> [host |-> "a", region |-> "x"], t |-> 1, g |-> 2, v |-> 2]} @@ "rp1.n" :> {} @@ "rp2.m" :> {}), db |-> TRUE, gen |-> ("rp1.m" :> 2 @@ "rp1.n" :> 0 @@ "rp2.m" :> 0), ver |-> ("rp1.m" :> 1 @@ "rp1.n" :> -1 @@ "rp2.m" :> -1), ghm |-> ("rp1.m" :> {} @@ "rp1.n" :> {} @@ "rp2.m" :> {}), ghq |-> ("rp1.m" :> {} @@ "rp1.n" :> {} @@ "rp2.m" :> {}), wal |-> ("rp1.m" :> {} @@ "rp1.n" :> {} @@ "rp2.m" :> {}), dead |-> ("rp1.m" :> {[s |-> [host |-> "a", region |-> "x"], ver |-> 0]} @@ "rp1.n" :> {} @@ "rp2.m" :> {}), cause |-> ("rp1.m" :> {} @@ "rp1.n" :> {} @@ "rp2.m" :> {}), nidx |-> [rp1 |-> "no", rp2 |-> "no"], ig |-> [rp1 |-> {0}, rp2 |-> {}], wired |-> [rp1 |-> {}, rp2 |-> {}], delidx |-> [rp1 |-> FALSE, rp2 |-> FALSE], zomb |-> ("rp1.m" :> {} @@ "rp1.n" :> {} @@ "rp2.m" :> {}), zmem |-> ("rp1.m" :> {} @@ "rp1.n" :> {} @@ "rp2.m" :> {}), dbph |-> "none", rpph |-> [rp1 |-> "none", rp2 |-> "none"], mph |-> ("rp1.m" :> "none" @@ "rp1.n" :> "none" @@ "rp2.m" :> "none"), ackc |-> [rp1 |-> FALSE, rp2 |-> FALSE]])
        /\
        gk = (0)
        /\
        seg = (3)
        /\
        dropped = ({[i |-> "rp1.m", r |-> [s |-> [host |-> "a", region |-> "x"], t |-> 1, g |-> 1, v |-> 1], g |-> 1, how |-> "measurement"]})
        /\
        nv = (3)
        /\
        nw = (2)
        /\
        wd = ([idx |-> ("rp1.m" :> {[host |-> "a", region |-> "x"]} @@ "rp1.n" :> {} @@ "rp2.m" :> {}), ex |-> ("rp1.m" :> TRUE @@ "rp1.n" :> FALSE @@ "rp2.m" :> FALSE), rps |-> {"rp1", "rp2"}, rows |-> ("rp1.m" :> {[s |-> [host |-> "a", region |-> "x"], t |-> 1, g |-> 1, v |-> 1], [s |-> [host |-> "a", region |-> "x"], t |-> 1, g |-> 2, v |-> 2]} @@ "rp1.n" :> {} @@ "rp2.m" :> {}), db |-> TRUE, gen |-> ("rp1.m" :> 2 @@ "rp1.n" :> 0 @@ "rp2.m" :> 0), ver |-> ("rp1.m" :> 1 @@ "rp1.n" :> -1 @@ "rp2.m" :> -1), ghm |-> ("rp1.m" :> {} @@ "rp1.n" :> {} @@ "rp2.m" :> {}), ghq |-> ("rp1.m" :> {} @@ "rp1.n" :> {} @@ "rp2.m" :> {}), wal |-> ("rp1.m" :> {} @@ "rp1.n" :> {} @@ "rp2.m" :> {}), dead |-> ("rp1.m" :> {} @@ "rp1.n" :> {} @@ "rp2.m" :> {}), cause |-> ("rp1.m" :> {} @@ "rp1.n" :> {} @@ "rp2.m" :> {}), nidx |-> [rp1 |-> "no", rp2 |-> "no"], ig |-> [rp1 |-> {0}, rp2 |-> {}], wired |-> [rp1 |-> {0}, rp2 |-> {}], delidx |-> [rp1 |-> FALSE, rp2 |-> FALSE], zomb |-> ("rp1.m" :> {} @@ "rp1.n" :> {} @@ "rp2.m" :> {}), zmem |-> ("rp1.m" :> {} @@ "rp1.n" :> {} @@ "rp2.m" :> {}), dbph |-> "none", rpph |-> [rp1 |-> "none", rp2 |-> "none"], mph |-> ("rp1.m" :> "none" @@ "rp1.n" :> "none" @@ "rp2.m" :> "none"), ackc |-> [rp1 |-> FALSE, rp2 |-> FALSE]])
    )
----

_init ==
    /\ gk = _TETrace[1].gk
    /\ seg = _TETrace[1].seg
    /\ dropped = _TETrace[1].dropped
    /\ nv = _TETrace[1].nv
    /\ nw = _TETrace[1].nw
    /\ hist = _TETrace[1].hist
    /\ loc = _TETrace[1].loc
    /\ wd = _TETrace[1].wd
    /\ wi = _TETrace[1].wi
----

_next ==
    /\ \E i,j \in DOMAIN _TETrace:
        /\ \/ /\ j = i + 1
              /\ i = TLCGet("level")
        /\ gk  = _TETrace[i].gk
        /\ gk' = _TETrace[j].gk
        /\ seg  = _TETrace[i].seg
        /\ seg' = _TETrace[j].seg
        /\ dropped  = _TETrace[i].dropped
        /\ dropped' = _TETrace[j].dropped
        /\ nv  = _TETrace[i].nv
        /\ nv' = _TETrace[j].nv
        /\ nw  = _TETrace[i].nw
        /\ nw' = _TETrace[j].nw
        /\ hist  = _TETrace[i].hist
        /\ hist' = _TETrace[j].hist
        /\ loc  = _TETrace[i].loc
        /\ loc' = _TETrace[j].loc
        /\ wd  = _TETrace[i].wd
        /\ wd' = _TETrace[j].wd
        /\ wi  = _TETrace[i].wi
        /\ wi' = _TETrace[j].wi

\* Uncomment the ASSUME below to write the states of the error trace
\* to the given file in Json format. Note that you can pass any tuple
\* to `JsonSerialize`. For example, a sub-sequence of _TETrace.
    \* ASSUME
    \*     LET J == INSTANCE Json
    \*         IN J!JsonSerialize("DropSemMC_TTrace_1790361914.json", _TETrace)

=============================================================================

 Note that you can extract this module `DropSemMC_TEExpression`
  to a dedicated file to reuse `expression` (the module in the 
  dedicated `DropSemMC_TEExpression.tla` file takes precedence 
  over the module `DropSemMC_TEExpression` below).

---- MODULE DropSemMC_TEExpression ----
EXTENDS Sequences, TLCExt, DropSemMC, Toolbox, Naturals, TLC

expression == 
    [
        \* To hide variables of the `DropSemMC` spec from the error trace,
        \* remove the variables below.  The trace will be written in the order
        \* of the fields of this record.
        gk |-> gk
        ,seg |-> seg
        ,dropped |-> dropped
        ,nv |-> nv
        ,nw |-> nw
        ,hist |-> hist
        ,loc |-> loc
        ,wd |-> wd
        ,wi |-> wi
        
        \* Put additional constant-, state-, and action-level expressions here:
        \* ,_stateNumber |-> _TEPosition
        \* ,_gkUnchanged |-> gk = gk'
        
        \* Format the `gk` variable as Json value.
        \* ,_gkJson |->
        \*     LET J == INSTANCE Json
        \*     IN J!ToJson(gk)
        
        \* Lastly, you may build expressions over arbitrary sets of states by
        \* leveraging the _TETrace operator.  For example, this is how to
        \* count the number of times a spec variable changed up to the current
        \* state in the trace.
        \* ,_gkModCount |->
        \*     LET F[s \in DOMAIN _TETrace] ==
        \*         IF s = 1 THEN 0
        \*         ELSE IF _TETrace[s].gk # _TETrace[s-1].gk
        \*             THEN 1 + F[s-1] ELSE F[s-1]
        \*     IN F[_TEPosition - 1]
    ]

=============================================================================



Parsing and semantic processing can take forever if the trace below is long.
 In this case, it is advised to uncomment the module below to deserialize the
 trace from a generated binary file.

\*
\*---- MODULE DropSemMC_TETrace ----
\*EXTENDS IOUtils, DropSemMC, TLC
\*
\*trace == IODeserialize("DropSemMC_TTrace_1790361914.bin", TRUE)
\*
\*=============================================================================
\*

---- MODULE DropSemMC_TETrace ----
EXTENDS DropSemMC, TLC

trace == 
    <<
    ([loc |-> ("rp1.m" :> [mem |-> {}, fl |-> {}, oo |-> {}, co |-> {}] @@ "rp1.n" :> [mem |-> {}, fl |-> {}, oo |-> {}, co |-> {}] @@ "rp2.m" :> [mem |-> {}, fl |-> {}, oo |-> {}, co |-> {}]),hist |-> <<>>,wi |-> [idx |-> ("rp1.m" :> {} @@ "rp1.n" :> {} @@ "rp2.m" :> {}), ex |-> ("rp1.m" :> FALSE @@ "rp1.n" :> FALSE @@ "rp2.m" :> FALSE), rps |-> {"rp1", "rp2"}, rows |-> ("rp1.m" :> {} @@ "rp1.n" :> {} @@ "rp2.m" :> {}), db |-> TRUE, gen |-> ("rp1.m" :> 0 @@ "rp1.n" :> 0 @@ "rp2.m" :> 0), ver |-> ("rp1.m" :> -1 @@ "rp1.n" :> -1 @@ "rp2.m" :> -1), ghm |-> ("rp1.m" :> {} @@ "rp1.n" :> {} @@ "rp2.m" :> {}), ghq |-> ("rp1.m" :> {} @@ "rp1.n" :> {} @@ "rp2.m" :> {}), wal |-> ("rp1.m" :> {} @@ "rp1.n" :> {} @@ "rp2.m" :> {}), dead |-> ("rp1.m" :> {} @@ "rp1.n" :> {} @@ "rp2.m" :> {}), cause |-> ("rp1.m" :> {} @@ "rp1.n" :> {} @@ "rp2.m" :> {}), nidx |-> [rp1 |-> "no", rp2 |-> "no"], ig |-> [rp1 |-> {}, rp2 |-> {}], wired |-> [rp1 |-> {}, rp2 |-> {}], delidx |-> [rp1 |-> FALSE, rp2 |-> FALSE], zomb |-> ("rp1.m" :> {} @@ "rp1.n" :> {} @@ "rp2.m" :> {}), zmem |-> ("rp1.m" :> {} @@ "rp1.n" :> {} @@ "rp2.m" :> {}), dbph |-> "none", rpph |-> [rp1 |-> "none", rp2 |-> "none"], mph |-> ("rp1.m" :> "none" @@ "rp1.n" :> "none" @@ "rp2.m" :> "none"), ackc |-> [rp1 |-> FALSE, rp2 |-> FALSE]],gk |-> 0,seg |-> 0,dropped |-> {},nv |-> 1,nw |-> 0,wd |-> [idx |-> ("rp1.m" :> {} @@ "rp1.n" :> {} @@ "rp2.m" :> {}), ex |-> ("rp1.m" :> FALSE @@ "rp1.n" :> FALSE @@ "rp2.m" :> FALSE), rps |-> {"rp1", "rp2"}, rows |-> ("rp1.m" :> {} @@ "rp1.n" :> {} @@ "rp2.m" :> {}), db |-> TRUE, gen |-> ("rp1.m" :> 0 @@ "rp1.n" :> 0 @@ "rp2.m" :> 0), ver |-> ("rp1.m" :> -1 @@ "rp1.n" :> -1 @@ "rp2.m" :> -1), ghm |-> ("rp1.m" :> {} @@ "rp1.n" :> {} @@ "rp2.m" :> {}), ghq |-> ("rp1.m" :> {} @@ "rp1.n" :> {} @@ "rp2.m" :> {}), wal |-> ("rp1.m" :> {} @@ "rp1.n" :> {} @@ "rp2.m" :> {}), dead |-> ("rp1.m" :> {} @@ "rp1.n" :> {} @@ "rp2.m" :> {}), cause |-> ("rp1.m" :> {} @@ "rp1.n" :> {} @@ "rp2.m" :> {}), nidx |-> [rp1 |-> "no", rp2 |-> "no"], ig |-> [rp1 |-> {}, rp2 |-> {}], wired |-> [rp1 |-> {}, rp2 |-> {}], delidx |-> [rp1 |-> FALSE, rp2 |-> FALSE], zomb |-> ("rp1.m" :> {} @@ "rp1.n" :> {} @@ "rp2.m" :> {}), zmem |-> ("rp1.m" :> {} @@ "rp1.n" :> {} @@ "rp2.m" :> {}), dbph |-> "none", rpph |-> [rp1 |-> "none", rp2 |-> "none"], mph |-> ("rp1.m" :> "none" @@ "rp1.n" :> "none" @@ "rp2.m" :> "none"), ackc |-> [rp1 |-> FALSE, rp2 |-> FALSE]]]),
    ([loc |-> ("rp1.m" :> [mem |-> {[s |-> [host |-> "a", region |-> "x"], t |-> 1, g |-> 1, v |-> 1]}, fl |-> {}, oo |-> {}, co |-> {}] @@ "rp1.n" :> [mem |-> {}, fl |-> {}, oo |-> {}, co |-> {}] @@ "rp2.m" :> [mem |-> {}, fl |-> {}, oo |-> {}, co |-> {}]),hist |-> <<[a |-> "Write"]>>,wi |-> [idx |-> ("rp1.m" :> {[host |-> "a", region |-> "x"]} @@ "rp1.n" :> {} @@ "rp2.m" :> {}), ex |-> ("rp1.m" :> TRUE @@ "rp1.n" :> FALSE @@ "rp2.m" :> FALSE), rps |-> {"rp1", "rp2"}, rows |-> ("rp1.m" :> {[s |-> [host |-> "a", region |-> "x"], t |-> 1, g |-> 1, v |-> 1]} @@ "rp1.n" :> {} @@ "rp2.m" :> {}), db |-> TRUE, gen |-> ("rp1.m" :> 1 @@ "rp1.n" :> 0 @@ "rp2.m" :> 0), ver |-> ("rp1.m" :> 0 @@ "rp1.n" :> -1 @@ "rp2.m" :> -1), ghm |-> ("rp1.m" :> {} @@ "rp1.n" :> {} @@ "rp2.m" :> {}), ghq |-> ("rp1.m" :> {} @@ "rp1.n" :> {} @@ "rp2.m" :> {}), wal |-> ("rp1.m" :> {} @@ "rp1.n" :> {} @@ "rp2.m" :> {}), dead |-> ("rp1.m" :> {} @@ "rp1.n" :> {} @@ "rp2.m" :> {}), cause |-> ("rp1.m" :> {} @@ "rp1.n" :> {} @@ "rp2.m" :> {}), nidx |-> [rp1 |-> "no", rp2 |-> "no"], ig |-> [rp1 |-> {0}, rp2 |-> {}], wired |-> [rp1 |-> {}, rp2 |-> {}], delidx |-> [rp1 |-> FALSE, rp2 |-> FALSE], zomb |-> ("rp1.m" :> {} @@ "rp1.n" :> {} @@ "rp2.m" :> {}), zmem |-> ("rp1.m" :> {} @@ "rp1.n" :> {} @@ "rp2.m" :> {}), dbph |-> "none", rpph |-> [rp1 |-> "none", rp2 |-> "none"], mph |-> ("rp1.m" :> "none" @@ "rp1.n" :> "none" @@ "rp2.m" :> "none"), ackc |-> [rp1 |-> FALSE, rp2 |-> FALSE]],gk |-> 0,seg |-> 1,dropped |-> {},nv |-> 2,nw |-> 1,wd |-> [idx |-> ("rp1.m" :> {[host |-> "a", region |-> "x"]} @@ "rp1.n" :> {} @@ "rp2.m" :> {}), ex |-> ("rp1.m" :> TRUE @@ "rp1.n" :> FALSE @@ "rp2.m" :> FALSE), rps |-> {"rp1", "rp2"}, rows |-> ("rp1.m" :> {[s |-> [host |-> "a", region |-> "x"], t |-> 1, g |-> 1, v |-> 1]} @@ "rp1.n" :> {} @@ "rp2.m" :> {}), db |-> TRUE, gen |-> ("rp1.m" :> 1 @@ "rp1.n" :> 0 @@ "rp2.m" :> 0), ver |-> ("rp1.m" :> 0 @@ "rp1.n" :> -1 @@ "rp2.m" :> -1), ghm |-> ("rp1.m" :> {} @@ "rp1.n" :> {} @@ "rp2.m" :> {}), ghq |-> ("rp1.m" :> {} @@ "rp1.n" :> {} @@ "rp2.m" :> {}), wal |-> ("rp1.m" :> {} @@ "rp1.n" :> {} @@ "rp2.m" :> {}), dead |-> ("rp1.m" :> {} @@ "rp1.n" :> {} @@ "rp2.m" :> {}), cause |-> ("rp1.m" :> {} @@ "rp1.n" :> {} @@ "rp2.m" :> {}), nidx |-> [rp1 |-> "no", rp2 |-> "no"], ig |-> [rp1 |-> {0}, rp2 |-> {}], wired |-> [rp1 |-> {0}, rp2 |-> {}], delidx |-> [rp1 |-> FALSE, rp2 |-> FALSE], zomb |-> ("rp1.m" :> {} @@ "rp1.n" :> {} @@ "rp2.m" :> {}), zmem |-> ("rp1.m" :> {} @@ "rp1.n" :> {} @@ "rp2.m" :> {}), dbph |-> "none", rpph |-> [rp1 |-> "none", rp2 |-> "none"], mph |-> ("rp1.m" :> "none" @@ "rp1.n" :> "none" @@ "rp2.m" :> "none"), ackc |-> [rp1 |-> FALSE, rp2 |-> FALSE]]]),
    ([loc |-> ("rp1.m" :> [mem |-> {}, fl |-> {}, oo |-> {}, co |-> {}] @@ "rp1.n" :> [mem |-> {}, fl |-> {}, oo |-> {}, co |-> {}] @@ "rp2.m" :> [mem |-> {}, fl |-> {}, oo |-> {}, co |-> {}]),hist |-> <<[a |-> "Write"], [a |-> "DropMeasurement"]>>,wi |-> [idx |-> ("rp1.m" :> {} @@ "rp1.n" :> {} @@ "rp2.m" :> {}), ex |-> ("rp1.m" :> FALSE @@ "rp1.n" :> FALSE @@ "rp2.m" :> FALSE), rps |-> {"rp1", "rp2"}, rows |-> ("rp1.m" :> {} @@ "rp1.n" :> {} @@ "rp2.m" :> {}), db |-> TRUE, gen |-> ("rp1.m" :> 1 @@ "rp1.n" :> 0 @@ "rp2.m" :> 0), ver |-> ("rp1.m" :> 0 @@ "rp1.n" :> -1 @@ "rp2.m" :> -1), ghm |-> ("rp1.m" :> {} @@ "rp1.n" :> {} @@ "rp2.m" :> {}), ghq |-> ("rp1.m" :> {} @@ "rp1.n" :> {} @@ "rp2.m" :> {}), wal |-> ("rp1.m" :> {} @@ "rp1.n" :> {} @@ "rp2.m" :> {}), dead |-> ("rp1.m" :> {[s |-> [host |-> "a", region |-> "x"], ver |-> 0]} @@ "rp1.n" :> {} @@ "rp2.m" :> {}), cause |-> ("rp1.m" :> {} @@ "rp1.n" :> {} @@ "rp2.m" :> {}), nidx |-> [rp1 |-> "no", rp2 |-> "no"], ig |-> [rp1 |-> {0}, rp2 |-> {}], wired |-> [rp1 |-> {}, rp2 |-> {}], delidx |-> [rp1 |-> FALSE, rp2 |-> FALSE], zomb |-> ("rp1.m" :> {} @@ "rp1.n" :> {} @@ "rp2.m" :> {}), zmem |-> ("rp1.m" :> {} @@ "rp1.n" :> {} @@ "rp2.m" :> {}), dbph |-> "none", rpph |-> [rp1 |-> "none", rp2 |-> "none"], mph |-> ("rp1.m" :> "none" @@ "rp1.n" :> "none" @@ "rp2.m" :> "none"), ackc |-> [rp1 |-> FALSE, rp2 |-> FALSE]],gk |-> 0,seg |-> 2,dropped |-> {[i |-> "rp1.m", r |-> [s |-> [host |-> "a", region |-> "x"], t |-> 1, g |-> 1, v |-> 1], g |-> 1, how |-> "measurement"]},nv |-> 2,nw |-> 1,wd |-> [idx |-> ("rp1.m" :> {} @@ "rp1.n" :> {} @@ "rp2.m" :> {}), ex |-> ("rp1.m" :> FALSE @@ "rp1.n" :> FALSE @@ "rp2.m" :> FALSE), rps |-> {"rp1", "rp2"}, rows |-> ("rp1.m" :> {} @@ "rp1.n" :> {} @@ "rp2.m" :> {}), db |-> TRUE, gen |-> ("rp1.m" :> 1 @@ "rp1.n" :> 0 @@ "rp2.m" :> 0), ver |-> ("rp1.m" :> 0 @@ "rp1.n" :> -1 @@ "rp2.m" :> -1), ghm |-> ("rp1.m" :> {} @@ "rp1.n" :> {} @@ "rp2.m" :> {}), ghq |-> ("rp1.m" :> {} @@ "rp1.n" :> {} @@ "rp2.m" :> {}), wal |-> ("rp1.m" :> {} @@ "rp1.n" :> {} @@ "rp2.m" :> {}), dead |-> ("rp1.m" :> {} @@ "rp1.n" :> {} @@ "rp2.m" :> {}), cause |-> ("rp1.m" :> {} @@ "rp1.n" :> {} @@ "rp2.m" :> {}), nidx |-> [rp1 |-> "no", rp2 |-> "no"], ig |-> [rp1 |-> {0}, rp2 |-> {}], wired |-> [rp1 |-> {0}, rp2 |-> {}], delidx |-> [rp1 |-> FALSE, rp2 |-> FALSE], zomb |-> ("rp1.m" :> {} @@ "rp1.n" :> {} @@ "rp2.m" :> {}), zmem |-> ("rp1.m" :> {} @@ "rp1.n" :> {} @@ "rp2.m" :> {}), dbph |-> "none", rpph |-> [rp1 |-> "none", rp2 |-> "none"], mph |-> ("rp1.m" :> "none" @@ "rp1.n" :> "none" @@ "rp2.m" :> "none"), ackc |-> [rp1 |-> FALSE, rp2 |-> FALSE]]]),
    ([loc |-> ("rp1.m" :> [mem |-> {[s |-> [host |-> "a", region |-> "x"], t |-> 1, g |-> 1, v |-> 1], [s |-> [host |-> "a", region |-> "x"], t |-> 1, g |-> 2, v |-> 2]}, fl |-> {}, oo |-> {}, co |-> {}] @@ "rp1.n" :> [mem |-> {}, fl |-> {}, oo |-> {}, co |-> {}] @@ "rp2.m" :> [mem |-> {}, fl |-> {}, oo |-> {}, co |-> {}]),hist |-> <<[a |-> "Write"], [a |-> "DropMeasurement"], [a |-> "Write"]>>,wi |-> [idx |-> ("rp1.m" :> {[host |-> "a", region |-> "x"]} @@ "rp1.n" :> {} @@ "rp2.m" :> {}), ex |-> ("rp1.m" :> TRUE @@ "rp1.n" :> FALSE @@ "rp2.m" :> FALSE), rps |-> {"rp1", "rp2"}, rows |-> ("rp1.m" :> {[s |-> [host |-> "a", region |-> "x"], t |-> 1, g |-> 2, v |-> 2]} @@ "rp1.n" :> {} @@ "rp2.m" :> {}), db |-> TRUE, gen |-> ("rp1.m" :> 2 @@ "rp1.n" :> 0 @@ "rp2.m" :> 0), ver |-> ("rp1.m" :> 1 @@ "rp1.n" :> -1 @@ "rp2.m" :> -1), ghm |-> ("rp1.m" :> {} @@ "rp1.n" :> {} @@ "rp2.m" :> {}), ghq |-> ("rp1.m" :> {} @@ "rp1.n" :> {} @@ "rp2.m" :> {}), wal |-> ("rp1.m" :> {} @@ "rp1.n" :> {} @@ "rp2.m" :> {}), dead |-> ("rp1.m" :> {[s |-> [host |-> "a", region |-> "x"], ver |-> 0]} @@ "rp1.n" :> {} @@ "rp2.m" :> {}), cause |-> ("rp1.m" :> {} @@ "rp1.n" :> {} @@ "rp2.m" :> {}), nidx |-> [rp1 |-> "no", rp2 |-> "no"], ig |-> [rp1 |-> {0}, rp2 |-> {}], wired |-> [rp1 |-> {}, rp2 |-> {}], delidx |-> [rp1 |-> FALSE, rp2 |-> FALSE], zomb |-> ("rp1.m" :> {} @@ "rp1.n" :> {} @@ "rp2.m" :> {}), zmem |-> ("rp1.m" :> {} @@ "rp1.n" :> {} @@ "rp2.m" :> {}), dbph |-> "none", rpph |-> [rp1 |-> "none", rp2 |-> "none"], mph |-> ("rp1.m" :> "none" @@ "rp1.n" :> "none" @@ "rp2.m" :> "none"), ackc |-> [rp1 |-> FALSE, rp2 |-> FALSE]],gk |-> 0,seg |-> 3,dropped |-> {[i |-> "rp1.m", r |-> [s |-> [host |-> "a", region |-> "x"], t |-> 1, g |-> 1, v |-> 1], g |-> 1, how |-> "measurement"]},nv |-> 3,nw |-> 2,wd |-> [idx |-> ("rp1.m" :> {[host |-> "a", region |-> "x"]} @@ "rp1.n" :> {} @@ "rp2.m" :> {}), ex |-> ("rp1.m" :> TRUE @@ "rp1.n" :> FALSE @@ "rp2.m" :> FALSE), rps |-> {"rp1", "rp2"}, rows |-> ("rp1.m" :> {[s |-> [host |-> "a", region |-> "x"], t |-> 1, g |-> 1, v |-> 1], [s |-> [host |-> "a", region |-> "x"], t |-> 1, g |-> 2, v |-> 2]} @@ "rp1.n" :> {} @@ "rp2.m" :> {}), db |-> TRUE, gen |-> ("rp1.m" :> 2 @@ "rp1.n" :> 0 @@ "rp2.m" :> 0), ver |-> ("rp1.m" :> 1 @@ "rp1.n" :> -1 @@ "rp2.m" :> -1), ghm |-> ("rp1.m" :> {} @@ "rp1.n" :> {} @@ "rp2.m" :> {}), ghq |-> ("rp1.m" :> {} @@ "rp1.n" :> {} @@ "rp2.m" :> {}), wal |-> ("rp1.m" :> {} @@ "rp1.n" :> {} @@ "rp2.m" :> {}), dead |-> ("rp1.m" :> {} @@ "rp1.n" :> {} @@ "rp2.m" :> {}), cause |-> ("rp1.m" :> {} @@ "rp1.n" :> {} @@ "rp2.m" :> {}), nidx |-> [rp1 |-> "no", rp2 |-> "no"], ig |-> [rp1 |-> {0}, rp2 |-> {}], wired |-> [rp1 |-> {0}, rp2 |-> {}], delidx |-> [rp1 |-> FALSE, rp2 |-> FALSE], zomb |-> ("rp1.m" :> {} @@ "rp1.n" :> {} @@ "rp2.m" :> {}), zmem |-> ("rp1.m" :> {} @@ "rp1.n" :> {} @@ "rp2.m" :> {}), dbph |-> "none", rpph |-> [rp1 |-> "none", rp2 |-> "none"], mph |-> ("rp1.m" :> "none" @@ "rp1.n" :> "none" @@ "rp2.m" :> "none"), ackc |-> [rp1 |-> FALSE, rp2 |-> FALSE]]])
    >>
----


=============================================================================

---- CONFIG DropSemMC_TTrace_1790361914 ----
CONSTANTS
    Hosts = { "a" , "b" }
    Regions = { "x" }
    Times = { 1 , 2 }
    MaxBatch = 1
    Depth = 6
    MaxWrites = 2
    Skeleton <- SkelNone
    FreeGlobals = TRUE
    SegMax = 9
    FullLog = FALSE
    Dev = { "recreate_reuses_version" }
    ImplDev = { "cross_rp_drop" , "tagkeys_from_schema" , "listing_ignores_rp" , "dead_index_listed" , "late_index_unwired" , "drop_series_time_ignored" , "create_busy_acked" , "slimit_ignored" }
    DropChoices <- SmallDrops

INVARIANT
    _inv

CHECK_DEADLOCK
    \* CHECK_DEADLOCK off because of PROPERTY or INVARIANT above.
    FALSE

INIT
    _init

NEXT
    _next

CONSTANT
    _TETrace <- _trace

ALIAS
    _expression
=============================================================================
\* Generated on Fri Sep 25 18:45:19 UTC 2026