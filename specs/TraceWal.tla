------------------------------ MODULE TraceWal ------------------------------
(***************************************************************************)
(* Trace validation (implementation -> specification) for Wal.tla.         *)
(* The harness records, for every run of the real engine, the client       *)
(* events (WriteMem, Ack, FlushSwitch, FlushEnd) and the file-system       *)
(* mutations of the write/flush path classified as spec actions (WriteWal  *)
(* with its partition, FlushInit, FlushRename, FlushRemoveWal with its     *)
(* partition). TLC checks that the sequence is a behaviour of Wal.tla:     *)
(* each event must be the spec action, enabled in the current state, with  *)
(* the logged arguments. The series index: every creation of a merge-set   *)
(* transaction file that adds a part built from in-memory items is logged  *)
(* as IndexFlush (the recorder sees that rename; it is the durable point   *)
(* of the synchronous flush in writeSnapshot and of the index's background *)
(* flusher alike); the event is read optimistically as "every pending item *)
(* is on disk now" (the background flusher may flush fewer: the reading    *)
(* can hide a missing synchronous flush right after a partial background   *)
(* one, it never invents a violation). The step FlushIndex itself is       *)
(* silent and allowed only when nothing is pending: a flush that goes from *)
(* the switch to the first data file with a series key still only in       *)
(* memory is not a behaviour of the specification. FlushCommitted is       *)
(* silent. A Reset line starts a run and carries its cell -> series map.   *)
(* All state invariants and action properties of Wal.tla that the pinned   *)
(* code is expected to satisfy are evaluated at every step.                *)
(***************************************************************************)
EXTENDS Wal, Json

Trace == ndJsonDeserialize("trace.ndjson")

VARIABLE l
tvars == <<vars, l>>

IsEvent(e) == l <= Len(Trace) /\ Trace[l].ev = e /\ l' = l + 1

\* several recorded runs are concatenated; a Reset line starts the next one
TraceReset ==
  /\ IsEvent("Reset")
  /\ wal' = [p \in Parts |-> <<>>] /\ nfile' = 1 /\ writeReq' = 0
  /\ mem' = <<>> /\ snap' = <<>> /\ pend' = {} /\ files' = <<>> /\ inits' = 0
  /\ fpc' = "idle" /\ mode' = "run" /\ rpc' = "none"
  /\ keyOf' = [w \in W |-> CHOOSE k \in Keys : TRUE] /\ nw' = 0
  /\ wst' = [w \in W |-> "none"] /\ acked' = <<>>
  /\ nflush' = 0 /\ ncrash' = 0 /\ dpc' = "none" /\ ndrop' = 0 /\ hist' = <<>>
  /\ fkind' = "none" /\ idxMem' = {} /\ idxDisk' = {} /\ wat' = <<"idle", "none">> /\ pendF' = "none"
  /\ serOf' = [k \in Keys |-> Trace[l].ser[k]]

TraceWriteMem == IsEvent("WriteMem") /\ WriteMem(Trace[l].k)
TraceWriteWal == IsEvent("WriteWal") /\ \E w \in W : WriteWal(w) /\ (writeReq % N) + 1 = Trace[l].p
TraceAck      == IsEvent("Ack") /\ \E w \in W : Ack(w)
TraceSwitch   == IsEvent("FlushSwitch") /\ FlushSwitch(Trace[l].kind)
TraceIndexFlush == IsEvent("IndexFlush") /\ mode = "run" /\ IndexToDisk(idxMem)
                   /\ UNCHANGED <<wal, nfile, writeReq, mem, snap, pend, files, inits, fpc, mode, rpc, keyOf, nw, wst, acked,
                                  nflush, ncrash, dpc, ndrop, hist, fkind, serOf, wat, pendF>>
TraceInit     == IsEvent("FlushInit") /\ FlushInit
TraceRename   == IsEvent("FlushRename") /\ FlushRename
TraceRemove   == IsEvent("FlushRemoveWal") /\ FlushRemoveWal
                   /\ \E f \in pend : f \notin pend' /\ \E i \in 1..Len(wal[Trace[l].p]) : wal[Trace[l].p][i].id = f
TraceEnd      == IsEvent("FlushEnd") /\ FlushEnd

Silent == ((idxMem = {} /\ FlushIndex) \/ FlushCommitted) /\ UNCHANGED l

TraceNext == TraceReset \/ TraceWriteMem \/ TraceWriteWal \/ TraceAck \/ TraceSwitch \/ TraceInit
             \/ TraceRename \/ TraceRemove \/ TraceEnd \/ TraceIndexFlush \/ Silent

TraceInit0 == Init /\ l = 1 /\ TLCSet(1, 1)
TraceSpec == TraceInit0 /\ [][TraceNext]_tvars

\* high-water mark of the cursor (needs -workers 1)
HighWater == IF l > TLCGet(1) THEN TLCSet(1, l) ELSE TRUE
TraceAccepted == TLCGet(1) = Len(Trace) + 1
=============================================================================
