------------------------------ MODULE LayoutMC ------------------------------
EXTENDS Layout, Json
\* Export of behaviours for replay into the real engine (Mode B): one JSON line per behaviour
\* that reached the depth bound.
\* simulation: two random batches per step instead of all of them, so that reorganisations are
\* chosen about as often as writes
\* (parameterised by the state so that TLC does not cache them as constants)
SimRow(x) == [k |-> <<RandomElement(Series), RandomElement(Times)>>, fs |-> RandomElement((SUBSET Fields) \ {{}})]
SimBatch(x, j) == LET n == RandomElement(1..MaxBatch) IN TLCEval([i \in 1..n |-> SimRow(x + i)])
SimBatches == {SimBatch(nv, j) : j \in 1..3}
Export == (Len(hist) = Depth) => PrintT(<<"TRACE", ToJson(hist)>>)
=============================================================================
