------------------------------ MODULE LayoutMC ------------------------------
EXTENDS Layout, Json
\* Export of behaviours for replay into the real engine (Mode B): one JSON line per behaviour
\* that reached the depth bound.
\* simulation: two random batches per step instead of all of them, so that reorganisations are
\* chosen about as often as writes
\* (parameterised by the state so that TLC does not cache them as constants)
SimRow(x) == [k |-> <<RandomElement(Series), RandomElement(Times)>>, fs |-> RandomElement((SUBSET Fields) \ {{}})]
SimBatch(x, j) == LET n == RandomElement(1..MaxBatch) IN TLCEval([i \in 1..n |-> SimRow(x + i)])
SimBatches == {SimBatch(nv, j) : j \in 1..3}
\* biased sampling for reorganisation inputs with sparse columns and many segments: one series mostly,
\* increasing times, most rows carrying only the first field
SparseFs(x) == LET fl == SetToSeq(Fields)
                   opts == <<{fl[1]}, {fl[1]}, {fl[1]}, Fields, {fl[Len(fl)]}>>
               IN opts[RandomElement(1..5)]
SparseRow(x) == [k |-> <<IF RandomElement(1..4) = 1 THEN RandomElement(Series) ELSE CHOOSE s \in Series : TRUE,
                         RandomElement(Times)>>, fs |-> SparseFs(x)]
SparseBatch(x, j) == LET n == RandomElement(1..MaxBatch) IN TLCEval([i \in 1..n |-> SparseRow(x + i)])
SparseBatches == {SparseBatch(nv, j) : j \in 1..3}
\* a fixed write script (the k-th write is the k-th batch) whose files differ in schema and have several
\* segments; the BFS export config enumerates every placement of flushes, compactions, merges and reopens
\* around it
ScriptRow(t, fs) == [k |-> <<CHOOSE s \in Series : TRUE, t>>, fs |-> fs]
F1 == SetToSeq(Fields)[1]
Script == << <<ScriptRow(1, {F1}), ScriptRow(2, {F1}), ScriptRow(3, {F1})>>,
             <<ScriptRow(4, Fields), ScriptRow(5, Fields)>>,
             <<ScriptRow(6, Fields \ {F1}), ScriptRow(2, Fields)>> >>
ScriptBatches == IF nw < Len(Script) THEN {Script[nw + 1]} ELSE {}
Export == (Len(hist) = Depth) => PrintT(<<"TRACE", ToJson(hist)>>)
=============================================================================
