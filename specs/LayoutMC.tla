------------------------------ MODULE LayoutMC ------------------------------
EXTENDS Layout, Json
\* Export of behaviours for replay into the real engine (Mode B): one JSON line per behaviour
\* that reached the depth bound.
\* simulation: two random batches per step instead of all of them, so that reorganisations are
\* chosen about as often as writes
\* (parameterised by the state so that TLC does not cache them as constants)
SimRow(x) == [k |-> <<RandomElement(Series), RandomElement(Times)>>, fs |-> RandomElement((SUBSET Fields) \ {{}})]
SimBatch(x, j) == LET n == RandomElement(1..MaxBatch) IN TLCEval([i \in 1..n |-> SimRow(x + i)])
SimBatches == {SimBatch(nv, j) : j \in 1..3}
\* biased sampling for reorganisation inputs with sparse columns and many segments: one series mostly,
\* increasing times, most rows carrying only the first field
SparseFs(x) == LET fl == SetToSeq(Fields)
                   opts == <<{fl[1]}, {fl[1]}, {fl[1]}, Fields, {fl[Len(fl)]}>>
               IN opts[RandomElement(1..5)]
SparseRow(x) == [k |-> <<IF RandomElement(1..4) = 1 THEN RandomElement(Series) ELSE CHOOSE s \in Series : TRUE,
                         RandomElement(Times)>>, fs |-> SparseFs(x)]
SparseBatch(x, j) == LET n == RandomElement(1..MaxBatch) IN TLCEval([i \in 1..n |-> SparseRow(x + i)])
SparseBatches == {SparseBatch(nv, j) : j \in 1..3}
\* a fixed write script (the k-th write is the k-th batch) whose files differ in schema and have several
\* segments; the BFS export config enumerates every placement of flushes, compactions, merges and reopens
\* around it
ScriptRow(t, fs) == [k |-> <<CHOOSE s \in Series : TRUE, t>>, fs |-> fs]
F1 == SetToSeq(Fields)[1]
Script == << <<ScriptRow(1, {F1}), ScriptRow(2, {F1}), ScriptRow(3, {F1})>>,
             <<ScriptRow(4, Fields), ScriptRow(5, Fields)>>,
             <<ScriptRow(6, Fields \ {F1}), ScriptRow(2, Fields)>> >>
ScriptBatches == IF nw < Len(Script) THEN {Script[nw + 1]} ELSE {}

\* ---- scheduled generation (C03): the action kinds of a behaviour are fixed, the data is random ----------
\* The k-th write draws its timestamps from the k-th block of Times (BlockW consecutive timestamps), so that
\* successive flushes yield ordered files; one row in four goes anywhere (an out-of-order row, or a row that
\* meets an existing key: equal timestamps in an ordered and an out-of-order file). Rows carry random field
\* subsets (columns present in some files only, sparse columns, segments without a value for a column) and
\* random series of either measurement (series present in some of the files only).
BlockW == 2
NBlocks == (Cardinality(Times) + BlockW - 1) \div BlockW
TimesSeq == SortSeq(SetToSeq(Times), LAMBDA a, b : a < b)
BlockTimes(b) == {TimesSeq[i] : i \in {j \in 1..Len(TimesSeq) : (j - 1) \div BlockW = b % NBlocks}}
BlockRow(x, b) == [k |-> <<RandomElement(Series),
                           IF RandomElement(1..4) = 1 THEN RandomElement(Times) ELSE RandomElement(BlockTimes(b))>>,
                   fs |-> RandomElement((SUBSET Fields) \ {{}})]
BlockBatch(x, b, j) == LET n == RandomElement(1..MaxBatch) IN TLCEval([i \in 1..n |-> BlockRow(x + i, b)])
BlockBatches == {BlockBatch(nv, nw, j) : j \in 1..2}
\* dense variant: every series gets a row with every field at every timestamp of the block (chunks of
\* several segments without a single null)
DenseBatch(x, b) == LET ss == SetToSeq(Series)
                        ts == SetToSeq(BlockTimes(b))
                    IN TLCEval([i \in 1..(Len(ss) * Len(ts)) |->
                          [k |-> <<ss[((i - 1) % Len(ss)) + 1], ts[((i - 1) \div Len(ss)) + 1]>>, fs |-> Fields]])
DenseBatches == {DenseBatch(nv, nw)}

\* merge variant: the first MergeFiles writes give one series a row in the first half of successive blocks (one
\* ordered file each), the later writes scatter rows of that series over all those blocks (out-of-order rows
\* that interleave with several ordered files, at new and at existing timestamps), mostly in a single column
MergeFiles == 3
MainS == CHOOSE s \in Series : s \notin Mst2
NarrowFs(x) == IF RandomElement(1..3) = 1 THEN RandomElement((SUBSET Fields) \ {{}}) ELSE {SetToSeq(Fields)[1]}
FirstOf(b) == Min(BlockTimes(b))
MergeBatch(x, j) ==
  IF nw < MergeFiles
    THEN TLCEval([i \in 1..(IF RandomElement(1..3) = 1 THEN 2 ELSE 1) |->
            [k |-> <<IF i = 1 THEN MainS ELSE RandomElement(Series), FirstOf(nw)>>, fs |-> NarrowFs(x + i)]])
    ELSE LET n == RandomElement(2..MaxBatch)
         IN TLCEval([i \in 1..n |->
               [k |-> <<MainS, RandomElement(UNION {BlockTimes(b) : b \in 0..(MergeFiles - 1)})>>, fs |-> NarrowFs(x + i)]])
MergeBatches == {MergeBatch(nv, j) : j \in 1..2}

\* schedules: W write, F flush, L level compaction, C full compaction, M merge, D down-sample, R reopen
\* levels 0 -> 1 -> 2 with groups of two
SchedLevels  == <<"W","F","W","F","L","W","F","W","F","L","L","W","F","M","W","F","L","C">>
\* groups of three, merge before and after
SchedGroup3  == <<"W","F","W","F","W","F","L","W","F","M","W","F","W","F","L","C","R","W","F","M">>
\* full compaction next to level compaction, out-of-order rows in between
SchedFull    == <<"W","F","W","F","W","F","C","W","F","M","W","F","L","W","F","C","M","R">>
\* down-sample of a compacted / merged / multi-file shard, then a restart
SchedDS1     == <<"W","F","W","F","M","C","D","R">>
SchedDS2     == <<"W","F","W","F","W","F","M","D","R">>
SchedDS3     == <<"W","F","W","F","L","W","F","M","D","R">>
SchedDSDense == <<"W","F","W","F","W","F","C","D","R">>
\* three ordered files of a series, out-of-order rows across all of them, merge; once more after a level compaction
SchedMerge   == <<"W","F","W","F","W","F","W","F","M","W","F","L","W","F","M","R">>

SimCalls(x) == TLCEval([f \in Fields |-> RandomElement(Calls)])
SimCallChoices == {SimCalls(nv + j) : j \in 1..2}

\* exhaustive checks: every field gets the same call
UniformCalls == {[f \in Fields |-> c] : c \in Calls}

Export == (Len(hist) = Depth) => PrintT(<<"TRACE", ToJson(hist)>>)
\* scheduled behaviours end with their schedule
ExportSched == (Len(hist) = Len(Sched)) => PrintT(<<"TRACE", ToJson(hist)>>)
=============================================================================
