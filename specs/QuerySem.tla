------------------------------ MODULE QuerySem ------------------------------
(***************************************************************************)
(* C08 - query answers follow the language and ignore chunking.            *)
(*                                                                         *)
(* Part 1 (operators): the documented InfluxQL semantics of the core of    *)
(* the language, evaluated directly over the logical contents of one       *)
(* measurement (a set of rows [series, time, fields]; null = absent):      *)
(*   Where / Filtered   time, tag and field filters                        *)
(*   RawSeries          plain selections, GROUP BY tags, LIMIT / OFFSET    *)
(*   AggSeries          count sum mean min max first last, overall, per    *)
(*                      tag group, per epoch aligned bucket (Bucket), with *)
(*                      the time stamp rules and FILL none/null/n/previous *)
(*   descending         = the ascending stream reversed                    *)
(* The same operators are the oracle: TLC enumerates / samples (data set,  *)
(* query) pairs (Load, Ask), evaluates the answer and exports it through   *)
(* hist (QuerySemMC!Export) for replay against a real server.              *)
(*                                                                         *)
(* Part 2 (chunk machine, ChunkSpec): the operators of the executor        *)
(* (engine/executor/agg_transform.go, fill_transform.go,                   *)
(* limit_transform.go) consume the row stream in CHUNKS and carry state    *)
(* across chunk boundaries (pending group, previous window, remaining      *)
(* limit).  ChunkIndependence: for EVERY stream and EVERY partition of it  *)
(* into chunks the emitted answer equals the direct evaluation with the    *)
(* operators of part 1.                                                    *)
(*                                                                         *)
(* Where the language leaves the answer open the specification exports     *)
(* the set of acceptable answers:                                          *)
(*   - rows of a plain selection with equal time stamps: any order (a raw  *)
(*     series is a sequence of time groups [t, k, cands]: k of the         *)
(*     candidate rows must appear; k < Len(cands) only where LIMIT/OFFSET  *)
(*     cuts through a group)                                               *)
(*   - first()/last() among points with the same extreme time stamp, the   *)
(*     time stamp of min()/max() among points with the same extreme value: *)
(*     any of them (cells / row times carry the alternatives)              *)
(* that the answer is a FUNCTION of contents and query text (the same      *)
(* under every configuration) is checked by the replay.  Which tied point  *)
(* the implementation returns is fixed by its tie rules (TieCell/TieTimes, *)
(* deviation "tie_asimpl": same time => greater value, same value =>       *)
(* earliest time); they are deterministic except where the store and the   *)
(* executor disagree (F-C08-9), so a configuration dependent answer is     *)
(* attributed to F-C08-9 only if every answer is one these rules predict.  *)
(***************************************************************************)
EXTENDS Integers, Sequences, FiniteSets, TLC, SequencesExt, FiniteSetsExt

CONSTANTS NS,        \* number of series (rows 1..NS of SeriesTab)
          Times,     \* abstract time stamps (integers; concrete = base + t * step)
          FieldSet,  \* field names, subset of {"fa","fb","fc"}
          Vals,      \* abstract values of int / float / str fields
          Depth,     \* actions per behaviour: 1 Load + (Depth-1) Ask
          Logging,   \* TRUE: hist carries data set, query and evaluated answers
          Dev,       \* deviations ({} = the design)
          CGroups, CWindows, CVals, CMaxLen   \* bounds of the chunk machine

VARIABLES data,   \* [kinds, rows]: the logical contents (NoData before Load)
          cur,    \* the query asked last (NoQ: none)
          hist,   \* exported history
          cm      \* state of the chunk machine (part 2)

vars == <<data, cur, hist, cm>>
view == <<data, cur, cm>>

NULL  == -99      \* absent field value
NONE  == -77      \* no bound / no limit / no interval
EPOCH == -1000    \* time stamp "epoch 0" of an aggregate row without lower time bound

SeriesTab == << [t1 |-> "a", t2 |-> "x"], [t1 |-> "b", t2 |-> "x"],
                [t1 |-> "c", t2 |-> "y"], [t1 |-> "a", t2 |-> "y"] >>
TagKeys    == <<"t1", "t2">>
FieldOrder == <<"fa", "fb", "fc">>
Kinds      == {"int", "float", "str", "bool"}
Numeric(k) == k \in {"int", "float"}
Selectors  == {"min", "max", "first", "last"}

NullCell == <<"n">>

-----------------------------------------------------------------------------
(* generic sequence operators shared by the semantics and the chunk machine *)

\* GROUP BY time(w): epoch aligned bucket of t (floor, also for negative t)
Bucket(t, w) == t - (t % w)
BucketD(t, w, dv) ==
  IF "bucket_trunc" \in dv /\ t < 0 THEN -((-t) - ((-t) % w)) ELSE Bucket(t, w)

SortAsc(S) == SetToSortSeq(S, LAMBDA a, b : a < b)

\* LIMIT lim OFFSET off on a sequence (NONE = absent)
LimitSeq(s, off, lim, dv) ==
  LET o    == IF off = NONE THEN 0 ELSE off
      from == o + 1
      to0  == IF lim = NONE THEN Len(s) ELSE o + lim
      to1  == IF "limit_before_offset" \in dv /\ lim # NONE THEN lim ELSE to0
      to   == IF to1 < Len(s) THEN to1 ELSE Len(s)
  IN IF from > to THEN <<>> ELSE SubSeq(s, from, to)

\* the same on a sequence of tie groups of the given sizes: how many members of each group remain
RECURSIVE TakeCounts(_, _, _, _)
TakeCounts(sizes, pos, lo, hi) ==
  IF sizes = <<>> THEN <<>>
  ELSE LET n == Head(sizes)
           a == IF pos + 1 > lo THEN pos + 1 ELSE lo
           b == IF pos + n < hi THEN pos + n ELSE hi
           k == IF b >= a THEN b - a + 1 ELSE 0
       IN <<k>> \o TakeCounts(Tail(sizes), pos + n, lo, hi)

RECURSIVE SumSeq(_)
SumSeq(s) == IF s = <<>> THEN 0 ELSE Head(s) + SumSeq(Tail(s))

\* FILL on one column of one series, cells in iteration order
RECURSIVE FillPrevCol(_, _)
FillPrevCol(cells, prev) ==
  IF cells = <<>> THEN <<>>
  ELSE LET out == IF Head(cells) = NullCell THEN prev ELSE Head(cells)
       IN <<out>> \o FillPrevCol(Tail(cells), out)

WildCell == <<"w">>      \* deviation models only: any value or none
\* what FILL puts into a window without value
FillOfNull(mode, fillv, isCount) ==
  CASE mode = "num" -> <<"c", fillv>>
    [] mode = "null" /\ isCount -> <<"c", 0>>
    [] mode = "prev" -> WildCell
    [] OTHER -> NullCell

FillCol(cells, mode, fillv, isCount) ==
  CASE mode = "prev" -> FillPrevCol(cells, NullCell)
    [] mode = "num"  -> [i \in 1..Len(cells) |-> IF cells[i] = NullCell THEN <<"c", fillv>> ELSE cells[i]]
    [] mode = "null" -> [i \in 1..Len(cells) |-> IF cells[i] = NullCell /\ isCount THEN <<"c", 0>> ELSE cells[i]]
    [] OTHER         -> cells      \* "none": rows without any value are dropped by the caller

FillColD(cells, mode, fillv, isCount, dv) ==
  IF mode = "prev" /\ "fillprev_wild" \in dv
    THEN [i \in 1..Len(cells) |-> IF cells[i] = NullCell THEN WildCell ELSE cells[i]]
    ELSE FillCol(cells, mode, fillv, isCount)

\* F-C08-4 as implemented (fill_transform.go: prevReadAts = the immediately preceding INPUT row): a cell without value
\* takes the value this column has in the nearest preceding PRESENT window of the series (pres[i]: some column has a
\* value in window i).  If the column is null there too the outcome depends on the chunking (stale prevValues, scan from
\* row 0 of the chunk: WildCell); windows before the first present one stay null; a null cell of the first present
\* window may receive the last value of the previous series (WildCell).  st: "lead" | "val" | "wild"
RECURSIVE FillPrevRow(_, _, _, _)
FillPrevRow(cells, pres, st, pv) ==
  IF cells = <<>> THEN <<>>
  ELSE LET c   == Head(cells)
           p   == Head(pres)
           out == IF c # NullCell THEN c
                  ELSE CASE st = "lead" /\ ~p -> NullCell
                         [] st = "val"         -> pv
                         [] OTHER              -> WildCell
           nst == IF ~p THEN st ELSE IF c # NullCell THEN "val" ELSE "wild"
           npv == IF p /\ c # NullCell THEN c ELSE pv
       IN <<out>> \o FillPrevRow(Tail(cells), Tail(pres), nst, npv)

\* FillColD with the windows' presence flags: "fillprev_prevrow" = the narrow as-implemented model of F-C08-4
\* mutation seed "fill_skips_present_cells": a window in which some column has a value is passed on as it is - its
\* cells without value are not filled (the part-1 image of the fast-path slip of the chunk machine)
FillColP(cells, pres, mode, fillv, isCount, dv) ==
  IF mode = "prev" /\ "fillprev_prevrow" \in dv THEN FillPrevRow(cells, pres, "lead", NullCell)
  ELSE IF "fill_skips_present_cells" \in dv /\ mode \in {"prev", "num"}
    THEN LET f == FillCol(cells, mode, fillv, isCount) IN [i \in 1..Len(cells) |-> IF pres[i] THEN cells[i] ELSE f[i]]
  ELSE FillColD(cells, mode, fillv, isCount, dv)


-----------------------------------------------------------------------------
(* Part 1: semantics over the logical contents                              *)

NoData == [kinds |-> <<>>, rows |-> {}]
NoQ    == [kind |-> "none"]

TagOf(r, k) == SeriesTab[r.s][k]

\* fields that exist in the measurement: written with a value at least once
Existing(D) == {f \in FieldSet : \E r \in D.rows : r.v[f] # NULL}

Cmp(op, x, c) == CASE op = "gt" -> x > c [] op = "le" -> x <= c [] op = "eq" -> x = c
                   [] op = "ne" -> x # c [] op = "lt" -> x < c [] OTHER -> x >= c

TagCond(c, r) == CASE c.k = "none" -> TRUE
                   [] c.k = "eq" -> TagOf(r, c.key) = c.val
                   [] c.k = "ne" -> TagOf(r, c.key) # c.val
                   [] OTHER      -> TagOf(r, c.key) \in c.vals      \* "re": =~ /^(v1|v2)$/

\* a comparison with an absent field is false, whatever the operator
FldCond(c, r) == IF c.k = "none" THEN TRUE ELSE r.v[c.f] # NULL /\ Cmp(c.k, r.v[c.f], c.c)

InRange(q, t) == (q.tlo = NONE \/ t >= q.tlo) /\ (q.thi = NONE \/ t < q.thi)

Where(q, r) == /\ InRange(q, r.t)
               /\ IF q.conn = "or" THEN TagCond(q.tagc, r) \/ FldCond(q.fldc, r)
                                   ELSE TagCond(q.tagc, r) /\ FldCond(q.fldc, r)

Filtered(D, q) == {r \in D.rows : Where(q, r)}

GroupKey(r, dims) == [i \in 1..Len(dims) |-> TagOf(r, dims[i])]
TagsOfKey(dims, g) == [i \in 1..Len(dims) |-> <<dims[i], g[i]>>]

---- (* plain selections *)
SelFields(D, q) == IF q.sel = <<"*">> THEN Existing(D) ELSE {q.sel[i] : i \in 1..Len(q.sel)} \cap FieldSet
StarCols(D, q) ==
  SelectSeq(FieldOrder, LAMBDA f : f \in Existing(D)) \o
  SelectSeq(TagKeys, LAMBDA k : \A i \in 1..Len(q.dims) : q.dims[i] # k)
RawCols(D, q) == IF q.sel = <<"*">> THEN StarCols(D, q) ELSE q.sel
IsTag(c) == c \in {"t1", "t2"}

\* a row is returned iff at least one selected FIELD has a value in it
\* "cond_field_keeps_row" (as implemented, F-C08-1): ... or a field referenced by WHERE has one
Emitted(D, q, r, dv) ==
  \/ \E f \in SelFields(D, q) : r.v[f] # NULL
  \/ "cond_field_keeps_row" \in dv /\ q.fldc.k # "none" /\ r.v[q.fldc.f] # NULL

RowCells(D, q, r) ==
  LET cols == RawCols(D, q)
  IN [i \in 1..Len(cols) |-> IF IsTag(cols[i]) THEN <<"t", TagOf(r, cols[i])>>
                             ELSE IF r.v[cols[i]] = NULL THEN NullCell ELSE <<"v", r.v[cols[i]]>>]

RawGroupRows(D, q, g, dv) == {r \in Filtered(D, q) : GroupKey(r, q.dims) = g /\ Emitted(D, q, r, dv)}

RawSeries1(D, q, g, desc, dv) ==
  LET rs    == RawGroupRows(D, q, g, dv)
      asc   == SortAsc({r.t : r \in rs})
      ts    == IF desc /\ "desc_not_reversed" \notin dv THEN Reverse(asc) ELSE asc
      cands == [i \in 1..Len(ts) |-> LET at == SetToSeq({r \in rs : r.t = ts[i]})
                                     IN [j \in 1..Len(at) |-> RowCells(D, q, at[j])]]
      sizes == [i \in 1..Len(ts) |-> Len(cands[i])]
      total == SumSeq(sizes)
      o     == IF q.off = NONE THEN 0 ELSE q.off
      hi0   == IF q.lim = NONE THEN total ELSE o + q.lim
      hi    == IF "limit_before_offset" \in dv /\ q.lim # NONE THEN q.lim ELSE hi0
      ks    == TakeCounts(sizes, 0, o + 1, hi)
      grp   == [i \in 1..Len(ts) |-> [t |-> ts[i], k |-> ks[i], c |-> cands[i]]]
  IN [tags |-> TagsOfKey(q.dims, g), cols |-> RawCols(D, q),
      rows |-> SelectSeq(grp, LAMBDA x : x.k > 0)]

RawKeys(D, q, dv) == {GroupKey(r, q.dims) : r \in {x \in Filtered(D, q) : Emitted(D, q, x, dv)}}

RawEval(D, q, desc, dv) ==
  LET ks == SetToSeq(RawKeys(D, q, dv))
      ss == [i \in 1..Len(ks) |-> RawSeries1(D, q, ks[i], desc, dv)]
  IN SelectSeq(ss, LAMBDA s : s.rows # <<>>)

---- (* aggregates *)
\* the points an aggregate call sees: <<time, value, series>> of the rows carrying the field
Pts(S, f, dv) == {<<r.t, r.v[f], r.s>> : r \in {x \in S : x.v[f] # NULL \/ "count_includes_null" \in dv}}

PSum(P)  == FoldSet(LAMBDA p, acc : acc + p[2], 0, P)
PMinV(P) == Min({p[2] : p \in P})
PMaxV(P) == Max({p[2] : p \in P})
PMinT(P) == Min({p[1] : p \in P})
PMaxT(P) == Max({p[1] : p \in P})

\* value cell of a call: <<"n">> | <<"c", count>> | <<"v", alternatives...>> | <<"m", sum, count>> (mean = sum/count)
\* anyfl (deviation model of F-C08-2 only): first()/last() may return any point of the window
CallCell(fn, P, anyfl) ==
  IF P = {} THEN NullCell
  ELSE IF anyfl /\ fn \in {"first", "last"} THEN <<"v">> \o SortAsc({p[2] : p \in P})
  ELSE CASE fn = "count" -> <<"c", Cardinality(P)>>
         [] fn = "sum"   -> <<"v", PSum(P)>>
         [] fn = "mean"  -> <<"m", PSum(P), Cardinality(P)>>
         [] fn = "min"   -> <<"v", PMinV(P)>>
         [] fn = "max"   -> <<"v", PMaxV(P)>>
         [] fn = "first" -> <<"v">> \o SortAsc({p[2] : p \in {x \in P : x[1] = PMinT(P)}})
         [] OTHER        -> <<"v">> \o SortAsc({p[2] : p \in {x \in P : x[1] = PMaxT(P)}})   \* last

\* time stamps a selector's point may carry
CallTimes(fn, P, anyfl) ==
  IF anyfl /\ fn \in {"first", "last"} THEN SortAsc({p[1] : p \in P}) ELSE
  CASE fn = "min"   -> SortAsc({p[1] : p \in {x \in P : x[2] = PMinV(P)}})
    [] fn = "max"   -> SortAsc({p[1] : p \in {x \in P : x[2] = PMaxV(P)}})
    [] fn = "first" -> <<PMinT(P)>>
    [] OTHER        -> <<PMaxT(P)>>

\* the implementation's tie rules (deviation "tie_asimpl"; executor/agg_func.go First/Last/Min/MaxMerge and ...Reduce,
\* lib/record/reccord_functions.go Update...First/Last/Min/Max): among points with the same extreme time stamp
\* first()/last() return the GREATEST value; the point of a sole min()/max() selector is the EARLIEST one with the
\* extreme value.  The rules are deterministic, so the answer does not depend on where chunk or reader boundaries
\* fall.  Two exceptions (F-C08-9): a boolean first() (executor: false wins, store: true wins) and descending queries
\* (store side reducers pick by position): there the alternatives of the language remain.
TieCell(fn, kind, P, desc) ==
  IF P = {} THEN NullCell
  ELSE IF fn \in {"first", "last"} /\ ~desc /\ ~(fn = "first" /\ kind = "bool")
    THEN LET T == IF fn = "first" THEN PMinT(P) ELSE PMaxT(P)
         IN <<"v", Max({p[2] : p \in {x \in P : x[1] = T}})>>
    ELSE CallCell(fn, P, FALSE)
TieTimes(fn, P, desc) ==
  IF fn \in {"min", "max"} /\ ~desc
    THEN LET V == IF fn = "min" THEN PMinV(P) ELSE PMaxV(P)
         IN <<Min({p[1] : p \in {x \in P : x[2] = V}})>>
    ELSE CallTimes(fn, P, FALSE)

Buckets(q, dv) ==
  IF q.w = NONE THEN <<NONE>>
  ELSE LET b0 == BucketD(q.tlo, q.w, dv)
           bl == BucketD(q.thi - 1, q.w, dv)
       IN [i \in 1..((bl - b0) \div q.w + 1) |-> b0 + (i - 1) * q.w]

AggSeries1(D, q, g, desc, dv) ==
  LET S     == {r \in Filtered(D, q) : GroupKey(r, q.dims) = g}
      nc    == Len(q.calls)
      asc   == Buckets(q, dv)
      bs    == IF desc /\ "desc_not_reversed" \notin dv THEN Reverse(asc) ELSE asc
      InB(r, b) == q.w = NONE \/ BucketD(r.t, q.w, dv) = b
      P(b, c)   == Pts({r \in S : InB(r, b)}, q.calls[c].f, dv)
      \* "firstlast_any_asc": deviation model of F-C09-1 (open finding of C09, first_last_reader.go reports the chunk's
      \* first / last time): an ascending first()/last() served from the statistics of a file with several segments may
      \* carry the time of ANY row of the group, in or out of the range, and - merged by that time - any point's value
      anyasc == ~desc /\ "firstlast_any_asc" \in dv
      anyfl == (desc /\ "firstlast_any" \in dv) \/ anyasc
      \* deviation model of F-C08-2 only: every point of the group, whatever its time stamp
      SAll  == {r \in D.rows : Where([q EXCEPT !.tlo = NONE, !.thi = NONE], r) /\ GroupKey(r, q.dims) = g}
      PAll(c) == Pts(SAll, q.calls[c].f, dv)
      tie   == "tie_asimpl" \in dv
      Cell(b, c) == LET fn == q.calls[c].fn
                    IN IF anyfl /\ fn \in {"first", "last"} /\ P(b, c) # {}
                         THEN CallCell(fn, PAll(c), TRUE)
                         ELSE IF tie THEN TieCell(fn, D.kinds[q.calls[c].f], P(b, c), desc)
                         ELSE CallCell(fn, P(b, c), FALSE)
      raw   == [c \in 1..nc |-> [i \in 1..Len(bs) |-> Cell(bs[i], c)]]
      mode  == IF q.w = NONE THEN "none" ELSE q.fill
      pres  == [i \in 1..Len(bs) |-> \E c \in 1..nc : raw[c][i] # NullCell]
      \* deviation model of F-C08-10 only (fill_transform.go fast path): GROUP BY time() without tag dimension,
      \* fill(null) and a value in every window: the first chunk is forwarded untouched, count() cells stay null
      fast  == "fastpath_null_count" \in dv /\ q.dims = <<>> /\ mode = "null" /\ \A i \in 1..Len(bs) : pres[i]
      col0  == [c \in 1..nc |-> IF fast THEN raw[c]
                                 ELSE FillColP(raw[c], pres, mode, q.fillv, q.calls[c].fn = "count", dv)]
      \* deviation model of F-C08-5 only: a descending filled GROUP BY tags, time() answer may lose values; the same
      \* split path of FillTransform is taken without tags when the windows outnumber twice the inner chunk size
      \* ("descfill_lossy_nodims", attributed by the replay only under such a configuration)
      lossy == /\ desc /\ mode # "none"
               /\ \/ "descfill_lossy" \in dv /\ q.dims # <<>>
                  \/ "descfill_lossy_nodims" \in dv /\ q.dims = <<>>
      col   == [c \in 1..nc |-> [i \in 1..Len(bs) |->
                  IF lossy /\ raw[c][i] # NullCell
                    THEN <<"o", col0[c][i], FillOfNull(mode, q.fillv, q.calls[c].fn = "count")>>
                    ELSE col0[c][i]]]
      HasVal(i) == \E c \in 1..nc : raw[c][i] # NullCell
      sole  == q.w = NONE /\ nc = 1 /\ q.calls[1].fn \in Selectors
      TimeOf(i) == IF q.w # NONE THEN <<bs[i]>>
                   ELSE IF sole THEN (IF anyasc /\ q.calls[1].fn \in {"first", "last"} THEN SortAsc({r.t : r \in SAll})
                                      ELSE IF anyfl THEN CallTimes(q.calls[1].fn, PAll(1), TRUE)
                                      ELSE IF tie THEN TieTimes(q.calls[1].fn, P(bs[i], 1), desc)
                                      ELSE CallTimes(q.calls[1].fn, P(bs[i], 1), FALSE))
                   ELSE <<IF q.tlo = NONE THEN EPOCH ELSE q.tlo>>
      keep  == SelectSeq([i \in 1..Len(bs) |-> i], LAMBDA i : mode # "none" \/ HasVal(i))
  IN [tags |-> TagsOfKey(q.dims, g),
      cols |-> [c \in 1..nc |-> q.calls[c].fn],
      some |-> \E i \in 1..Len(bs) : HasVal(i),
      rows |-> [j \in 1..Len(keep) |-> [t |-> TimeOf(keep[j]), c |-> [c \in 1..nc |-> col[c][keep[j]]]]]]

AggEval(D, q, desc, dv) ==
  LET ks == SetToSeq({GroupKey(r, q.dims) : r \in Filtered(D, q)})
      ss == [i \in 1..Len(ks) |-> AggSeries1(D, q, ks[i], desc, dv)]
      ok == SelectSeq(ss, LAMBDA s : s.some)     \* a series without any value is not returned
  IN [i \in 1..Len(ok) |-> [tags |-> ok[i].tags, cols |-> ok[i].cols, rows |-> ok[i].rows]]

\* the answer: a sequence of series (their order is not specified)
Eval(D, q, desc, dv) == IF q.kind = "raw" THEN RawEval(D, q, desc, dv) ELSE AggEval(D, q, desc, dv)

-----------------------------------------------------------------------------
(* generator: data sets and the bounded query grammar                       *)

NoTag == [k |-> "none", key |-> "t1", val |-> "a", vals |-> {}]
NoFld == [k |-> "none", f |-> "fa", c |-> 0]

MkRaw(sel, dims, tlo, thi, tagc, fldc, conn, lim, off) ==
  [kind |-> "raw", sel |-> sel, calls |-> <<>>, dims |-> dims, tlo |-> tlo, thi |-> thi, tagc |-> tagc,
   fldc |-> fldc, conn |-> conn, w |-> NONE, fill |-> "null", fillv |-> 0, lim |-> lim, off |-> off]
MkAgg(calls, dims, tlo, thi, tagc, fldc, conn, w, fill, fillv) ==
  [kind |-> "agg", sel |-> <<>>, calls |-> calls, dims |-> dims, tlo |-> tlo, thi |-> thi, tagc |-> tagc,
   fldc |-> fldc, conn |-> conn, w |-> w, fill |-> fill, fillv |-> fillv, lim |-> NONE, off |-> NONE]

FnsOf(kind) == IF Numeric(kind) THEN {"count", "sum", "mean", "min", "max", "first", "last"}
               ELSE {"count", "first", "last"}
\* fill(<number>) is defined for numeric results only
NumResult(D, call) == call.fn = "count" \/ Numeric(D.kinds[call.f])
WellFormed(D, q) ==
  /\ q.kind = "raw" =>
       /\ q.sel # <<"*">> =>
            /\ \A i \in 1..Len(q.sel) : q.sel[i] \in Existing(D) \cup {"t1", "t2"}
            /\ SelFields(D, q) # {}
            /\ \A i \in 1..Len(q.sel), j \in 1..Len(q.dims) : q.sel[i] # q.dims[j]
       /\ (q.lim # NONE \/ q.off # NONE) => q.dims = <<>>
       /\ q.off # NONE => q.lim # NONE
  /\ q.kind = "agg" =>
       /\ \A i \in 1..Len(q.calls) : q.calls[i].f \in Existing(D) /\ q.calls[i].fn \in FnsOf(D.kinds[q.calls[i].f])
       /\ q.w # NONE => q.tlo # NONE /\ q.thi # NONE /\ q.thi > q.tlo
       /\ q.fill = "num" => \A i \in 1..Len(q.calls) : NumResult(D, q.calls[i])
  /\ q.fldc.k # "none" =>
       /\ q.fldc.f \in Existing(D)
       /\ ~Numeric(D.kinds[q.fldc.f]) => q.fldc.k \in {"eq", "ne"}
       /\ D.kinds[q.fldc.f] = "bool" => q.fldc.c \in {0, 1}
  /\ q.conn = "or" => q.tagc.k # "none" /\ q.fldc.k # "none"

\* the (data set, query) choices offered to Load / Ask; the MC module overrides them per mode
CONSTANTS DataChoices(_), QueryChoices(_, _)

\* as-implemented deviation models of the open findings (known_findings.json): the answers they predict
\* <<finding id(s), deviations>>; a third element "any": the union is evaluated where at least one of its deviations
\* applies (default: where all of them do).  F-C08-4 has two models: "fillprev_prevrow" (exact wherever the preceding
\* input row decides; valid when the fill operator sees the whole answer of an ungrouped query as ONE chunk) and
\* "fillprev_wild" (other configurations: the outcome depends on the chunking and on the neighbouring series); the
\* replay picks the one that fits the configuration
KnownDevs == << <<"F-C08-1", {"cond_field_keeps_row"}>>, <<"F-C08-2", {"firstlast_any"}>>,
               <<"F-C08-4", {"fillprev_wild"}>>, <<"F-C08-4", {"fillprev_prevrow"}>>,
               <<"F-C08-5", {"descfill_lossy"}>>, <<"F-C08-5", {"descfill_lossy_nodims"}>>,
               <<"F-C08-2+4+5", {"firstlast_any", "fillprev_wild", "descfill_lossy_nodims"}, "any">>,
               <<"F-C08-10", {"fastpath_null_count"}>>, <<"F-C08-2+10", {"firstlast_any", "fastpath_null_count"}>>,
               <<"F-C09-1", {"firstlast_any_asc"}>>,
               <<"F-C08-2+4", {"firstlast_any", "fillprev_prevrow"}>>,
               <<"F-C08-1+2+4+5", {"cond_field_keeps_row", "firstlast_any", "fillprev_wild", "descfill_lossy"}, "any">> >>
\* can the deviation change the answer of q at all?  (saves the evaluation where it cannot)
DevApplies(dv, q) ==
  \/ "cond_field_keeps_row" \in dv /\ q.kind = "raw" /\ q.fldc.k # "none"
  \/ "firstlast_any" \in dv /\ q.kind = "agg" /\ \E i \in 1..Len(q.calls) : q.calls[i].fn \in {"first", "last"}
  \/ "firstlast_any_asc" \in dv /\ q.kind = "agg" /\ q.w = NONE /\ q.fldc.k = "none"
       /\ \E i \in 1..Len(q.calls) : q.calls[i].fn \in {"first", "last"}
  \/ "fillprev_prevrow" \in dv /\ q.kind = "agg" /\ q.w # NONE /\ q.fill = "prev" /\ q.dims = <<>>
  \/ "fillprev_wild" \in dv /\ q.kind = "agg" /\ q.w # NONE /\ q.fill = "prev"
  \/ "descfill_lossy" \in dv /\ q.kind = "agg" /\ q.w # NONE /\ q.dims # <<>> /\ q.fill # "none"
  \/ "descfill_lossy_nodims" \in dv /\ q.kind = "agg" /\ q.w # NONE /\ q.dims = <<>> /\ q.fill # "none"
  \/ "fastpath_null_count" \in dv /\ q.kind = "agg" /\ q.w # NONE /\ q.dims = <<>> /\ q.fill = "null"
  \/ "tie_asimpl" \in dv /\ q.kind = "agg" /\ \E i \in 1..Len(q.calls) : q.calls[i].fn \in Selectors
Answers(D, q) ==
  LET a  == Eval(D, q, FALSE, Dev)
      d  == Eval(D, q, TRUE, Dev)
      \* a union of deviations: "any" = where at least one of them applies, else where all of them apply
      Appl(i) == IF Len(KnownDevs[i]) = 3 THEN DevApplies(KnownDevs[i][2], q)
                 ELSE \A x \in KnownDevs[i][2] : DevApplies({x}, q)
      K(i) == IF ~Appl(i) THEN [id |-> KnownDevs[i][1], devs |-> <<>>, differs |-> FALSE, asc |-> <<>>, desc |-> <<>>]
              ELSE
              LET ka == Eval(D, q, FALSE, Dev \cup KnownDevs[i][2])
                  kd == Eval(D, q, TRUE, Dev \cup KnownDevs[i][2])
              IN [id |-> KnownDevs[i][1], devs |-> SetToSeq(KnownDevs[i][2]), differs |-> ka # a \/ kd # d, asc |-> ka, desc |-> kd]
      ks == [i \in 1..Len(KnownDevs) |-> K(i)]
      \* the answers under the implementation's tie rules (a refinement of asc / desc: fewer alternatives); <<>> if equal
      ta == IF DevApplies({"tie_asimpl"}, q) THEN Eval(D, q, FALSE, Dev \cup {"tie_asimpl"}) ELSE a
      td == IF DevApplies({"tie_asimpl"}, q) THEN Eval(D, q, TRUE, Dev \cup {"tie_asimpl"}) ELSE d
  IN [asc |-> a, desc |-> d, known |-> SelectSeq(ks, LAMBDA k : k.differs),
      tie |-> IF ta = a /\ td = d THEN <<>> ELSE <<[asc |-> ta, desc |-> td]>>]

Init == /\ data = NoData /\ cur = NoQ /\ hist = <<>> /\ cm = [on |-> FALSE]

Load(D) ==
  /\ data = NoData /\ D.rows # {}
  /\ data' = D
  /\ hist' = IF Logging THEN Append(hist, [a |-> "data", kinds |-> D.kinds, rows |-> SetToSeq(D.rows)]) ELSE hist
  /\ UNCHANGED <<cur, cm>>

Ask(q) ==
  /\ data # NoData
  /\ WellFormed(data, q)
  /\ cur' = q
  /\ hist' = IF Logging THEN Append(hist, [a |-> "query", q |-> q, exp |-> Answers(data, q)])
                        ELSE Append(hist, 0)
  /\ UNCHANGED <<data, cm>>

Next ==
  /\ Len(hist) < Depth
  /\ IF data = NoData THEN \E D \in DataChoices(0) : Load(D)
                      ELSE \E q \in QueryChoices(data, Len(hist)) : Ask(q)

Spec == Init /\ [][Next]_vars

---- (* laws of the semantics: each is stated WITHOUT the operator it constrains *)
Flat(series) == [i \in 1..Len(series) |-> series[i].rows]
SeriesOfKey(ans, tags) == SelectSeq(ans, LAMBDA s : s.tags = tags)

\* count = number of matching rows carrying the field; mean = sum / count; ungrouped, no interval
LawCount ==
  (cur.kind = "agg" /\ cur.w = NONE /\ cur.dims = <<>>) =>
    LET ans == Eval(data, cur, FALSE, Dev)
    IN \A c \in 1..Len(cur.calls) :
         LET f == cur.calls[c].f
             n == Cardinality({r \in data.rows : Where(cur, r) /\ r.v[f] # NULL})
         IN  /\ cur.calls[c].fn = "count" /\ ans # <<>> =>
                   ans[1].rows[1].c[c] = IF n = 0 THEN NullCell ELSE <<"c", n>>
             /\ cur.calls[c].fn = "mean" /\ ans # <<>> /\ n > 0 => ans[1].rows[1].c[c][3] = n

\* every bucket start is a multiple of the width, buckets cover the range, rows fall into their bucket
LawBucket ==
  (cur.kind = "agg" /\ cur.w # NONE) =>
    LET ans == Eval(data, cur, FALSE, Dev)
    IN /\ \A s \in 1..Len(ans) : \A i \in 1..Len(ans[s].rows) :
             LET t == ans[s].rows[i].t[1]
             IN /\ t % cur.w = 0
                /\ t + cur.w > cur.tlo /\ t < cur.thi
                /\ i > 1 => t > ans[s].rows[i-1].t[1]
       /\ \A r \in Filtered(data, cur) : \A w \in {cur.w} :
             LET b == BucketD(r.t, w, Dev) IN b <= r.t /\ r.t < b + w /\ b % w = 0

\* a descending query returns the ascending answer reversed (fill(previous) follows the iteration
\* order, as in InfluxDB 1.x, and is exempt)
RevRows(ans) == [i \in 1..Len(ans) |-> [ans[i] EXCEPT !.rows = Reverse(@)]]
LawDesc ==
  (cur.kind \in {"raw", "agg"} /\ ~(cur.kind = "agg" /\ cur.w # NONE /\ cur.fill = "prev")
     /\ cur.lim = NONE) =>
    Eval(data, cur, TRUE, Dev) = RevRows(Eval(data, cur, FALSE, Dev))

\* LIMIT / OFFSET keep a contiguous run of the unlimited answer, of the documented length
LawLimit ==
  (cur.kind = "raw" /\ cur.lim # NONE) =>
    \A desc \in BOOLEAN :
      LET full == Eval(data, [cur EXCEPT !.lim = NONE, !.off = NONE], desc, Dev)
          lim  == Eval(data, cur, desc, Dev)
          n    == IF full = <<>> THEN 0 ELSE SumSeq([i \in 1..Len(full[1].rows) |-> full[1].rows[i].k])
          m    == IF lim = <<>> THEN 0 ELSE SumSeq([i \in 1..Len(lim[1].rows) |-> lim[1].rows[i].k])
          o    == IF cur.off = NONE THEN 0 ELSE cur.off
          want == IF n - o < 0 THEN 0 ELSE IF n - o < cur.lim THEN n - o ELSE cur.lim
      IN /\ m = want
         /\ lim # <<>> => \E a \in 1..(Len(full[1].rows) - Len(lim[1].rows) + 1) :
               \A i \in 1..Len(lim[1].rows) :
                  /\ lim[1].rows[i].t = full[1].rows[a + i - 1].t
                  /\ lim[1].rows[i].c = full[1].rows[a + i - 1].c
                  /\ (1 < i /\ i < Len(lim[1].rows)) => lim[1].rows[i].k = full[1].rows[a + i - 1].k

\* GROUP BY tags partitions the rows: counts add up
LawGroupPartition ==
  (cur.kind = "agg" /\ cur.w = NONE /\ cur.dims # <<>> /\ \A c \in 1..Len(cur.calls) : cur.calls[c].fn = "count") =>
    LET g == Eval(data, cur, FALSE, Dev)
        u == Eval(data, [cur EXCEPT !.dims = <<>>], FALSE, Dev)
        Cnt(cell) == IF cell = NullCell THEN 0 ELSE cell[2]
    IN \A c \in 1..Len(cur.calls) :
         SumSeq([s \in 1..Len(g) |-> Cnt(g[s].rows[1].c[c])]) = IF u = <<>> THEN 0 ELSE Cnt(u[1].rows[1].c[c])

\* fill(none) = fill(null) without the rows that have no value; fill never changes a value
LawFillOn(none, this) ==
       /\ Len(none) = Len(this)
       /\ \A s \in 1..Len(none) : \A i \in 1..Len(none[s].rows) :
            \E j \in 1..Len(this[s].rows) :
               /\ this[s].rows[j].t = none[s].rows[i].t
               /\ \A c \in 1..Len(cur.calls) :
                     none[s].rows[i].c[c] # NullCell => this[s].rows[j].c[c] = none[s].rows[i].c[c]
       /\ cur.fill # "none" => \A s \in 1..Len(this) : Len(this[s].rows) = Len(Buckets(cur, Dev))
\* what FILL puts into every single cell, stated over the fill(none) answer (without FillCol): a cell with a value is
\* kept; a cell without one becomes the number / the column's latest earlier value of this series / 0 for count()
LawFillCellsOn(none, this) ==
    \A s \in 1..Len(this) : \A j \in 1..Len(this[s].rows) : \A c \in 1..Len(cur.calls) :
         LET t    == this[s].rows[j].t[1]
             src  == SelectSeq(none[s].rows, LAMBDA r : r.t[1] <= t /\ r.c[c] # NullCell)
             here == src # <<>> /\ src[Len(src)].t[1] = t
         IN this[s].rows[j].c[c] =
              IF here THEN src[Len(src)].c[c]
              ELSE CASE cur.fill = "num"  -> <<"c", cur.fillv>>
                     [] cur.fill = "prev" -> IF src = <<>> THEN NullCell ELSE src[Len(src)].c[c]
                     [] OTHER             -> IF cur.calls[c].fn = "count" THEN <<"c", 0>> ELSE NullCell
LawFill ==
  (cur.kind = "agg" /\ cur.w # NONE) =>
    LET none == Eval(data, [cur EXCEPT !.fill = "none"], FALSE, Dev)
        this == Eval(data, cur, FALSE, Dev)
    IN /\ LawFillOn(none, this)
       /\ cur.fill # "none" => LawFillCellsOn(none, this)

\* the implementation's tie rules pick one of the points the language allows, and (ascending, not a boolean first())
\* exactly one: the answer under "tie_asimpl" refines the answer, cell by cell and row time by row time
AltSet(x) == {x[i] : i \in 2..Len(x)}
LawTie ==
  (cur.kind = "agg" /\ DevApplies({"tie_asimpl"}, cur) /\ (cur.w = NONE \/ cur.fill = "none")) =>
    \A desc \in {FALSE} :
      LET a == Eval(data, cur, desc, Dev)
          t == Eval(data, cur, desc, Dev \cup {"tie_asimpl"})
      IN /\ Len(a) = Len(t)
         /\ \A s \in 1..Len(a) :
              /\ a[s].tags = t[s].tags /\ Len(a[s].rows) = Len(t[s].rows)
              /\ \A j \in 1..Len(a[s].rows) :
                   /\ {t[s].rows[j].t[i] : i \in 1..Len(t[s].rows[j].t)} \subseteq {a[s].rows[j].t[i] : i \in 1..Len(a[s].rows[j].t)}
                   /\ ~desc => Len(t[s].rows[j].t) = 1
                   /\ \A c \in 1..Len(cur.calls) :
                        LET x == a[s].rows[j].c[c]
                            y == t[s].rows[j].c[c]
                        IN IF x[1] = "v" THEN /\ y[1] = "v" /\ AltSet(y) \subseteq AltSet(x) /\ AltSet(y) # {}
                                              /\ (~desc /\ data.kinds[cur.calls[c].f] # "bool") => Len(y) = 2
                           ELSE y = x

Laws == LawCount /\ LawBucket /\ LawDesc /\ LawLimit /\ LawGroupPartition /\ LawFill /\ LawTie

-----------------------------------------------------------------------------
(* Part 2: the chunk machine                                                *)
(* The stream is what the store delivers for "SELECT sum(fA), count(fB),    *)
(* last(fA) ... GROUP BY <group>, time(w) FILL(mode)" and "SELECT fA LIMIT  *)
(* n OFFSET m": elements [g, w, v] sorted by (group, window); v is the      *)
(* value of fA (NULL = the row has no fA), fB is present iff v = 2; the     *)
(* elements of one (group, window) carry the SAME time stamp (rows of       *)
(* different series), so last(fA) is decided by the tie rule of part 1.     *)
(* Arrive/Cut build every stream up to CMaxLen under every partition into   *)
(* chunks; AggOp, FillOp and LimitOp process one chunk at a time and carry  *)
(* state.  CutLast = the chunk is the last one: the aggregate operator      *)
(* flushes with it, so the fill operator sees the remaining rows as ONE     *)
(* chunk - with an empty history that is "the first chunk is already the    *)
(* complete answer" (the fast path of fill_transform.go).                   *)

CElem == [g : CGroups, w : CWindows, v : CVals]
CLeq(a, b) == a.g < b.g \/ (a.g = b.g /\ a.w <= b.w)
WLo == Min(CWindows)
WHi == Max(CWindows)
CModes == {"null", "none", "prev", "num"}
CFillV == 7

---- (* direct evaluation with the operators of part 1 *)
CSumCell(es) == LET xs == SelectSeq(es, LAMBDA e : e.v # NULL)
                IN IF xs = <<>> THEN NullCell ELSE <<"v", SumSeq([i \in 1..Len(xs) |-> xs[i].v])>>
CCntCell(es) == LET xs == SelectSeq(es, LAMBDA e : e.v = 2)
                IN IF xs = <<>> THEN NullCell ELSE <<"c", Len(xs)>>
\* last(fA) over points with equal time stamps: the tie rule of part 1 (each element is a point of its own series)
CLastCell(es) == TieCell("last", "int", {<<0, es[i].v, i>> : i \in {j \in 1..Len(es) : es[j].v # NULL}}, FALSE)

DirectGroup(s, g, mode) ==
  LET ws   == [i \in 1..(WHi - WLo + 1) |-> WLo + i - 1]
      At(w) == SelectSeq(s, LAMBDA e : e.g = g /\ e.w = w)
      raw1 == [i \in 1..Len(ws) |-> CSumCell(At(ws[i]))]
      raw2 == [i \in 1..Len(ws) |-> CCntCell(At(ws[i]))]
      raw3 == [i \in 1..Len(ws) |-> CLastCell(At(ws[i]))]
      c1   == FillCol(raw1, mode, CFillV, FALSE)
      c2   == FillCol(raw2, mode, CFillV, TRUE)
      c3   == FillCol(raw3, mode, CFillV, FALSE)
      keep == SelectSeq([i \in 1..Len(ws) |-> i],
                        LAMBDA i : mode # "none" \/ raw1[i] # NullCell \/ raw2[i] # NullCell)
      some == \E i \in 1..Len(ws) : raw1[i] # NullCell \/ raw2[i] # NullCell
  IN IF ~some THEN <<>> ELSE [j \in 1..Len(keep) |-> [g |-> g, w |-> ws[keep[j]], a |-> c1[keep[j]], b |-> c2[keep[j]],
                                                        l |-> c3[keep[j]]]]

RECURSIVE DirectGroups(_, _, _)
DirectGroups(s, gs, mode) ==
  IF gs = <<>> THEN <<>> ELSE DirectGroup(s, Head(gs), mode) \o DirectGroups(s, Tail(gs), mode)

DirectFill(s, mode) == DirectGroups(s, SortAsc({s[i].g : i \in 1..Len(s)}), mode)
DirectLimit(s, off, lim) == LimitSeq(SelectSeq(s, LAMBDA e : e.v # NULL), off, lim, {})

---- (* AggOp: agg_transform.go - one pending (group, window) is carried *)
\* lst: last(fA) of the pending (group, window) so far (NULL: no point yet), merged as agg_func.go LastMerge does
AggEmpty == [has |-> FALSE, g |-> 0, w |-> 0, sum |-> 0, n1 |-> 0, n2 |-> 0, lst |-> NULL]
AggRow(st) == [g |-> st.g, w |-> st.w,
               a |-> IF st.n1 = 0 THEN NullCell ELSE <<"v", st.sum>>,
               b |-> IF st.n2 = 0 THEN NullCell ELSE <<"c", st.n2>>,
               l |-> IF st.lst = NULL THEN NullCell ELSE <<"v", st.lst>>]
\* LastMerge / LastReduce: the times are equal, the greater value wins
LastOf(prev, v) == IF v = NULL THEN prev ELSE IF prev = NULL \/ v > prev THEN v ELSE prev
AggAdd(st, e) == [st EXCEPT !.sum = IF e.v = NULL THEN @ ELSE @ + e.v,
                            !.n1 = IF e.v = NULL THEN @ ELSE @ + 1,
                            !.n2 = IF e.v = 2 THEN @ + 1 ELSE @,
                            !.lst = LastOf(@, e.v)]
RECURSIVE AggChunk(_, _, _)
\* returns <<state, emitted rows>>
AggChunk(st, chunk, out) ==
  IF chunk = <<>> THEN <<st, out>>
  ELSE LET e == Head(chunk)
       IN IF st.has /\ st.g = e.g /\ st.w = e.w
            THEN AggChunk(AggAdd(st, e), Tail(chunk), out)
            ELSE AggChunk(AggAdd([AggEmpty EXCEPT !.has = TRUE, !.g = e.g, !.w = e.w], e), Tail(chunk),
                          IF st.has THEN Append(out, AggRow(st)) ELSE out)
AggFlush(st) == IF st.has THEN <<AggRow(st)>> ELSE <<>>
\* mutation seed "last_later_chunk_wins": merging the carried partial result with the one of the next chunk, the later
\* chunk wins on equal time stamps (the carried value is forgotten when the chunk continues the pending window with a value)
AggCarry(st, chunk) ==
  IF "last_later_chunk_wins" \in Dev /\ st.has
     /\ \E i \in 1..Len(chunk) : /\ chunk[i].v # NULL
                                 /\ \A j \in 1..i : chunk[j].g = st.g /\ chunk[j].w = st.w
    THEN [st EXCEPT !.lst = NULL] ELSE st

---- (* FillOp: fill_transform.go - current group, next window and previous values are carried *)
FillEmpty == [has |-> FALSE, g |-> 0, nw |-> WLo, pa |-> NullCell, pb |-> NullCell, pl |-> NullCell, some |-> FALSE, held |-> <<>>]
\* one output row for window w of group g with raw cells a, b, l (NullCell = no value)
FillCell(raw, prev, mode, isCount) ==
  IF raw # NullCell THEN raw
  ELSE CASE mode = "prev" -> prev
         [] mode = "num"  -> <<"c", CFillV>>
         [] mode = "null" -> IF isCount THEN <<"c", 0>> ELSE NullCell
         [] OTHER         -> NullCell
\* rows of a group are held back until the group is known to have a value (a series without any value is not returned)
FillPut(st, w, a, b, l, mode) ==
  LET row  == [g |-> st.g, w |-> w, a |-> FillCell(a, st.pa, mode, FALSE), b |-> FillCell(b, st.pb, mode, TRUE),
               l |-> FillCell(l, st.pl, mode, FALSE)]
      drop == mode = "none" /\ a = NullCell /\ b = NullCell
      some == st.some \/ a # NullCell \/ b # NullCell
  IN [st EXCEPT !.nw = w + 1, !.pa = row.a, !.pb = row.b, !.pl = row.l, !.some = some,
                !.held = IF drop THEN @ ELSE Append(@, row)]
RECURSIVE FillGap(_, _, _)
FillGap(st, upto, mode) == IF st.nw > upto THEN st ELSE FillGap(FillPut(st, st.nw, NullCell, NullCell, NullCell, mode), upto, mode)
\* release the held rows of a group that has a value; returns <<state, rows>>
FillRelease(st) == IF st.some THEN <<[st EXCEPT !.held = <<>>], st.held>> ELSE <<st, <<>>>>
FillClose(st, mode) ==
  IF ~st.has THEN <<st, <<>>>>
  ELSE LET t == FillGap(st, WHi, mode) IN <<FillEmpty, IF t.some THEN t.held ELSE <<>>>>
RECURSIVE FillChunk(_, _, _, _)
FillChunk(st, rows, out, mode) ==
  IF rows = <<>> THEN LET r == FillRelease(st) IN <<r[1], out \o r[2]>>
  ELSE LET x  == Head(rows)
           cl == IF st.has /\ st.g # x.g THEN FillClose(st, mode) ELSE <<st, <<>>>>
           s0 == IF cl[1].has THEN cl[1] ELSE [FillEmpty EXCEPT !.has = TRUE, !.g = x.g]
           s1 == FillPut(FillGap(s0, x.w - 1, mode), x.w, x.a, x.b, x.l, mode)
       IN FillChunk(s1, Tail(rows), out \o cl[2], mode)
\* mutation seed "fill_fastpath_skips_cells": the fast path "the first chunk holds a row for every window: forward it
\* untouched" taken for every fill mode - the cells of a present window that have no value are never filled
FastPath(first, rows, mode) ==
  /\ "fill_fastpath_skips_cells" \in Dev /\ first /\ mode # "none"
  /\ Len(rows) = WHi - WLo + 1 /\ \A i \in 1..Len(rows) : rows[i].g = rows[1].g /\ rows[i].w = WLo + i - 1

---- (* LimitOp: limit_transform.go - rows still to skip / to return are carried *)
RECURSIVE LimChunk(_, _, _)
LimChunk(st, chunk, out) ==
  IF chunk = <<>> THEN <<st, out>>
  ELSE LET e == Head(chunk)
       IN IF e.v = NULL THEN LimChunk(st, Tail(chunk), out)
          ELSE IF st.skip > 0 THEN LimChunk([st EXCEPT !.skip = @ - 1], Tail(chunk), out)
          ELSE IF st.take > 0 THEN LimChunk([st EXCEPT !.take = @ - 1], Tail(chunk), Append(out, e))
          ELSE LimChunk(st, Tail(chunk), out)

---- (* the machine *)
CLimits == {<<0, 1>>, <<1, 2>>, <<2, 3>>}          \* <<offset, limit>>
CInit ==
  /\ data = NoData /\ cur = NoQ /\ hist = <<>>
  /\ cm \in {[on |-> TRUE, done |-> FALSE, mode |-> m, off |-> ol[1], lim |-> ol[2], seen |-> <<>>, buf |-> <<>>,
              agg |-> AggEmpty, fill |-> FillEmpty, ls |-> [skip |-> ol[1], take |-> ol[2]],
              outF |-> <<>>, outL |-> <<>>] : m \in CModes, ol \in CLimits}

Arrive(e) ==
  /\ ~cm.done /\ Len(cm.seen) + Len(cm.buf) < CMaxLen
  /\ LET all == cm.seen \o cm.buf IN IF all = <<>> THEN TRUE ELSE CLeq(all[Len(all)], e)
  /\ cm' = [cm EXCEPT !.buf = Append(@, e)]

\* the operators process the buffered chunk; last: the stream ends with it (the aggregate operator flushes its pending
\* window into the same output chunk, the fill operator closes its group)
Process(last) ==
  LET agg0 == IF "agg_reset_at_chunk" \in Dev THEN AggEmpty ELSE AggCarry(cm.agg, cm.buf)
      lost == IF "agg_reset_at_chunk" \in Dev THEN AggFlush(cm.agg) ELSE <<>>
      ar   == AggChunk(agg0, cm.buf, lost)
      rows == IF last THEN ar[2] \o AggFlush(ar[1]) ELSE ar[2]
      f0   == IF "fillprev_forgets_at_chunk" \in Dev THEN [cm.fill EXCEPT !.pa = NullCell, !.pb = NullCell, !.pl = NullCell] ELSE cm.fill
      fr   == FillChunk(f0, rows, <<>>, cm.mode)
      fc   == IF last THEN FillClose(fr[1], cm.mode) ELSE <<fr[1], <<>>>>
      outf == IF FastPath(cm.seen = <<>> /\ last, rows, cm.mode) THEN rows ELSE fr[2] \o fc[2]
      l0   == IF "limit_per_chunk" \in Dev THEN [skip |-> cm.off, take |-> cm.lim] ELSE cm.ls
      lr   == LimChunk(l0, cm.buf, <<>>)
  IN [cm EXCEPT !.seen = @ \o cm.buf, !.buf = <<>>, !.agg = IF last THEN AggEmpty ELSE ar[1], !.fill = fc[1], !.ls = lr[1],
                !.outF = @ \o outf, !.outL = @ \o lr[2], !.done = last]

\* a chunk boundary
Cut == /\ ~cm.done /\ cm.buf # <<>>
       /\ cm' = Process(FALSE)

\* the buffered chunk is the last one
CutLast == /\ ~cm.done /\ cm.buf # <<>>
           /\ cm' = Process(TRUE)

\* end of the stream after a chunk boundary: pending state is flushed
Finish ==
  /\ ~cm.done /\ cm.buf = <<>>
  /\ LET fr == FillChunk(cm.fill, AggFlush(cm.agg), <<>>, cm.mode)
         fc == FillClose(fr[1], cm.mode)
     IN cm' = [cm EXCEPT !.done = TRUE, !.agg = AggEmpty, !.fill = fc[1], !.outF = @ \o fr[2] \o fc[2]]

CNext == /\ \/ \E e \in CElem : Arrive(e)
            \/ Cut
            \/ CutLast
            \/ Finish
         /\ UNCHANGED <<data, cur, hist>>

ChunkSpec == CInit /\ [][CNext]_vars

ChunkIndependence ==
  (cm.on /\ cm.done) => /\ cm.outF = DirectFill(cm.seen, cm.mode)
                        /\ cm.outL = DirectLimit(cm.seen, cm.off, cm.lim)
=============================================================================
