---------------------------- MODULE TraceReplace ----------------------------
(***************************************************************************)
(* Trace validation for Replace.tla: the recorded file-system mutations of *)
(* every real compaction / out-of-order merge (classified by the harness   *)
(* as WriteNew, LogCreate, LogWrite, RenameNew, DeleteOld, LogRemove) must *)
(* be a behaviour of the specification; a removal of an input file after   *)
(* the log is gone is the merge's tail (DeleteTail). The numbers of new,   *)
(* old and tail files are taken from each recorded run (Reset line).       *)
(***************************************************************************)
EXTENDS Integers, Sequences, FiniteSets, TLC, Json

Trace == ndJsonDeserialize("trace.ndjson")

VARIABLES old, new, tail, clog, pc, l
vars == <<old, new, tail, clog, pc, l>>

IsEvent(e) == l <= Len(Trace) /\ Trace[l].ev = e /\ l' = l + 1

Count(f, v) == Cardinality({x \in DOMAIN f : f[x] = v})

TraceReset ==
  /\ IsEvent("Reset")
  /\ old' = [j \in 1..Trace[l].nold |-> "final"]
  /\ new' = [i \in 1..Trace[l].nnew |-> "none"]
  /\ tail' = [t \in 1..Trace[l].ntail |-> "final"]
  /\ clog' = "none" /\ pc' = "writing"

\* the i-th event of a kind acts on the i-th file of that kind (files are interchangeable here)
FirstWith(f, v) == CHOOSE x \in DOMAIN f : f[x] = v /\ \A y \in DOMAIN f : f[y] = v => x <= y

TraceWriteNew == /\ IsEvent("WriteNew") /\ pc = "writing" /\ Count(new, "none") > 0
                 /\ new' = [new EXCEPT ![FirstWith(new, "none")] = "init"]
                 /\ UNCHANGED <<old, tail, clog, pc>>
TraceLogCreate == /\ IsEvent("LogCreate") /\ pc = "writing" /\ Count(new, "none") = 0
                  /\ clog' = "dirty" /\ pc' = "logging" /\ UNCHANGED <<old, new, tail>>
TraceLogWrite == /\ IsEvent("LogWrite") /\ pc = "logging" /\ clog' = "written" /\ UNCHANGED <<old, new, tail, pc>>
TraceLogSync  == /\ IsEvent("LogSync") /\ pc = "logging" /\ clog = "written"
                 /\ clog' = "ok" /\ pc' = "renaming" /\ UNCHANGED <<old, new, tail>>
TraceRenameNew == /\ IsEvent("RenameNew") /\ pc = "renaming" /\ clog = "ok" /\ Count(new, "init") > 0
                  /\ new' = [new EXCEPT ![FirstWith(new, "init")] = "final"]
                  /\ UNCHANGED <<old, tail, clog, pc>>
AllRenamed == Count(new, "final") = Cardinality(DOMAIN new)
TraceDeleteOld == /\ IsEvent("DeleteOld") /\ pc = "renaming" /\ AllRenamed /\ clog = "ok" /\ Count(old, "final") > 0
                  /\ old' = [old EXCEPT ![FirstWith(old, "final")] = "gone"]
                  /\ UNCHANGED <<new, tail, clog, pc>>
TraceLogRemove == /\ IsEvent("LogRemove") /\ pc = "renaming" /\ AllRenamed /\ Count(old, "final") = 0
                  /\ clog' = "none" /\ pc' = "tail" /\ UNCHANGED <<old, new, tail>>
TraceDeleteTail == /\ IsEvent("DeleteOld") /\ pc = "tail" /\ Count(tail, "final") > 0
                   /\ tail' = [tail EXCEPT ![FirstWith(tail, "final")] = "gone"]
                   /\ UNCHANGED <<old, new, clog, pc>>

TraceNext == TraceReset \/ TraceWriteNew \/ TraceLogCreate \/ TraceLogWrite \/ TraceLogSync
             \/ TraceRenameNew \/ TraceDeleteOld \/ TraceLogRemove \/ TraceDeleteTail

TraceInit == /\ old = <<>> /\ new = <<>> /\ tail = <<>> /\ clog = "none" /\ pc = "idle" /\ l = 1 /\ TLCSet(1, 1)
TraceSpec == TraceInit /\ [][TraceNext]_vars

HighWater == IF l > TLCGet(1) THEN TLCSet(1, l) ELSE TRUE
TraceAccepted == TLCGet(1) = Len(Trace) + 1
=============================================================================
