---------------------------- MODULE TraceReplace ----------------------------
(***************************************************************************)
(* Trace validation for Replace.tla and ReplaceDS.tla: the recorded        *)
(* file-system mutations of every real compaction / out-of-order merge /   *)
(* down-sample (classified by the harness as CreateNew, WriteData,         *)
(* SyncNew, LogCreate, LogWrite, LogSync, RenameNew, DeleteOld, MetaUpdate,*)
(* LogRemove) must be a behaviour of the specification; a removal of an    *)
(* input file after the log is gone is the merge's tail (DeleteTail). The  *)
(* new files are followed by name (several measurements are written        *)
(* concurrently by a down-sample); the numbers of old and tail files are   *)
(* taken from each recorded run (Reset line).                              *)
(***************************************************************************)
EXTENDS Integers, Sequences, FiniteSets, TLC, Json

Trace == ndJsonDeserialize("trace.ndjson")

VARIABLES old, new, tail, clog, pc, proto, l
vars == <<old, new, tail, clog, pc, proto, l>>

IsEvent(e) == l <= Len(Trace) /\ Trace[l].ev = e /\ l' = l + 1

Count(f, v) == Cardinality({x \in DOMAIN f : f[x] = v})

TraceReset ==
  /\ IsEvent("Reset")
  /\ old' = [j \in 1..Trace[l].nold |-> "final"]
  /\ new' = <<>>
  /\ tail' = [t \in 1..Trace[l].ntail |-> "final"]
  /\ proto' = Trace[l].proto
  /\ clog' = "none" /\ pc' = "writing"

\* the i-th removal acts on the i-th old file (old files are interchangeable here)
FirstWith(f, v) == CHOOSE x \in DOMAIN f : f[x] = v /\ \A y \in DOMAIN f : f[y] = v => x <= y

F == Trace[l].f

\* the compaction / down-sample itself: temporary files created, written, synced
TraceCreateNew == /\ IsEvent("CreateNew") /\ pc = "writing" /\ F \notin DOMAIN new
                  /\ new' = new @@ (F :> "partial")
                  /\ UNCHANGED <<old, tail, clog, pc, proto>>
TraceWriteData == /\ IsEvent("WriteData") /\ pc = "writing" /\ F \in DOMAIN new /\ new[F] = "partial"
                  /\ UNCHANGED <<old, new, tail, clog, pc, proto>>
TraceSyncNew   == /\ IsEvent("SyncNew") /\ pc = "writing" /\ F \in DOMAIN new /\ new[F] = "partial"
                  /\ new' = [new EXCEPT ![F] = "init"]
                  /\ UNCHANGED <<old, tail, clog, pc, proto>>
\* the intent log is written only when every new file is complete
TraceLogCreate == /\ IsEvent("LogCreate") /\ pc = "writing" /\ DOMAIN new # {} /\ Count(new, "partial") = 0
                  /\ clog' = "dirty" /\ pc' = "logging" /\ UNCHANGED <<old, new, tail, proto>>
TraceLogWrite == /\ IsEvent("LogWrite") /\ pc = "logging" /\ clog' = "written" /\ UNCHANGED <<old, new, tail, pc, proto>>
TraceLogSync  == /\ IsEvent("LogSync") /\ pc = "logging" /\ clog = "written"
                 /\ clog' = "ok" /\ pc' = "renaming" /\ UNCHANGED <<old, new, tail, proto>>
TraceRenameNew == /\ IsEvent("RenameNew") /\ pc = "renaming" /\ clog = "ok" /\ F \in DOMAIN new /\ new[F] = "init"
                  /\ new' = [new EXCEPT ![F] = "final"]
                  /\ UNCHANGED <<old, tail, clog, pc, proto>>
AllRenamed == Count(new, "final") = Cardinality(DOMAIN new)
TraceDeleteOld == /\ IsEvent("DeleteOld") /\ pc = "renaming" /\ AllRenamed /\ clog = "ok" /\ Count(old, "final") > 0
                  /\ old' = [old EXCEPT ![FirstWith(old, "final")] = "gone"]
                  /\ UNCHANGED <<new, tail, clog, pc, proto>>
\* down-sample only: the level is reported to ts-meta after the last delete and before the log goes
TraceMetaUpdate == /\ IsEvent("MetaUpdate") /\ proto = "ds" /\ pc = "renaming" /\ AllRenamed /\ Count(old, "final") = 0
                   /\ clog = "ok" /\ pc' = "meta" /\ UNCHANGED <<old, new, tail, clog, proto>>
TraceLogRemove == /\ IsEvent("LogRemove") /\ AllRenamed /\ Count(old, "final") = 0
                  /\ IF proto = "ds" THEN pc = "meta" ELSE pc = "renaming"
                  /\ clog' = "none" /\ pc' = "tail" /\ UNCHANGED <<old, new, tail, proto>>
TraceDeleteTail == /\ IsEvent("DeleteOld") /\ pc = "tail" /\ Count(tail, "final") > 0
                   /\ tail' = [tail EXCEPT ![FirstWith(tail, "final")] = "gone"]
                   /\ UNCHANGED <<old, new, clog, pc, proto>>

TraceNext == TraceReset \/ TraceCreateNew \/ TraceWriteData \/ TraceSyncNew
             \/ TraceLogCreate \/ TraceLogWrite \/ TraceLogSync
             \/ TraceRenameNew \/ TraceDeleteOld \/ TraceMetaUpdate \/ TraceLogRemove \/ TraceDeleteTail

TraceInit == /\ old = <<>> /\ new = <<>> /\ tail = <<>> /\ clog = "none" /\ pc = "idle" /\ proto = "compact"
             /\ l = 1 /\ TLCSet(1, 1)
TraceSpec == TraceInit /\ [][TraceNext]_vars

HighWater == IF l > TLCGet(1) THEN TLCSet(1, l) ELSE TRUE
TraceAccepted == TLCGet(1) = Len(Trace) + 1
=============================================================================
