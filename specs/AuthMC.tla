------------------------------- MODULE AuthMC -------------------------------
EXTENDS Auth, Json

\* ---- simulation: a few random choices per step (every operator depends on the state so that TLC does not
\* cache it as a constant) ----
N == Len(hist)
LiveUsers == {u \in Users : users[u].ex}
\* credentials: mostly a live user with his current password; sometimes the administrator, a stale / wrong
\* password, a dropped or unknown user, nothing, garbage
SimCred(x) ==
  LET k == RandomElement(1..(12 + 0 * x)) IN
  IF k = 1 THEN CredNone
  ELSE IF k = 2 THEN CredMalformed
  ELSE IF k = 3 THEN [k |-> "user", u |-> Ghost, pw |-> RandomElement({"cur", "bad"})]
  ELSE IF k = 4 THEN [k |-> "user", u |-> Root, pw |-> RandomElement({"cur", "bad"})]
  ELSE IF k = 5 THEN [k |-> "user", u |-> RandomElement(Users), pw |-> RandomElement({"old", "bad"})]
  ELSE IF k = 6 THEN [k |-> "user", u |-> RandomElement(Users), pw |-> "cur"]
  ELSE IF LiveUsers # {} THEN [k |-> "user", u |-> RandomElement(LiveUsers), pw |-> "cur"]
  ELSE [k |-> "user", u |-> RandomElement(Users), pw |-> "cur"]
SimTr(c, x) == IF c.k = "none" THEN "basic"
               ELSE IF c.k = "malformed" THEN RandomElement(Transports \ {"mixed"})
               ELSE RandomElement(Transports)
SimStmts(x) == IF MaxStmts >= 2 /\ RandomElement(1..(4 + 0 * x)) = 1
               THEN <<RandomElement(StmtKinds), RandomElement(StmtKinds \cap {"sel", "delete", "create_db", "drop_db", "sel_into"})>>
               ELSE <<RandomElement(StmtKinds)>>
SimReq(x) ==
  LET c  == SimCred(x)
      t  == SimTr(c, x)
      q  == "query" \in RouteClasses /\ (RouteClasses = {"query"} \/ RandomElement(1..(2 + 0 * x)) = 1)
      s  == IF q THEN SimStmts(x) ELSE <<>>
      on == IF q /\ (\E i \in 1..Len(s) : s[i] \in OnKinds) THEN RandomElement(OnArgs) ELSE ""
  IN [rc |-> IF q THEN "query" ELSE RandomElement(RouteClasses \ {"query"}), cred |-> c, tr |-> t,
      db |-> RandomElement(DbArgs), on |-> on, stmts |-> s]
SimReqs == {SimReq(N + j) : j \in 1..3}

\* administrator actions: a random few of the enabled ones; grants are preferred while nobody holds anything
SimRoot ==
  LET en == {x \in AllRootActs :
               CASE x.a = "CreateUser" -> ~users[x.u].ex
                 [] x.a \in {"DropUser", "SetAdminOn", "SetAdminOff"} -> users[x.u].ex
                 [] x.a = "SetPassword" -> users[x.u].ex /\ users[x.u].pwv < 3
                 [] x.a \in {"Grant", "Revoke"} -> users[x.u].ex /\ x.d \in dbs
                 [] x.a = "DropDatabase" -> x.d \in dbs
                 [] x.a = "CreateDatabase" -> x.d \notin dbs}
      grants == {x \in en : x.a = "Grant"}
      revokes == {x \in en : x.a = "Revoke" /\ users[x.u].priv[x.d] # "none"}
      rare == {x \in en : x.a \in {"DropUser", "SetPassword", "SetAdminOn", "SetAdminOff", "DropDatabase", "CreateDatabase"}}
      cu == {x \in en : x.a = "CreateUser"}
      \* a REVOKE of something the user does not hold (on a database without any grant, too): must change nothing
      blind == {x \in en : x.a = "Revoke" /\ RevokeLevel(users[x.u].priv[x.d], x.p) = users[x.u].priv[x.d]}
  IN (IF cu # {} THEN {RandomElement(cu)} ELSE {})
     \cup (IF grants # {} THEN {RandomElement(grants)} ELSE {})
     \cup (IF revokes # {} /\ RandomElement(1..(2 + 0 * N)) = 1 THEN {RandomElement(revokes)} ELSE {})
     \cup (IF blind # {} /\ RandomElement(1..(3 + 0 * N)) = 1 THEN {RandomElement(blind)} ELSE {})
     \cup (IF rare # {} /\ RandomElement(1..(3 + 0 * N)) = 1 THEN {RandomElement(rare)} ELSE {})

\* ---- a scripted family of behaviours (enumerated by BFS): the life of one user's privileges ----
\* create, grant p, log in (the password is cached), change the password, the old one must fail, revoke q, grant on the
\* other database, drop and re-create the database (the privilege must not come back), drop and re-create the user
ScriptRoot ==
  CASE N = 0  -> {RootAct("CreateUser", "u1", "", "")}
    [] N = 1  -> {RootAct("Grant", "u1", "db1", p) : p \in Grantable}
    [] N = 3  -> {RootAct("SetPassword", "u1", "", "")}
    [] N = 6  -> {RootAct("Revoke", "u1", "db1", p) : p \in Grantable}
    [] N = 7  -> {RootAct("Grant", "u1", "db2", "read")}
    [] N = 8  -> {RootAct("DropDatabase", "", "db1", "")}
    [] N = 9  -> {RootAct("CreateDatabase", "", "db1", "")}
    [] N = 11 -> {RootAct("DropUser", "u1", "", "")}
    [] N = 12 -> {RootAct("CreateUser", "u1", "", "")}
    [] OTHER  -> {}
ScriptQ(pw, t, k, d) == [rc |-> "query", cred |-> [k |-> "user", u |-> "u1", pw |-> pw], tr |-> t, db |-> d, on |-> "", stmts |-> <<k>>]
ScriptReqs ==
  CASE N = 2  -> {ScriptQ("cur", t, "sel", "db1") : t \in {"basic", "url"}}
    [] N = 4  -> {ScriptQ("old", "basic", "sel", "db1")}
    [] N = 5  -> {ScriptQ("cur", "basic", "show_dbs", "db1")}
    [] N = 10 -> {ScriptQ("cur", "basic", "sel", "db1")}
    [] N = 13 -> {ScriptQ("cur", "token", "sel", "db2")}
    [] OTHER  -> {}

\* ---- requests in two steps (authentication, then authorisation) against changes of the user table ----
NoReqs == {}
QAs(u, k, d) == [rc |-> "query", cred |-> [k |-> "user", u |-> u, pw |-> "cur"], tr |-> "basic", db |-> d, on |-> "", stmts |-> <<k>>]
\* exhaustive: users come and go, one of them is granted everything on db1, anybody asks
RaceRootAll == {RootAct(a, u, "", "") : a \in {"CreateUser", "DropUser"}, u \in Users}
               \cup {RootAct("Grant", u, "db1", "all") : u \in Users}
RaceBeginAll == {QAs(u, k, "db1") : u \in Users, k \in {"sel", "sel_into"}}
\* scripted family (BFS): three users created in any order, one is granted everything, one asks, another is dropped
\* between the authentication and the authorisation of that request
RaceRoot ==
  CASE N \in 0..2 -> {RootAct("CreateUser", u, "", "") : u \in {x \in Users : ~users[x].ex}}
    [] N = 3 -> {RootAct("Grant", u, "db1", "all") : u \in Users}
    [] N = 5 -> {RootAct("DropUser", u, "", "") : u \in {x \in Users : inflight # <<>> /\ x # inflight[1].u}}
    [] OTHER -> {}
RaceBegin == IF N = 4 THEN {QAs(u, "sel", "db1") : u \in Users} ELSE {}

\* ---- the response cache: who fills, who hits (BFS from the fixed privilege table) ----
\* step 0: a request that may fill the cache (a privileged user, the administrator) or must not (write-only user, a user
\*         of the other database, a wrong password, nobody);
\* step 1: EITHER any request of the whole credential x transport alphabet for the same cacheable read (the hit),
\*         OR an administrator action that changes what the filler / a by-stander may do;
\* step 2: the users concerned ask again
CReq(c, t, d) == [rc |-> "cread", cred |-> c, tr |-> t, db |-> d, on |-> "", stmts |-> <<>>]
UCred(u, pw) == [k |-> "user", u |-> u, pw |-> pw]
CacheFillers == {CReq(UCred(u, "cur"), t, "db1") : u \in {"u1", "u2", "u3", Root}, t \in {"basic", "bearer"}}
                \cup {CReq(UCred("u1", "bad"), "basic", "db1"), CReq(CredNone, "basic", "db1"), CReq(UCred("u3", "cur"), "url", "db2")}
CacheAll == {r \in AllReqs : r.rc = "cread"}
CacheAgain == {CReq(UCred(u, "cur"), "basic", "db1") : u \in {"u1", "u2"}} \cup {CReq(UCred("u1", "old"), "basic", "db1"), CReq(CredNone, "basic", "db1")}
CacheReqs ==
  CASE N = 0 -> CacheFillers
    [] N = 1 -> CacheAll
    [] N = 2 -> CacheAgain
    [] OTHER -> {}
CacheRoot ==
  IF N = 1 THEN {RootAct("Revoke", "u1", "db1", "read"), RootAct("Revoke", "u1", "db1", "all"), RootAct("Grant", "u2", "db1", "read"),
                 RootAct("Grant", "u1", "db1", "write"), RootAct("SetPassword", "u1", "", ""), RootAct("DropUser", "u1", "", "")}
  ELSE {}

\* exhaustive run on the cache dimension: from the fixed privilege table, administrator actions on db1 / u1
CacheExhRoot == {RootAct(a, u, "db1", p) : a \in {"Grant", "Revoke"}, u \in Users, p \in {"read", "all"}}
                \cup {RootAct("DropUser", "u1", "", ""), RootAct("CreateUser", "u1", "", ""), RootAct("SetPassword", "u1", "", ""),
                      RootAct("DropDatabase", "", "db1", ""), RootAct("CreateDatabase", "", "db1", "")}

\* ---- GRANT / REVOKE table (BFS): every privilege held (none, read, write, all) against every privilege revoked, and a
\* second REVOKE on top: a REVOKE of what is not held - also on a database nothing was ever granted on - changes nothing
RevokeRoot ==
  CASE N = 0 -> {RootAct("CreateUser", "u1", "", "")}
    [] N = 1 -> {RootAct("Grant", "u1", "db1", p) : p \in Grantable} \cup {RootAct("Revoke", "u1", "db1", p) : p \in Grantable}
    [] N = 2 -> {RootAct("Revoke", "u1", "db1", p) : p \in Grantable}
    [] N = 3 -> {RootAct("Revoke", "u1", d, p) : d \in Dbs, p \in {"read", "write"}}
    [] OTHER -> {}

Export == (Len(hist) = Depth) => PrintT(<<"TRACE", ToJson(hist)>>)
=============================================================================
