----------------------------- MODULE LineSchema -----------------------------
(***************************************************************************)
(* C06, second layer: a decoded line meets the schema its measurement      *)
(* already has.  LineProtocol.tla decodes ONE line (text -> point, every   *)
(* line in its own fresh measurement); this module takes decoded points    *)
(* (tags, typed fields, timestamp; the field records carry the value       *)
(* token and the type / via / val attributes of LineProtocol.tla) and      *)
(* specifies what a SEQUENCE of write requests for the SAME measurement    *)
(* stores and answers.  It EXTENDS LineProtocol (token classes, TokType,   *)
(* TokVia, BoolVal, ImplDev) without touching its automaton: the variables *)
(* of the automaton stay at their initial value here, and the automaton    *)
(* runs (LineProtocolMC + LineProtocol.*.cfg) do not see this module.      *)
(*                                                                         *)
(* Code sites (coordinator/points_writer.go: routeAndMapOriginRows, one    *)
(* row after the other; coordinator/write_helper.go: updateSchemaIfNeeded  *)
(* -> updateCleanSchemaCheck (schema-clean-enable = true, the default);    *)
(* lib/util/lifted/influx/meta/data.go: Data.UpdateSchema):                *)
(*  1. the fields of the row are sorted by key (sort.Stable);              *)
(*  2. tags, then fields, are compared with the schema of the measurement  *)
(*     (name -> tag | integer | float | string | boolean, + the end time   *)
(*     of the latest shard group the name was written in); unknown names   *)
(*     go to the create pool (fieldToCreatePool), known names written in a *)
(*     LATER shard group go to the pool as well (end-time update);         *)
(*  3. a field whose type differs from the schema type (a name that exists *)
(*     as a TAG included) is a conflict: its index is collected and        *)
(*     dropFieldByIndex removes exactly the collected fields; the other    *)
(*     fields of the line are stored; when EVERY field conflicts the line  *)
(*     is dropped before the pool is applied;                              *)
(*  4. Data.UpdateSchema applies the pool entry by entry and fails at the   *)
(*     first entry whose type differs from the registered one; the writer  *)
(*     sees the schema of successful commands only (all or nothing);       *)
(*  5. the rows go to the store: a cell per field, (series, time, field)   *)
(*     last write wins, cells of other fields of the same row are kept;    *)
(*  6. a request that met a conflict is answered 400 `partial write:       *)
(*     field type conflict ... dropped=N` (N = lines dropped as a whole),  *)
(*     every other line of the request is stored; else 204.                *)
(* openGemini drops the conflicting FIELD, not the point (InfluxDB 1.x     *)
(* drops the point: deviation conflict_drops_line is that rule).           *)
(*                                                                         *)
(* Design decisions where the code has no documented rule:                 *)
(*  - a tag whose name exists as a FIELD of the measurement: the line is   *)
(*    dropped with a partial-write error (what the column store engine     *)
(*    does: WritePointHasInvalidTag; symmetric to a field named as a tag). *)
(*  - a dropped line changes nothing, the schema included.                 *)
(*  - a line whose tag names and field names overlap is not generated.     *)
(*                                                                         *)
(* Deviations (SDev for the design state ds, SDev \cup D for the prediction *)
(* states is[D], D as for LineProtocol's m: singles of SImplDev, SImplDev, *)
(* SImplDev + one of SFixedDev):                                           *)
(*  mutation seeds                                                         *)
(*   conflict_drop_shifts_indexes   dropFieldByIndex removes in place with *)
(*                                  the indexes of the ORIGINAL slice      *)
(*   conflict_value_stored_reinterpreted  the conflicting fields are not   *)
(*                                  removed: their bits go to the column   *)
(*   valid_field_dropped_with_conflict    the row is cut at the first      *)
(*                                  conflicting field                      *)
(*   conflict_drops_line            InfluxDB 1.x: a conflict drops the row *)
(*   batch_conflict_rejects_other_lines   after a conflict the rest of the *)
(*                                  request is not stored                  *)
(*   schema_retyped_by_conflict     the conflicting type replaces the type *)
(*   overwrite_keeps_old_value      first write wins                       *)
(*   overwrite_replaces_row         a later line for (series, time)        *)
(*                                  replaces the whole row                 *)
(*   conflict_acknowledged          a partial write is answered 204        *)
(*  as implemented (models of OPEN findings)                               *)
(*   tag_shadowed_by_field (F-C06-9)  a tag named as an existing field is  *)
(*                                  acknowledged; the point is stored      *)
(*                                  under the full series key but queries  *)
(*                                  do not show the tag                    *)
(*   stale_endtime_conflict_drops_line (F-C06-10)  a conflicting field of  *)
(*                                  a line in a LATER shard group than the *)
(*                                  name was written in so far goes to the *)
(*                                  pool with its wrong type:              *)
(*                                  Data.UpdateSchema fails, the WHOLE     *)
(*                                  line is dropped (valid fields lost);   *)
(*                                  the writer sees nothing of the failed  *)
(*                                  command (its cache follows successful  *)
(*                                  commands only), and the end time of    *)
(*                                  the name stays stale: every later line *)
(*                                  of that kind is dropped as well        *)
(*   partial_pool_applied           (marker, no rule) the failed command   *)
(*                                  had registered a NEW name in front of  *)
(*                                  the failing entry: meta keeps it, the  *)
(*                                  writer learns it with its next cache   *)
(*                                  refresh, whenever that is.  From here  *)
(*                                  on the code has no deterministic       *)
(*                                  prediction: the replay does not judge  *)
(*                                  these behaviours                       *)
(***************************************************************************)
EXTENDS LineProtocol

CONSTANTS SKeys,       \* names (small integers: the replay gives name i the i-th smallest of the case's key texts)
          STagKeys,    \* names offered as tag keys
          SFieldKeys,  \* names offered as field keys (may overlap STagKeys: a name used as tag and as field)
          STagVals,    \* tag values
          STimes,      \* timestamps (abstract)
          SLateTimes,  \* the timestamps that lie in the LATER shard group (the others share the first one)
          SToks,       \* value tokens offered: value tokens of LineProtocol with a type, and "STR" (quoted string)
          SMaxTags, SMaxFields,
          SMaxLines,   \* lines per behaviour
          SMaxBatch,   \* lines per request
          SDev,        \* deviations of the design state ({} = the design)
          SImplDev,    \* as-implemented deviations = models of the OPEN findings of this layer (prediction states)
          SFixedDev    \* models of repaired defects of this layer (regression prediction states)

VARIABLES ds,     \* design state: schema, store, ghost `said`
          is,     \* [deviation set -> state]: the prediction states (as LineProtocol's m)
          req,    \* the open request
          nline,  \* lines written so far
          reply,  \* the last closed request: status and dropped count, computed and wanted
          trig,   \* [deviation set -> the deviations that fired in that state]
          shist   \* closed requests (history; not in the view)

svars == <<ds, is, req, nline, reply, trig, shist>>

\* the prediction states run with SDev \cup D: D = {x}, x \in SImplDev, and D = SImplDev = the code as it is (a divergence
\* of the real code equal to one of them is attributed to the open findings of the deviations that FIRED); D = SImplDev
\* \cup {y}, y \in SFixedDev = the code as it would be again without the fix of y (regression)
SDevSets == {{x} : x \in SImplDev} \cup (IF SImplDev = {} THEN {} ELSE {SImplDev}) \cup {SImplDev \cup {y} : y \in SFixedDev}

FieldTypes == {"int", "float", "string", "bool"}
FType(tok) == IF tok = "STR" THEN "string" ELSE TokType(tok, {})
Grp(t) == IF t \in SLateTimes THEN 2 ELSE 1

-----------------------------------------------------------------------------
\* the lines offered: tags and fields are sequences sorted by name (parser.go sorts the tags, points_writer.go the fields)
RECURSIVE SortedSeqOf(_)
SortedSeqOf(S) == IF S = {} THEN <<>>
                  ELSE LET x == CHOOSE y \in S : \A z \in S : y <= z IN <<x>> \o SortedSeqOf(S \ {x})

TagSeqs == UNION {LET ks == SortedSeqOf(D)
                  IN {[i \in 1..Len(ks) |-> [k |-> ks[i], v |-> f[i]]] : f \in [1..Len(ks) -> STagVals]}
                  : D \in {X \in SUBSET STagKeys : Cardinality(X) <= SMaxTags}}
FieldSeqs == UNION {LET ks == SortedSeqOf(D)
                    IN {[i \in 1..Len(ks) |-> [k |-> ks[i], tok |-> f[i]]] : f \in [1..Len(ks) -> SToks]}
                    : D \in {X \in SUBSET SFieldKeys : Cardinality(X) >= 1 /\ Cardinality(X) <= SMaxFields}}
KeysOf(sq) == {sq[i].k : i \in 1..Len(sq)}
AllLines == {l \in [tags : TagSeqs, time : STimes, fields : FieldSeqs] : KeysOf(l.tags) \cap KeysOf(l.fields) = {}}

SLinesOffer == AllLines       \* the simulation config replaces it by a few random lines

-----------------------------------------------------------------------------
NoEnt == [ty |-> "none", end |-> 0]
S0 == [sch |-> [k \in SKeys |-> NoEnt], st |-> {}, said |-> {}]

\* classification of field i of line l against schema sch
Cls(sch, l, i) == LET e == sch[l.fields[i].k]
                  IN IF e.ty = "none" THEN "new" ELSE IF e.ty = FType(l.fields[i].tok) THEN "same" ELSE "conflict"
ConflictIdx(sch, l) == {i \in 1..Len(l.fields) : Cls(sch, l, i) = "conflict"}
ShadowedTags(sch, l) == {i \in 1..Len(l.tags) : sch[l.tags[i].k].ty \in FieldTypes}

\* the reference verdicts (independent of every deviation): is the line dropped as a whole, is field i kept
RefDropped(sch, l) == ShadowedTags(sch, l) # {} \/ ConflictIdx(sch, l) = 1..Len(l.fields)
RefKeep(sch, l, i) == ~RefDropped(sch, l) /\ Cls(sch, l, i) # "conflict"

\* meta.Data.UpdateSchema: entry by entry; fails at the first entry whose type differs from the registered one (the
\* caller then keeps the schema it had)
RECURSIVE ApplyPool(_, _, _, _)
ApplyPool(sch, pool, g, reg) ==       \* reg: a new name was registered by an entry in front
  IF pool = <<>> THEN [sch |-> sch, ok |-> TRUE, reg |-> reg]
  ELSE LET e == Head(pool)
           cur == sch[e.k]
       IN IF cur.ty = "none" THEN ApplyPool([sch EXCEPT ![e.k] = [ty |-> e.ty, end |-> g]], Tail(pool), g, TRUE)
          ELSE IF cur.ty # e.ty THEN [sch |-> sch, ok |-> FALSE, reg |-> reg]
          ELSE ApplyPool([sch EXCEPT ![e.k] = [ty |-> cur.ty, end |-> IF cur.end < g THEN g ELSE cur.end]], Tail(pool), g, reg)

\* coordinator/points_writer.go: dropFieldByIndex(r, dropFieldIndex); idx = ascending sequence of positions
RECURSIVE DropShift(_, _)
DropShift(fs, idx) ==          \* in place, with the positions of the ORIGINAL slice (the seeded slip)
  IF idx = <<>> THEN fs
  ELSE IF Head(idx) > Len(fs) THEN fs
  ELSE DropShift(SubSeq(fs, 1, Head(idx) - 1) \o SubSeq(fs, Head(idx) + 1, Len(fs)),
                 [j \in 1..(Len(idx) - 1) |-> idx[j + 1]])
Keep(fs, drop) == LET F[i \in 0..Len(fs)] == IF i = 0 THEN <<>> ELSE IF i \in drop THEN F[i - 1] ELSE Append(F[i - 1], fs[i])
                  IN F[Len(fs)]
DropByIndex(fs, drop, dv) ==
  IF drop = {} THEN fs
  ELSE IF "conflict_drop_shifts_indexes" \in dv THEN DropShift(fs, SortedSeqOf(drop))
  ELSE IF "conflict_value_stored_reinterpreted" \in dv THEN fs
  ELSE IF "valid_field_dropped_with_conflict" \in dv THEN SubSeq(fs, 1, (CHOOSE i \in drop : \A j \in drop : i <= j) - 1)
  ELSE IF "conflict_drops_line" \in dv THEN <<>>
  ELSE Keep(fs, drop)

SamePoint(c, l) == c.tags = l.tags /\ c.time = l.time

\* one row through routeAndMapOriginRows: -> [s, dropped (as a whole), conflict (an error was recorded), fired]
\* n = number of the line (the stored cell names the text it came from), muted = an earlier line of the request
\* met a conflict (only the deviation batch_conflict_rejects_other_lines looks at it)
Apply(s, l, n, muted, dv) ==
  LET sch  == s.sch
      g    == Grp(l.time)
      nt   == Len(l.tags)
      nf   == Len(l.fields)
      shad == ShadowedTags(sch, l)
      cidx == ConflictIdx(sch, l)
      stale(k) == sch[k].ty # "none" /\ sch[k].end < g
      \* ghost: every text of the line with the reference verdict
      texts == {[tags |-> l.tags, time |-> l.time, k |-> l.fields[i].k, ref |-> n, tt |-> FType(l.fields[i].tok),
                 keep |-> RefKeep(sch, l, i)] : i \in 1..nf}
               \cup {[tags |-> l.tags, time |-> l.time, k |-> l.tags[i].k, ref |-> n, tt |-> "tag",
                      keep |-> ~RefDropped(sch, l)] : i \in 1..nt}
      s1 == [s EXCEPT !.said = @ \cup texts]
      Dropped(x, f) == [s |-> x, dropped |-> TRUE, conflict |-> TRUE, fired |-> f]
      tagpool == LET P[i \in 0..nt] == IF i = 0 THEN <<>>
                                       ELSE IF sch[l.tags[i].k].ty = "none" \/ stale(l.tags[i].k)
                                            THEN Append(P[i - 1], [k |-> l.tags[i].k, ty |-> "tag"]) ELSE P[i - 1]
                 IN P[nt]
      fldpool == LET P[i \in 0..nf] == IF i = 0 THEN <<>>
                                       ELSE LET k == l.fields[i].k
                                                c == Cls(sch, l, i)
                                            IN IF c = "new" \/ (stale(k) /\ (c = "same" \/ "stale_endtime_conflict_drops_line" \in dv))
                                               THEN Append(P[i - 1], [k |-> k, ty |-> FType(l.fields[i].tok)]) ELSE P[i - 1]
                 IN P[nf]
  IN IF muted /\ "batch_conflict_rejects_other_lines" \in dv THEN [s |-> s1, dropped |-> TRUE, conflict |-> FALSE, fired |-> {}]
     ELSE IF shad # {} /\ "tag_shadowed_by_field" \notin dv THEN Dropped(s1, {})
     ELSE IF cidx = 1..nf THEN Dropped(s1, {})
     ELSE LET r == ApplyPool(sch, tagpool \o fldpool, g, FALSE)
          IN IF ~r.ok THEN Dropped(s1, (IF \E i \in shad : stale(l.tags[i].k) THEN {"tag_shadowed_by_field"}
                                        ELSE {"stale_endtime_conflict_drops_line"})
                                       \cup (IF r.reg THEN {"partial_pool_applied"} ELSE {}))
             ELSE LET rem  == DropByIndex(l.fields, cidx, dv)
                      sch2 == IF "schema_retyped_by_conflict" \in dv
                              THEN [k \in SKeys |-> IF \E i \in cidx : l.fields[i].k = k
                                                    THEN [ty |-> FType(l.fields[CHOOSE i \in cidx : l.fields[i].k = k].tok), end |-> r.sch[k].end]
                                                    ELSE r.sch[k]]
                              ELSE r.sch
                      cells == {[tags |-> l.tags, time |-> l.time, k |-> rem[i].k, ref |-> n, tt |-> FType(rem[i].tok)] : i \in 1..Len(rem)}
                      old  == {c \in s.st : SamePoint(c, l)}
                      st2  == IF "overwrite_replaces_row" \in dv THEN (s.st \ old) \cup cells
                              ELSE IF "overwrite_keeps_old_value" \in dv
                                   THEN s.st \cup {c \in cells : ~\E o \in old : o.k = c.k}
                              ELSE (s.st \ {o \in old : \E c \in cells : c.k = o.k}) \cup cells
                  IN [s |-> [s1 EXCEPT !.sch = sch2, !.st = st2], dropped |-> Len(rem) = 0, conflict |-> cidx # {},
                      fired |-> IF shad # {} THEN {"tag_shadowed_by_field"} ELSE {}]

-----------------------------------------------------------------------------
Req0 == [lines |-> <<>>, dconf |-> FALSE, ddrop |-> 0, iconf |-> [D \in SDevSets |-> FALSE], idrop |-> [D \in SDevSets |-> 0],
         wconf |-> FALSE, wdrop |-> 0]
Reply0 == [st |-> 204, dropped |-> 0, wst |-> 204, wdropped |-> 0]

SInit == /\ Init
         /\ ds = S0 /\ is = [D \in SDevSets |-> S0] /\ req = Req0 /\ nline = 0 /\ reply = Reply0
         /\ trig = [D \in SDevSets |-> {}] /\ shist = <<>>

WriteLine(l) ==
  LET n  == nline + 1
      rd == Apply(ds, l, n, req.dconf, SDev)
      ri == [D \in SDevSets |-> Apply(is[D], l, n, req.iconf[D], SDev \cup D)]
      allkeep == \A i \in 1..Len(l.fields) : RefKeep(ds.sch, l, i)
  IN /\ nline < SMaxLines /\ Len(req.lines) < SMaxBatch
     /\ nline' = n
     /\ ds' = rd.s /\ is' = [D \in SDevSets |-> ri[D].s]
     /\ req' = [lines |-> Append(req.lines, l),
                dconf |-> req.dconf \/ rd.conflict, ddrop |-> req.ddrop + (IF rd.dropped THEN 1 ELSE 0),
                iconf |-> [D \in SDevSets |-> req.iconf[D] \/ ri[D].conflict],
                idrop |-> [D \in SDevSets |-> req.idrop[D] + (IF ri[D].dropped THEN 1 ELSE 0)],
                wconf |-> req.wconf \/ ~allkeep, wdrop |-> req.wdrop + (IF RefDropped(ds.sch, l) THEN 1 ELSE 0)]
     /\ trig' = [D \in SDevSets |-> trig[D] \cup ri[D].fired]
     /\ UNCHANGED <<reply, shist>>

Status(conf, dv) == IF conf /\ "conflict_acknowledged" \notin dv THEN 400 ELSE 204

EndReq ==
  /\ req.lines # <<>>
  /\ reply' = [st |-> Status(req.dconf, SDev), dropped |-> req.ddrop, wst |-> IF req.wconf THEN 400 ELSE 204, wdropped |-> req.wdrop]
  /\ shist' = Append(shist, [lines |-> req.lines, st |-> Status(req.dconf, SDev), dropped |-> req.ddrop,
                             ist |-> [D \in SDevSets |-> Status(req.iconf[D], SDev \cup D)], idropped |-> req.idrop])
  /\ req' = Req0
  /\ UNCHANGED <<ds, is, nline, trig>>

SNext == /\ UNCHANGED vars
         /\ \/ \E l \in SLinesOffer : WriteLine(l)
            \/ EndReq

SSpec == SInit /\ [][SNext]_<<vars, svars>>

\* the exhaustive runs identify states that differ in the history only
sview == <<ds, is, req, nline, reply, trig>>

-----------------------------------------------------------------------------
\* Invariants of the design state
SameCell(c, x) == c.tags = x.tags /\ c.time = x.time /\ c.k = x.k

\* no stored cell holds a value that no kept field text of that (series, time, field) said, and the column it sits in
\* has the type the text was written in (no reinterpreted bits)
NoForeignValue ==
  \A c \in ds.st : /\ c.tt = ds.sch[c.k].ty
                   /\ \E x \in ds.said : SameCell(c, x) /\ x.ref = c.ref /\ x.tt = c.tt /\ x.keep

\* a non-conflicting field of a line that is not dropped as a whole is stored (until a later line overwrites it)
ValidFieldsKept ==
  \A x \in ds.said : (x.keep /\ x.tt # "tag") => \E c \in ds.st : SameCell(c, x) /\ c.ref >= x.ref

\* per (series, time, field) the latest kept text wins
LastWriteWins ==
  \A c \in ds.st : \A x \in ds.said : (x.keep /\ SameCell(c, x)) => x.ref <= c.ref

\* every (series, time, field) holds one cell
OneCellPerField == \A c1, c2 \in ds.st : SameCell(c1, c2) => c1 = c2

\* a name has a type only because a kept text of that type was written: a dropped line reserves nothing
SchemaFromKept ==
  \A k \in SKeys : ds.sch[k].ty # "none" => \E x \in ds.said : x.keep /\ x.k = k /\ x.tt = ds.sch[k].ty

\* the reply of a request: 204 iff every text of every line was kept; dropped = lines dropped as a whole
ReplyFaithful == reply.st = reply.wst /\ reply.dropped = reply.wdropped

\* the type of a name never changes, its end time never decreases (action property)
SchemaMonotone ==
  [][\A k \in SKeys : ds.sch[k].ty # "none" => (ds'.sch[k].ty = ds.sch[k].ty /\ ds'.sch[k].end >= ds.sch[k].end)]_svars

\* the as-implemented deviations change nothing until one of them fires
ImplOnlyWhenFired == \A D \in SDevSets : trig[D] = {} => (is[D].sch = ds.sch /\ is[D].st = ds.st)
=============================================================================
