----------------------------- MODULE PromSemMC -----------------------------
EXTENDS PromSem, Json
(***************************************************************************)
(* Generators for the modes of PromSem:                                    *)
(*   exh  (exhaustive): every sample layout of a tiny universe x every     *)
(*        query of LawQueries; invariants Laws and RangeEqInstants         *)
(*   bfs  (export): fixed sample sets x every query of BfsQueries          *)
(*   sim  (export): random sample sets and random queries of the grammar   *)
(* Export prints one JSON line per behaviour that reached Depth.           *)
(***************************************************************************)

Export == (Len(hist) = Depth /\ ~rs.on) => PrintT(<<"TRACE", ToJson(hist)>>)

Lab3(m, j, i) == (NAME :> m) @@ ("job" :> j) @@ ("inst" :> i)
Lab2(m, j)    == (NAME :> m) @@ ("job" :> j)

Sl(m, ms, off) == [k |-> "sel", m |-> m, ms |-> ms, off |-> off]
Mt(l, op, v)   == [l |-> l, op |-> op, v |-> v]
Rf(fn, sel, r) == [k |-> "rfn", fn |-> fn, arg |-> sel, r |-> r]
Ag(op, mode, ls, arg) == [k |-> "agg", op |-> op, mode |-> mode, ls |-> ls, arg |-> arg]
Bn(op, bool, l, r)    == [k |-> "bin", op |-> op, bool |-> bool, vm |-> "none", vls |-> {}, l |-> l, r |-> r]
BnM(op, bool, vm, vls, l, r) == [k |-> "bin", op |-> op, bool |-> bool, vm |-> vm, vls |-> vls, l |-> l, r |-> r]
Nm(v) == [k |-> "num", v |-> v]
QI(e, t) == [kind |-> "instant", e |-> e, t |-> t]
QR(e, s, en, st) == [kind |-> "range", e |-> e, start |-> s, end |-> en, step |-> st]

-----------------------------------------------------------------------------
(* exh: series 1 = ma{job=a,inst=x} takes every layout over LawTimes x LawVals (absent / value / NaN sample /  *)
(* marker), the other series are fixed (one of them carries a NaN sample)                                      *)
CONSTANTS LawTimes, LawVals, LawFree      \* LawFree: number of series with free layouts (1 or 2)
NOPT == -1
LawValsA == {0, 2, STALE}          \* cfg files cannot spell negative numbers
LawValsB == {0, 1, 3, STALE}
LawValsN == {0, 2, STALE, NAN}     \* with the ordinary NaN sample
LawValsM == {0, STALE, NAN}        \* (two free series: one number, the NaN sample, the marker)
LawLabs == << Lab3("ma", "a", "x"), Lab2("ma", "ab"), Lab3("ma", "b", "y") >>
LawFixed == << <<>>, << <<0, 1>>, <<2, STALE>>, <<3, 4>> >>, << <<1, 3>>, <<2, NAN>>, <<4, 2>> >> >>
LayoutPts(f) == LET ts == SetToSortSeq({t \in LawTimes : f[t] # NOPT}, LAMBDA a, b : a < b)
                IN [i \in 1..Len(ts) |-> <<ts[i], f[ts[i]]>>]
LawData(x) ==
  {[unit |-> 1, epoch |-> 0,
    series |-> [i \in 1..3 |-> [lab |-> LawLabs[i], pts |-> IF i <= LawFree THEN LayoutPts(fs[i]) ELSE LawFixed[i]]]] :
     fs \in [1..LawFree -> [LawTimes -> LawVals \cup {NOPT}]]}

LawSel == Sl("ma", <<>>, 0)
LawT == {Max(LawTimes) - 1, Max(LawTimes), Max(LawTimes) + 1}
LawMatchersQ ==
  {Mt("job", "eq", "a"), Mt("job", "ne", "a"), Mt("job", "re", "a"), Mt("job", "re", "a|b"), Mt("job", "nre", "a.*"),
   Mt("inst", "eq", ""), Mt("inst", "ne", ""), Mt("inst", "re", ".+"), Mt("inst", "nre", "x"), Mt("zone", "eq", "a")}
LawRangeQueries(D, x) ==
  {QR(e, s, Max(LawTimes) + 2, st) :

          e \in {LawSel, Sl("ma", <<>>, 1), Rf("count_over_time", LawSel, 2), Rf("rate", LawSel, 3), Rf("sum_over_time", LawSel, 1),
                 Ag("sum", "by", {"job"}, LawSel), Bn("add", FALSE, LawSel, Nm(1))},
          s \in {0, 1}, st \in {1, 2, 3}}
LawQueries(D, x) ==
  {QI(Sl("ma", <<>>, off), t) : off \in {0, 1}, t \in LawT}
  \cup {QI(Sl("ma", <<m>>, 0), Max(LawTimes)) : m \in LawMatchersQ}
  \cup {QI(Rf(fn, LawSel, r), t) : fn \in {"avg_over_time", "rate"}, r \in {2, 3}, t \in LawT}
  \cup {QI(Ag(op, mode, ls, LawSel), Max(LawTimes)) : op \in {"sum", "count"}, mode \in {"by", "without"}, ls \in {{"job"}, {"inst"}, {}}}
  \cup {QI(Ag(op, mode, {}, arg), Max(LawTimes)) : op \in {"min", "max"}, mode \in {"none", "without"}, arg \in {LawSel, Rf("last_over_time", LawSel, 3), Bn("mul", FALSE, LawSel, Nm(2))}}
  \cup {QI(Bn(op, b, LawSel, Nm(1)), Max(LawTimes)) : op \in {"gt", "eq", "lt", "ne"}, b \in BOOLEAN}
  \cup {QI(Bn("ge", TRUE, Bn("gt", TRUE, LawSel, Nm(1)), Nm(1)), Max(LawTimes))}
  \cup LawRangeQueries(D, x)

-----------------------------------------------------------------------------
(* bfs: fixed sample sets (counters with resets, gauges, gaps longer than the look-back, markers, irregular   *)
(* scrape times, series without the label inst, a metric none of whose series has inst) x a systematic family *)
P(t, v) == <<t, v>>
FixedData(x) == {
  [unit |-> 15, epoch |-> 0,
   series |-> << [lab |-> Lab3("ma", "a", "x"),  pts |-> <<P(1, 1), P(2, 2), P(4, 3), P(5, 1), P(7, 4), P(9, STALE), P(12, 6), P(13, 7), P(20, 8), P(22, 0), P(23, 5)>>],
                 [lab |-> Lab3("ma", "a", "y"),  pts |-> <<P(0, 5), P(3, 4), P(6, 3), P(9, 2), P(12, 1), P(15, 0), P(18, -1), P(24, 3)>>],
                 [lab |-> Lab3("ma", "ab", "x"), pts |-> <<P(2, 0), P(3, 0), P(4, 2), P(10, 3), P(11, 5), P(17, 2), P(18, 2), P(19, 9)>>],
                 [lab |-> Lab2("ma", "b"),       pts |-> <<P(2, 10), P(4, 20), P(6, 30), P(16, 5), P(17, 6), P(21, STALE)>>],
                 [lab |-> Lab3("mb", "a", "x"),  pts |-> <<P(1, 3), P(8, 4), P(11, 2), P(14, 2), P(19, 1)>>],
                 [lab |-> Lab3("mb", "b", "y"),  pts |-> <<P(3, 2), P(5, 2), P(10, 1), P(15, 4), P(20, 4)>>],
                 [lab |-> Lab2("mc", "a"),       pts |-> <<P(0, 0), P(5, 5), P(10, 10), P(15, 2), P(20, 7)>>] >>] }

BfsSel == {Sl("ma", <<>>, 0), Sl("ma", <<>>, 3), Sl("mb", <<Mt("job", "ne", "zz")>>, 0)}
BfsMatchers ==
  {<<Mt(l, op, v)>> : l \in {"job"}, op \in {"eq", "ne"}, v \in {"a", "b", ""}}
  \cup {<<Mt("job", op, v)>> : op \in {"re", "nre"}, v \in {"a|b", "a", "a.*", ".+", ".*", "zz"}}
  \cup {<<Mt("inst", op, v)>> : op \in {"eq", "ne"}, v \in {"x", ""}}
  \cup {<<Mt("inst", op, v)>> : op \in {"re", "nre"}, v \in {"x|y", ".+", ".*", "x"}}
  \cup {<<Mt("job", "re", "a.*"), Mt("inst", "ne", "y")>>, <<Mt("zone", "eq", "a")>>, <<Mt("zone", "ne", "a")>>, <<Mt("zone", "re", ".*")>>}
BfsT == {4, 9, 13, 14, 21, 26}
BfsInstant ==
  {QI(Sl(m, ms, 0), t) : m \in {"ma"}, ms \in BfsMatchers, t \in {13}}
  \cup {QI(Sl("mc", ms, 0), 12) : ms \in {<<Mt("inst", "eq", "x")>>, <<Mt("inst", "re", "x|y")>>, <<Mt("inst", "ne", "x")>>, <<Mt("inst", "eq", "")>>}}
  \cup {QI(s, t) : s \in BfsSel, t \in BfsT}
  \cup {QI(Rf(fn, s, r), t) : fn \in RFns, s \in {Sl("ma", <<>>, 0), Sl("ma", <<>>, 2)}, r \in {3, 5, 9}, t \in {9, 14, 23}}
  \cup {QI(Ag(op, mode, ls, Sl("ma", <<>>, 0)), t) : op \in AggOps, mode \in {"none", "by", "without"}, ls \in {{"job"}, {"inst"}, {"job", "inst"}}, t \in {13}}
  \cup {QI(Ag(op, "by", {"job"}, Rf("increase", Sl("ma", <<>>, 0), 5)), 14) : op \in AggOps}
  \cup {QI(Bn(op, b, Sl("ma", <<>>, 0), Nm(3)), 13) : op \in ArithOps \cup CmpOps, b \in {FALSE}}
  \cup {QI(Bn(op, TRUE, Sl("ma", <<>>, 0), Nm(3)), 13) : op \in CmpOps}
  \cup {QI(Bn(op, b, Nm(3), Sl("ma", <<>>, 0)), 13) : op \in {"sub", "div", "lt", "ge"}, b \in {FALSE}}
  \cup {QI(Bn(op, FALSE, Sl("ma", <<>>, 0), Sl("ma", <<>>, 2)), 13) : op \in ArithOps \cup CmpOps}
  \cup {QI(BnM(op, b, vm, {"job"}, Sl("ma", <<Mt("inst", "eq", "x")>>, 0), Sl("mb", <<>>, 0)), 13) :
          op \in {"add", "gt"}, b \in {FALSE}, vm \in {"on", "ignoring"}}
  \cup {QI(BnM("lt", TRUE, "ignoring", {"inst"}, Sl("ma", <<Mt("inst", "eq", "x")>>, 0), Sl("mb", <<>>, 0)), 13)}
  \cup {QI(Bn(o2, TRUE, Bn(o1, TRUE, Sl("ma", <<>>, 0), Nm(3)), Nm(c)), 13) : o1 \in {"gt"}, o2 \in {"gt", "eq", "lt"}, c \in {0, 1}}
BfsRange ==
  {QR(e, s, en, st) :
     e \in {Sl("ma", <<>>, 0), Sl("ma", <<>>, 3), Rf("rate", Sl("ma", <<>>, 0), 5), Rf("increase", Sl("mc", <<>>, 0), 6),
            Rf("delta", Sl("ma", <<>>, 1), 8), Rf("sum_over_time", Sl("ma", <<>>, 0), 4), Rf("avg_over_time", Sl("ma", <<>>, 0), 3),
            Rf("count_over_time", Sl("ma", <<>>, 0), 2), Rf("max_over_time", Sl("ma", <<>>, 0), 5), Rf("last_over_time", Sl("ma", <<>>, 0), 5),
            Ag("sum", "by", {"job"}, Sl("ma", <<>>, 0)), Ag("avg", "without", {"inst"}, Sl("ma", <<>>, 0)),
            Ag("count", "none", {}, Sl("ma", <<>>, 0)), Ag("max", "by", {"inst"}, Rf("rate", Sl("ma", <<>>, 0), 5))},
     s \in {0, 7}, en \in {20, 26}, st \in {1, 3, 4}}

(* the NaN family: a sample set whose series carry ORDINARY NaN samples at the start, in the middle and at the end of the      *)
(* windows asked (ax: every 4th scrape), all-NaN windows (bx), every other sample (by), NaN next to a marker and a gap (abx),  *)
(* a series without NaN in the same groups (ay, a counter with two plateaus), a second metric for one-to-one matches; asked with every range function,      *)
(* aggregations over them, comparisons with and without bool, arithmetic                                                       *)
NaNData(x) == {
  [unit |-> 15, epoch |-> 0,
   series |-> << [lab |-> Lab3("na", "a", "x"),  pts |-> <<P(0, NAN), P(1, -6), P(2, 14), P(3, 4), P(4, NAN), P(5, 8), P(6, 10), P(7, 4), P(8, NAN), P(9, 3), P(10, 5), P(11, NAN), P(12, NAN)>>],
                 [lab |-> Lab3("na", "a", "y"),  pts |-> <<P(0, 1), P(1, 2), P(2, 3), P(3, 4), P(4, 4), P(5, 6), P(6, 7), P(7, 8), P(8, 8), P(9, 10), P(10, 11), P(11, 12)>>],
                 [lab |-> Lab3("na", "b", "x"),  pts |-> <<P(0, NAN), P(1, NAN), P(2, NAN), P(3, NAN), P(4, 2), P(5, NAN), P(6, NAN), P(7, NAN), P(8, NAN), P(10, NAN)>>],
                 [lab |-> Lab3("na", "b", "y"),  pts |-> <<P(0, 5), P(1, NAN), P(2, 3), P(3, NAN), P(4, 1), P(5, NAN), P(6, 7), P(7, NAN), P(8, 2), P(9, NAN), P(10, 4)>>],
                 [lab |-> Lab3("na", "ab", "x"), pts |-> <<P(0, NAN), P(1, 1), P(2, 2), P(3, STALE), P(5, NAN), P(6, 6), P(7, 0), P(8, NAN), P(9, STALE), P(12, 3)>>],
                 [lab |-> Lab3("nb", "a", "x"),  pts |-> <<P(0, 1), P(1, 2), P(2, NAN), P(3, 4), P(4, NAN), P(5, 1), P(6, 2), P(7, NAN), P(8, NAN), P(9, 9), P(10, 10)>>],
                 [lab |-> Lab3("nb", "b", "y"),  pts |-> <<P(0, NAN), P(2, 3), P(4, 1), P(5, 5), P(6, NAN), P(8, 2), P(10, NAN)>>] >>] }
NaS == Sl("na", <<>>, 0)
NaNInstant ==
  {QI(s, t) : s \in {NaS, Sl("na", <<>>, 2), Sl("nb", <<>>, 0)}, t \in {0, 4, 5, 8, 13}}
  \cup {QI(Rf(fn, NaS, r), t) : fn \in RFns, r \in {2, 3, 4}, t \in {3, 4, 6, 8, 10, 12}}
  \cup {QI(Rf(fn, Sl("na", <<>>, 1), 3), t) : fn \in {"min_over_time", "max_over_time", "sum_over_time", "last_over_time"}, t \in {5, 9}}
  \cup {QI(Ag(op, mode, ls, NaS), t) : op \in AggOps, mode \in {"none", "by"}, ls \in {{"job"}, {"inst"}}, t \in {4, 5, 8}}
  \cup {QI(Ag(op, "by", {"job"}, Rf(fn, NaS, r)), t) : op \in AggOps, fn \in {"min_over_time", "max_over_time", "sum_over_time", "last_over_time"},
                                                     r \in {3, 4}, t \in {4, 8}}
  \cup {QI(Bn(op, b, NaS, Nm(3)), t) : op \in CmpOps, b \in BOOLEAN, t \in {4, 7}}
  \cup {QI(Bn(op, b, Nm(3), NaS), 4) : op \in CmpOps, b \in BOOLEAN}
  \cup {QI(Bn(op, b, Rf(fn, NaS, 3), Nm(4)), 8) : op \in CmpOps, b \in BOOLEAN, fn \in {"last_over_time", "max_over_time"}}
  \cup {QI(Bn(op, b, Ag("max", "by", {"job"}, NaS), Nm(4)), 8) : op \in {"gt", "le", "ne"}, b \in BOOLEAN}
  \cup {QI(Bn(op, FALSE, NaS, Nm(2)), 4) : op \in ArithOps}
  \cup {QI(Bn(op, FALSE, Nm(2), NaS), 8) : op \in ArithOps}
  \cup {QI(BnM(op, b /\ op \in CmpOps, "on", {"job", "inst"}, NaS, Sl("nb", <<>>, 0)), t) : op \in ArithOps \cup CmpOps, b \in BOOLEAN, t \in {4, 6}}
  \cup {QI(Ag(op, "none", {}, Bn("gt", FALSE, NaS, Nm(3))), 4) : op \in {"count", "sum", "max"}}
  \* aggregations that the executor evaluates (operand = arithmetic / comparison / another aggregation over instant selectors)
  \cup {QI(Ag(op, mode, {"job", "inst"}, arg), t) :
          op \in AggOps, mode \in {"by"}, t \in {3, 4},
          arg \in {Bn("mul", FALSE, NaS, Nm(1)), Bn("add", FALSE, Nm(3), NaS), Bn("ne", FALSE, NaS, Nm(3)),
                   Ag("sum", "by", {"job", "inst"}, NaS), Bn("mul", FALSE, Rf("last_over_time", NaS, 2), Nm(1))}}
  \cup {QI(Ag(op, "by", {"job"}, Ag("max", "by", {"job", "inst"}, NaS)), t) : op \in {"min", "max"}, t \in {3, 4, 5}}
NaNRange ==
  {QR(e, s, en, st) :
     e \in {NaS, Rf("min_over_time", NaS, 2), Rf("max_over_time", NaS, 3), Rf("sum_over_time", NaS, 2), Rf("avg_over_time", NaS, 3),
            Rf("count_over_time", NaS, 2), Rf("last_over_time", NaS, 3), Rf("rate", NaS, 4), Rf("changes", NaS, 4),
            Ag("max", "by", {"job"}, Rf("max_over_time", NaS, 4)), Ag("min", "by", {"inst"}, Rf("min_over_time", NaS, 2)),
            Ag("sum", "by", {"job"}, NaS), Ag("count", "none", {}, NaS), Ag("avg", "by", {"job"}, Rf("last_over_time", NaS, 3)),
            Ag("min", "by", {"job", "inst"}, Bn("mul", FALSE, NaS, Nm(1))), Ag("max", "by", {"inst"}, Ag("sum", "by", {"job", "inst"}, NaS))},
     s \in {0, 3}, en \in {13}, st \in {1, 2, 4}}
NaNQueries == NaNInstant \cup NaNRange
FixedAndNaNData(x) == FixedData(x) \cup NaNData(x)
BfsQueries(D, x) == IF D \in NaNData(x) THEN NaNQueries ELSE BfsInstant \cup BfsRange

\* sentinel of F-C18-7 (AllowRunaway = TRUE): tick 0 is one hour after the Unix epoch, so the runaway answer is short
SentinelData(x) == {
  [unit |-> 60, epoch |-> 60,
   series |-> << [lab |-> Lab2("ma", "a"), pts |-> <<P(5, 4), P(12, 7)>>],
                 [lab |-> Lab2("ma", "b"), pts |-> <<P(4, 1), P(8, 2), P(12, 7)>>] >>] }
SentinelQueries(D, x) ==
  {QR(Rf(fn, Sl("ma", <<>>, 0), 2), 0, 8, 4) : fn \in {"count_over_time", "sum_over_time", "max_over_time"}}
\* every BfsStride-th query of the universe, starting at BfsOff (quick tier: a seeded sample)
CONSTANTS BfsStride, BfsOff
\* (the NaN family is sampled more densely: every 2nd)
BfsSample(D, x) == LET s == SetToSeq(BfsQueries(D, x))
                       st == IF D \in NaNData(x) /\ BfsStride > 2 THEN 2 ELSE BfsStride
                   IN {s[i] : i \in {j \in 1..Len(s) : j % st = BfsOff % st}}

-----------------------------------------------------------------------------
(* sim: random sample sets and random queries.  Every random choice is bound by a quantifier over a  *)
(* singleton set ({RandomElement(S)}), so that it is drawn exactly once.                             *)
CONSTANTS TMax,        \* sample times 0..TMax
          RangeOnly    \* TRUE: only range queries are drawn
RE(S) == RandomElement(S)

SimLabs == << Lab3("ma", "a", "x"), Lab3("ma", "a", "y"), Lab3("ma", "ab", "x"), Lab2("ma", "b"),
              Lab3("mb", "a", "x"), Lab3("mb", "ab", "x"), Lab3("mb", "b", "y"), Lab2("mc", "a"), Lab2("mc", "b") >>

\* one series: counter (slope, resets) or gauge; irregular scrapes; a gap longer than the look-back; markers; ordinary NaN
\* samples (a few, every k-th scrape, or a run of them - so that windows start, end and are filled with NaN)
NanAt(t, c, a, k, l) ==
  IF c <= 5 THEN FALSE                             \* half of the series carry no NaN
  ELSE IF c <= 7 THEN RE(1..8) = 1                  \* a few
  ELSE IF c = 8 THEN t % k = a % k                  \* every k-th scrape
  ELSE IF c = 9 THEN t >= a /\ t <= a + l           \* a run
  ELSE RE(1..8) # 1                                 \* nearly all
SimPts(x) ==
  {SetToSortSeq(
     {<<t, IF t \in stale THEN STALE
           ELSE IF NanAt(t, nc, na, nk, nl) THEN NAN
           ELSE IF kind = 1 THEN (IF t < reset THEN c0 + slope * t ELSE slope * (t - reset) + RE(0..1))
           ELSE IF kind = 2 THEN RE(-3..6)
           ELSE c0>> :
        t \in {tt \in first..TMax : (tt < gap \/ tt > gap + glen) /\ RE(1..10) <= dens}},
     LAMBDA a, b : a[1] < b[1]) :
    stale \in {IF RE(1..3) = 1 THEN {RE(0..TMax), RE(0..TMax)} ELSE {}}, dens \in {RE({3, 5, 7, 10})},
    nc \in {RE(1..10)}, na \in {RE(0..TMax)}, nk \in {RE(2..4)}, nl \in {RE(2..8)},
    gap \in {RE(0..TMax)}, glen \in {RE({0, 0, 3, 6, 9})}, first \in {RE({0, 0, 1, 4, 9})},
    kind \in {RE({1, 1, 2, 3})}, c0 \in {RE(0..6)}, slope \in {RE(1..3)}, reset \in {RE(3..(TMax + 5))}}

SimSeries(x) ==
  LET all == TLCEval([i \in 1..Len(SimLabs) |-> IF RE(1..10) <= 6 THEN SimPts(i) ELSE {<<>>}])
      seqs == TLCEval([i \in 1..Len(SimLabs) |-> CHOOSE p \in all[i] : TRUE])
      idx == SelectSeq([i \in 1..Len(SimLabs) |-> i], LAMBDA i : seqs[i] # <<>>)
  IN TLCEval([j \in 1..Len(idx) |-> [lab |-> SimLabs[idx[j]], pts |-> seqs[idx[j]]]])
SimData(x) == {[unit |-> u, epoch |-> 0, series |-> s] : u \in {RE({1, 15, 60})}, s \in {SimSeries(x)}}

Metrics(D) == {NameOfS(D.series[i]) : i \in 1..NSeries(D)}
SimMs(x) ==
  UNION {IF c <= 4 THEN {<<>>}
         ELSE IF c <= 6 THEN {<<Mt(l, op, v)>> : l \in {RE({"job", "job", "job", "inst", "inst", "zone"})}, op \in {RE({"eq", "ne"})}, v \in {RE({"a", "ab", "b", "x", "y", ""})}}
         ELSE IF c <= 8 THEN {<<Mt(l, op, v)>> : l \in {RE({"job", "job", "job", "inst", "inst", "zone"})}, op \in {RE({"re", "nre"})}, v \in {RE(DOMAIN RegexTab)}}
         ELSE {<<Mt("job", o1, v1), Mt("inst", o2, v2)>> : o1 \in {RE({"eq", "ne"})}, v1 \in {RE({"a", "ab", "b"})},
                                                          o2 \in {RE({"re", "nre"})}, v2 \in {RE({"x|y", ".+", ".*", "x"})}} :
         c \in {RE(1..9)}}
SimSel(D, x) == {Sl(m, ms, off) : m \in {RE(Metrics(D))}, ms \in SimMs(x), off \in {RE({0, 0, 0, 1, 3, 7})}}
SimRf(D, x) == {Rf(fn, s, r) : fn \in {RE(RFns)}, s \in SimSel(D, x), r \in {RE({2, 3, 5, 8, 12})}}
SimNum(x) == {Nm(v) : v \in {RE({0, 1, 2, 3, 5, -1})}}
SimLs(x) == RE({{"job"}, {"inst"}, {"job", "inst"}, {}})

\* vector-vector operators are drawn only at the root, over selectors, range functions and single aggregations of them
RECURSIVE SimVec(_, _, _)
SimVec(D, d, x) ==
  UNION {
    IF d = 0 \/ c <= 2 THEN SimSel(D, x)
    ELSE IF c <= 4 THEN SimRf(D, x)
    ELSE IF c <= 6 THEN {Ag(op, mode, IF mode = "none" THEN {} ELSE ls, arg) :
                            op \in {RE(AggOps)}, mode \in {RE({"none", "by", "without"})}, ls \in {SimLs(x)}, arg \in SimVec(D, d - 1, x)}
    ELSE UNION {IF side = 1 THEN {Bn(op, b /\ op \in CmpOps, v, n) : v \in SimVec(D, d - 1, x), n \in SimNum(x)}
                             ELSE {Bn(op, b /\ op \in CmpOps, n, v) : v \in SimVec(D, d - 1, x), n \in SimNum(x)} :
                  op \in {RE(ArithOps \cup CmpOps)}, b \in {RE(BOOLEAN)}, side \in {RE({1, 1, 2})}} :
    c \in {RE(1..9)}}
SimOperand(D, x) ==
  UNION {IF c <= 2 THEN SimSel(D, x) ELSE IF c <= 4 THEN SimRf(D, x)
         ELSE {Ag(op, mode, IF mode = "none" THEN {} ELSE ls, arg) :
                 op \in {RE(AggOps)}, mode \in {RE({"by", "without"})}, ls \in {SimLs(x)}, arg \in SimSel(D, x) \cup SimRf(D, x + 3)} :
         c \in {RE(1..6)}}
SimVV(D, x) ==
  {BnM(op, b /\ op \in CmpOps, vm, IF vm = "none" THEN {} ELSE ls, l, r) :
     op \in {RE(ArithOps \cup CmpOps)}, b \in {RE(BOOLEAN)}, vm \in {RE({"none", "none", "on", "ignoring"})}, ls \in {SimLs(x)},
     l \in SimOperand(D, x), r \in SimOperand(D, x + 1)}
SimExpr(D, d, x) == IF RE(1..6) = 1 THEN SimVV(D, x) ELSE SimVec(D, d, x)

SimInstant(D, x) == UNION {{QI(e, t) : e \in SimExpr(D, d, x), t \in {RE(0..(TMax + 6))}} : d \in {RE({1, 2, 2, 3})}}
SimRange(D, x) ==
  UNION {{QR(e, s, s + st * n + extra, st) : e \in SimExpr(D, d, x), s \in {RE(0..(TMax - 6))}, st \in {RE({1, 2, 3, 4, 7})},
                                             n \in {RE(1..7)}, extra \in {RE({0, 0, 1})}} : d \in {RE({1, 2, 2})}}
SimQueries(D, x) ==
  IF RangeOnly THEN SimRange(D, x) \cup SimRange(D, x + 1)
  ELSE IF RE(1..5) <= 3 THEN SimInstant(D, x) \cup SimInstant(D, x + 1) ELSE SimRange(D, x) \cup SimRange(D, x + 1)
=============================================================================
