---------------------------- MODULE SeriesIndex ----------------------------
(***************************************************************************)
(* The series index of one shard (engine/index/tsi, a merge-set of sorted  *)
(* items in three namespaces) and the predicates evaluated over it.        *)
(*                                                                         *)
(*   key2id   items "series key -> id"      (nsPrefixKeyToTSID)            *)
(*   id2key   items "id -> series key"      (nsPrefixTSIDToKey)            *)
(*   tag2ids  items "measurement,tag key,tag value -> id" plus one         *)
(*            "measurement -> id" item per series (nsPrefixTagToTSIDs)     *)
(*   pending  ids whose items were added (Table.AddItems) but not yet      *)
(*            flushed: lookups must see them, searches need not            *)
(*   cache    series key -> id cache (cache.go)                            *)
(*   nextId   (logical clock, sequence) of IndexBuilder.GenerateUUID       *)
(*                                                                         *)
(* Actions: Create = MergeSetIndex.CreateIndexIfNotExists (lookup before   *)
(* create under the index mutex), IndexFlush = Table flush (DebugFlush),   *)
(* ClearCache, Close, Reopen, Search = searchTSIDs / SearchSeriesIterator. *)
(*                                                                         *)
(* Property C10: KeyIdBijection (one stable id per series, also across reopen), *)
(* NamespacesConsistent, SearchExact (the set algebra over tag2ids selects *)
(* exactly the series whose tags satisfy the predicate; regular            *)
(* expressions match UNANCHORED, an absent tag is the empty string).       *)
(*                                                                         *)
(* HISTORY INDEPENDENCE. A search is a function of (index contents,        *)
(* predicate) ONLY. The implementation serves searches from pooled         *)
(* searcher objects (indexSearchPool, indexSearch.tfs) which carry fields  *)
(* from one search to the next; sflag models what such an object carries   *)
(* (the isAllMatch flag of its tag filter). The design overwrites it       *)
(* before it is read: HistoryIndependent says no result depends on it, and *)
(* SearchExact is checked in every state, i.e. after every sequence of     *)
(* earlier searches.                                                       *)
(*                                                                         *)
(* MULTIPLICITY. A series of the model stands for mult[id] concrete series *)
(* (members <<id, j>>, j < mult[id]) that differ in one extra tag XKey     *)
(* only (value j; no extra tag when mult[id] = 1). The set semantics are   *)
(* unchanged, every result is a set of members. The tag->ids items of one  *)
(* tag value are stored as rows of at most RowCap ids (64 in the code,     *)
(* consolidated by flush/merge); the universe stays small (RowCap = 2 in   *)
(* the exhaustive runs), the replay uses RowCap = 64 and multiplicities    *)
(* around it. ListingsExact covers listings WITH a condition               *)
(* (searchTagValuesBySingleKey walks the rows of each value).              *)
(***************************************************************************)
EXTENDS Integers, Sequences, FiniteSets, TLC, SequencesExt, FiniteSetsExt

CONSTANTS Msts,       \* measurement names
          TKeys,      \* tag keys
          Vals,       \* tag values: sequences of characters, <<>> = the EMPTY value
          Regexes,    \* regular expressions: sequences of items (see ItemEnds)
          CheckPreds, \* predicates over which SearchExact is checked in every state
          ListPreds,  \* conditions over which the conditional listings are checked in every state
          MaxSeries,  \* bound on distinct series
          MaxPerMst,  \* bound on series per measurement
          MaxReopen,  \* bound on Close/Reopen cycles
          Depth,      \* actions per behaviour
          Mults,      \* multiplicities a series may have (number of concrete series it stands for)
          RowCap,     \* ids per tag->ids row (mergeindex.MaxTSIDsPerRow)
          XVals,      \* values of the extra tag mentioned by predicates (-1 = the empty string)
          Dev,        \* deviations; {} = the design
          OpenClasses \* deviation classes (of S L E N C) whose finding is still OPEN in known_findings.json: the
                      \* as-implemented behaviour the replay may attribute a divergence to. props/c10.py derives the
                      \* set from known_findings.json and writes it into the cfg it hands to TLC. A class outside it is
                      \* a REPAIRED defect: still a mutation seed (SeriesIndex.dev.<class>.cfg), still predicted, but
                      \* as a REGRESSION (Regressions below), which the replay reports as a violation.

VARIABLES open, key2id, id2key, tag2ids, pending, cache, nextId, nReopen, hist,
          mult,       \* id -> multiplicity of the series
          sflag       \* what the pooled searcher carries over from the searches before (isAllMatch of its filter)

vars == <<open, key2id, id2key, tag2ids, pending, cache, nextId, nReopen, hist, mult, sflag>>
view == <<open, key2id, id2key, tag2ids, pending, cache, nextId, nReopen, mult, sflag>>

-----------------------------------------------------------------------------
\* ---- characters and strings (sequences of one-character strings) ----------
Digits == {"1", "2"}
Sep    == "s"      \* a byte the index uses as a separator inside items (\x01 / \x02)
Esc    == "E"      \* the index's escape byte (\x00); never part of a value

StartsAt(v, i, s) == /\ i + Len(s) - 1 <= Len(v)
                     /\ \A j \in 1..Len(s) : v[i + j - 1] = s[j]
HasSub(v, s)      == \E i \in 1..(Len(v) - Len(s) + 1) : StartsAt(v, i, s)
HasPre(v, s)      == StartsAt(v, 1, s)
HasSuf(v, s)      == Len(s) <= Len(v) /\ StartsAt(v, Len(v) - Len(s) + 1, s)
DropN(v, n)       == SubSeq(v, n + 1, Len(v))

\* marshalTagValue: separator bytes are stored as escape byte + digit
RECURSIVE Escaped(_)
Escaped(v) == IF v = <<>> THEN <<>>
              ELSE (IF Head(v) = Sep THEN <<Esc, "1">> ELSE <<Head(v)>>) \o Escaped(Tail(v))

-----------------------------------------------------------------------------
\* ---- regular expressions ---------------------------------------------------
\* A regex is a sequence (concatenation) of items:
\*   <<"bol">> ^   <<"eol">> $   <<"lit", s>>   <<"cls", C>> [..]   <<"dig">> [0-9]
\*   <<"alt", S>> (s1|s2|..)   <<"any*">> .*   <<"any+">> .+   <<"opt", s>> (s)?
\*   <<"star", c>> c*
\* ItemEnds(it, v, i): positions after a match of item it in v starting at i.
ItemEnds(it, v, i) ==
  CASE it[1] = "bol"  -> IF i = 1 THEN {i} ELSE {}
    [] it[1] = "eol"  -> IF i = Len(v) + 1 THEN {i} ELSE {}
    [] it[1] = "lit"  -> IF StartsAt(v, i, it[2]) THEN {i + Len(it[2])} ELSE {}
    [] it[1] = "cls"  -> IF i <= Len(v) /\ v[i] \in it[2] THEN {i + 1} ELSE {}
    [] it[1] = "dig"  -> IF i <= Len(v) /\ v[i] \in Digits THEN {i + 1} ELSE {}
    [] it[1] = "alt"  -> {i + Len(s) : s \in {t \in it[2] : StartsAt(v, i, t)}}
    [] it[1] = "any*" -> i..(Len(v) + 1)
    [] it[1] = "any+" -> (i + 1)..(Len(v) + 1)
    [] it[1] = "opt"  -> {i} \cup (IF StartsAt(v, i, it[2]) THEN {i + Len(it[2])} ELSE {})
    [] it[1] = "star" -> {j \in i..(Len(v) + 1) : \A k \in i..(j - 1) : v[k] = it[2]}

RECURSIVE SeqEnds(_, _, _)
SeqEnds(r, v, S) == IF r = <<>> \/ S = {} THEN S
                    ELSE SeqEnds(Tail(r), v, UNION {ItemEnds(Head(r), v, i) : i \in S})

\* THE semantics of =~ : the expression matches somewhere in the value (InfluxQL, Go regexp)
ReMatch(r, v) == SeqEnds(r, v, 1..(Len(v) + 1)) # {}
\* anchored at both ends (used by the as-implemented model only)
ReFull(r, v)  == (Len(v) + 1) \in SeqEnds(r, v, {1})

-----------------------------------------------------------------------------
\* ---- as-implemented regex matching (tag_filters.go), used by the deviations S L E C N ---------
\* S: neither pure literal nor fully anchored   L: fully anchored   E: matches the empty string
\* C: matching on the escaped stored bytes      N: nil result of !~ under AND (search.go)
\* tagFilter.Init -> InfluxRegrep -> getRegexpPrefix -> extractRegexpPrefix -> simplifyRegexp:
\* anchors are stripped ("they will be added later", which was true for the anchored matching of the
\* code this was lifted from), a trailing literal gets ".*" appended, "lit$" becomes ".*lit$".
IsLit(it) == it[1] = "lit"
HasBol(r) == Len(r) > 0 /\ r[1][1] = "bol"
HasEol(r) == Len(r) > 0 /\ r[Len(r)][1] = "eol"
Body(r)   == LET a == IF HasBol(r) THEN Tail(r) ELSE r
             IN IF HasEol(a) THEN SubSeq(a, 1, Len(a) - 1) ELSE a

SimpStep(r) ==
  IF Len(r) < 2 THEN r                       \* not a concatenation: left alone
  ELSE LET bo == HasBol(r)
           eo == HasEol(r)
           b  == Body(r)
       IN IF b = <<>> THEN <<>>
          ELSE IF bo /\ eo THEN b
          ELSE LET b1 == IF ~eo /\ IsLit(b[Len(b)]) THEN Append(b, <<"any*">>) ELSE b
                   b2 == IF eo /\ IsLit(b1[1]) THEN <<<<"any*">>>> \o b1 ELSE b1
               IN IF eo THEN Append(b2, <<"eol">>) ELSE b2

RECURSIVE Simp(_)
Simp(r) == LET n == SimpStep(r) IN IF n = r THEN r ELSE Simp(n)

\* getOrValues: expansion into at most 20 literal alternatives (then the match is by equality)
OrAbleItem(it) == it[1] \in {"lit", "cls", "dig", "alt"}
ItemCount(it) == CASE it[1] = "lit" -> 1 [] it[1] = "cls" -> Cardinality(it[2])
                   [] it[1] = "dig" -> 10 [] it[1] = "alt" -> Cardinality(it[2]) [] OTHER -> 99
RECURSIVE OrCount(_)
OrCount(r) == IF r = <<>> THEN 1 ELSE ItemCount(Head(r)) * OrCount(Tail(r))
OrAble(r)  == r # <<>> /\ (\A i \in 1..Len(r) : OrAbleItem(r[i])) /\ OrCount(r) <= 20

\* getOptimizedReMatchFunc: ".*lit" / ".+lit" are matched as suffixes; everything else behaves like
\* the unanchored match of the remaining expression on the remaining bytes
RestMatch(rest, suf) ==
  IF OrAble(rest) THEN ReFull(rest, suf)
  ELSE IF Len(rest) = 2 /\ rest[1] = <<"any*">> /\ IsLit(rest[2]) THEN HasSuf(suf, rest[2][2])
  ELSE IF Len(rest) = 2 /\ rest[1] = <<"any+">> /\ IsLit(rest[2])
         THEN Len(suf) > Len(rest[2][2]) /\ HasSuf(suf, rest[2][2])
  ELSE ReMatch(rest, suf)

\* The filters run on the STORED form of a value (marshalTagValue escapes separator bytes) and the
\* expression is escaped the same way (tagCharsRegexpEscaper) -- except the needle of the pure-literal
\* fast path. esc = TRUE models this; esc = FALSE is the matching on the real characters.
EscItem(it) == CASE it[1] = "lit" -> <<"lit", Escaped(it[2])>>
                 [] it[1] = "alt" -> <<"alt", {Escaped(a) : a \in it[2]}>>
                 [] it[1] = "opt" -> <<"opt", Escaped(it[2])>>
                 [] OTHER -> it
EscRe(r) == [i \in 1..Len(r) |-> EscItem(r[i])]

\* does the implemented filter accept the (non-empty) tag value v
ImplValueMatch(r, v, esc) ==
  LET s  == Simp(r)
      ev == IF esc THEN Escaped(v) ELSE v
  IN IF s = <<>> THEN TRUE
     ELSE IF Len(s) = 1 /\ IsLit(s[1]) THEN HasSub(ev, s[1][2])       \* bytes.Contains(stored, raw needle)
     ELSE LET es   == IF esc THEN EscRe(s) ELSE s
              pre  == IF IsLit(es[1]) THEN es[1][2] ELSE <<>>
              rest == IF IsLit(es[1]) THEN Tail(es) ELSE es
          IN HasPre(ev, pre) /\ RestMatch(rest, DropN(ev, Len(pre)))

\* RewriteRegexConditions (SELECT only): /^lit$/, /^(a|b)$/, /^a[bc]$/, /^$/ become (in)equalities
RewritableItem(it) == \/ it[1] \in {"lit", "cls", "dig"}
                      \/ (it[1] = "alt" /\ <<>> \notin it[2])
Rewritable(r) == HasBol(r) /\ HasEol(r) /\ Len(r) >= 2
                 /\ \A i \in 1..Len(Body(r)) : RewritableItem(Body(r)[i])

\* constant tables (computed once)
NonEmptyVals == Vals \ {<<>>}
MatchSet == TLCEval([r \in Regexes |-> {v \in Vals : ReMatch(r, v)}])
\* design matching but on stored bytes (esc) / as-implemented pipeline, with and without the escaping
MatchSetE == TLCEval([esc \in BOOLEAN |-> [r \in Regexes |->
                {v \in NonEmptyVals : IF esc THEN ReMatch(EscRe(r), Escaped(v)) ELSE ReMatch(r, v)}]])
ImplSet  == TLCEval([esc \in BOOLEAN |-> [r \in Regexes |-> {v \in NonEmptyVals : ImplValueMatch(r, v, esc)}]])
EmptyOK  == TLCEval({r \in Regexes : ReMatch(r, <<>>)})      \* isAllMatch: regexp.MatchString("")
\* which deviation governs a regex leaf on a path ("show" = SHOW SERIES/TAG VALUES..., "sel" = SELECT)
ClsOf(r, path) ==
  IF path = "sel" /\ Rewritable(r) THEN "ok"
  ELSE IF r \in EmptyOK THEN "E"
  ELSE IF HasBol(r) /\ HasEol(r) THEN "L"
  ELSE IF Len(Simp(r)) = 1 /\ IsLit(Simp(r)[1]) THEN "P"      \* pure literal: bytes.Contains, correct
  ELSE "S"
ClsTab == TLCEval([path \in {"show", "sel"} |-> [r \in Regexes |-> ClsOf(r, path)]])

-----------------------------------------------------------------------------
\* ---- series keys -----------------------------------------------------------
NoTag   == <<"_">>                         \* the tag is not part of the written point
RawVals == Vals \cup {NoTag}
RawKeys == [m : Msts, t : [TKeys -> RawVals]]
\* the write path (line-protocol parser, unmarshalTags: "Skip empty tag") drops empty-valued tags
Norm(k) == [k EXCEPT !.t = [x \in TKeys |-> IF k.t[x] = <<>> THEN NoTag ELSE k.t[x]]]
\* an absent tag reads as the empty string
TV(k, x) == IF k.t[x] = NoTag THEN <<>> ELSE k.t[x]

\* ---- predicates ------------------------------------------------------------
\* <<"=",k,v>> <<"!=",k,v>> <<"=~",k,r>> <<"!~",k,r>> <<"AND",p,q>> <<"OR",p,q>> <<"P",p>> (parentheses)
\* <<"TRUE">> (no condition)   <<"n=",j>> <<"n!=",j>> the extra tag (in)equal to j (-1 = the empty string)
\* xv = value of the extra tag of the member (-1 when it has none)
XKey == "n"
RECURSIVE Eval(_, _, _)
Eval(p, k, xv) ==
  CASE p[1] = "AND" -> Eval(p[2], k, xv) /\ Eval(p[3], k, xv)
    [] p[1] = "OR"  -> Eval(p[2], k, xv) \/ Eval(p[3], k, xv)
    [] p[1] = "P"   -> Eval(p[2], k, xv)
    [] p[1] = "TRUE" -> TRUE                      \* no WHERE clause
    [] p[1] = "n="  -> xv = p[2]
    [] p[1] = "n!=" -> xv # p[2]
    [] p[1] = "="   -> TV(k, p[2]) = p[3]
    [] p[1] = "!="  -> TV(k, p[2]) # p[3]
    [] p[1] = "=~"  -> TV(k, p[2]) \in MatchSet[p[3]]
    [] p[1] = "!~"  -> TV(k, p[2]) \notin MatchSet[p[3]]

-----------------------------------------------------------------------------
\* ---- the three namespaces ---------------------------------------------------
IdsOf(ns)    == {it[2] : it \in ns}
AllIds       == {it[1] : it \in id2key}
KeyOf(id)    == (CHOOSE it \in id2key : it[1] = id)[2]
TagItems(k, id) == {<<k.m, x, k.t[x], id>> : x \in {y \in TKeys : k.t[y] # NoTag}} \cup {<<k.m, "", <<>>, id>>}

\* members: the concrete series a series of the model stands for; every search result is a set of members
Members(id)  == {<<id, j>> : j \in 0..(mult[id] - 1)}
Conc(ids)    == UNION {Members(id) : id \in ids}
XVal(c)      == IF mult[c[1]] = 1 THEN -1 ELSE c[2]      \* the extra tag of a member (-1: none)

\* searches read flushed items only
Flushed == {it \in tag2ids : it[4] \notin pending}
AllM(m)        == Conc({it[4] : it \in {x \in Flushed : x[1] = m /\ x[2] = ""}})
Has(m, k)      == Conc({it[4] : it \in {x \in Flushed : x[1] = m /\ x[2] = k}})
WithVal(m, k, S) == Conc({it[4] : it \in {x \in Flushed : x[1] = m /\ x[2] = k /\ x[3] \in S}})
\* the items of the extra tag (implied by mult: one item per member of a series with mult > 1)
XEq(m, j) == {c \in AllM(m) : XVal(c) = j}

NIL == {<<-1, -1>>}      \* "no result" of a filter (a nil set in search.go), distinct from the empty set

\* One leaf, by set algebra over the tag->ids items. dv = deviations in force.
EqSet(m, k, v) == IF v = <<>> THEN AllM(m) \ Has(m, k) ELSE WithVal(m, k, {v})
ReSet(m, k, r) == WithVal(m, k, MatchSet[r]) \cup (IF r \in EmptyOK THEN AllM(m) \ Has(m, k) ELSE {})

\* f = the flag carried by the pooled searcher that serves the search. Only the tag filters of the SELECT
\* path live in pooled objects (indexSearch.tfs); the SHOW path builds a fresh filter per leaf.
\* Deviation stale_allmatch_flag: tagFilter.Init does not clear isAllMatch, so a regex leaf served by a
\* searcher whose earlier search had an empty-matching regex is treated as all-match.
Leaf(dv, path, m, p, f) ==
  LET o == p[1]
      k == p[2]
  IN CASE o = "n="  -> XEq(m, p[2])
       [] o = "n!=" -> AllM(m) \ XEq(m, p[2])
       [] o = "="  -> EqSet(m, k, p[3])
       [] o = "!=" -> IF "neq_absent_nonmatch" \in dv
                        THEN Has(m, k) \ EqSet(m, k, p[3])        \* mutation seed
                        ELSE AllM(m) \ EqSet(m, k, p[3])
       [] o \in {"=~", "!~"} ->
            LET r   == p[3]
                c   == ClsTab[path][r]
                esc == "C" \in dv
                nt  == IF r \in EmptyOK THEN AllM(m) \ Has(m, k) ELSE {}   \* series without the tag
                pos == IF c = "ok" THEN ReSet(m, k, r)                      \* rewritten into (in)equalities
                       ELSE IF "stale_allmatch_flag" \in dv /\ path = "sel" /\ f THEN AllM(m)
                       ELSE IF c = "E" /\ "E" \in dv THEN AllM(m)           \* isAllMatch
                       ELSE IF c = "P" \/ (c \in dv /\ c # "E") THEN WithVal(m, k, ImplSet[esc][r]) \cup nt
                       ELSE WithVal(m, k, MatchSetE[esc][r]) \cup nt
                neg == AllM(m) \ pos
            IN IF o = "=~" THEN pos
               ELSE IF "N" \in dv /\ path = "show" /\ r \in EmptyOK /\ neg = {} THEN NIL
               ELSE neg

RECURSIVE Alg(_, _, _, _, _)
Alg(dv, path, m, p, f) ==
  CASE p[1] = "P" -> Alg(dv, path, m, p[2], f)
    [] p[1] = "TRUE" -> AllM(m)
    [] p[1] \in {"AND", "OR"} ->
         LET l == Alg(dv, path, m, p[2], f)
             r == Alg(dv, path, m, p[3], f)
         IN IF l = NIL THEN r
            ELSE IF r = NIL THEN l
            ELSE IF p[1] = "AND" \/ "or_as_and" \in dv THEN l \cap r
            ELSE l \cup r
    [] OTHER -> Leaf(dv, path, m, p, f)

\* the search served by a searcher carrying f / by the pooled searcher in its current state
SearchF(dv, path, m, p, f) == LET s == Alg(dv, path, m, p, f) IN IF s = NIL THEN {} ELSE s
Search(dv, path, m, p)     == SearchF(dv, path, m, p, sflag)

\* brute force: the definition of "selects exactly" (a function of the index contents and the predicate)
Searchable(m) == {id \in AllIds \ pending : KeyOf(id).m = m}
Brute(m, p)   == {c \in Conc(Searchable(m)) : Eval(p, KeyOf(c[1]), XVal(c))}

\* listings derived from a search result (a set of members)
SeriesOf(sel)     == {c[1] : c \in sel}
ShowSeries(sel)   == {KeyOf(id) : id \in SeriesOf(sel)}
TagKeysOf(sel)    == {x \in TKeys : \E id \in SeriesOf(sel) : KeyOf(id).t[x] # NoTag}
                     \cup (IF \E c \in sel : XVal(c) # -1 THEN {XKey} ELSE {})
TagValuesOf(sel, x) == {KeyOf(id).t[x] : id \in {i \in SeriesOf(sel) : KeyOf(i).t[x] # NoTag}}
XValuesOf(sel)    == {XVal(c) : c \in sel} \ {-1}

\* ---- tag-value listing WITH a condition (searchTagValuesBySingleKey) ----------------------------------
\* The members owning one tag value, in id order, are stored RowCap per row (rows consolidated by
\* flush/merge). The listing walks the rows of every value and reports the value when a row holds an
\* eligible member. Deviation cond_listing_first_row: after a FULL row the scan jumps to the next value
\* even when that row held no eligible member (the later rows of the value are never looked at).
Owners(m, x, v) == WithVal(m, x, {v})
Precedes(d, c)  == d[1] < c[1] \/ (d[1] = c[1] /\ d[2] < c[2])
FirstRow(S)     == {c \in S : Cardinality({d \in S : Precedes(d, c)}) < RowCap}
CondTagValues(dv, m, x, elig) ==
  {v \in NonEmptyVals :
     LET o == Owners(m, x, v)
     IN (IF "cond_listing_first_row" \in dv THEN FirstRow(o) ELSE o) \cap elig # {}}

\* compact, exact encoding of a set of members for the history: ids = series selected with all their
\* members; part = the others that are touched, as (all but js) or (only js)
FullIds(sel) == {id \in SeriesOf(sel) : Members(id) \subseteq sel}
PartOf(sel)  ==
  SetToSeq({LET js == {c[2] : c \in {d \in sel : d[1] = id}}
            IN IF 2 * Cardinality(js) > mult[id]
                 THEN [id |-> id, all |-> 1, js |-> (0..(mult[id] - 1)) \ js]
                 ELSE [id |-> id, all |-> 0, js |-> js] : id \in SeriesOf(sel) \ FullIds(sel)})

-----------------------------------------------------------------------------
\* ---- deviation classes present in a predicate (for the per-subset predictions) ------------------
RECURSIVE LeafClasses(_, _)
LeafClasses(p, path) ==
  CASE p[1] = "P" -> LeafClasses(p[2], path)
    [] p[1] \in {"AND", "OR"} -> LeafClasses(p[2], path) \cup LeafClasses(p[3], path)
    [] p[1] \in {"=~", "!~"} ->
         LET c == ClsTab[path][p[3]]
         IN (IF c \in {"S", "L", "E"} THEN {c} ELSE {})
            \cup (IF c # "ok" THEN {"C"} ELSE {})
            \cup (IF p[1] = "!~" /\ path = "show" /\ p[3] \in EmptyOK THEN {"N"} ELSE {})
    [] OTHER -> {}

ClassOrder == <<"C", "E", "L", "N", "S">>
ClassStr(S) == LET f[i \in 0..Len(ClassOrder)] ==
                     IF i = 0 THEN "" ELSE f[i-1] \o (IF ClassOrder[i] \in S THEN ClassOrder[i] ELSE "")
               IN f[Len(ClassOrder)]

AllClasses == {"C", "E", "L", "N", "S"}
ASSUME OpenClasses \subseteq AllClasses

PredEntry(d, path, m, p) == [d |-> ClassStr(d), ids |-> FullIds(Search(d, path, m, p)),
                             part |-> PartOf(Search(d, path, m, p))]

\* predictions of the as-implemented models of the OPEN findings: one entry per non-empty subset of the OPEN classes
\* present whose result differs from the design's. Classes of repaired findings are not predicted here: a result
\* that a repaired class would explain as well must not be excused by it.
Predictions(path, m, p) ==
  LET cs   == LeafClasses(p, path) \cap OpenClasses
      want == Search({}, path, m, p)
      subs == {d \in SUBSET cs : d # {} /\ Search(d, path, m, p) # want}
  IN SetToSeq({PredEntry(d, path, m, p) : d \in subs})

\* what the code would answer if the repair of a class were lost (alone or together with others, on top of any
\* of the open classes): one entry per subset of the classes present that holds a REPAIRED class and whose result
\* is neither the design's nor a prediction of the open classes alone. A real result equal to one of them is a
\* regression of the repaired findings named by r = the repaired classes of d.
Regressions(path, m, p) ==
  LET cs   == LeafClasses(p, path)
      opn  == {Search(d, path, m, p) : d \in SUBSET (cs \cap OpenClasses)}      \* includes the design's set
      subs == {d \in SUBSET cs : d \ OpenClasses # {} /\ Search(d, path, m, p) \notin opn}
  IN SetToSeq({[d |-> ClassStr(d), r |-> ClassStr(d \ OpenClasses), ids |-> FullIds(Search(d, path, m, p)),
                part |-> PartOf(Search(d, path, m, p))] : d \in subs})

-----------------------------------------------------------------------------
\* ---- observation / history -------------------------------------------------
IdTable == SetToSeq({[k |-> it[1], id |-> it[2], n |-> mult[it[2]]] : it \in key2id})
\* ids an as-implemented lookup can find: cached, or flushed (deviation lookup_misses_pending)
VisibleIds == {it[2] : it \in {x \in key2id : x \in cache \/ x[2] \notin pending}}

Log(a, args, extra) ==
  hist' = Append(hist, [a |-> a, args |-> args,
                        exp |-> [ids |-> IdTable', vis |-> VisibleIds', x |-> extra]])
Same == UNCHANGED <<mult, sflag>>

-----------------------------------------------------------------------------
\* overridden by the cfg files
CreateChoices == RawKeys
BatchChoices  == {}
MultChoices   == Mults

Init == /\ open = TRUE /\ key2id = {} /\ id2key = {} /\ tag2ids = {} /\ pending = {}
        /\ cache = {} /\ nextId = [clock |-> 1, seq |-> 0] /\ nReopen = 0 /\ hist = <<>>
        /\ mult = <<>> /\ sflag = FALSE

\* getSeriesIdBySeriesKey: cache, then the item store. The design requires the store lookup to see
\* pending items (otherwise a cache drop inside the flush lag duplicates the series).
LookupSet(k) ==
  LET c == {it \in cache : it[1] = k}
      s == IF "lookup_misses_pending" \in Dev
             THEN {it \in key2id : it[1] = k /\ it[2] \notin pending}
             ELSE {it \in key2id : it[1] = k}
  IN IF c # {} THEN c ELSE s

NewId == nextId.clock * 100 + nextId.seq + 1

Create(raw) ==
  LET k     == Norm(raw)
      found == LookupSet(k)
      \* would the implemented lookup (cache, then FLUSHED items only) miss an existing series?
      dup   == IF found # {} /\ {it \in cache : it[1] = k} = {}
                  /\ {it \in key2id : it[1] = k /\ it[2] \notin pending} = {} THEN 1 ELSE 0
  IN /\ open
     /\ IF found # {}
          THEN LET id == (CHOOSE it \in found : \A o \in found : it[2] <= o[2])[2]
               IN /\ cache' = cache \cup {<<k, id>>}
                  /\ UNCHANGED <<key2id, id2key, tag2ids, pending, nextId, mult>>
                  /\ Log("Create", raw, [id |-> id, new |-> 0, dup |-> dup, n |-> mult[id]])
          ELSE /\ Cardinality(AllIds) < MaxSeries
               /\ Cardinality({id \in AllIds : KeyOf(id).m = k.m}) < MaxPerMst
               /\ key2id' = key2id \cup {<<k, NewId>>}
               /\ id2key' = id2key \cup {<<NewId, k>>}
               /\ tag2ids' = tag2ids \cup (IF "drop_tag_items" \in Dev
                                             THEN {<<k.m, "", <<>>, NewId>>} ELSE TagItems(k, NewId))
               /\ pending' = pending \cup {NewId}
               /\ cache' = cache \cup {<<k, NewId>>}
               /\ nextId' = [nextId EXCEPT !.seq = @ + 1]
               /\ \E n \in MultChoices :
                    /\ mult' = [i \in DOMAIN mult \cup {NewId} |-> IF i = NewId THEN n ELSE mult[i]]
                    /\ Log("Create", raw, [id |-> NewId, new |-> 1, dup |-> 0, n |-> n])
     /\ UNCHANGED <<open, nReopen, sflag>>

IndexFlush ==
  /\ open /\ pending # {}
  /\ pending' = {}
  /\ UNCHANGED <<open, key2id, id2key, tag2ids, cache, nextId, nReopen>> /\ Same
  /\ Log("IndexFlush", <<>>, <<>>)

ClearCache ==
  /\ open /\ cache # {}
  /\ cache' = {}
  /\ UNCHANGED <<open, key2id, id2key, tag2ids, pending, nextId, nReopen>> /\ Same
  /\ Log("ClearCache", <<>>, <<>>)

\* Table.MustClose flushes pending items; the caches die with the process
Close ==
  /\ open /\ nReopen < MaxReopen
  /\ open' = FALSE /\ pending' = {} /\ cache' = {}
  /\ UNCHANGED <<key2id, id2key, tag2ids, nextId, nReopen>> /\ Same
  /\ Log("Close", <<>>, <<>>)

\* a start takes a larger logical clock from the meta service; the sequence restarts
Reopen ==
  /\ ~open
  /\ open' = TRUE /\ nReopen' = nReopen + 1
  /\ nextId' = IF "idgen_restart" \in Dev THEN [nextId EXCEPT !.seq = 0]
               ELSE [clock |-> nextId.clock + 1, seq |-> 0]
  /\ UNCHANGED <<key2id, id2key, tag2ids, pending, cache>> /\ Same
  /\ Log("Reopen", <<>>, <<>>)

\* One search request = a SEQUENCE of (measurement, predicate) served one after the other by the same
\* process (the same pooled searchers); the expectation of each is its own function of (contents, predicate),
\* whatever ran before it. lv = the expectation of every leaf of the tree searched on its own (the replay runs
\* them to locate a divergence; they are searches like any other).
RECURSIVE LeavesOfPred(_)
LeavesOfPred(p) ==
  CASE p[1] = "P" -> LeavesOfPred(p[2])
    [] p[1] \in {"AND", "OR"} -> LeavesOfPred(p[2]) \cup LeavesOfPred(p[3])
    [] p[1] = "TRUE" -> {}
    [] OTHER -> {p}
OneLeaf(m, l) ==
  LET want == Search(Dev, "sel", m, l)
  IN [p |-> l, ids |-> FullIds(want), part |-> PartOf(want), dsel |-> Predictions("sel", m, l),
      rsel |-> Regressions("sel", m, l)]
OneSearch(q) ==
  LET want == Search(Dev, "show", q.m, q.p)
  IN [m |-> q.m, p |-> q.p, ids |-> FullIds(want), part |-> PartOf(want),
      tk |-> TagKeysOf(want), tv |-> [x \in TKeys |-> TagValuesOf(want, x)], tvn |-> XValuesOf(want),
      dshow |-> Predictions("show", q.m, q.p), dsel |-> Predictions("sel", q.m, q.p),
      rshow |-> Regressions("show", q.m, q.p), rsel |-> Regressions("sel", q.m, q.p),
      lv |-> IF q.p[1] \in {"AND", "OR", "P"} THEN SetToSeq({OneLeaf(q.m, l) : l \in LeavesOfPred(q.p)}) ELSE <<>>]

\* what the pooled searcher carries after having served p (SELECT path). The design (tagFilter.Init) clears
\* the flag on every use, so it reflects the LAST search only -- and no result reads it before it is rewritten.
RECURSIVE HasEmptyRe(_)
HasEmptyRe(p) ==
  CASE p[1] = "P" -> HasEmptyRe(p[2])
    [] p[1] \in {"AND", "OR"} -> HasEmptyRe(p[2]) \/ HasEmptyRe(p[3])
    [] p[1] \in {"=~", "!~"} -> p[3] \in EmptyOK
    [] OTHER -> FALSE
RECURSIVE HasRe(_)
HasRe(p) ==
  CASE p[1] = "P" -> HasRe(p[2])
    [] p[1] \in {"AND", "OR"} -> HasRe(p[2]) \/ HasRe(p[3])
    [] OTHER -> p[1] \in {"=~", "!~"}
FlagAfter(f, p) == IF "stale_allmatch_flag" \in Dev THEN f \/ HasEmptyRe(p)       \* set, never cleared
                   ELSE IF HasRe(p) THEN HasEmptyRe(p) ELSE f
RECURSIVE FlagAfterAll(_, _)
FlagAfterAll(f, qs) == IF qs = <<>> THEN f ELSE FlagAfterAll(FlagAfter(f, Head(qs).p), Tail(qs))

SearchBatch(qs) ==
  /\ open /\ pending = {}          \* the harness makes new series searchable first (allowed lag)
  /\ UNCHANGED <<open, key2id, id2key, tag2ids, pending, cache, nextId, nReopen, mult>>
  /\ sflag' = FlagAfterAll(sflag, qs)
  /\ Log("Search", <<>>, [i \in 1..Len(qs) |-> OneSearch(qs[i])])


Next ==
  /\ Len(hist) < Depth
  /\ \/ \E k \in CreateChoices : Create(k)
     \/ IndexFlush
     \/ ClearCache
     \/ Close
     \/ Reopen
     \/ \E b \in BatchChoices : SearchBatch(b)

Spec == Init /\ [][Next]_vars

-----------------------------------------------------------------------------
\* ---- invariants ------------------------------------------------------------
TypeOK == /\ open \in BOOLEAN /\ sflag \in BOOLEAN
          /\ DOMAIN mult = AllIds /\ \A id \in AllIds : mult[id] \in Mults
          /\ pending \subseteq AllIds
          /\ \A it \in key2id : it[1] \in RawKeys /\ it[1] = Norm(it[1])

\* one id per series, one series per id, never re-issued (also across Reopen)
KeyIdBijection ==
  /\ \A a, b \in key2id : (a[1] = b[1]) <=> (a[2] = b[2])
  /\ \A a, b \in id2key : (a[1] = b[1]) <=> (a[2] = b[2])

NamespacesConsistent ==
  /\ id2key = {<<it[2], it[1]>> : it \in key2id}
  /\ tag2ids = UNION {TagItems(it[2], it[1]) : it \in id2key}

CacheSound == cache \subseteq key2id
ClosedClean == ~open => (pending = {} /\ cache = {})

\* the set algebra over the items selects exactly the series whose tags satisfy the predicate
SearchExact ==
  \A m \in Msts : \A p \in CheckPreds :
     /\ Search(Dev, "show", m, p) = Brute(m, p)
     /\ (Dev = {} \/ Search(Dev, "sel", m, p) = Brute(m, p))    \* the paths differ under deviations only

\* History independence, stated on its own: whatever the pooled searcher carries over from earlier
\* searches, the result is the same (so a search is a function of the index contents and the predicate).
HistoryIndependent ==
  \A m \in Msts : \A p \in CheckPreds : \A path \in {"show", "sel"} :
     SearchF(Dev, path, m, p, TRUE) = SearchF(Dev, path, m, p, FALSE)

\* listings without a condition report exactly what was written (the tag-value listing reads the
\* tag->ids items directly: searchTagValuesBySingleKey); listings WITH a condition report exactly the
\* values carried by the series the condition selects, however many members share a value
ListingsExact ==
  \A m \in Msts :
     /\ AllM(m) = Conc(Searchable(m))
     /\ \A x \in TKeys :
          /\ {it[3] : it \in {y \in Flushed : y[1] = m /\ y[2] = x}} = TagValuesOf(Conc(Searchable(m)), x)
          /\ \A p \in ListPreds :
               CondTagValues(Dev, m, x, Brute(m, p)) = TagValuesOf(Brute(m, p), x)
=============================================================================
