---------------------------- MODULE SparseIndexMC ----------------------------
EXTENDS SparseIndex, Json, Randomization
\* Export of cases for replay into the real index code (Mode B): one JSON line per behaviour
\* Build -> NewKeyCondition -> Scan.
\*
\* Simulation: random samples instead of the full sets. Every generator takes a parameter that differs
\* between calls so that TLC does not cache it as a constant.
SimTup(kk, x) == [i \in 1..kk |-> IF WithNull /\ RandomElement(1..6) = 1 THEN Null ELSE RandomElement(Vals)]
SimRec(kk, x) == LET n == RandomElement(1..MaxRows)
                 IN SortSeq(TLCEval([i \in 1..n |-> SimTup(kk, x + i)]), RowLT)
\* the sample is biased toward three key columns (6 of 10 records offered to Build): the decomposition into
\* key-prefix rectangles only shows all its branches there.  With 3 key values and up to 8 rows most fragments
\* (and every coarse range) of such a record span a change of the first key column.
SimRecs(kk) == {SimRec(kk, j) : j \in 1..(IF kk = 3 THEN 6 ELSE 2)}

\* fl = 0: comparisons (and now and then an atom on a non-key column); fl = 1: also IN and string operators;
\* fl = 2: comparisons and matchphrase
SimAtom(kk, fl, x) ==
  LET r == RandomElement(1..40) IN
  IF r = 1 THEN NonKey
  ELSE IF fl = 1 /\ r \in 2..7 THEN [t |-> "in", c |-> RandomElement(1..kk), vs |-> RandomElement((SUBSET Vals) \ {{}})]
  ELSE IF fl = 1 /\ r \in 8..16 /\ {i \in 1..kk : ct[i] = "o"} # {}
       THEN [t |-> "strop", c |-> RandomElement({i \in 1..kk : ct[i] = "o"}), op |-> RandomElement(StrOps), v |-> RandomElement(Vals)]
  ELSE IF fl = 2 /\ r \in 2..12 /\ {i \in 1..kk : ct[i] = "o"} # {}
       THEN [t |-> "strop", c |-> RandomElement({i \in 1..kk : ct[i] = "o"}), op |-> "matchphrase", v |-> RandomElement(Vals)]
  ELSE [t |-> "cmp", c |-> RandomElement(1..kk), op |-> RandomElement(CmpOps), v |-> RandomElement(Vals)]

RECURSIVE SimTree(_, _, _, _)
SimTree(kk, fl, d, x) ==
  IF d = 0 \/ RandomElement(1..4) = 1 THEN SimAtom(kk, fl, x)
  ELSE [t |-> RandomElement({"and", "or"}), l |-> SimTree(kk, fl, d - 1, 2 * x), r |-> SimTree(kk, fl, d - 1, 2 * x + 1)]
SimFlavour(x) == LET r == RandomElement(1..8) IN IF r = 1 THEN 1 ELSE IF r = 2 THEN 2 ELSE 0
\* a chain over the key columns (AND mostly): one comparison on the LAST key column, and on each other
\* column with probability 3/4 -- conditions that reach the innermost rectangles
SimChainAtom(c, x) == [t |-> "cmp", c |-> c, op |-> RandomElement(CmpOps), v |-> RandomElement(Vals)]
RECURSIVE SimChainR(_, _, _, _)
SimChainR(o, c, kk, x) ==
  IF c = kk THEN SimChainAtom(c, x)
  ELSE IF RandomElement(1..4) = 1 THEN SimChainR(o, c + 1, kk, x)
  ELSE [t |-> o, l |-> SimChainAtom(c, x), r |-> SimChainR(o, c + 1, kk, x)]
SimChain(kk, x) == SimChainR(IF RandomElement(1..5) = 1 THEN "or" ELSE "and", 1, kk, x)
\* one tree in four is of the matchphrase flavour (the string operators drive the bloom-filter reader)
SimConds(kk) == {SimTree(kk, SimFlavour(j), CondDepth, j) : j \in 1..3} \cup {SimTree(kk, 2, CondDepth, 4)}
                  \cup (IF kk >= 2 THEN {SimChain(kk, j) : j \in 1..(kk - 1)} ELSE {})

\* time bounds on one key column (then that column is the integer column "time")
SimTB(kk, c, x) ==
  LET cols == (1..kk) \ StrCols(c) IN
  IF RandomElement(1..4) # 1 \/ cols = {} THEN NoTB
  ELSE LET lo == RandomElement({NegInf} \cup Vals)
           hi == RandomElement({PosInf} \cup {v \in Vals : v >= lo})
       IN [c |-> RandomElement(cols), lo |-> lo, hi |-> hi]
SimTBs(kk, c) == {SimTB(kk, c, j) : j \in 1..2}

\* column types: the time column is an integer column
SimTypes(kk) == {TLCEval([i \in 1..kk |-> IF RandomElement(1..3) = 1 THEN "ia" ELSE "o"]) : j \in 1..2}
BothTypes(kk) == {AllO(kk), [i \in 1..kk |-> "ia"]}
IntTypes(kk) == {[i \in 1..kk |-> "ia"]}

\* every kind of atom (self-tests of the deviations that concern IN and string operators)
AllAtoms(kk) == CmpAtoms(kk) \cup InAtoms(kk) \cup StrAtoms(kk) \cup {NonKey}

\* exhaustive configurations search with two settings only: MayCoversMatch covers the others
TwoSettings == {"autoc2m0", "exclc2m0"}

Export == (Len(hist) = Depth) => PrintT(<<"TRACE", ToJson(hist)>>)

-----------------------------------------------------------------------------
\* Directed cases: a BFS over a small universe that exports the cases which DISTINGUISH a deviation from the
\* design (SparseIndex!Distinguishes).  The Scan step of an exported case names the deviations it is directed
\* at (args.dist) and carries the full expectation (design + as-implemented predictions, every reader setting).
\* the unsound slips of the specification: each must have distinguishing cases (c20.py: exit 2 otherwise)
UnsoundDevs == {"le_as_lt", "ge_as_gt", "or_as_and", "last_fragment_off_by_one", "null_as_minus_infinity",
                "stale_range_between_rectangles", "left_point_stale", "right_point_stale", "last_column_open",
                "right_bound_overwrites", "excl_drops_leftmost", "bin_end_off_by_one"}
\* slips that only lose precision: no case may distinguish them (self-test)
PrecisionDevs == {"lt_as_le", "and_as_or", "binary_search_always"}
\* the slips that need two or three key columns (the decomposition into key-prefix rectangles)
RectDevs == {"stale_range_between_rectangles", "left_point_stale", "right_point_stale", "right_bound_overwrites",
             "last_column_open", "or_as_and"}
OneKeyDevs == UnsoundDevs \ {"stale_range_between_rectangles", "left_point_stale", "right_point_stale", "right_bound_overwrites"}
TwoKeyDevs == UnsoundDevs \ {"stale_range_between_rectangles"}

DistDevs == {}        \* directed configurations override it
\* a deviation with many distinguishing cases in a universe is only looked at in one state out of Thin(D)
Thin(D) == 1
NoThin(D) == 1
\* measured on the quick universes so that each deviation keeps some hundred cases (c20.py samples further)
ThinQ1(D) == CASE D = "bin_end_off_by_one" -> 100 [] D = "excl_drops_leftmost" -> 80 [] D = "or_as_and" -> 40
               [] D = "null_as_minus_infinity" -> 40 [] D = "last_column_open" -> 25 [] D = "le_as_lt" -> 10
               [] D = "last_fragment_off_by_one" -> 8 [] D = "ge_as_gt" -> 6 [] OTHER -> 1
ThinQ2(D) == CASE D = "excl_drops_leftmost" -> 60 [] D = "or_as_and" -> 50 [] D = "bin_end_off_by_one" -> 20
               [] D = "null_as_minus_infinity" -> 15 [] D = "last_column_open" -> 10 [] D = "le_as_lt" -> 8
               [] D = "last_fragment_off_by_one" -> 8 [] D = "ge_as_gt" -> 5 [] D = "left_point_stale" -> 2 [] OTHER -> 1
ThinQ3(D) == CASE D = "or_as_and" -> 100 [] D = "right_point_stale" -> 20 [] D = "left_point_stale" -> 10
               [] D = "last_column_open" -> 10 [] OTHER -> 1
\* the thorough universes are larger
ThinT1(D) == 2 * ThinQ1(D)
ThinT2(D) == 6 * ThinQ2(D)
ThinT3(D) == CASE D = "or_as_and" -> 300 [] D = "right_point_stale" -> 60 [] D = "left_point_stale" -> 30
               [] D = "last_column_open" -> 30 [] D = "right_bound_overwrites" -> 3 [] OTHER -> 1

DistOf == {D \in DistDevs : (Thin(D) = 1 \/ RandomElement(1..Thin(D)) = 1) /\ Distinguishes(D)}
AllSettings == DOMAIN Settings
DistHist(ds) == [hist EXCEPT ![3] = [a |-> "Scan", args |-> [dist |-> SetToSeq(ds)],
                                     exp |-> ScanExp(ScanOutW(TRUE, AllSettings, FullCond(cond, tb), rows, g, ct))]]
ExportDist ==
  IF phase # "done" THEN TRUE
  ELSE LET ds == DistOf IN IF ds # {} THEN PrintT(<<"TRACE", ToJson(DistHist(ds))>>) ELSE TRUE
\* self-test of the precision-only slips: no case of the universe distinguishes them
NoneDistinguishes == phase = "done" => DistOf = {}

\* conditions that constrain the key columns one by one: an AND chain (or an OR chain) of at most one
\* comparison per key column -- what the decomposition into key-prefix rectangles is about
ChainOps == {"eq", "ne", "lt", "ge"}
ColAtoms(c) == {[t |-> "cmp", c |-> c, op |-> o, v |-> v] : o \in ChainOps, v \in ColVals(c)}
RECURSIVE AtomSeqs(_, _)
AtomSeqs(c, kk) == IF c > kk THEN {<<>>}
                   ELSE LET rest == AtomSeqs(c + 1, kk) IN rest \cup {<<a>> \o s : a \in ColAtoms(c), s \in rest}
RECURSIVE Chain(_, _)
Chain(o, sq) == IF Len(sq) = 1 THEN sq[1] ELSE [t |-> o, l |-> sq[1], r |-> Chain(o, Tail(sq))]
AndChains3 == {Chain("and", sq) : sq \in AtomSeqs(1, 3) \ {<<>>}}
OrChains3  == {Chain("or", sq) : sq \in {x \in AtomSeqs(1, 3) : Len(x) > 1}}
AndChainConds(kk) == AndChains3
ChainConds(kk)    == AndChains3 \cup OrChains3

\* universes over a tiny domain with three key columns
Narrow3(c) == IF c = 3 THEN {0, 1, 2} ELSE {0, 1}     \* the third column with three values
ThreeRows(kk) == SortedRecs(kk, 3)                      \* (L, m, R): with 2 rows per fragment the index is L, R, R
\* quick tier: a seeded random part of the records (the thorough tier takes them all)
Some40Recs(kk) == RandomSubset(40, AllRecs(kk))
OneType(kk) == {TLCEval([i \in 1..kk |-> IF RandomElement(1..2) = 1 THEN "ia" ELSE "o"])}
=============================================================================
