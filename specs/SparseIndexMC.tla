---------------------------- MODULE SparseIndexMC ----------------------------
EXTENDS SparseIndex, Json
\* Export of cases for replay into the real index code (Mode B): one JSON line per behaviour
\* Build -> NewKeyCondition -> Scan.
\*
\* Simulation: random samples instead of the full sets. Every generator takes a parameter that differs
\* between calls so that TLC does not cache it as a constant.
SimTup(kk, x) == [i \in 1..kk |-> IF WithNull /\ RandomElement(1..6) = 1 THEN Null ELSE RandomElement(Vals)]
SimRec(kk, x) == LET n == RandomElement(1..MaxRows)
                 IN SortSeq(TLCEval([i \in 1..n |-> SimTup(kk, x + i)]), RowLT)
SimRecs(kk) == {SimRec(kk, j) : j \in 1..2}

\* fl = 0: comparisons (and now and then an atom on a non-key column); fl = 1: also IN and string operators;
\* fl = 2: comparisons and matchphrase
SimAtom(kk, fl, x) ==
  LET r == RandomElement(1..40) IN
  IF r = 1 THEN NonKey
  ELSE IF fl = 1 /\ r \in 2..7 THEN [t |-> "in", c |-> RandomElement(1..kk), vs |-> RandomElement((SUBSET Vals) \ {{}})]
  ELSE IF fl = 1 /\ r \in 8..16 /\ {i \in 1..kk : ct[i] = "o"} # {}
       THEN [t |-> "strop", c |-> RandomElement({i \in 1..kk : ct[i] = "o"}), op |-> RandomElement(StrOps), v |-> RandomElement(Vals)]
  ELSE IF fl = 2 /\ r \in 2..12 /\ {i \in 1..kk : ct[i] = "o"} # {}
       THEN [t |-> "strop", c |-> RandomElement({i \in 1..kk : ct[i] = "o"}), op |-> "matchphrase", v |-> RandomElement(Vals)]
  ELSE [t |-> "cmp", c |-> RandomElement(1..kk), op |-> RandomElement(CmpOps), v |-> RandomElement(Vals)]

RECURSIVE SimTree(_, _, _, _)
SimTree(kk, fl, d, x) ==
  IF d = 0 \/ RandomElement(1..4) = 1 THEN SimAtom(kk, fl, x)
  ELSE [t |-> RandomElement({"and", "or"}), l |-> SimTree(kk, fl, d - 1, 2 * x), r |-> SimTree(kk, fl, d - 1, 2 * x + 1)]
SimFlavour(x) == LET r == RandomElement(1..8) IN IF r = 1 THEN 1 ELSE IF r = 2 THEN 2 ELSE 0
SimConds(kk) == {SimTree(kk, SimFlavour(j), CondDepth, j) : j \in 1..3}

\* time bounds on one key column (then that column is the integer column "time")
SimTB(kk, c, x) ==
  LET cols == (1..kk) \ StrCols(c) IN
  IF RandomElement(1..4) # 1 \/ cols = {} THEN NoTB
  ELSE LET lo == RandomElement({NegInf} \cup Vals)
           hi == RandomElement({PosInf} \cup {v \in Vals : v >= lo})
       IN [c |-> RandomElement(cols), lo |-> lo, hi |-> hi]
SimTBs(kk, c) == {SimTB(kk, c, j) : j \in 1..2}

\* column types: the time column is an integer column
SimTypes(kk) == {TLCEval([i \in 1..kk |-> IF RandomElement(1..3) = 1 THEN "ia" ELSE "o"]) : j \in 1..2}
BothTypes(kk) == {AllO(kk), [i \in 1..kk |-> "ia"]}
IntTypes(kk) == {[i \in 1..kk |-> "ia"]}

\* every kind of atom (self-tests of the deviations that concern IN and string operators)
AllAtoms(kk) == CmpAtoms(kk) \cup InAtoms(kk) \cup StrAtoms(kk) \cup {NonKey}

\* exhaustive configurations search with two settings only: MayCoversMatch covers the others
TwoSettings == {"autoc2m0", "exclc2m0"}

Export == (Len(hist) = Depth) => PrintT(<<"TRACE", ToJson(hist)>>)
=============================================================================
