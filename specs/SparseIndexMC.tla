---------------------------- MODULE SparseIndexMC ----------------------------
EXTENDS SparseIndex, Json
\* Export of cases for replay into the real index code (Mode B): one JSON line per behaviour
\* Build -> NewKeyCondition -> Scan.
\*
\* Simulation: random samples instead of the full sets. Every generator takes a parameter that differs
\* between calls so that TLC does not cache it as a constant.
SimTup(kk, x) == [i \in 1..kk |-> IF WithNull /\ RandomElement(1..6) = 1 THEN Null ELSE RandomElement(Vals)]
SimRec(kk, x) == LET n == RandomElement(1..MaxRows)
                 IN SortSeq(TLCEval([i \in 1..n |-> SimTup(kk, x + i)]), RowLT)
SimRecs(kk) == {SimRec(kk, j) : j \in 1..2}

SimAtom(kk, x) ==
  LET r == RandomElement(1..40) IN
  IF r = 1 THEN NonKey
  ELSE IF r \in 2..4 THEN [t |-> "in", c |-> RandomElement(1..kk), vs |-> RandomElement((SUBSET Vals) \ {{}})]
  ELSE IF r \in 5..7 THEN [t |-> "strop", c |-> RandomElement(1..kk), op |-> RandomElement(StrOps), v |-> RandomElement(Vals)]
  ELSE [t |-> "cmp", c |-> RandomElement(1..kk), op |-> RandomElement(CmpOps), v |-> RandomElement(Vals)]

RECURSIVE SimTree(_, _, _)
SimTree(kk, d, x) ==
  IF d = 0 \/ RandomElement(1..4) = 1 THEN SimAtom(kk, x)
  ELSE [t |-> RandomElement({"and", "or"}), l |-> SimTree(kk, d - 1, 2 * x), r |-> SimTree(kk, d - 1, 2 * x + 1)]
SimConds(kk) == {SimTree(kk, CondDepth, j) : j \in 1..3}

\* time bounds on one key column (then that column is the integer column "time")
SimTB(kk, x) == IF RandomElement(1..4) # 1 THEN NoTB
                ELSE LET lo == RandomElement({NegInf} \cup Vals)
                         hi == RandomElement({PosInf} \cup {v \in Vals : v >= lo})
                     IN [c |-> RandomElement(1..kk), lo |-> lo, hi |-> hi]
SimTBs(kk) == {SimTB(kk, j) : j \in 1..2}

\* exhaustive configurations search with two settings only: MayCoversMatch covers the others
TwoSettings == {"autoc2m0", "exclc2m0"}

Export == (Len(hist) = Depth) => PrintT(<<"TRACE", ToJson(hist)>>)
=============================================================================
