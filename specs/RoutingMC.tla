------------------------------ MODULE RoutingMC ------------------------------
EXTENDS Routing, Json
\* Model-checking constants of Routing.tla, a family of hash functions, the random condition
\* generator of the simulation runs and the export of behaviours for replay into the real
\* coordinator (points writer / shard mapper).

\* ---- hash functions: any function of the key sequence will do --------------------------------
Code == [host |-> 3, region |-> 11, a |-> 1, b |-> 2, c |-> 5, d |-> 7]
RECURSIVE HSum(_, _)
HSum(ks, i) == IF ks = <<>> THEN 0
               ELSE Code[Head(ks)[1]] * 31 + Code[Head(ks)[2]] * (2 * i + 1) + 7 * HSum(Tail(ks), i + 1)
MCHash(salt, ks) == HSum(ks, 1) * (2 * salt + 1) + salt * salt

\* ---- alphabets ----------------------------------------------------------------------------------
Keys2 == <<"host", "region">>
Vals2 == <<"a", "b">>
Vals3 == <<"a", "b", "c">>

Teq(k, v)  == [k |-> "teq", key |-> k, val |-> v]
Tneq(k, v) == [k |-> "tneq", key |-> k, val |-> v]
Tre(k, vs)  == [k |-> "tre", key |-> k, vals |-> vs]
Tnre(k, vs) == [k |-> "tnre", key |-> k, vals |-> vs]
Tany(k, vs) == [k |-> "tany", key |-> k, vals |-> vs]
Fgt(x) == [k |-> "fgt", num |-> x]
Flt(x) == [k |-> "flt", num |-> x]
Tm(op, t) == [k |-> op, t |-> t]

\* depth-3 exhaustive alphabets: equalities on both shard-key tags, a field comparison, another
\* operator on a shard-key tag, a time bound
AtomsSmall == {Teq("host", "a"), Teq("host", "b"), Teq("region", "a"), Fgt(1), Tneq("host", "a"), Tm("tge", 4)}
AtomsSmall5 == {Teq("host", "a"), Teq("host", "b"), Teq("region", "a"), Fgt(1), Tm("tge", 4)}
AtomsTiny  == {Teq("host", "a"), Teq("host", "b"), Teq("region", "a"), Fgt(1)}
\* depth-2 exhaustive alphabet, also the alphabet of the exported behaviours
AtomsFull == {Teq("host", "a"), Teq("host", "b"), Teq("host", "c"), Teq("region", "a"), Teq("region", "b"),
              Tneq("host", "a"), Tneq("region", "b"),
              Tre("host", <<"a", "c">>), Tre("host", <<"b">>), Tnre("host", <<"a", "b">>), Tany("host", <<"a", "b">>),
              Fgt(1), Flt(1),
              Tm("tge", 4), Tm("tgt", 3), Tm("tlt", 4), Tm("tle", 4), Tm("tge", 7), Tm("tlt", 12), Tm("tle", 8)}

\* timestamps on and around group boundaries (GroupDur = 4: offsets 0 = first ns, 1 = second ns,
\* 2 = middle, 3 = last ns of a group)
TimesSmall == {3, 4}
TimesSmall3 == {3, 4, 8}
TimesMid   == {0, 2, 3, 4, 7, 8}
TimesFull  == {0, 2, 3, 4, 5, 7, 8, 11, 12, 15}

\* ---- setups -------------------------------------------------------------------------------------
HashSetup(sk, m, pt, created, salt) ==
  [type |-> "hash", sk |-> sk, sk2 |-> sk, alter |-> 99, m |-> m, pt |-> pt, created |-> created, split |-> -1,
   bounds |-> <<>>, salt |-> salt]
\* ALTER MEASUREMENT .. SHARDKEY sk2 once the groups of `created' with an index below `alter' exist
AlterSetup(sk, sk2, alter, m, pt, created, salt) ==
  [type |-> "hash", sk |-> sk, sk2 |-> sk2, alter |-> alter, m |-> m, pt |-> pt, created |-> created, split |-> -1,
   bounds |-> <<>>, salt |-> salt]
RangeSetup(sk, bounds, created, split) ==
  [type |-> "range", sk |-> sk, sk2 |-> sk, alter |-> 99, m |-> Len(bounds) + 1, pt |-> Len(bounds) + 1, created |-> created,
   split |-> split, bounds |-> bounds, salt |-> 0]

ShardKeys == {<<>>, <<"host">>, <<"region">>, <<"host", "region">>}
K1(h) == << <<"host", h>> >>
K2(h, r) == << <<"host", h>>, <<"region", r>> >>
BoundsFor(sk) == IF sk = <<"host">> THEN {<< K1("b") >>, << K1("b"), K1("c") >>}
                 ELSE {<< K1("b") >>, << K2("a", "b"), K2("b", "a") >>}
RangeKeys == {<<"host">>, <<"host", "region">>}
AlterPairs == {<< <<"host">>, <<"region">> >>, << <<"host">>, <<"host", "region">> >>, << <<"host", "region">>, <<"host">> >>,
               << <<"region">>, <<>> >>, << <<>>, <<"host">> >>}
AlterSetups(m, pt, salts) == {AlterSetup(p[1], p[2], 1, m, pt, {0, 1}, salt) : p \in AlterPairs, salt \in salts}

SetupsQuick ==
  {HashSetup(sk, m, m, {0, 1}, salt) : sk \in ShardKeys, m \in {1, 2, 3}, salt \in {0, 1}}
  \cup UNION {{RangeSetup(sk, b, {0, 1}, s) : b \in BoundsFor(sk), s \in {-1, 0}} : sk \in RangeKeys}
  \cup AlterSetups(3, 3, {0})

\* for the two-value alphabet
SetupsQuick2 ==
  {HashSetup(<<>>, 2, 2, {0, 1}, 0), HashSetup(<<"host">>, 3, 3, {0, 1}, 0), HashSetup(<<"region">>, 2, 2, {0, 1}, 0),
   HashSetup(<<"host", "region">>, 3, 3, {0, 1}, 0),
   RangeSetup(<<"host">>, << K1("b") >>, {0, 1}, 0), RangeSetup(<<"host", "region">>, << K2("a", "b"), K2("b", "a") >>, {0, 1}, 0),
   AlterSetup(<<"host">>, <<"region">>, 1, 3, 3, {0, 1}, 0), AlterSetup(<<"host", "region">>, <<"host">>, 1, 2, 2, {0, 1}, 0)}

SetupsThorough ==
  {HashSetup(sk, m, m, {0, 1, 3}, salt) : sk \in ShardKeys, m \in {1, 2, 3, 4}, salt \in {0, 1, 2}}
  \cup {HashSetup(sk, 2, 4, {0}, 1) : sk \in ShardKeys}
  \cup UNION {{RangeSetup(sk, b, {0, 1}, s) : b \in BoundsFor(sk), s \in {-1, 0, 1}} : sk \in RangeKeys}
  \cup AlterSetups(3, 3, {0, 1}) \cup AlterSetups(2, 4, {0})

SetupsThorough2 ==
  {HashSetup(sk, m, m, {0, 1}, 0) : sk \in ShardKeys, m \in {2, 3, 4}}
  \cup {HashSetup(sk, 3, 3, {0, 1}, 1) : sk \in ShardKeys}
  \cup {RangeSetup(<<"host">>, << K1("b") >>, {0, 1}, s) : s \in {-1, 0}}
  \cup {RangeSetup(<<"host", "region">>, b, {0, 1}, s) : b \in {<< K1("b") >>, << K2("a", "b"), K2("b", "a") >>}, s \in {-1, 0}}
  \cup AlterSetups(3, 3, {0})

SetupsExport ==
  {HashSetup(sk, m, 4, {0, 1, 3}, 0) : sk \in ShardKeys, m \in {2, 3, 4}}
  \cup {HashSetup(sk, m, m, {1}, 0) : sk \in ShardKeys, m \in {1, 8}}
  \cup UNION {{RangeSetup(sk, b, {0, 1}, s) : b \in BoundsFor(sk), s \in {-1, 0, 1}} : sk \in RangeKeys}
  \cup AlterSetups(3, 4, {0}) \cup AlterSetups(4, 4, {0})

SetupsExportQuick ==
  {HashSetup(sk, 3, 4, {0, 1, 3}, 0) : sk \in ShardKeys}
  \cup {HashSetup(<<"host">>, 4, 4, {1}, 0), HashSetup(<<"host", "region">>, 8, 8, {1}, 0)}
  \cup {RangeSetup(<<"host">>, << K1("b"), K1("c") >>, {0, 1}, 0), RangeSetup(<<"host">>, << K1("b") >>, {0, 1}, -1),
        RangeSetup(<<"host", "region">>, << K2("a", "b"), K2("b", "a") >>, {0, 1}, 1)}
  \cup AlterSetups(3, 4, {0})

\* ---- simulation: a few random trees per step ----------------------------------------------------
\* (parameterised by the step so that TLC does not cache them as constants)
MaybePar(e) == Wrap(RandomElement(1..3) = 1, e)
RECURSIVE RandTree(_, _)
RandTree(d, x) ==
  IF d <= 1 \/ RandomElement(1..4) = 1 THEN RandomElement(Atoms)
  ELSE [k |-> RandomElement({"and", "or"}), l |-> MaybePar(RandTree(d - 1, 2 * x)), r |-> MaybePar(RandTree(d - 1, 2 * x + 1))]
\* make a random tree one that the grammar can express: parentheses where the precedence needs
\* them, no time bound below an OR
RECURSIVE Sanitize(_, _)
Sanitize(c, uo) ==
  IF IsBin(c) THEN LET u == uo \/ c.k = "or"
                       l == Sanitize(c.l, u)
                       r == Sanitize(c.r, u)
                   IN [k |-> c.k, l |-> Wrap(~OkLeft(c.k, l), l), r |-> Wrap(~OkRight(c.k, r), r)]
  ELSE IF c.k = "par" THEN [k |-> "par", e |-> Sanitize(c.e, uo)]
  ELSE IF uo /\ IsTime(c) THEN Fgt(1)
  ELSE c
\* chains: a left-deep sequence of 3..6 operands (atoms and small parenthesised groups) joined by AND / OR, the
\* shape `a AND b AND c AND (d OR e)` of hand-written WHERE clauses; deeper than the balanced trees above, so that
\* the pruning code's accumulation over long conjunctions (cross products of alternatives, shared buffers) is exercised
EqAtoms == {a \in Atoms : a.k = "teq"}
ChainAtom(x) == IF RandomElement(1..4) <= 3 /\ EqAtoms # {} THEN RandomElement(EqAtoms) ELSE RandomElement(Atoms)
Operand(x) ==
  IF RandomElement(1..3) = 1
  THEN [k |-> "par", e |-> [k |-> RandomElement({"and", "or", "or"}), l |-> ChainAtom(x), r |-> ChainAtom(x + 1)]]
  ELSE ChainAtom(x)
RECURSIVE ChainFrom(_, _, _)
ChainFrom(acc, m, x) ==
  IF m = 0 THEN acc
  ELSE ChainFrom([k |-> RandomElement({"and", "and", "and", "or"}), l |-> acc, r |-> Operand(x + m)], m - 1, x)
RandChain(x) == ChainFrom(Operand(x), RandomElement(2..5), x)
\* conjunctive normal forms over tag equalities: clause AND clause AND .., a clause being one equality or a
\* parenthesised OR of 2..3 equalities (what TargetShards' cross product of alternatives is written for)
Clause(x) ==
  LET a == RandomElement(EqAtoms) b == RandomElement(EqAtoms) c == RandomElement(EqAtoms) sel == RandomElement(1..5)
  IN IF sel <= 3 THEN a
     ELSE IF sel = 4 THEN [k |-> "par", e |-> [k |-> "or", l |-> a, r |-> b]]
     ELSE [k |-> "par", e |-> [k |-> "or", l |-> [k |-> "or", l |-> a, r |-> b], r |-> c]]
RECURSIVE CNFFrom(_, _, _)
CNFFrom(acc, m, x) == IF m = 0 THEN acc ELSE CNFFrom([k |-> "and", l |-> acc, r |-> Clause(x + m)], m - 1, x)
RandCNF(x) == IF EqAtoms = {} THEN RandChain(x) ELSE CNFFrom(Clause(x), RandomElement(1..5), x)
\* (one choice for the last step: in -simulate mode Export prints every generated successor)
SimConds(x) ==
  IF x >= Depth - 1
  THEN {Sanitize(TLCEval(IF x % 2 = 0 THEN RandTree(MaxLevel, x) ELSE RandChain(x)), FALSE)}
  ELSE {Sanitize(TLCEval(RandTree(MaxLevel, x + 1)), FALSE), Sanitize(TLCEval(RandChain(x + 2)), FALSE),
        Sanitize(TLCEval(RandCNF(x + 3)), FALSE), Sanitize(TLCEval(RandCNF(x + 4)), FALSE)}

Export == (n = Depth) => PrintT(<<"TRACE", ToJson(hist)>>)
=============================================================================
