----------------------------- MODULE RaftStorage -----------------------------
(***************************************************************************)
(* The on-disk raft log store of openGemini (lib/raftlog, RaftDiskStorage)  *)
(* next to the reference it has to agree with (etcd raft MemoryStorage).    *)
(*                                                                         *)
(* Implementation level (st.files ..): the FILE LAYOUT. A file is a         *)
(* sequence of at most FileCap slots [i, t, d, s] (index, term, payload     *)
(* class, id of the Save that wrote it); the last file is the "current"     *)
(* one (entryLog.current), the others are entryLog.files. FileCap stands    *)
(* for maxNumEntries = 30000 (lib/raftlog/log.go). The payloads of a file   *)
(* are laid out one after the other behind the slot table; a payload of     *)
(* class Big weighs one unit and a file holds at most SizeCap units         *)
(* (SizeCap stands for maxLogFileSize = 32 MiB: AddEntries rotates BEFORE   *)
(* writing an entry when the file has maxNumEntries slots OR when           *)
(* offset + 4 + len(payload) > maxLogFileSize). Rotation therefore happens  *)
(* in the middle of a batch, appending or conflicting; a file rolled by     *)
(* size has fewer than FileCap slots, and whatever the conflict handling    *)
(* did not zero behind the roll point stays in the old file.                *)
(*   Save         = RaftDiskStorage.Save -> entryLog.AddEntries (slotGe,    *)
(*                  drop later files, zero the tail, append, rotate by      *)
(*                  slot count or by size) +                                *)
(*                  metaFile.StoreHardState / StoreSnapshot                 *)
(*   CreateSnapshot = RaftDiskStorage.CreateSnapshot                        *)
(*   DeleteBefore = RaftDiskStorage.DeleteBefore -> entryLog.deleteBefore   *)
(*                  (whole files before the file holding the index)         *)
(*   Close/Reopen = RaftDiskStorage.Close / raftlog.Init (openEntryLogs,    *)
(*                  re-applies deleteBefore(snapshot index))                *)
(* Reference level (st.ref): MemoryStorage's dummy entry (off, offT) and    *)
(* entries; Append / Compact / CreateSnapshot exactly as etcd defines them. *)
(* Property C17: every read operator of the implementation level answers    *)
(* what the reference answers (ReadsConsistent), in every reachable state.  *)
(*                                                                         *)
(* Result encoding of Term(x): a term >= 0, or C (ErrCompacted) or U        *)
(* (ErrUnavailable). Entries(lo,hi): a sequence of entries, or EC / EU.     *)
(***************************************************************************)
EXTENDS Integers, Sequences, FiniteSets, TLC, SequencesExt, FiniteSetsExt

CONSTANTS FileCap,    \* slots per file (stands for 30000)
          MaxIdx,     \* largest log index
          MaxTerm,    \* terms are 1..MaxTerm
          Classes,    \* payload classes (0 = empty payload)
          MaxBatch,   \* entries per Save
          MaxSaves,   \* bound on Save actions
          MaxReopen,  \* bound on Reopen actions
          SizeCap,    \* payload units per file (stands for the 32 MiB limit of a file)
          MaxBig,     \* bound on the Big payloads saved in one behaviour (0 = rotation by slot count only); a Huge one counts 3
          BigClasses, \* the heavy payload classes in use: a subset of {Big, Huge}
          Depth,      \* number of actions per behaviour
          Dev         \* deviations; {} = the design

VARIABLES st,    \* [files, keep, snap, hard, ref, clob, vis]
          open,  \* store is open
          ns,    \* number of saves so far (ids of saves)
          nr,    \* number of reopens so far
          nb,    \* Big payloads saved so far (a Huge one counts 3)
          hist

vars == <<st, open, ns, nr, nb, hist>>
view == <<st, open, ns, nr, nb>>

ASSUME SizeCap \in Nat \ {0} /\ MaxBig \in Nat /\ FileCap \in Nat \ {0} /\ BigClasses \subseteq {3, 4} /\ BigClasses # {}

C == -1
U == -2
\* error results of Entries (records, so that they compare with entry sequences)
EC == <<[i |-> C, t |-> 0, d |-> 0, s |-> 0]>>
EU == <<[i |-> U, t |-> 0, d |-> 0, s |-> 0]>>

-----------------------------------------------------------------------------
\* ---------- reference: MemoryStorage ----------
RFirst(s) == s.ref.off + 1
RLast(s)  == s.ref.off + Len(s.ref.ents)
RTerm(s, x) == IF x < s.ref.off THEN C
               ELSE IF x = s.ref.off THEN s.ref.offT
               ELSE IF x <= RLast(s) THEN s.ref.ents[x - s.ref.off].t
               ELSE U
REnt(s, x) == LET e == s.ref.ents[x - s.ref.off] IN [i |-> x, t |-> e.t, d |-> e.d, s |-> e.s]
REntries(s, lo, hi) ==
  IF lo <= s.ref.off THEN EC
  ELSE IF hi > RLast(s) + 1 THEN EU      \* (MemoryStorage panics here; the statement says "unavailable")
  ELSE IF s.ref.ents = <<>> THEN EU
  ELSE [k \in 1..(hi - lo) |-> REnt(s, lo + k - 1)]

\* size limit of Entries: the longest prefix whose total size is <= max, but at least one entry
Size(e) == 1 + e.d
RECURSIVE Limit(_, _, _)
Limit(es, max, used) ==
  IF es = <<>> THEN <<>>
  ELSE IF used > 0 /\ used + Size(Head(es)) > max THEN <<>>
  ELSE <<Head(es)>> \o Limit(Tail(es), max, used + Size(Head(es)))
Limited(es, max) == IF es = EC \/ es = EU THEN es ELSE Limit(es, max, 0)

\* MemoryStorage.Append of entries s0..s0+n-1 (s0 > off, s0 <= last+1)
RAppend(r, s0, batch) == [r EXCEPT !.ents = SubSeq(@, 1, s0 - r.off - 1) \o batch]
\* MemoryStorage.Compact(ci)
RCompact(r, ci) == IF ci <= r.off THEN r
                   ELSE [off |-> ci, offT |-> r.ents[ci - r.off].t,
                         ents |-> SubSeq(r.ents, ci - r.off + 1, Len(r.ents))]

-----------------------------------------------------------------------------
\* ---------- implementation: files and slots ----------
RECURSIVE Flat(_)
Flat(fs) == IF fs = <<>> THEN <<>> ELSE Head(fs) \o Flat(Tail(fs))

NF(s)  == Len(s.files)

\* payload weight: the classes of CONSTANT Classes are small (a file's 30000 small payloads do not add up to
\* one unit); class Big weighs one unit; class Huge is a payload that does not even fit into an empty file
\* (more than the 31 MiB payload area). Used(file) = where the next payload goes (the "offset" of
\* AddEntries, which is recomputed from the last kept slot after a truncation and after a reopen).
Big  == 3
Huge == 4
Weight(d) == IF d = Big THEN 1 ELSE IF d = Huge THEN SizeCap + 1 ELSE 0
Cost(d)   == IF d = Huge THEN 3 ELSE 1
RECURSIVE Used(_)
Used(file) == IF file = <<>> THEN 0 ELSE Weight(Head(file).d) + Used(Tail(file))
\* position k of a batch carries a Big payload iff bit k of the mask bm is set
Bit(bm, k) == (bm \div (2 ^ (k - 1))) % 2 = 1
NBig(bm, n) == Cardinality({k \in 1..n : Bit(bm, k)})
Cur(s) == s.files[NF(s)]
Slots(s) == Flat(s.files)

\* logFile.slotGe: 0 = "-1" (index below this file), k in 1..Len = slot, Len+1 = first empty slot / beyond
SlotIn(file, x) ==
  IF file = <<>> \/ x < file[1].i THEN 0
  ELSE LET ks == {k \in 1..Len(file) : file[k].i >= x}
       IN IF ks = {} THEN Len(file) + 1
          ELSE IF "slot_search_off_by_one" \in Dev /\ Min(ks) < Len(file) THEN Min(ks) + 1 ELSE Min(ks)

\* logFile.firstIndex (0 for a file without entries)
FirstOf(file) == IF file = <<>> THEN 0 ELSE file[1].i

\* entryLog.slotGe: [f, k]; k = 0 means "not in the log (compacted)"
Loc(s, x) ==
  LET nf == NF(s)
      kc == SlotIn(Cur(s), x)
  IN IF kc >= 1 THEN [f |-> nf, k |-> kc]
     ELSE IF nf = 1 THEN [f |-> nf, k |-> 0]
     ELSE LET cands == {j \in 1..(nf - 1) : FirstOf(s.files[j]) >= x}
              j0 == IF cands = {} THEN nf ELSE Min(cands)
          IN IF j0 <= nf - 1 /\ FirstOf(s.files[j0]) = x THEN [f |-> j0, k |-> 1]
             ELSE LET j1 == IF j0 > 1 THEN j0 - 1 ELSE j0
                  IN [f |-> j1, k |-> SlotIn(s.files[j1], x)]

FirstI(s)   == IF Slots(s) = <<>> THEN 1 ELSE Slots(s)[1].i
LastRawI(s) == IF Slots(s) = <<>> THEN 0 ELSE Slots(s)[Len(Slots(s))].i
LastI(s)    == IF LastRawI(s) < s.snap.i THEN s.snap.i ELSE LastRawI(s)

SlotAt(s, x) == LET l == Loc(s, x) IN
  IF l.k >= 1 /\ l.k <= Len(s.files[l.f]) /\ s.files[l.f][l.k].i = x THEN s.files[l.f][l.k] ELSE [i |-> 0]

\* RaftDiskStorage.Term as it has to be (the term of entry first-1 is retained: st.keep)
TermDesign(s, x) ==
  IF x < FirstI(s) - 1 THEN C
  ELSE IF x = FirstI(s) - 1 THEN s.keep
  ELSE IF SlotAt(s, x).i = x THEN SlotAt(s, x).t
  ELSE U
\* ... and as implemented (deviation model of finding F-C17-2): entryLog.seekEntry answers index 0
\* with term 0, an index below the first stored entry and ANY index of a store without entries with
\* ErrCompacted; RaftDiskStorage.Term then consults only the snapshot index/term of the meta file
TermImpl(s, x) ==
  IF x = 0 THEN 0
  ELSE IF SlotAt(s, x).i = x THEN SlotAt(s, x).t
  ELSE IF x < s.snap.i THEN C
  ELSE IF x = s.snap.i THEN s.snap.t
  ELSE IF Slots(s) = <<>> \/ x < FirstI(s) THEN C
  ELSE U
TermI(s, x) == IF "impl_term_classification" \in Dev THEN TermImpl(s, x) ELSE TermDesign(s, x)

\* payload as a read sees it; deviation model of finding F-C17-1: the payload of a file's first slot
\* reads as empty once the clobbered length prefix is what the reader consults (st.vis)
Seen(s, e) == IF "impl_trunc_clobbers_payload" \in Dev /\ e.i \in s.vis THEN [e EXCEPT !.d = 0, !.s = 0] ELSE e

\* entryLog.allEntries: start at slotGe(lo), walk slots and files forward while index < hi
RECURSIVE TakeBelow(_, _)
TakeBelow(es, hi) == IF es = <<>> \/ Head(es).i >= hi THEN <<>> ELSE <<Head(es)>> \o TakeBelow(Tail(es), hi)
EntriesI(s, lo, hi) ==
  IF lo < FirstI(s) THEN EC
  ELSE IF hi > LastRawI(s) + 1 THEN EU
  ELSE IF Slots(s) = <<>> THEN EU
  ELSE LET l == Loc(s, lo)
           \* an empty slot of a file that is not the current one (file rolled by size) means "go on with the
           \* next file", not "end of the log"
           later == IF "scan_stops_at_short_file" \in Dev /\ l.k >= 1 /\ l.f < NF(s) /\ Len(s.files[l.f]) < FileCap
                      THEN <<>> ELSE Flat(SubSeq(s.files, l.f + 1, NF(s)))
           from == IF l.k = 0 THEN Slots(s)
                   ELSE SubSeq(s.files[l.f], l.k, Len(s.files[l.f])) \o later
           got == TakeBelow(from, hi)
       IN [k \in 1..Len(got) |-> Seen(s, got[k])]

-----------------------------------------------------------------------------
\* entryLog.AddEntries
\* the append loop: before every entry "if l.nextEntryIdx >= maxNumEntries || offset+4+len(re.Data) >
\* maxLogFileSize then rotate". stale = the old slots that physically follow the write position in the
\* current file and were NOT zeroed by the conflict handling (<<>> in the design): writing a slot
\* overwrites the stale slot at that position; a rotation leaves the rest of them behind in the old file.
\* An EMPTY file is never rolled: the entry goes into it however large it is (a Huge payload makes the
\* file longer than the limit, and whatever comes next rolls it). Deviation: the size test alone decides, an
\* empty file is moved to the list of rolled files.
Rolls(file, e) == \/ Len(file) >= FileCap
                  \/ /\ Used(file) + Weight(e.d) > SizeCap
                     /\ (file # <<>> \/ "oversize_rolls_empty_file" \in Dev)
RECURSIVE AppendAll(_, _, _)
AppendAll(fs, batch, stale) ==
  LET n == Len(fs)
  IN IF batch = <<>> THEN [fs EXCEPT ![n] = @ \o stale]
     ELSE LET e == Head(batch)
          IN IF Rolls(fs[n], e)                                     \* rotate (by slot count or by size)
               THEN LET left  == [fs EXCEPT ![n] = @ \o stale]
                        first == IF "size_roll_drops_entry" \in Dev /\ Len(fs[n]) < FileCap THEN <<>> ELSE <<e>>
                    IN AppendAll(Append(left, first), Tail(batch), <<>>)
               ELSE AppendAll([fs EXCEPT ![n] = Append(@, e)], Tail(batch),
                              IF stale = <<>> THEN <<>> ELSE Tail(stale))

Truncated(s, l) ==   \* files after "remove the existing entry and all the entries after it"
  IF l.k = 0 \/ l.k > Len(s.files[l.f]) THEN s.files
  ELSE LET keepSlots == IF "trunc_keeps_conflict_slot" \in Dev THEN l.k ELSE l.k - 1
           head == SubSeq(s.files, 1, l.f - 1) \o <<SubSeq(s.files[l.f], 1, keepSlots)>>
       IN IF "trunc_keeps_later_files" \in Dev /\ l.f < NF(s)
            THEN SubSeq(s.files, l.f + 1, NF(s)) \o head    \* forgotten files stay on disk; the cut file becomes current
            ELSE head

\* the old slots from the conflict slot on that stay on disk although they are superseded: none in the
\* design (current file: slots [conflict slot, nextEntryIdx) are zeroed; earlier file: [conflict slot,
\* maxNumEntries)). Deviations: only the part of the old tail that the new batch of n entries "does not
\* cover" is zeroed - wrong as soon as the batch rotates before it ends.
Stale(s, l, n) ==
  IF l.k = 0 \/ l.k > Len(s.files[l.f]) THEN <<>>
  ELSE LET file == s.files[l.f]
           upto == IF l.k + n - 1 < Len(file) THEN l.k + n - 1 ELSE Len(file)
       IN IF \/ l.f = NF(s) /\ "conflict_zero_only_uncovered_tail" \in Dev
             \/ l.f < NF(s) /\ "trunc_zero_only_uncovered_tail" \in Dev
            THEN SubSeq(file, l.k, upto) ELSE <<>>

\* shadow of the real code's zero-fill after a truncation INTO AN EARLIER FILE (entrylog.go:163): the
\* slots from the conflict slot to the end of the 1 MiB slot area are zeroed with FileWrapper.WriteSlice,
\* which puts a 4-byte length prefix in front of the buffer, so the fill ends 4 bytes late: at
\* logFileOffset+4. Those 4 bytes are the length prefix of the payload of the file's FIRST slot, which is
\* thereby zeroed on disk. Slot 1 itself being rewritten (conflict at the file's first index) repairs it.
\* (The same 4-byte overrun of a truncation inside the current file, entrylog.go:139, ends at most at
\* byte 960004 of the slot area, which is unused: 30000 slots of 32 bytes in a 1 MiB area.)
NewClob(s, l) ==
  IF l.k >= 2 /\ l.k <= Len(s.files[l.f]) /\ l.f < NF(s)
    THEN {s.files[l.f][1].i} ELSE {}

FirstSlotIdx(fs) == {fs[j][1].i : j \in {jj \in 1..Len(fs) : fs[jj] # <<>>}}

-----------------------------------------------------------------------------
ObsTerms(s)  == [x \in 1..(MaxIdx + 2) |-> RTerm(s, x - 1)]        \* position x = index x-1
ImplTerms(s) == [x \in 1..(MaxIdx + 2) |-> TermImpl(s, x - 1)]
Obs(s) == [first |-> RFirst(s), last |-> RLast(s),
           terms |-> ObsTerms(s), iterms |-> ImplTerms(s),
           ents  |-> [k \in 1..Len(s.ref.ents) |-> REnt(s, s.ref.off + k)],
           snap  |-> s.snap, hard |-> s.hard,
           files |-> [j \in 1..NF(s) |-> [fi |-> IF s.files[j] = <<>> THEN 0 ELSE s.files[j][1].i, n |-> Len(s.files[j]),
                                           u |-> Used(s.files[j])]],
           cap   |-> [slots |-> FileCap, units |-> SizeCap, big |-> MaxBig],
           clob  |-> SetToSeq(s.clob), vis |-> SetToSeq(s.vis)]

Log(a, args, res) == hist' = Append(hist, [a |-> a, args |-> args, res |-> res, exp |-> Obs(st')])

-----------------------------------------------------------------------------
NoSnap == [i |-> 0, t |-> 0, d |-> 0]
NoHard == [t |-> 0, v |-> 0, c |-> 0]

Init == /\ st = [files |-> << <<>> >>, keep |-> 0, snap |-> NoSnap, hard |-> NoHard,
                 ref |-> [off |-> 0, offT |-> 0, ents |-> <<>>], clob |-> {}, vis |-> {}]
        /\ open = TRUE /\ ns = 0 /\ nr = 0 /\ nb = 0 /\ hist = <<>>

\* term of the entry before s0 (a leader never appends a smaller term)
TermFloor(s, s0) == LET t == RTerm(s, s0 - 1) IN IF t < 1 THEN 1 ELSE t

\* Save(h, entries s0..s0+n-1 of term t and class d - class bc (Big / Huge) at the positions of mask bm -, snapshot at si):
\* n = 0 = no entries, h = 0 = no hard state, si = 0 = no snapshot. Entries continue the log (s0 = last+1),
\* overlap or conflict (s0 <= last).
Save(h, s0, n, t, d, bm, bc, si) ==
  LET id    == ns + 1
      cls(k) == IF Bit(bm, k) THEN bc ELSE d
      batch == [k \in 1..n |-> [i |-> s0 + k - 1, t |-> t, d |-> cls(k), s |-> id]]
      l     == Loc(st, s0)
      fs1   == IF n = 0 THEN st.files ELSE AppendAll(Truncated(st, l), batch, Stale(st, l, n))
      ref1  == IF n = 0 THEN st.ref ELSE RAppend(st.ref, s0, [k \in 1..n |-> [t |-> t, d |-> cls(k), s |-> id]])
      last1 == ref1.off + Len(ref1.ents)
      cl1   == IF n = 0 THEN st.clob
               ELSE ({x \in st.clob : x < s0} \cup NewClob(st, l)) \cap FirstSlotIdx(fs1)
      snap1 == IF si = 0 THEN st.snap ELSE [i |-> si, t |-> ref1.ents[si - ref1.off].t, d |-> id]
      hard1 == IF h = 0 THEN st.hard ELSE [t |-> IF n > 0 THEN t ELSE TermFloor(st, last1 + 1), v |-> id, c |-> last1]
  IN /\ open /\ ns < MaxSaves
     /\ n > 0 \/ h > 0 \/ si > 0
     /\ bm < 2 ^ n /\ nb + NBig(bm, n) * Cost(bc) <= MaxBig
     /\ si = 0 \/ (si > st.snap.i /\ si > ref1.off /\ si <= last1)
     /\ st' = [st EXCEPT !.files = fs1, !.ref = ref1, !.clob = cl1,
                         !.vis = IF n = 0 THEN @ ELSE {x \in @ : x < s0} \cap cl1,
                         !.snap = snap1, !.hard = hard1]
     /\ ns' = ns + 1
     /\ nb' = nb + NBig(bm, n) * Cost(bc)
     /\ UNCHANGED <<open, nr>>
     /\ Log("Save", [h |-> h, s0 |-> s0, n |-> n, t |-> t, d |-> d, bm |-> bm, bc |-> bc, si |-> si, id |-> id], "ok")

SaveArgs ==
  {a \in [h : {0, 1}, s0 : 1..MaxIdx, n : 0..MaxBatch, t : 1..MaxTerm, d : Classes, si : 0..MaxIdx] :
     /\ a.n = 0 => (a.s0 = 1 /\ a.t = 1 /\ a.d = 0)
     /\ a.n > 0 => /\ a.s0 >= RFirst(st) /\ a.s0 > st.snap.i /\ a.s0 <= RLast(st) + 1
                   /\ a.s0 + a.n - 1 <= MaxIdx
                   /\ a.t >= TermFloor(st, a.s0)}
\* the Save arguments offered in one step; simulation configs override this with a random sample
SaveChoices == SaveArgs
\* the masks (positions of the Big payloads) offered for a batch of n entries; simulation configs override it
Masks(n) == {bm \in 0..(2 ^ n - 1) : nb + NBig(bm, n) <= MaxBig}
MaskChoices(n) == Masks(n)
HeavyChoices(bm) == IF bm = 0 THEN {Big} ELSE BigClasses

\* CreateSnapshot(i) for a stored index newer than the current snapshot
CreateSnapshot(i) ==
  /\ open
  /\ i > st.snap.i /\ i >= RFirst(st) /\ i <= RLast(st)
  /\ st' = [st EXCEPT !.snap = [i |-> i, t |-> RTerm(st, i), d |-> 0]]
  /\ UNCHANGED <<open, ns, nr, nb>>
  /\ Log("CreateSnapshot", [i |-> i], "ok")

\* entryLog.deleteBefore(x): delete the files before the one that slotGe(x) names
FilesFrom(s, x) ==
  LET l == Loc(s, x)
  IN IF l.k = 0 THEN s.files
     ELSE IF "delete_before_drops_holder" \in Dev /\ l.f < NF(s) /\ l.k > 1 THEN SubSeq(s.files, l.f + 1, NF(s))
     ELSE SubSeq(s.files, l.f, NF(s))

\* what prefix deletion at x has to leave: everything from the first index of the file that holds x
\* (declarative; FilesFrom above is the operational search of the code)
HolderFirst(s, x) == LET fsts == {f \in FirstSlotIdx(s.files) : f <= x}
                     IN IF fsts = {} THEN FirstI(s) ELSE Max(fsts)

Pruned(s, x) ==
  LET fs == FilesFrom(s, x)
      nf == HolderFirst(s, x)
  IN [s EXCEPT !.files = fs,
               !.keep  = IF nf > FirstI(s) THEN SlotAt(s, nf - 1).t ELSE @,
               !.ref   = IF nf > FirstI(s) THEN RCompact(@, nf - 1) ELSE @,
               !.clob  = @ \cap FirstSlotIdx(fs),
               !.vis   = @ \cap FirstSlotIdx(fs)]

DeleteBefore(x) ==
  /\ open
  /\ x >= 1 /\ x >= FirstI(st) - 1 /\ x <= LastRawI(st) + 1
  /\ st' = Pruned(st, x)
  /\ UNCHANGED <<open, ns, nr, nb>>
  /\ Log("DeleteBefore", [i |-> x], IF Loc(st, x).k = 0 THEN "err" ELSE "ok")

Close ==
  /\ open
  /\ open' = FALSE
  /\ UNCHANGED <<st, ns, nr, nb>>
  /\ Log("Close", [x |-> 0], "ok")

\* raftlog.Init: the slot tables are re-read, every length prefix now comes from disk (vis = clob), and the
\* files before the one holding the snapshot index are deleted again (deleteBefore(snapshot index))
Reopen ==
  /\ ~open /\ nr < MaxReopen
  /\ open' = TRUE
  /\ nr' = nr + 1
  /\ LET s1 == [st EXCEPT !.vis = st.clob]
     IN st' = IF st.snap.i > 0 THEN Pruned(s1, st.snap.i) ELSE s1
  /\ UNCHANGED <<ns, nb>>
  /\ Log("Reopen", [x |-> 0], "ok")

\* indexes offered to CreateSnapshot / DeleteBefore in one step (simulation configs override them)
SnapChoices == 1..MaxIdx
DelChoices  == 1..(MaxIdx + 1)

Next ==
  /\ Len(hist) < Depth
  /\ \/ \E a \in SaveChoices : \E bm \in MaskChoices(a.n) : \E bc \in HeavyChoices(bm) :
           Save(a.h, a.s0, a.n, a.t, a.d, bm, bc, a.si)
     \/ \E i \in SnapChoices : CreateSnapshot(i)
     \/ \E i \in DelChoices : DeleteBefore(i)
     \/ Close
     \/ Reopen

Spec == Init /\ [][Next]_vars

-----------------------------------------------------------------------------
Idx == 0..(MaxIdx + 1)

TypeOK == /\ open \in BOOLEAN
          /\ \A j \in 1..NF(st) : /\ Len(st.files[j]) <= FileCap
                                    /\ (Used(st.files[j]) <= SizeCap \/ (Len(st.files[j]) = 1 /\ st.files[j][1].d = Huge))
          /\ nb \in 0..MaxBig
          /\ st.clob \subseteq 1..MaxIdx /\ st.vis \subseteq st.clob

\* the stored slots are exactly a contiguous run of indexes; only the current file may be empty; a file
\* that is not the current one was rolled because it was full: by slot count or by size (a Huge payload
\* rolls whatever file has an entry)
Contiguous == /\ \A k \in 1..(Len(Slots(st)) - 1) : Slots(st)[k + 1].i = Slots(st)[k].i + 1
              /\ \A j \in 1..(NF(st) - 1) : \/ Len(st.files[j]) = FileCap
                                            \/ (st.files[j] # <<>> /\ (Used(st.files[j]) >= SizeCap \/ Huge \in BigClasses))

TermMonotone == /\ \A k \in 1..(Len(Slots(st)) - 1) : Slots(st)[k].t <= Slots(st)[k + 1].t
                /\ Slots(st) # <<>> => st.keep <= Slots(st)[1].t

\* C17: every read operator answers what the reference dictates
ReadsConsistent ==
  /\ FirstI(st) = RFirst(st)
  /\ LastI(st) = RLast(st)
  /\ \A x \in Idx : TermI(st, x) = RTerm(st, x)
  /\ \A lo \in 1..(MaxIdx + 1) : \A hi \in (lo + 1)..(MaxIdx + 2) :
        /\ EntriesI(st, lo, hi) = REntries(st, lo, hi)
        /\ \A m \in {0, 2, 3} : Limited(EntriesI(st, lo, hi), m) = Limited(REntries(st, lo, hi), m)

\* the snapshot names a stored or just-compacted index with its term
SnapshotSane == st.snap.i > 0 => (st.snap.i <= RLast(st) /\ (st.snap.i >= st.ref.off => RTerm(st, st.snap.i) = st.snap.t))
=============================================================================
