------------------------------- MODULE Codec -------------------------------
(***************************************************************************)
(* Property C07: every persistent and wire encoding decodes to exactly     *)
(* what was encoded, encoding never fails on a value the write paths       *)
(* accept, and a log record cut short by a crash is recognised as          *)
(* incomplete.                                                             *)
(*                                                                         *)
(* The module transcribes the MODE-SELECTION decision tables of the column *)
(* encoders over an abstract alphabet of value classes:                    *)
(*   Append      = one run of values of one class added to the column      *)
(*   Encode      = ColumnBuilder.EncodeColumn (engine/immutable/           *)
(*                 column_builder.go): ColVal.Split into segments of Seg   *)
(*                 rows, per segment EncodeColumnHeader / rewriteType /    *)
(*                 CanEncodeOneRowMode (block kind one | full | empty |    *)
(*                 bitmap) and the value block:                            *)
(*                   IntModes   = lib/encoding/int.go  Integer.Encoding    *)
(*                   TimeModes  = lib/encoding/timestamp.go Time.Encoding  *)
(*                   FloatModes = lib/compress/float.go adaptiveEncoding / *)
(*                                adaptiveEncodingWithMLF (+ mlf.prepare)  *)
(*                   StrModes   = lib/encoding/string.go String.Encoding   *)
(*                   BoolModes  = lib/encoding/bool.go                     *)
(*   Decode      = DecodeColumnHeader + the Decoding function the mode     *)
(*                 byte dispatches to, abstractly: what the stored form    *)
(*                 can reproduce (const-delta = first value, first delta,  *)
(*                 count; same-value = one value and a count; ...)         *)
(*   LogAppend / Cut / Replay = WAL.writeBinary, a crash that leaves a     *)
(*                 prefix of the log file, WAL.replayWalFile /             *)
(*                 replayPhysicRecord (engine/wal.go)                      *)
(*   Marshal / CutBatch / Unmarshal = influx.FastMarshalMultiRows, a       *)
(*                 proper prefix of the batch, FastUnmarshalMultiRows      *)
(* A value class stands for many concrete values; the conformance harness  *)
(* (vh replay-codec) draws them.  Integer and timestamp columns are        *)
(* sequences of DELTA classes (the first value is absolute), float /       *)
(* string / boolean columns sequences of VALUE classes.  A mode prediction *)
(* is a SET of modes where the choice depends on how well the concrete     *)
(* bytes compress (zstd | raw, snappy | raw, ...).                         *)
(*                                                                         *)
(* Dev = {} is the correct design and satisfies every invariant.           *)
(*  mutation seeds (self-test, each gives a TLC counterexample):           *)
(*   const_skips_first_delta  const-delta decided without the first delta  *)
(*   s8b_ignores_first_delta  simple8b chosen without looking at delta 1   *)
(*   split_drops_partial_tail the last, shorter segment is not written     *)
(*   empty_if_first_null      block kind `empty` decided by the first row  *)
(*   one_row_any_string       one-row mode also for a 16+ byte string      *)
(*   same_ignores_last        same-value mode decided without the last one *)
(*   cut_body_accepted        a record whose body is short is delivered    *)
(*  as-implemented behaviour of findings (known_findings.json):            *)
(*   float_same_by_eq    F-C07-2 distinct count and same-value encoding    *)
(*                       compare floats with ==, so -0.0 decodes as +0.0   *)
(*   mlf_zero_drops_sign F-C07-5 the MLF compressor stores -0.0 as zero    *)
(*                       and counts repeated blocks with ==                *)
(*   gorilla_sum_nan     F-C07-1 the gorilla encoder detects NaN by the    *)
(*                       sum of the values; +Inf and -Inf sum to NaN, the  *)
(*                       error path of adaptiveEncoding panics             *)
(*   eof_body_reuses_buffer F-C07-3 a record whose header is complete and  *)
(*                       whose body is entirely missing is decoded from    *)
(*                       the previous record's bytes left in the buffer    *)
(*   batch_unchecked_slices F-C07-4 FastUnmarshalMultiRows slices before   *)
(*                       it checks the length at four places: panic        *)
(* ImplDev = deviations of the findings that are still open: the exported  *)
(* expectation carries the design's outcome and the as-implemented one.    *)
(***************************************************************************)
EXTENDS Integers, Sequences, FiniteSets, TLC

CONSTANTS Kinds,      \* subset of {"int", "time", "float", "string", "bool", "log", "batch"}
          IntCls, TimeCls, FloatCls, StrCls, BoolCls,   \* value classes that may be appended
          NullPats,   \* null patterns explored (time columns have no nulls)
          Lens,       \* run lengths
          MaxRuns,    \* runs per column
          MaxVals,    \* values per column
          Seg,        \* rows per segment (maxRowsPerSegment)
          FloatAlgos, \* subset of {"gorilla", "mlf"}      (store config float-compress-algorithm)
          StrAlgos,   \* subset of {"snappy", "zstd", "lz4"} (store config string-compress-algo)
          LogCls,     \* classes of log records: records of one class have the same compressed length
          MaxLog,     \* records per log file
          MaxBatch,   \* rows per marshalled batch
          Dev,        \* deviations under check; {} = the design
          ImplDev     \* deviations of the open findings (prediction of the real code)

VARIABLES kind, np, falgo, salgo,
          runs,    \* column under construction: sequence of [c |-> class, n |-> run length]
          phase,   \* "init" | "build" | "encoded" | "decoded" | "log" | "cut" | "replayed" | "batch" | "bcut" | "unmarshalled"
          segs,    \* result of Encode: sequence of [rows, hdr, modes]
          dec,     \* result of Decode: per segment the set of row sequences the modes reproduce
          log,     \* log file: sequence of record classes; batch: number of rows
          cut,     \* [j |-> record (row) the cut falls in, w |-> where]
          out,     \* Replay: sequence of delivered record numbers; Unmarshal: "incomplete" | "rows" | "panic"
          hist

vars == <<kind, np, falgo, salgo, runs, phase, segs, dec, log, cut, out, hist>>
view == <<kind, np, falgo, salgo, runs, phase, segs, dec, log, cut, out>>

Null == "N"
Abs  == "A"      \* an absolute (first) integer / timestamp value
Min2(a, b) == IF a < b THEN a ELSE b

(***************************** value classes ******************************)
\* integer DELTA classes (zig-zag delta z):
\*  Z zero   C the column's constant small delta   S small, differs from its neighbours
\*  M z = 2^60-1 exactly (simple8b.MaxValue), constant   K constant delta 2^61 (z >= 2^60, wraps)
\*  B z >= 2^60, two alternating values (compressible)   X random 64-bit values (z >= 2^60 almost surely)
\*  O the true delta overflows int64, the wrapped delta is small (MaxInt64 <-> MinInt64 neighbourhood)
AllIntCls  == {"Z", "C", "S", "M", "K", "B", "X", "O"}
IntConst   == {"Z", "C", "M", "K"}    \* every delta of the class is the same number
IntBig     == {"K", "B", "X"}         \* zig-zag delta above simple8b.MaxValue
\* timestamp DELTA classes (unsigned delta d > 0):
\*  C constant step   T varying multiples of a power of ten (scaled)   U varying, not a multiple of ten
\*  M d = 2^60-1 exactly, constant   G d >= 2^60
AllTimeCls == {"C", "T", "U", "M", "G"}
TimeConst  == {"C", "M"}
TimeBig    == {"M", "G"}              \* Time.encodingInit: isSimple8b needs d < simple8b.MaxValue (strict)
\* float VALUE classes:
\*  I integral   L at most three decimals   P full precision   SUB subnormal   BIGF > 0.9e308 (two of them sum to +Inf)
\*  PZ +0.0   NZ -0.0   NAN (any payload)   PINF   NINF   E bit-identical to the previous value
AllFloatCls == {"I", "L", "P", "SUB", "BIGF", "PZ", "NZ", "NAN", "PINF", "NINF", "E"}
FloatFixed  == {"PZ", "NZ", "PINF", "NINF"}      \* classes with exactly one member
FloatZero   == {"PZ", "NZ"}
FloatIsInt  == {"I", "BIGF", "PINF", "NINF"}     \* compress.isInt
FloatLessDec == {"I", "L", "BIGF", "PINF", "NINF"} \* compress.lessDecimal: isInt(f*1000)
FloatHasPrec == {"I", "L"}                       \* mlf.getPrecision(v) # -1
\* string VALUE classes: EMP empty   SH 1..15 random bytes   REP one 8-byte string repeated   RND 40 random bytes
\*  LG 70000 bytes
AllStrCls  == {"EMP", "SH", "REP", "RND", "LG"}
StrOneRow  == {"SH", "REP"}           \* 0 < len < 16: CanEncodeOneRowMode
AllBoolCls == {"T", "F"}

\* a float token is its resolved class, or the class followed by "=" when the value is bit-identical to its predecessor
EqTok(c)   == c \o "="
EqToks     == {EqTok(c) : c \in AllFloatCls}
BaseMap    == [t \in EqToks |-> CHOOSE c \in AllFloatCls : t = EqTok(c)]
IsEq(t)    == t \in EqToks
Base(t)    == IF t \in EqToks THEN BaseMap[t] ELSE t

Cls(k) == CASE k = "int" -> IntCls [] k = "time" -> TimeCls [] k = "float" -> FloatCls
            [] k = "string" -> StrCls [] k = "bool" -> BoolCls [] OTHER -> {}

(****************************** the column *******************************)
RECURSIVE Flat(_)
Flat(rs) == IF rs = <<>> THEN <<>> ELSE [i \in 1..Head(rs).n |-> Head(rs).c] \o Flat(Tail(rs))

NVals(rs) == LET F[i \in 0..Len(rs)] == IF i = 0 THEN 0 ELSE F[i - 1] + rs[i].n IN F[Len(rs)]

\* float: resolve "E" and mark bit-identical neighbours
FloatToksOf(f) ==
  LET R[i \in 1..Len(f)] == IF f[i] # "E" THEN f[i] ELSE IF i = 1 THEN "I" ELSE R[i - 1]
  IN [i \in 1..Len(f) |-> IF i > 1 /\ (f[i] = "E" \/ (f[i] \in FloatFixed /\ R[i - 1] = f[i])) THEN EqTok(R[i]) ELSE R[i]]

Values(k, rs) == IF k = "float" THEN FloatToksOf(Flat(rs)) ELSE Flat(rs)

\* rows = values interleaved with nulls
Rows(v, p) ==
  LET n == Len(v) IN
  CASE p = "none"   -> v
    [] p = "all"    -> [i \in 1..n |-> Null]
    [] p = "alt"    -> [i \in 1..2 * n |-> IF i % 2 = 1 THEN v[(i + 1) \div 2] ELSE Null]
    [] p = "altn"   -> [i \in 1..2 * n |-> IF i % 2 = 0 THEN v[i \div 2] ELSE Null]
    [] p = "lead1"  -> <<Null>> \o v
    [] p = "leadS"  -> [i \in 1..Seg + 1 |-> Null] \o v
    [] p = "trail1" -> v \o <<Null>>
    [] p = "trailS" -> v \o [i \in 1..Seg + 1 |-> Null]

Column(k, rs, p) == Rows(Values(k, rs), p)

\* ColVal.Split: segments of Seg rows, the last one holds the rest
NSeg(dv, r)   == IF "split_drops_partial_tail" \in dv THEN (IF Len(r) < Seg THEN 1 ELSE Len(r) \div Seg)
                 ELSE (Len(r) + Seg - 1) \div Seg
SegRows(r, i) == SubSeq(r, (i - 1) * Seg + 1, Min2(i * Seg, Len(r)))
NonNull(sr)   == SelectSeq(sr, LAMBDA t : t # Null)
Nils(sr)      == Len(sr) - Len(NonNull(sr))

\* the first value of a segment is stored as it is: its relation to the previous segment is not part of the block
Root(k, t) == IF k \in {"int", "time"} THEN Abs ELSE IF k = "float" THEN Base(t) ELSE t
ReRoot(k, v) == IF v = <<>> THEN v ELSE [v EXCEPT ![1] = Root(k, v[1])]
Norm(k, sr) ==
  LET idx == {i \in 1..Len(sr) : sr[i] # Null} IN
  IF idx = {} THEN sr
  ELSE LET f == CHOOSE i \in idx : \A j \in idx : i <= j IN [sr EXCEPT ![f] = Root(k, sr[f])]

(***************************** block header ******************************)
\* rewriteType / CanEncodeOneRowMode / EncodeColumnHeader
OneRowOK(dv, k, t) == IF k = "string" THEN (t \in StrOneRow \/ ("one_row_any_string" \in dv /\ t # "EMP")) ELSE TRUE
Hdr(dv, k, sr) ==
  LET r == Len(sr)  z == Nils(sr) IN
  IF r = 1 /\ z = 0 /\ OneRowOK(dv, k, sr[1]) THEN "one"
  ELSE IF "empty_if_first_null" \in dv /\ sr[1] = Null THEN "empty"
  ELSE IF z = 0 THEN "full"
  ELSE IF z = r THEN "empty"
  ELSE "bitmap"

(************************** mode decision tables **************************)
Deltas(v)  == {v[i] : i \in 2..Len(v)}
DeltasFrom(v, j) == {v[i] : i \in j..Len(v)}

\* lib/encoding/int.go Integer.init + Integer.Encoding
IntIsConst(dv, v) == IF "const_skips_first_delta" \in dv
                     THEN Cardinality(DeltasFrom(v, 3)) <= 1 /\ DeltasFrom(v, 3) \subseteq IntConst
                     ELSE Cardinality(Deltas(v)) = 1 /\ Deltas(v) \subseteq IntConst
IntIsS8b(dv, v)   == IF "s8b_ignores_first_delta" \in dv THEN DeltasFrom(v, 3) \cap IntBig = {}
                     ELSE Deltas(v) \cap IntBig = {}
IntModes(dv, v) ==
  IF Len(v) = 0 THEN {"none"}                    \* EncodeIntegerBlock: len(in) = 0, no block
  ELSE IF Len(v) < 3 THEN {"raw"}                \* init: fewer than three values, neither flag; zigZagDeltas empty
  ELSE IF IntIsConst(dv, v) THEN {"const"}
  ELSE IF IntIsS8b(dv, v) THEN {"s8b"}
  ELSE IF Deltas(v) \cap IntBig \subseteq {"X"} /\ Cardinality(Deltas(v)) = 1 THEN {"raw"}   \* random bytes: zstd does not pay
  ELSE {"zstd", "raw"}                           \* encodingZSTD, uncompressedData when the ratio is above 0.85

\* lib/encoding/timestamp.go Time.encodingInit + Time.Encoding
TimeModes(dv, v) ==
  IF Len(v) < 3 THEN {"raw"}
  ELSE IF Cardinality(Deltas(v)) = 1 /\ Deltas(v) \subseteq TimeConst THEN {"const"}
  ELSE IF Deltas(v) \cap TimeBig = {} THEN {"s8b"}
  ELSE {"snappy", "raw"}

\* lib/compress/float.go GenerateContext + adaptiveEncoding
FEq(dv, v, i)  == IF "float_same_by_eq" \in dv      \* values[i] != values[i-1] on float64
                  THEN (IsEq(v[i]) /\ Base(v[i]) # "NAN") \/ (Base(v[i]) \in FloatZero /\ Base(v[i - 1]) \in FloatZero)
                  ELSE IsEq(v[i])                    \* the design compares the bits
Distinct(dv, v) == 1 + Cardinality({i \in 2..(IF "same_ignores_last" \in dv THEN Len(v) - 1 ELSE Len(v)) : ~FEq(dv, v, i)})
NonZeroIdx(v)  == {i \in 1..Len(v) : Base(v[i]) \notin FloatZero}
\* the first Len(v) \div 10 non-zero values are sampled
SampleIdx(v) == LET want == Len(v) \div 10 IN {i \in NonZeroIdx(v) : Cardinality({j \in NonZeroIdx(v) : j < i}) < want}
LessDecimal(v) == LET idx == SampleIdx(v)  k == Cardinality(idx)
                      good == Cardinality({i \in idx : Base(v[i]) \in FloatLessDec})
                  IN k > 0 /\ (100 * good) \div k > 90
IntOnly(v) == \A i \in SampleIdx(v) : Base(v[i]) \in FloatIsInt
\* tsm1.FloatArrayEncodeAll: sum of values[1:] is NaN  <=>  +Inf (a real one, or two BIGF) meets -Inf
SumIsNaN(v) ==
  LET S[i \in 1..Len(v)] ==         \* state of the running sum after value i: "fin" "fin1" (one BIGF) "pinf" "ninf" "nan"
        IF i = 1 THEN "fin"
        ELSE LET s == S[i - 1]  c == Base(v[i]) IN
             IF s = "nan" THEN "nan"
             ELSE IF c = "PINF" THEN (IF s = "ninf" THEN "nan" ELSE "pinf")
             ELSE IF c = "NINF" THEN (IF s = "pinf" THEN "nan" ELSE "ninf")
             ELSE IF c = "BIGF" THEN (IF s = "fin" THEN "fin1" ELSE IF s = "fin1" THEN "pinf" ELSE s)
             ELSE s
  IN S[Len(v)] = "nan"
\* values the gorilla encoder cannot take go to snappy: NaN (its end marker) and, in the design, the infinities
Extreme(dv) == IF "gorilla_sum_nan" \in dv THEN {"NAN"} ELSE {"NAN", "PINF", "NINF"}
GorillaModes(dv, v) == IF "gorilla_sum_nan" \in dv /\ SumIsNaN(v) THEN {"PANIC"} ELSE {"gorilla", "raw"}
FloatModesGorilla(dv, v) ==
  LET n == Len(v) IN
  IF n = 0 THEN {"none"}
  ELSE IF n <= 4 THEN {"raw"}                                   \* floatCompressThreshold
  ELSE IF Distinct(dv, v) = 1 THEN {"same"}
  ELSE IF Distinct(dv, v) <= 8 THEN {"rle"}                     \* floatRLECompressThreshold
  ELSE IF \E i \in 1..n : Base(v[i]) \in Extreme(dv) THEN {"snappy", "raw"}     \* extremeDataValues
  ELSE IF ~IntOnly(v) /\ LessDecimal(v) THEN {"snappy", "raw"}
  ELSE GorillaModes(dv, v)

\* lib/compress/float.go adaptiveEncodingWithMLF + mlf.prepare
\* mlf.prepare counts v != data[i-1]: on float64 as implemented, on the bits in the design
MlfRepeated(dv, v) == Cardinality({i \in 2..Len(v) : ~FEq(IF "mlf_zero_drops_sign" \in dv THEN {"float_same_by_eq"} ELSE {}, v, i)})
MlfAllSkip(v)  == \A i \in 1..Len(v) : Base(v[i]) \notin FloatZero /\ Base(v[i]) \notin FloatHasPrec
FloatModesMlf(dv, v) ==
  LET n == Len(v) IN
  IF n = 0 THEN {"none"}
  ELSE IF n <= 4 THEN {"raw"}
  ELSE IF MlfAllSkip(v) THEN {"snappy"}
  ELSE IF MlfRepeated(dv, v) = 0 THEN {"same"}
  ELSE IF MlfRepeated(dv, v) <= 8 THEN {"rle"}
  ELSE {"mlf"}
FloatModes(dv, fa, v) == IF fa = "mlf" THEN FloatModesMlf(dv, v) ELSE FloatModesGorilla(dv, v)

\* lib/encoding/string.go: the packed block (packStringV2) goes through the configured compressor; a block is
\* written for every row (nulls are empty strings), the raw form is kept when the ratio is 0.85 or more
StrModes(dv, sa, sr) == IF Len(sr) = 0 THEN {"none"} ELSE {sa, "raw"}

BoolModes(dv, v) == IF Len(v) = 0 THEN {"none"} ELSE {"bitpack"}

Modes(dv, k, fa, sa, sr) ==
  LET v == ReRoot(k, NonNull(sr)) IN
  CASE k = "int"    -> IntModes(dv, v)
    [] k = "time"   -> TimeModes(dv, v)
    [] k = "float"  -> FloatModes(dv, fa, v)
    [] k = "string" -> StrModes(dv, sa, sr)
    [] k = "bool"   -> BoolModes(dv, v)

\* one-row mode stores the value bytes after the block kind: no codec runs
SegModes(dv, k, fa, sa, sr) == IF Hdr(dv, k, sr) = "one" THEN {"none"} ELSE Modes(dv, k, fa, sa, sr)

(***************************** abstract decode ****************************)
\* what the stored form of a mode can reproduce from the values v of one segment
DecVals(dv, k, m, v) ==
  IF v = <<>> THEN v
  ELSE CASE m = "const" -> [i \in 1..Len(v) |-> IF i = 1 THEN v[1] ELSE v[2]]      \* first value, first delta, count
         [] m = "s8b" /\ k = "int" /\ Deltas(v) \cap IntBig # {} -> <<"ERR">>       \* simple8b: value out of bounds
         [] m = "same" -> LET one == IF "float_same_by_eq" \in dv /\ v[1] \in FloatZero THEN "PZ" ELSE v[1]   \* values[0] == 0: nothing stored
                          IN [i \in 1..Len(v) |-> IF i = 1 THEN one ELSE EqTok(one)]   \* one value and a count
         [] m = "mlf" /\ "mlf_zero_drops_sign" \in dv ->
                 [i \in 1..Len(v) |-> IF Base(v[i]) = "NZ" THEN (IF IsEq(v[i]) /\ i > 1 /\ Base(v[i - 1]) = "NZ" THEN EqTok("PZ") ELSE "PZ") ELSE v[i]]
         [] OTHER -> v

\* DecodeColumnHeader: put the decoded values back between the nulls
Reconstruct(h, sr, d) ==
  CASE h = "empty" -> [i \in 1..Len(sr) |-> Null]
    [] h = "full"  -> IF Len(d) = Len(sr) THEN d ELSE <<"ERR">>
    [] h = "one"   -> d
    [] OTHER -> IF Len(d) # Len(NonNull(sr)) THEN <<"ERR">>
                ELSE [i \in 1..Len(sr) |-> IF sr[i] = Null THEN Null ELSE d[Cardinality({j \in 1..i : sr[j] # Null})]]

\* canonical form: a value marked "=" whose predecessor is null or absent keeps the mark (nulls hold no value)
DecodeSeg(dv, k, s, m) ==
  IF m \in {"PANIC", "ERR"} THEN <<m>>
  ELSE IF k = "string" THEN (IF s.hdr = "empty" THEN [i \in 1..Len(s.rows) |-> Null]
                             ELSE IF s.hdr = "one" /\ s.rows[1] \notin StrOneRow THEN <<"ERR">>   \* 16+ bytes do not fit
                             ELSE s.rows)
  ELSE Reconstruct(s.hdr, s.rows, DecVals(dv, k, m, ReRoot(k, NonNull(s.rows))))

EncodeCol(dv, k, fa, sa, col) ==
  [i \in 1..NSeg(dv, col) |-> LET sr == SegRows(col, i) IN
      [rows |-> sr, hdr |-> Hdr(dv, k, sr), modes |-> SegModes(dv, k, fa, sa, sr)]]


DecodeCol(dv, k, ss) == [i \in 1..Len(ss) |-> {DecodeSeg(dv, k, ss[i], m) : m \in ss[i].modes}]

\* export form of a segment: numbers and names only
SegExp(s) == [rows |-> Len(s.rows), nils |-> Nils(s.rows), hdr |-> s.hdr, modes |-> s.modes]
\* the as-implemented outcome of a segment (o = "ok" when it is the design's), and the one deviation that explains it
EncodeSeg(dv, k, fa, sa, sr) == [rows |-> sr, hdr |-> Hdr(dv, k, sr), modes |-> SegModes(dv, k, fa, sa, sr)]
OutcomeOf(dv, k, fa, sa, sr) ==
  LET si == EncodeSeg(dv, k, fa, sa, sr)
      di == {DecodeSeg(dv, k, si, m) : m \in si.modes}
  IN IF "PANIC" \in si.modes THEN [o |-> "panic", modes |-> si.modes, rows |-> <<>>]
     ELSE IF di = {Norm(k, sr)} THEN [o |-> "ok", modes |-> si.modes, rows |-> <<>>]
     ELSE [o |-> "differs", modes |-> si.modes, rows |-> CHOOSE r \in di : TRUE]
ImplOutcome(k, fa, sa, col, i) ==
  LET sr   == SegRows(col, i)
      full == OutcomeOf(Dev \cup ImplDev, k, fa, sa, sr)
      expl == {S \in SUBSET ImplDev : OutcomeOf(Dev \cup S, k, fa, sa, sr) = full}
  IN [o |-> full.o, modes |-> full.modes, rows |-> full.rows,
      why |-> IF full.o = "ok" THEN {} ELSE CHOOSE S \in expl : \A T \in expl : Cardinality(T) >= Cardinality(S)]

(********************************* log ***********************************)
\* a log file = records; record j = 5-byte header (type, compressed length) + snappy body.  A crash leaves a
\* prefix: records 1..j-1 whole and of record j nothing ("rec_start"), part of the header ("hdr_mid"), the
\* header only ("hdr_end"), part of the body ("body_mid") or all of it ("rec_end")
CutPlaces == {"rec_start", "hdr_mid", "hdr_end", "body_mid", "rec_end"}
Delivered(dv, lg, c) ==
  LET whole == [i \in 1..c.j - 1 |-> i] IN
  IF c.w = "rec_end" THEN whole \o <<c.j>>
  ELSE IF c.w = "body_mid" /\ "cut_body_accepted" \in dv THEN whole \o <<c.j>>
  ELSE IF c.w = "hdr_end" /\ "eof_body_reuses_buffer" \in dv /\ c.j > 1 /\ lg[c.j] = lg[c.j - 1]
       THEN whole \o <<c.j - 1>>          \* io.ReadFull = (0, io.EOF) is taken for success: the stale buffer decodes again
  ELSE whole

\* a marshalled batch: 4-byte row count, version byte, rows (name, shard key, tags, fields, index flag, timestamp)
\* "idxopt" = inside the index options of a row that has some (after the flag byte, before the timestamp)
BatchPlaces == {"count", "row_start", "name", "shardkey", "tags", "fields", "fields_end", "idxopt", "ts"}
PanicPlaces == {"count", "fields_end", "idxopt", "ts"}
Unmarshalled(dv, c) == IF "batch_unchecked_slices" \in dv /\ c.w \in PanicPlaces THEN "panic" ELSE "incomplete"

(******************************** actions ********************************)
Tokens(k) == {[c |-> c, n |-> n] : c \in Cls(k), n \in Lens}     \* overridden by the simulation cfg
ColKinds == Kinds \cap {"int", "time", "float", "string", "bool"}

Init == /\ kind = "" /\ np = "" /\ falgo = "" /\ salgo = "" /\ runs = <<>> /\ phase = "init"
        /\ segs = <<>> /\ dec = <<>> /\ log = <<>> /\ cut = [j |-> 0, w |-> ""] /\ out = <<>> /\ hist = <<>>

Choose(k, p, fa, sa) ==
  /\ phase = "init" /\ k \in ColKinds
  /\ p \in (IF k = "time" THEN {"none"} ELSE NullPats)
  /\ fa \in (IF k = "float" THEN FloatAlgos ELSE {"gorilla"})
  /\ sa \in (IF k = "string" THEN StrAlgos ELSE {"snappy"})
  /\ kind' = k /\ np' = p /\ falgo' = fa /\ salgo' = sa /\ phase' = "build"
  /\ hist' = Append(hist, [a |-> "Choose", kind |-> k, np |-> p, seg |-> Seg, falgo |-> fa, salgo |-> sa])
  /\ UNCHANGED <<runs, segs, dec, log, cut, out>>

AppendRun(t) ==
  /\ phase = "build" /\ Len(runs) < MaxRuns /\ NVals(runs) + t.n <= MaxVals
  /\ t.c \in Cls(kind) /\ t.n >= 1
  /\ (kind = "float" /\ t.c = "E") => runs # <<>>           \* "same as the previous value" needs one
  /\ runs' = Append(runs, t)
  /\ hist' = Append(hist, [a |-> "Append", c |-> t.c, n |-> t.n])
  /\ UNCHANGED <<kind, np, falgo, salgo, phase, segs, dec, log, cut, out>>

Encode ==
  /\ phase = "build" /\ runs # <<>>
  /\ LET col == Column(kind, runs, np)
         ss  == EncodeCol(Dev, kind, falgo, salgo, col)
     IN /\ segs' = ss
        /\ hist' = Append(hist, [a |-> "Encode", nseg |-> Len(ss),
                                 exp |-> [i \in 1..Len(ss) |-> SegExp(ss[i])],
                                 impl |-> [i \in 1..Len(ss) |-> ImplOutcome(kind, falgo, salgo, col, i)]])
  /\ phase' = "encoded"
  /\ UNCHANGED <<kind, np, falgo, salgo, runs, dec, log, cut, out>>

Decode ==
  /\ phase = "encoded"
  /\ dec' = DecodeCol(Dev, kind, segs)
  /\ phase' = "decoded"
  /\ hist' = Append(hist, [a |-> "Decode", exp |-> "identity"])
  /\ UNCHANGED <<kind, np, falgo, salgo, runs, segs, log, cut, out>>

LogAppend(c) ==
  /\ "log" \in Kinds /\ phase \in {"init", "log"} /\ Len(log) < MaxLog /\ c \in LogCls
  /\ kind' = "log" /\ phase' = "log" /\ log' = Append(log, c)
  /\ hist' = Append(hist, [a |-> "LogAppend", c |-> c])
  /\ UNCHANGED <<np, falgo, salgo, runs, segs, dec, cut, out>>

Cut(j, w) ==
  /\ phase = "log" /\ j \in 1..Len(log) /\ w \in CutPlaces
  /\ cut' = [j |-> j, w |-> w] /\ phase' = "cut"
  /\ hist' = Append(hist, [a |-> "Cut", j |-> j, w |-> w])
  /\ UNCHANGED <<kind, np, falgo, salgo, runs, segs, dec, log, out>>

Replay ==
  /\ phase = "cut"
  /\ out' = Delivered(Dev, log, cut) /\ phase' = "replayed"
  /\ hist' = Append(hist, [a |-> "Replay", exp |-> Delivered(Dev, log, cut), impl |-> Delivered(Dev \cup ImplDev, log, cut)])
  /\ UNCHANGED <<kind, np, falgo, salgo, runs, segs, dec, log, cut>>

Marshal(n) ==
  /\ "batch" \in Kinds /\ phase = "init" /\ n \in 1..MaxBatch
  /\ kind' = "batch" /\ phase' = "batch" /\ log' = <<n>>
  /\ hist' = Append(hist, [a |-> "Marshal", n |-> n])
  /\ UNCHANGED <<np, falgo, salgo, runs, segs, dec, cut, out>>

CutBatch(r, w) ==
  /\ phase = "batch" /\ r \in 1..log[1] /\ w \in BatchPlaces
  /\ w = "count" => r = 1
  /\ cut' = [j |-> r, w |-> w] /\ phase' = "bcut"
  /\ hist' = Append(hist, [a |-> "CutBatch", r |-> r, w |-> w])
  /\ UNCHANGED <<kind, np, falgo, salgo, runs, segs, dec, log, out>>

Unmarshal ==
  /\ phase = "bcut"
  /\ out' = <<Unmarshalled(Dev, cut)>> /\ phase' = "unmarshalled"
  /\ hist' = Append(hist, [a |-> "Unmarshal", exp |-> Unmarshalled(Dev, cut), impl |-> Unmarshalled(Dev \cup ImplDev, cut)])
  /\ UNCHANGED <<kind, np, falgo, salgo, runs, segs, dec, log, cut>>

Next == \/ \E k \in ColKinds, p \in NullPats \cup {"none"}, fa \in FloatAlgos \cup {"gorilla"}, sa \in StrAlgos \cup {"snappy"} : Choose(k, p, fa, sa)
        \/ \E t \in Tokens(kind) : AppendRun(t)
        \/ Encode \/ Decode
        \/ \E c \in LogCls : LogAppend(c)
        \/ \E j \in 1..MaxLog, w \in CutPlaces : Cut(j, w)
        \/ Replay
        \/ \E n \in 1..MaxBatch : Marshal(n)
        \/ \E r \in 1..MaxBatch, w \in BatchPlaces : CutBatch(r, w)
        \/ Unmarshal

Spec == Init /\ [][Next]_vars

(******************************* invariants ******************************)
AllModes == {"none", "raw", "const", "s8b", "zstd", "snappy", "gorilla", "same", "rle", "mlf", "lz4", "bitpack"}
DecoderModes(k) ==     \* the mode bytes the Decoding function of the kind dispatches on
  CASE k = "int"    -> {"none", "const", "s8b", "zstd", "raw"}
    [] k = "time"   -> {"none", "const", "s8b", "snappy", "raw"}
    [] k = "float"  -> {"none", "raw", "snappy", "gorilla", "same", "rle", "mlf"}
    [] k = "string" -> {"none", "raw", "snappy", "zstd", "lz4"}
    [] k = "bool"   -> {"none", "bitpack"}
    [] OTHER -> {}

TypeOK == /\ phase \in {"init", "build", "encoded", "decoded", "log", "cut", "replayed", "batch", "bcut", "unmarshalled"}
          /\ \A i \in 1..Len(runs) : runs[i].c \in Cls(kind) /\ runs[i].n \in Nat \ {0}
          /\ \A i \in 1..Len(segs) : segs[i].hdr \in {"one", "full", "empty", "bitmap"}

\* encoding never fails or crashes, and picks a mode its decoder knows
EncodeTotal == phase \in {"encoded", "decoded"} =>
                 \A i \in 1..Len(segs) : segs[i].modes # {} /\ segs[i].modes \subseteq DecoderModes(kind)

\* the segments partition the column; every segment but the last is full (chunk meta: rows, offsets, time ranges)
SegmentsPartition == phase \in {"encoded", "decoded"} =>
  LET col == Column(kind, runs, np)
      Cat[i \in 0..Len(segs)] == IF i = 0 THEN <<>> ELSE Cat[i - 1] \o segs[i].rows
  IN /\ Cat[Len(segs)] = col
     /\ \A i \in 1..Len(segs) : Len(segs[i].rows) \in 1..Seg /\ (i < Len(segs) => Len(segs[i].rows) = Seg)

\* the block kind says exactly where the nulls are
HeaderExact == phase \in {"encoded", "decoded"} =>
  \A i \in 1..Len(segs) : LET s == segs[i] IN
     /\ s.hdr = "full"  => Nils(s.rows) = 0
     /\ s.hdr = "empty" => Nils(s.rows) = Len(s.rows)
     /\ s.hdr = "one"   => Len(s.rows) = 1 /\ Nils(s.rows) = 0

\* whichever mode the encoder picks, decoding yields the values, the nulls and the order that were encoded
DecodeIsIdentity == phase = "decoded" =>
  /\ Len(dec) = Len(segs)
  /\ \A i \in 1..Len(segs) : dec[i] = {Norm(kind, segs[i].rows)}

\* a torn log: every whole record is delivered, in order, and nothing else
TornIsIncomplete == phase = "replayed" =>
  /\ \A i \in 1..Len(out) : out[i] = i                       \* a prefix of what was written: no fabricated record
  /\ Len(out) = (IF cut.w = "rec_end" THEN cut.j ELSE cut.j - 1)

\* a proper prefix of a batch is rejected as incomplete
BatchPrefixRejected == phase = "unmarshalled" => out = <<"incomplete">>
=============================================================================
