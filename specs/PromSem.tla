------------------------------ MODULE PromSem ------------------------------
(***************************************************************************)
(* C18 - PromQL queries return what Prometheus itself returns on the same  *)
(* samples.                                                                *)
(*                                                                         *)
(* Part 1 (operators): the discrete semantics of the PromQL subset of the  *)
(* property, in EXACT arithmetic (rationals [n, d]), as the upstream       *)
(* engine github.com/prometheus/prometheus v0.50.1 (the version required   *)
(* by /repo/go.mod) defines it:                                            *)
(*   Matches / Sel        label matchers = != =~ !~ (an absent label is    *)
(*                        the empty value; regular expressions anchored)   *)
(*   InstantVal           instant selector: the latest sample in           *)
(*                        [t-off-Lookback, t-off]; a stale marker hides    *)
(*                        the series                                       *)
(*   RangePts             range selector: the non-stale samples in         *)
(*                        [t-off-range, t-off]                             *)
(*   RFn                  rate increase delta (extrapolation rule, counter *)
(*                        resets, zero clamp) irate idelta resets changes  *)
(*                        and the *_over_time family                       *)
(*   Agg                  sum min max count avg, by / without              *)
(*   BinVS / BinVV        arithmetic and comparison (filter and bool)      *)
(*                        vector-scalar, scalar-vector, vector-vector      *)
(*                        one-to-one with on / ignoring                    *)
(* Time is counted in ticks of D.unit seconds; sample values are small     *)
(* integers or NAN, an ORDINARY NaN sample (value.NormalNaN, bit pattern   *)
(* 0x7FF8000000000001: what an exporter sends for 0/0); STALE is the       *)
(* staleness marker (0x7FF0000000000002), a different thing: a marker      *)
(* hides a series and is never a value, a NaN sample is a value like any   *)
(* other - it is selected, counted, is the last sample, and every operator *)
(* has its own rule for it (transcribed from promql/functions.go and       *)
(* engine.go of v0.50.1, see V / Cmp / RFnVal / AggVal).                   *)
(*                                                                         *)
(* Part 2 (state machine): Load(D) ingests a sample set (remote write);    *)
(* AskInstant(q) = /api/v1/query; AskRange(q) + RangeStep* = one           *)
(* /api/v1/query_range: the range evaluation is the INCREMENTAL one of     *)
(* the engines (promql matrixIterSlice / openGemini prom cursors): every   *)
(* selector of the expression keeps a buffer of samples per series that    *)
(* slides from step to step (expired samples dropped, new ones appended).  *)
(* RangeEqInstants: the incrementally evaluated range answer equals the    *)
(* sequence of direct instant evaluations at its steps.                    *)
(*                                                                         *)
(* hist carries (data set, query, expected answer, answers predicted by    *)
(* the as-implemented deviation models of the open findings) for replay    *)
(* against a real server (PromSemMC!Export).                               *)
(***************************************************************************)
EXTENDS Integers, Sequences, FiniteSets, TLC, SequencesExt, FiniteSetsExt

CONSTANTS Lookback,   \* look-back delta in ticks
          Depth,      \* entries of hist per behaviour: 1 data set + (Depth-1) queries
          Logging,    \* TRUE: hist carries data set, queries and evaluated answers
          Dev,        \* deviations ({} = the design)
          AllowRunaway,  \* TRUE: queries in the predicate of F-C18-7 are generated too (sentinel cfg only)
          DataChoices(_), QueryChoices(_, _)

VARIABLES data,   \* the ingested sample set (NoData before Load)
          cur,    \* the query being / last evaluated (NoQ: none)
          rs,     \* state of the running range evaluation
          hist    \* exported history

vars == <<data, cur, rs, hist>>
view == <<data, cur, rs>>

STALE == -9999
NAN   == -8888     \* sample value code of an ordinary (non-stale) NaN
NAME  == "__name__"

-----------------------------------------------------------------------------
(* exact rationals; d = 0 encodes the IEEE specials: 1/0 = +Inf, -1/0 = -Inf, 0/0 = NaN *)

PAbs(x) == IF x < 0 THEN -x ELSE x
RECURSIVE Gcd(_, _)
Gcd(a, b) == IF b = 0 THEN a ELSE Gcd(b, a % b)
Norm(n, d) == LET g == Gcd(PAbs(n), PAbs(d))
                  s == IF d < 0 THEN -1 ELSE 1
              IN [n |-> s * (n \div g), d |-> s * (d \div g)]
R(i)   == [n |-> i, d |-> 1]
PInf   == [n |-> 1, d |-> 0]
NInf   == [n |-> -1, d |-> 0]
NaN    == [n |-> 0, d |-> 0]
Fin(x) == x.d # 0
IsNaN(x) == x.d = 0 /\ x.n = 0
Num(x) == Fin(x) \/ IsNaN(x)            \* a number or NaN (no infinity)
\* +-math.MaxFloat64 as a symbolic value: it only ever stands in a predicted answer (deviation minmax_sentinel_leaks),
\* never flows into an operator (it is not Num)
Huge  == [n |-> 2, d |-> 0]
NHuge == [n |-> -2, d |-> 0]
V(v) == IF v = NAN THEN NaN ELSE R(v)   \* the value of a sample value code
RAdd(x, y) == IF Fin(x) /\ Fin(y) THEN Norm(x.n * y.d + y.n * x.d, x.d * y.d) ELSE NaN
RSub(x, y) == IF Fin(x) /\ Fin(y) THEN Norm(x.n * y.d - y.n * x.d, x.d * y.d) ELSE NaN
RMul(x, y) == IF Fin(x) /\ Fin(y) THEN Norm(x.n * y.n, x.d * y.d) ELSE NaN
RDiv(x, y) == IF ~(Fin(x) /\ Fin(y)) THEN NaN
              ELSE IF y.n = 0 THEN (IF x.n > 0 THEN PInf ELSE IF x.n < 0 THEN NInf ELSE NaN)
              ELSE Norm(x.n * y.d, x.d * y.n)
RLt(x, y) == x.n * y.d < y.n * x.d          \* finite operands
RLe(x, y) == x.n * y.d <= y.n * x.d
RMinOf(x, y) == IF RLt(y, x) THEN y ELSE x
RMaxOf(x, y) == IF RLt(x, y) THEN y ELSE x

ArithOps == {"add", "sub", "mul", "div"}
CmpOps   == {"eq", "ne", "gt", "lt", "ge", "le"}
Arith(op, x, y) == CASE op = "add" -> RAdd(x, y) [] op = "sub" -> RSub(x, y)
                     [] op = "mul" -> RMul(x, y) [] OTHER -> RDiv(x, y)
\* IEEE 754 as promql/engine.go vectorElemBinop uses it: every comparison with NaN is false, only != is true
Cmp(op, x, y) == IF IsNaN(x) \/ IsNaN(y) THEN op = "ne"
                 ELSE CASE op = "eq" -> x = y [] op = "ne" -> x # y [] op = "gt" -> RLt(y, x)
                        [] op = "lt" -> RLt(x, y) [] op = "ge" -> RLe(y, x) [] OTHER -> RLe(x, y)
OrderOps == {"gt", "lt", "ge", "le"}

-----------------------------------------------------------------------------
(* label sets: functions from a subset of the label names to non-empty values *)

EmptyLab == [k \in {} |-> ""]
LKeep(lab, ks) == [k \in (DOMAIN lab) \cap ks |-> lab[k]]
LDrop(lab, ks) == [k \in (DOMAIN lab) \ ks |-> lab[k]]
DropName(lab)  == LDrop(lab, {NAME})
LGet(lab, k)   == IF k \in DOMAIN lab THEN lab[k] ELSE ""

(* regular expressions of the grammar over the universe of label values {"", a, ab, b, x, y}:     *)
(* full = values matched by the ANCHORED expression (PromQL), part = values containing a match    *)
(* (what an unanchored expression accepts; deviation regex_unanchored)                            *)
ValUniverse == {"", "a", "ab", "b", "x", "y"}
RegexTab == [src \in {"a|b", "a", "b", "a.*", ".+", ".*", "x|y", "zz", "x"} |->
  CASE src = "a|b" -> [full |-> {"a", "b"},             part |-> {"a", "ab", "b"}]
    [] src = "a"   -> [full |-> {"a"},                  part |-> {"a", "ab"}]
    [] src = "b"   -> [full |-> {"b"},                  part |-> {"ab", "b"}]
    [] src = "a.*" -> [full |-> {"a", "ab"},            part |-> {"a", "ab"}]
    [] src = ".+"  -> [full |-> ValUniverse \ {""},     part |-> ValUniverse \ {""}]
    [] src = ".*"  -> [full |-> ValUniverse,            part |-> ValUniverse]
    [] src = "x|y" -> [full |-> {"x", "y"},             part |-> {"x", "y"}]
    [] src = "x"   -> [full |-> {"x"},                  part |-> {"x"}]
    [] OTHER       -> [full |-> {},                     part |-> {}]]

ReMatch(src, val, dv) == IF "regex_unanchored" \in dv THEN val \in RegexTab[src].part ELSE val \in RegexTab[src].full

Matches(m, lab, dv) ==
  LET val == LGet(lab, m.l)
  IN CASE m.op = "eq"  -> val = m.v
       [] m.op = "ne"  -> val # m.v
       [] m.op = "re"  -> ReMatch(m.v, val, dv)
       [] OTHER        -> ~ReMatch(m.v, val, dv)

-----------------------------------------------------------------------------
(* the data set: [unit, epoch, series]; series[i] = [lab, pts]; pts = <<t, v>> strictly ascending in t *)

\* epoch = ticks between the Unix epoch and tick 0 (0: far away, chosen by the harness)
NoData == [unit |-> 0, epoch |-> 0, series |-> <<>>]
NoQ    == [kind |-> "none"]
NSeries(D) == Len(D.series)
NameOfS(s) == s.lab[NAME]

\* label names carried by at least one series of metric m
KnownKeys(D, m) == UNION {DOMAIN D.series[i].lab : i \in {j \in 1..NSeries(D) : NameOfS(D.series[j]) = m}}

\* as implemented (F-C18-1): a matcher with an empty value is not translated at all
\* as implemented (F-C18-4): a matcher on a label that no series of the metric carries is ignored
MatcherOn(D, e, m, dv) ==
  /\ ~("empty_matcher_ignored" \in dv /\ m.op \in {"eq", "ne"} /\ m.v = "")
  /\ ~("unknown_label_ignored" \in dv /\ m.l \notin KnownKeys(D, e.m))

SelAll(D, e, dv) == {i \in 1..NSeries(D) :
                       /\ NameOfS(D.series[i]) = e.m
                       /\ \A j \in 1..Len(e.ms) : MatcherOn(D, e, e.ms[j], dv) => Matches(e.ms[j], D.series[i].lab, dv)}
\* as implemented on a node with several partitions (F-C18-8): only the series of ONE partition answer (the series are
\* dealt to NParts partitions; which partition answers is not determined: here the one of the first selected series)
NParts == 3
Sel(D, e, dv) == IF "one_partition_answers" \in dv /\ SelAll(D, e, dv) # {}
                   THEN {i \in SelAll(D, e, dv) : i % NParts = Min(SelAll(D, e, dv)) % NParts}
                   ELSE SelAll(D, e, dv)

PtsIn(pts, lo, hi) == SelectSeq(pts, LAMBDA p : p[1] >= lo /\ p[1] <= hi)

\* the sample window of a selector at evaluation time t: [t - off - w, t - off], w = Lookback or the range
\* mutation seeds: lookback_left_open / range_left_open exclude the left end
WinLo(t, off, r, dv) ==
  IF r = 0 THEN t - off - Lookback + (IF "lookback_left_open" \in dv THEN 1 ELSE 0)
           ELSE t - off - r + (IF "range_left_open" \in dv THEN 1 ELSE 0)
WinHi(t, off, dv) == IF "offset_sign" \in dv THEN t + off ELSE t - off

\* where the samples of selector `path` come from: re-read from the data (direct) or the sliding buffer
Window(D, i, t, off, r, dv, src, path) ==
  IF src.mode = "direct" THEN PtsIn(D.series[i].pts, WinLo(t, off, r, dv), WinHi(t, off, dv))
  ELSE src.buf[path][i]

NonStale(P) == SelectSeq(P, LAMBDA p : p[2] # STALE)

\* instant selector: <<present, value code>>; only the staleness marker hides a series, an ordinary NaN sample is returned as it is
\* mutation seed nan_hidden_like_stale: math.IsNaN instead of value.IsStaleNaN
InstantVal(P, dv) ==
  LET Q == IF "stale_looks_through" \in dv THEN NonStale(P) ELSE P
      Hidden(v) == v = STALE \/ ("nan_hidden_like_stale" \in dv /\ v = NAN)
  IN IF Q = <<>> THEN <<FALSE, 0>>
     ELSE IF Hidden(Q[Len(Q)][2]) THEN <<FALSE, 0>> ELSE <<TRUE, Q[Len(Q)][2]>>

-----------------------------------------------------------------------------
(* range functions over the non-stale points P of a window [lo, hi] (ticks); U = seconds per tick *)

RFns == {"rate", "increase", "delta", "irate", "idelta", "resets", "changes", "sum_over_time", "avg_over_time",
         "min_over_time", "max_over_time", "count_over_time", "last_over_time", "present_over_time"}
KeepsName(fn) == fn = "last_over_time"

\* NaN samples in a window: LtV is the float comparison `a < b` over value codes (false when either is NaN)
HasNaN(P)  == \E i \in 1..Len(P) : P[i][2] = NAN
NumVals(P) == {P[i][2] : i \in {j \in 1..Len(P) : P[j][2] # NAN}}
LtV(a, b)  == a # NAN /\ b # NAN /\ a < b
RECURSIVE SumPts(_)
SumPts(P) == IF P = <<>> THEN 0 ELSE P[1][2] + SumPts(Tail(P))
\* funcMinOverTime / funcMaxOverTime: min := first; for every sample f: if f < min || IsNaN(min) { min = f }  - a NaN that is
\* not the first sample never wins a comparison, a NaN in the first place is replaced by the next sample: the answer is the
\* extreme of the numbers of the window, NaN only if EVERY sample is NaN
\* mutation seed minmax_first_nan_sticks: the `|| IsNaN(min)` escape is lost, a NaN in the first place is never displaced
MinMaxPts(P, isMin, dv) ==
  IF "minmax_first_nan_sticks" \in dv /\ P[1][2] = NAN THEN NaN
  ELSE IF NumVals(P) = {} THEN NaN
  ELSE R(IF isMin THEN Min(NumVals(P)) ELSE Max(NumVals(P)))
\* funcResets: current < prev (false across a NaN); funcChanges: current != prev && !(IsNaN(current) && IsNaN(prev)), which is
\* inequality of the value codes
Resets(P)  == Cardinality({i \in 2..Len(P) : LtV(P[i][2], P[i-1][2])})
Changes(P) == Cardinality({i \in 2..Len(P) : P[i][2] # P[i-1][2]})
\* counter correction: the value before every reset is added (a reset is current < prev: never seen across a NaN sample)
RECURSIVE ResetSum(_)
ResetSum(P) == IF Len(P) < 2 THEN 0 ELSE (IF LtV(P[2][2], P[1][2]) THEN P[1][2] ELSE 0) + ResetSum(Tail(P))

\* promql/functions.go extrapolatedRate; last - first is NaN when the first or the last sample is NaN (and stays NaN through
\* the factor); NaN samples in between only hide resets
Extrapolated(P, lo, hi, r, U, isCounter, isRate, dv) ==
  LET n1      == Len(P) - 1
      firstT  == P[1][1]
      lastT   == P[Len(P)][1]
      raw     == P[Len(P)][2] - P[1][2] + (IF isCounter /\ "rate_no_reset" \notin dv THEN ResetSum(P) ELSE 0)
      sampled == R(lastT - firstT)
      avgDur  == Norm(lastT - firstT, n1)
      toStart0 == R(firstT - lo)
      toEnd   == R(hi - lastT)
      toZero  == RDiv(RMul(sampled, R(P[1][2])), R(raw))
      toStart == IF isCounter /\ raw > 0 /\ P[1][2] >= 0 /\ "extrap_no_zero_clamp" \notin dv /\ RLt(toZero, toStart0)
                   THEN toZero ELSE toStart0
      thr     == RMul(avgDur, Norm(11, 10))
      half    == RDiv(avgDur, R(2))
      ext     == RAdd(RAdd(sampled, IF RLt(toStart, thr) THEN toStart ELSE half), IF RLt(toEnd, thr) THEN toEnd ELSE half)
      factor0 == RDiv(ext, sampled)
      factor  == IF isRate /\ "rate_not_per_second" \notin dv THEN RDiv(factor0, R(r * U)) ELSE factor0
  IN IF P[1][2] = NAN \/ P[Len(P)][2] = NAN THEN NaN ELSE RMul(R(raw), factor)

\* the floating-point threshold avg*1.1 and the exact 11/10 may decide differently exactly on the edge: such cases are not generated
KnifeEdge(P, lo, hi) ==
  /\ Len(P) >= 2
  /\ LET n1 == Len(P) - 1
         sampled == P[Len(P)][1] - P[1][1]
     IN \/ (P[1][1] - lo) * 10 * n1 = sampled * 11
        \/ (hi - P[Len(P)][1]) * 10 * n1 = sampled * 11

RFnDefined(fn, P) ==
  IF fn \in {"rate", "increase", "delta", "irate", "idelta"} THEN Len(P) >= 2 ELSE Len(P) >= 1

RFnVal(fn, P, lo, hi, r, U, dv) ==
  LET last == P[Len(P)]
      prev == P[Len(P) - 1]
      \* mutation seed sum_skips_nan: NaN samples are left out of the sum and the mean (as the markers are)
      S  == IF "sum_skips_nan" \in dv THEN SelectSeq(P, LAMBDA p : p[2] # NAN) ELSE P
  IN CASE fn = "rate"     -> Extrapolated(P, lo, hi, r, U, TRUE, TRUE, dv)
       [] fn = "increase" -> Extrapolated(P, lo, hi, r, U, TRUE, FALSE, dv)
       [] fn = "delta"    -> Extrapolated(P, lo, hi, r, U, FALSE, FALSE, dv)
       \* instantValue: the last two samples; NaN - x = NaN, NaN / dt = NaN
       [] fn = "irate"    -> IF last[2] = NAN \/ prev[2] = NAN THEN NaN
                             ELSE RDiv(R(IF last[2] < prev[2] THEN last[2] ELSE last[2] - prev[2]), R((last[1] - prev[1]) * U))
       [] fn = "idelta"   -> IF last[2] = NAN \/ prev[2] = NAN THEN NaN ELSE R(last[2] - prev[2])
       [] fn = "resets"   -> R(Resets(P))
       [] fn = "changes"  -> R(Changes(P))
       \* funcSumOverTime / funcAvgOverTime (Kahan sum, incremental mean): one NaN sample makes the answer NaN
       [] fn = "sum_over_time"   -> IF HasNaN(S) THEN NaN ELSE R(SumPts(S))
       [] fn = "avg_over_time"   -> IF HasNaN(S) THEN NaN ELSE IF S = <<>> THEN NaN ELSE Norm(SumPts(S), Len(S))
       [] fn = "min_over_time"   -> MinMaxPts(P, TRUE, dv)
       [] fn = "max_over_time"   -> MinMaxPts(P, FALSE, dv)
       \* a NaN sample is a sample: counted, present, and the last one
       [] fn = "count_over_time" -> R(Len(P))
       [] fn = "last_over_time"  -> V(last[2])
       [] OTHER                  -> R(1)       \* present_over_time

-----------------------------------------------------------------------------
(* expressions: records with a field k                                                           *)
(*   [k "num", v]                                  scalar literal                                *)
(*   [k "sel", m, ms, off]                         instant selector, ms = <<[l, op, v]>>         *)
(*   [k "rfn", fn, arg (a sel), r]                 range function over arg[r]                    *)
(*   [k "agg", op, mode none|by|without, ls, arg]  aggregation                                   *)
(*   [k "bin", op, bool, vm none|on|ignoring, vls, l, r]                                         *)
(* a vector is a set of [lab, v]; selectors are addressed by their path in the expression        *)

RECURSIVE IsScalar(_)
IsScalar(e) == e.k = "num" \/ (e.k = "bin" /\ IsScalar(e.l) /\ IsScalar(e.r))

RECURSIVE EvalS(_)
EvalS(e) == IF e.k = "num" THEN R(e.v)
            ELSE IF e.op \in ArithOps THEN Arith(e.op, EvalS(e.l), EvalS(e.r))
            ELSE IF Cmp(e.op, EvalS(e.l), EvalS(e.r)) THEN R(1) ELSE R(0)

AggOps == {"sum", "min", "max", "count", "avg"}
GroupLab(lab, e, dv) ==
  CASE e.mode = "by"      -> LKeep(lab, e.ls)
    [] e.mode = "without" -> LDrop(lab, e.ls \cup (IF "without_keeps_name" \in dv THEN {} ELSE {NAME}))
    [] OTHER              -> EmptyLab
\* promql/engine.go aggregation: sum / avg add NaN (the answer is NaN); count counts it; min / max:
\* `if group.floatValue > s.F || math.IsNaN(group.floatValue)` - NaN is replaced by any number, the answer is NaN only if
\* every element of the group is NaN
\* mutation seed agg_minmax_keeps_nan: the IsNaN escape is lost, a group with a NaN element answers NaN
\* as implemented (F-C18-11, sentinel): a min / max that is evaluated by the executor's hash aggregation (its operand is an
\* arithmetic / comparison or another aggregation over instant selectors; aggregations directly over a selector or over range
\* functions are evaluated elsewhere and are right) starts from +-math.MaxFloat64 instead of the first element
\* (engine/executor/hash_agg_func_prom.go minPromOperator / maxPromOperator): a group whose elements are all NaN never
\* replaces the start value, the answer is +MaxFloat64 (min) / -MaxFloat64 (max)
AggVal(op, G, dv, sentinel) ==
  LET sum == FoldSet(LAMBDA x, acc : RAdd(acc, x.v), R(0), G)
      nums == {x \in G : ~IsNaN(x.v)}
      any == (CHOOSE x \in nums : TRUE).v
  IN CASE op = "sum"   -> sum
       [] op = "count" -> R(Cardinality(G))
       [] op = "avg"   -> RDiv(sum, R(Cardinality(G)))
       [] OTHER        ->
            IF nums = {} /\ sentinel THEN (IF op = "min" THEN Huge ELSE NHuge)
            ELSE IF nums = {} \/ ("agg_minmax_keeps_nan" \in dv /\ nums # G) THEN NaN
            ELSE IF op = "min" THEN FoldSet(LAMBDA x, acc : RMinOf(acc, x.v), any, nums)
            ELSE FoldSet(LAMBDA x, acc : RMaxOf(acc, x.v), any, nums)

\* vector op scalar; vecLeft = the vector is the left operand
\* as implemented (F-C18-10, nanPass): the filter form of < <= > >= between a plain selector and a scalar is pushed down to the
\* store, whose float filter DROPS a row when the negated comparison holds (lib/binaryfilterfunc GetFloatGTConditionBitMap:
\* `if values[i] <= cmpData { drop }`): a NaN sample satisfies no comparison, so it is never dropped and passes the filter
BinVS(e, vec, sc, vecLeft, asFilter, nanPass) ==
  LET A(x) == IF vecLeft THEN x.v ELSE sc
      B(x) == IF vecLeft THEN sc ELSE x.v
  IN IF e.op \in ArithOps THEN {[lab |-> DropName(x.lab), v |-> Arith(e.op, A(x), B(x))] : x \in vec}
     ELSE IF e.bool /\ ~asFilter THEN {[lab |-> DropName(x.lab), v |-> IF Cmp(e.op, A(x), B(x)) THEN R(1) ELSE R(0)] : x \in vec}
     ELSE {x \in vec : Cmp(e.op, A(x), B(x)) \/ (nanPass /\ e.op \in OrderOps /\ IsNaN(x.v))}

MatchKey(lab, e) ==
  CASE e.vm = "on"       -> LKeep(lab, e.vls)
    [] e.vm = "ignoring" -> LDrop(lab, e.vls \cup {NAME})
    [] OTHER             -> DropName(lab)
ResultLab(lab, e) ==
  LET base == CASE e.vm = "on" -> LKeep(lab, e.vls) [] e.vm = "ignoring" -> LDrop(lab, e.vls) [] OTHER -> lab
  IN IF e.op \in ArithOps \/ e.bool THEN DropName(base) ELSE base
BinVV(e, L, Rv) ==
  LET pairs == {p \in L \X Rv : MatchKey(p[1].lab, e) = MatchKey(p[2].lab, e)}
  IN IF e.op \in ArithOps THEN {[lab |-> ResultLab(p[1].lab, e), v |-> Arith(e.op, p[1].v, p[2].v)] : p \in pairs}
     ELSE IF e.bool THEN {[lab |-> ResultLab(p[1].lab, e), v |-> IF Cmp(e.op, p[1].v, p[2].v) THEN R(1) ELSE R(0)] : p \in pairs}
     ELSE {[lab |-> ResultLab(p[1].lab, e), v |-> p[1].v] : p \in {q \in pairs : Cmp(e.op, q[1].v, q[2].v)}}

\* as implemented (F-C18-3): comparison `bool` whose vector operand is itself a `bool` comparison filters instead
IsBoolCmp(e) == e.k = "bin" /\ e.op \in CmpOps /\ e.bool /\ ~IsScalar(e)

\* the operand of an aggregation that openGemini evaluates by hash aggregation in the executor (see AggVal)
RECURSIVE AllLeavesSel(_)
AllLeavesSel(e) == CASE e.k = "sel" -> TRUE [] e.k = "rfn" -> FALSE [] e.k = "num" -> TRUE [] e.k = "agg" -> AllLeavesSel(e.arg)
                     [] OTHER -> AllLeavesSel(e.l) /\ AllLeavesSel(e.r)
HashAggPath(e) == e.arg.k \in {"agg", "bin"} /\ AllLeavesSel(e.arg)

RECURSIVE EvalV(_, _, _, _, _, _)
EvalV(D, e, t, dv, src, path) ==
  CASE e.k = "sel" ->
         {[lab |-> D.series[i].lab, v |-> V(InstantVal(Window(D, i, t, e.off, 0, dv, src, path), dv)[2])] :
            i \in {j \in Sel(D, e, dv) : InstantVal(Window(D, j, t, e.off, 0, dv, src, path), dv)[1]}}
    [] e.k = "rfn" ->
         LET lo == WinLo(t, e.arg.off, e.r, dv)
             hi == WinHi(t, e.arg.off, dv)
             P(i) == NonStale(Window(D, i, t, e.arg.off, e.r, dv, src, path))
         IN {[lab |-> IF KeepsName(e.fn) THEN D.series[i].lab ELSE DropName(D.series[i].lab),
              v |-> RFnVal(e.fn, P(i), lo, hi, e.r, D.unit, dv)] :
               i \in {j \in Sel(D, e.arg, dv) : RFnDefined(e.fn, P(j))}}
    [] e.k = "agg" ->
         LET arg == EvalV(D, e.arg, t, dv, src, Append(path, 1))
             keys == {GroupLab(x.lab, e, dv) : x \in arg}
         IN {[lab |-> g, v |-> AggVal(e.op, {x \in arg : GroupLab(x.lab, e, dv) = g}, dv,
                                       "minmax_sentinel_leaks" \in dv /\ HashAggPath(e))] : g \in keys}
    [] OTHER ->   \* bin, at least one vector operand
         IF IsScalar(e.r) THEN
              BinVS(e, EvalV(D, e.l, t, dv, src, Append(path, 1)), EvalS(e.r), TRUE,
                    "nested_bool_filters" \in dv /\ IsBoolCmp(e.l), "nan_passes_comparison" \in dv /\ e.l.k = "sel")
         ELSE IF IsScalar(e.l) THEN
              BinVS(e, EvalV(D, e.r, t, dv, src, Append(path, 2)), EvalS(e.l), FALSE,
                    "nested_bool_filters" \in dv /\ IsBoolCmp(e.r), "nan_passes_comparison" \in dv /\ e.r.k = "sel")
         ELSE BinVV(e, EvalV(D, e.l, t, dv, src, Append(path, 1)), EvalV(D, e.r, t, dv, src, Append(path, 2)))

Direct == [mode |-> "direct"]
Eval(D, e, t, dv) == EvalV(D, e, t, dv, Direct, <<>>)

\* the selectors of an expression with their paths
RECURSIVE SelNodes(_, _)
SelNodes(e, path) ==
  CASE e.k = "sel" -> {[p |-> path, off |-> e.off, r |-> 0]}
    [] e.k = "rfn" -> {[p |-> path, off |-> e.arg.off, r |-> e.r]}
    [] e.k = "agg" -> SelNodes(e.arg, Append(path, 1))
    [] e.k = "bin" -> SelNodes(e.l, Append(path, 1)) \cup SelNodes(e.r, Append(path, 2))
    [] OTHER       -> {}

---- (* what the engines refuse or what floating point decides: such (data, query, time) are not generated *)
Unique(vec) == \A x, y \in vec : x.lab = y.lab => x = y
AllFin(vec) == \A x \in vec : Num(x.v)      \* numbers and NaN flow into operators; infinities (x / 0) do not

RECURSIVE Ok(_, _, _, _)
Ok(D, e, t, dv) ==
  CASE e.k = "num" -> TRUE
    [] e.k = "sel" -> TRUE
    [] e.k = "rfn" -> \A i \in Sel(D, e.arg, dv) :
                         ~KnifeEdge(NonStale(PtsIn(D.series[i].pts, WinLo(t, e.arg.off, e.r, dv), WinHi(t, e.arg.off, dv))),
                                    WinLo(t, e.arg.off, e.r, dv), WinHi(t, e.arg.off, dv))
    [] e.k = "agg" -> Ok(D, e.arg, t, dv) /\ AllFin(Eval(D, e.arg, t, dv))
    [] OTHER ->
         IF IsScalar(e) THEN Fin(EvalS(e))
         ELSE IF IsScalar(e.r) THEN Ok(D, e.l, t, dv) /\ Fin(EvalS(e.r)) /\ AllFin(Eval(D, e.l, t, dv)) /\ Unique(Eval(D, e, t, dv))
         ELSE IF IsScalar(e.l) THEN Ok(D, e.r, t, dv) /\ Fin(EvalS(e.l)) /\ AllFin(Eval(D, e.r, t, dv)) /\ Unique(Eval(D, e, t, dv))
         ELSE LET L == Eval(D, e.l, t, dv)
                  Rv == Eval(D, e.r, t, dv)
              IN /\ Ok(D, e.l, t, dv) /\ Ok(D, e.r, t, dv) /\ AllFin(L) /\ AllFin(Rv)
                 /\ \A x, y \in L : MatchKey(x.lab, e) = MatchKey(y.lab, e) => x = y     \* one-to-one
                 /\ \A x, y \in Rv : MatchKey(x.lab, e) = MatchKey(y.lab, e) => x = y
                 /\ Unique(Eval(D, e, t, dv))

-----------------------------------------------------------------------------
(* queries: [kind "instant", e, t] and [kind "range", e, start, end, step] *)

Steps(q) == IF q.kind = "instant" THEN <<q.t>>
            ELSE [i \in 1..((q.end - q.start) \div q.step + 1) |-> q.start + (i - 1) * q.step]

ScalarVec(e) == {[lab |-> EmptyLab, v |-> EvalS(e)]}
EvalTop(D, e, t, dv) == IF IsScalar(e) THEN ScalarVec(e) ELSE Eval(D, e, t, dv)
OkTop(D, e, t, dv) == Ok(D, e, t, dv) /\ Unique(EvalTop(D, e, t, dv))

\* exported forms: a vector is a sequence of [lab, n, d]; a matrix a sequence of [lab, pts <<t, n, d>>]
VecOut(vec) == LET s == SetToSeq(vec) IN [i \in 1..Len(s) |-> [lab |-> s[i].lab, n |-> s[i].v.n, d |-> s[i].v.d]]
MatrixOf(ts, vecs) ==
  LET labs == SetToSeq(UNION {{x.lab : x \in vecs[i]} : i \in 1..Len(vecs)})
      Pt(l, i) == LET x == CHOOSE y \in vecs[i] : y.lab = l IN <<ts[i], x.v.n, x.v.d>>
  IN [j \in 1..Len(labs) |->
        [lab |-> labs[j],
         pts |-> LET idx == SelectSeq([i \in 1..Len(vecs) |-> i], LAMBDA i : \E y \in vecs[i] : y.lab = labs[j])
                 IN [k \in 1..Len(idx) |-> Pt(labs[j], idx[k])]]]

DirectVecs(D, q, dv) == LET ts == Steps(q) IN [i \in 1..Len(ts) |-> EvalTop(D, q.e, ts[i], dv)]

\* as-implemented deviation models of the open findings (known_findings.json): the answers they predict
\* ImplDevs: the models that are evaluated for every case (alone and in every combination of the ones that are relevant to
\* the expression: the real answer may show any subset of them - e.g. the sentinel of F-C18-11 leaks only in the plan shapes
\* that the executor evaluates by hash aggregation)
ImplDevs == {"empty_matcher_ignored", "regex_unanchored", "nested_bool_filters", "unknown_label_ignored", "nan_passes_comparison",
             "minmax_sentinel_leaks"}
FindingOfDev(d) == CASE d = "empty_matcher_ignored" -> "F-C18-1" [] d = "regex_unanchored" -> "F-C18-2"
                     [] d = "nested_bool_filters" -> "F-C18-3" [] d = "unknown_label_ignored" -> "F-C18-4"
                     [] d = "nan_passes_comparison" -> "F-C18-10" [] d = "minmax_sentinel_leaks" -> "F-C18-11" [] OTHER -> "?"
\* whether a deviation can change the answer of an expression at all (decided from the text of the expression)
RECURSIVE SelsOf(_)
SelsOf(e) == CASE e.k = "sel" -> {e} [] e.k = "rfn" -> {e.arg} [] e.k = "agg" -> SelsOf(e.arg)
               [] e.k = "bin" -> SelsOf(e.l) \cup SelsOf(e.r) [] OTHER -> {}
RECURSIVE AggNodes(_)
AggNodes(e) == CASE e.k = "agg" -> {e} \cup AggNodes(e.arg) [] e.k = "bin" -> AggNodes(e.l) \cup AggNodes(e.r) [] OTHER -> {}
RECURSIVE BinNodes(_)
BinNodes(e) == CASE e.k = "agg" -> BinNodes(e.arg) [] e.k = "bin" -> {e} \cup BinNodes(e.l) \cup BinNodes(e.r) [] OTHER -> {}
DevRelevant(D, e, d) ==
  CASE d = "empty_matcher_ignored" -> \E s \in SelsOf(e) : \E j \in 1..Len(s.ms) : s.ms[j].v = "" /\ s.ms[j].op \in {"eq", "ne"}
    [] d = "regex_unanchored"      -> \E s \in SelsOf(e) : \E j \in 1..Len(s.ms) :
                                         s.ms[j].op \in {"re", "nre"} /\ RegexTab[s.ms[j].v].full # RegexTab[s.ms[j].v].part
    [] d = "unknown_label_ignored" -> \E s \in SelsOf(e) : \E j \in 1..Len(s.ms) : s.ms[j].l \notin KnownKeys(D, s.m)
    [] d = "nested_bool_filters"   -> \E b \in BinNodes(e) : b.op \in CmpOps /\ b.bool /\ ~IsScalar(b) /\
                                         ((IsScalar(b.r) /\ IsBoolCmp(b.l)) \/ (IsScalar(b.l) /\ IsBoolCmp(b.r)))
    [] d = "minmax_sentinel_leaks" -> \E a \in AggNodes(e) : a.op \in {"min", "max"} /\ HashAggPath(a)
    [] d = "nan_passes_comparison" -> \E b \in BinNodes(e) : b.op \in OrderOps /\ ~b.bool /\
                                         ((IsScalar(b.r) /\ b.l.k = "sel") \/ (IsScalar(b.l) /\ b.r.k = "sel"))
    [] OTHER -> TRUE


Relevant(D, e) == {d \in ImplDevs : DevRelevant(D, e, d)}
Combos(D, e) == (SUBSET Relevant(D, e)) \ {{}}

RECURSIVE RfnNodes(_)
RfnNodes(e) == CASE e.k = "rfn" -> {e}
                 [] e.k = "agg" -> RfnNodes(e.arg)
                 [] e.k = "bin" -> RfnNodes(e.l) \cup RfnNodes(e.r)
                 [] OTHER -> {}
\* the samples of series i that a range query fetches for the range function node e
Fetched(D, q, e, i) == PtsIn(D.series[i].pts, q.start - e.arg.off - e.r, q.end - e.arg.off)
\* series of the metric all of whose fetched samples fall between the windows of the steps (possible when range < step)
GapSeries(D, q, e) ==
  {i \in 1..NSeries(D) :
     /\ NameOfS(D.series[i]) = e.arg.m
     /\ LET f == Fetched(D, q, e, i)
        IN /\ f # <<>>
           /\ \A j \in 1..Len(f) : \A k \in 1..Len(Steps(q)) :
                 ~(f[j][1] >= Steps(q)[k] - e.arg.off - e.r /\ f[j][1] <= Steps(q)[k] - e.arg.off)}
\* predicate of F-C18-7: the real server answers such a query with one point per multiple of the step since 1970
Runaway(D, q) == q.kind = "range" /\ \E e \in RfnNodes(q.e) : e.r < q.step /\ GapSeries(D, q, e) # {}

WellFormed(D, q) ==
  /\ q.kind = "range" => q.step > 0 /\ q.end >= q.start
  /\ \A i \in 1..Len(Steps(q)) : OkTop(D, q.e, Steps(q)[i], Dev)
  /\ AllowRunaway \/ ~Runaway(D, q)
  \* the predictions of the deviation models that can change the answer must be defined too
  /\ \A S \in Combos(D, q.e) : \A i \in 1..Len(Steps(q)) : OkTop(D, q.e, Steps(q)[i], Dev \cup S)

\* as implemented (F-C18-7, deviation gap_sample_runaway), modelled for the sentinel shape only: a top level
\* *_over_time(m[r]) with r < step, the epoch of the data set known, a series with ONE fetched sample that falls
\* between the windows: the series is answered with the function of that sample at every multiple of the step
\* (counted from 1970) up to the sample
RunawayModelled(D, q) ==
  /\ q.kind = "range" /\ q.e.k = "rfn" /\ q.e.r < q.step /\ D.epoch > 0 /\ q.e.arg.off = 0
  /\ q.e.fn \in {"sum_over_time", "avg_over_time", "min_over_time", "max_over_time", "count_over_time", "last_over_time", "present_over_time"}
  /\ \A i \in GapSeries(D, q, q.e) : Len(Fetched(D, q, q.e, i)) = 1 /\ Fetched(D, q, q.e, i)[1][2] # STALE
RunawayExtra(D, q) ==
  LET e == q.e
      gs == SetToSeq(GapSeries(D, q, e) \cap Sel(D, e.arg, {}))
  IN [j \in 1..Len(gs) |->
        LET p == Fetched(D, q, e, gs[j])[1]
            n == (D.epoch + p[1]) \div q.step
            v == RFnVal(e.fn, <<p>>, 0, 0, e.r, D.unit, {})
        IN [lab |-> IF KeepsName(e.fn) THEN D.series[gs[j]].lab ELSE DropName(D.series[gs[j]].lab),
            pts |-> [k \in 1..n |-> <<k * q.step - D.epoch, v.n, v.d>>]]]

KnownAnswers(D, q, ideal) ==
  LET ts == Steps(q)
      cs == SetToSeq(Combos(D, q.e))
      K(S) == LET dv == Dev \cup S
                  vs == DirectVecs(D, q, dv)
                  rs0 == SetToSeq(S)
              IN [id |-> "F-C18", ids |-> [j \in 1..Len(rs0) |-> FindingOfDev(rs0[j])], differs |-> vs # ideal,
                  ans |-> IF q.kind = "instant" THEN VecOut(vs[1]) ELSE MatrixOf(ts, vs)]
      ks == [i \in 1..Len(cs) |-> K(cs[i])]
      rw == IF q.kind = "range" /\ Runaway(D, q) /\ RunawayModelled(D, q)
              THEN <<[id |-> "F-C18-7", ids |-> <<"F-C18-7">>, differs |-> TRUE, ans |-> MatrixOf(ts, ideal) \o RunawayExtra(D, q)]>> ELSE <<>>
  IN SelectSeq(ks, LAMBDA k : k.differs) \o rw

-----------------------------------------------------------------------------
(* the state machine *)

NoRS == [on |-> FALSE]

Init == /\ data = NoData /\ cur = NoQ /\ rs = NoRS /\ hist = <<>>

\* POST /api/v1/write (remote write): the sample set becomes queryable
Load(D) ==
  /\ data = NoData /\ D.series # <<>>
  /\ data' = D
  /\ hist' = IF Logging THEN Append(hist, [a |-> "data", unit |-> D.unit, epoch |-> D.epoch, lookback |-> Lookback,
                                           series |-> D.series]) ELSE hist
  /\ UNCHANGED <<cur, rs>>

\* GET /api/v1/query
AskInstant(q) ==
  /\ data # NoData /\ ~rs.on /\ q.kind = "instant"
  /\ WellFormed(data, q)
  /\ cur' = q
  /\ LET vs == DirectVecs(data, q, Dev)
     IN hist' = IF Logging
                  THEN Append(hist, [a |-> "instant", e |-> q.e, t |-> q.t, scalar |-> IsScalar(q.e),
                                     exp |-> VecOut(vs[1]), known |-> KnownAnswers(data, q, vs)])
                  ELSE Append(hist, 0)
  /\ UNCHANGED <<data, rs>>

\* GET /api/v1/query_range: the evaluator is set up, every selector starts with empty buffers
AskRange(q) ==
  /\ data # NoData /\ ~rs.on /\ q.kind = "range"
  /\ WellFormed(data, q)
  /\ cur' = q
  /\ rs' = [on |-> TRUE, k |-> 1,
            buf |-> [p \in {s.p : s \in SelNodes(q.e, <<>>)} |-> [i \in 1..NSeries(data) |-> <<>>]],
            out |-> <<>>]
  /\ UNCHANGED <<data, hist>>

\* promql/engine.go matrixIterSlice, engine/prom_range_vector_cursor.go, prom_instant_vector_cursor.go:
\* samples before the new window are dropped, samples after the last buffered one up to the new end are appended
\* as implemented (F-C18-7, gap_sample_runaway): a sample BETWEEN two windows (range < step) is not skipped, it is
\* buffered and answers for a window it is not in (prevHi = right end of the previous window)
Slide(old, pts, lo, hi, prevHi, dv) ==
  LET kept == IF "slide_no_drop" \in dv THEN old ELSE SelectSeq(old, LAMBDA p : p[1] >= lo)
      from == IF "gap_sample_runaway" \in dv /\ prevHi + 1 < lo THEN prevHi + 1
              ELSE IF kept = <<>> \/ "slide_reappend" \in dv THEN lo ELSE kept[Len(kept)][1] + 1
  IN kept \o PtsIn(pts, from, hi)

\* one evaluation step of the running range query
RangeStep ==
  /\ rs.on
  /\ LET q    == cur
         ts   == Steps(q)
         t    == ts[rs.k]
         sn   == SelNodes(q.e, <<>>)
         nb   == [p \in DOMAIN rs.buf |->
                    LET s == CHOOSE x \in sn : x.p = p
                    IN [i \in 1..NSeries(data) |->
                          Slide(rs.buf[p][i], data.series[i].pts, WinLo(t, s.off, s.r, Dev), WinHi(t, s.off, Dev),
                                IF rs.k = 1 THEN WinHi(t, s.off, Dev) ELSE WinHi(ts[rs.k - 1], s.off, Dev), Dev)]]
         vec  == IF IsScalar(q.e) THEN ScalarVec(q.e) ELSE EvalV(data, q.e, t, Dev, [mode |-> "buf", buf |-> nb], <<>>)
         out  == Append(rs.out, vec)
         last == rs.k = Len(ts)
     IN /\ rs' = IF last THEN [on |-> FALSE, out |-> out] ELSE [rs EXCEPT !.k = @ + 1, !.buf = nb, !.out = out]
        /\ hist' = IF ~last THEN hist
                   ELSE IF Logging
                     THEN Append(hist, [a |-> "range", e |-> q.e, start |-> q.start, end |-> q.end, step |-> q.step,
                                        scalar |-> IsScalar(q.e), exp |-> MatrixOf(ts, out),
                                        known |-> KnownAnswers(data, q, DirectVecs(data, q, Dev))])
                     ELSE Append(hist, 0)
  /\ UNCHANGED <<data, cur>>

\* a drawn query that the engines refuse (many-to-one match, duplicate label sets) or that floating point decides
\* (knife edge of the extrapolation threshold, infinities flowing into operators) is passed over
Skip(q) ==
  /\ data # NoData /\ ~rs.on /\ ~WellFormed(data, q)
  /\ hist' = Append(hist, IF Logging THEN [a |-> "skip"] ELSE 0)
  /\ UNCHANGED <<data, cur, rs>>

Next ==
  /\ Len(hist) < Depth
  /\ IF data = NoData THEN \E D \in DataChoices(0) : Load(D)
     ELSE IF rs.on THEN RangeStep
     ELSE \E q \in QueryChoices(data, Len(hist)) : AskInstant(q) \/ AskRange(q) \/ Skip(q)

Spec == Init /\ [][Next]_vars

-----------------------------------------------------------------------------
(* invariants *)

\* a range query equals the sequence of instant queries at its steps
RangeEqInstants ==
  (cur # NoQ /\ cur.kind = "range" /\ ~rs.on /\ "out" \in DOMAIN rs) => rs.out = DirectVecs(data, cur, Dev)

\* laws of the semantics over the instant query asked last; each is stated WITHOUT the operator it constrains
IsInst == cur # NoQ /\ cur.kind = "instant" /\ ~IsScalar(cur.e)
E == cur.e
T == cur.t
ValOf(vec, lab) == (CHOOSE x \in vec : x.lab = lab).v
Has(vec, lab) == \E x \in vec : x.lab = lab

\* instant selector: a series is returned iff its latest sample in [t-off-Lookback, t-off] exists and is not a marker
LawInstant ==
  (IsInst /\ E.k = "sel") =>
    LET vec == Eval(data, E, T, Dev)
        ref == T - E.off
    IN \A i \in Sel(data, E, {}) :
         LET cand == {j \in 1..Len(data.series[i].pts) : data.series[i].pts[j][1] <= ref /\ data.series[i].pts[j][1] >= ref - Lookback}
             lab  == data.series[i].lab
         IN IF cand = {} THEN ~Has(vec, lab)
            ELSE LET p == data.series[i].pts[Max(cand)]
                 IN IF p[2] = STALE THEN ~Has(vec, lab) ELSE Has(vec, lab) /\ ValOf(vec, lab) = V(p[2])   \* a NaN sample is returned

\* offset o at time t = no offset at time t - o
LawOffset ==
  (IsInst /\ E.k = "sel" /\ E.off > 0) => Eval(data, E, T, Dev) = Eval(data, [E EXCEPT !.off = 0], T - E.off, Dev)

\* = and != (=~ and !~) of the same matcher split the selection; alternations are unions of equalities
LawMatchers ==
  (IsInst /\ E.k = "sel" /\ Len(E.ms) = 1) =>
    LET m    == E.ms[1]
        all  == Sel(data, [E EXCEPT !.ms = <<>>], Dev)
        neg  == [m EXCEPT !.op = CASE m.op = "eq" -> "ne" [] m.op = "ne" -> "eq" [] m.op = "re" -> "nre" [] OTHER -> "re"]
        a    == Sel(data, E, Dev)
        b    == Sel(data, [E EXCEPT !.ms = <<neg>>], Dev)
        EqSel(v) == Sel(data, [E EXCEPT !.ms = <<[l |-> m.l, op |-> "eq", v |-> v]>>], Dev)
    IN /\ a \cup b = all /\ a \cap b = {}
       /\ m.op = "re" => a = UNION {EqSel(v) : v \in RegexTab[m.v].full}
       /\ m.op = "eq" => \A i \in a : LGet(data.series[i].lab, m.l) = m.v

\* *_over_time: count = number of non-stale samples in the closed window (NaN samples are samples); without a NaN sample
\* avg * count = sum and min <= avg <= max; with one, sum and avg are NaN; min / max are the extremes of the NUMBERS of the
\* window wherever the NaN samples stand (first, middle, last), and NaN only when every sample of the window is NaN;
\* last_over_time is the last sample whatever it is
LawOverTime ==
  (IsInst /\ E.k = "rfn" /\ E.fn = "avg_over_time") =>
    LET F(fn) == Eval(data, [E EXCEPT !.fn = fn], T, Dev)
    IN \A i \in Sel(data, E.arg, {}) :
         LET W == {j \in 1..Len(data.series[i].pts) :
                     /\ data.series[i].pts[j][2] # STALE
                     /\ data.series[i].pts[j][1] <= T - E.arg.off
                     /\ data.series[i].pts[j][1] >= T - E.arg.off - E.r}
             n == Cardinality(W)
             vals == {data.series[i].pts[j][2] : j \in W}
             nums == vals \ {NAN}
             lab == DropName(data.series[i].lab)
             Val(fn) == ValOf(F(fn), lab)
         IN IF n = 0 THEN \A fn \in {"count_over_time", "avg_over_time", "sum_over_time", "min_over_time", "max_over_time"} : ~Has(F(fn), lab)
            ELSE /\ \A fn \in {"count_over_time", "avg_over_time", "sum_over_time", "min_over_time", "max_over_time"} : Has(F(fn), lab)
                 /\ Val("count_over_time") = R(n)
                 /\ ValOf(F("last_over_time"), data.series[i].lab) = V(data.series[i].pts[Max(W)][2])
                 /\ IF NAN \in vals THEN IsNaN(Val("avg_over_time")) /\ IsNaN(Val("sum_over_time"))
                    ELSE /\ RMul(Val("avg_over_time"), R(n)) = Val("sum_over_time")
                         /\ RLe(Val("min_over_time"), Val("avg_over_time")) /\ RLe(Val("avg_over_time"), Val("max_over_time"))
                 /\ IF nums = {} THEN IsNaN(Val("min_over_time")) /\ IsNaN(Val("max_over_time"))
                    ELSE /\ \E v \in nums : Val("min_over_time") = R(v)
                         /\ \E v \in nums : Val("max_over_time") = R(v)
                         /\ \A v \in nums : RLe(Val("min_over_time"), R(v)) /\ RLe(R(v), Val("max_over_time"))

\* rate = increase / range seconds; a counter that never goes negative never has a negative increase, and the
\* extrapolation to the left never passes the zero point of the counter; the extrapolated span is at most the range
LawRate ==
  (IsInst /\ E.k = "rfn" /\ E.fn = "rate") =>
    LET rate == Eval(data, E, T, Dev)
        inc  == Eval(data, [E EXCEPT !.fn = "increase"], T, Dev)
    IN /\ {x.lab : x \in rate} = {x.lab : x \in inc}
       /\ \A x \in rate : RMul(x.v, R(E.r * data.unit)) = ValOf(inc, x.lab)
       /\ \A i \in Sel(data, E.arg, {}) :
            LET P == NonStale(PtsIn(data.series[i].pts, T - E.arg.off - E.r, T - E.arg.off))
                lab == DropName(data.series[i].lab)
            IN /\ (Len(P) >= 2 /\ (P[1][2] = NAN \/ P[Len(P)][2] = NAN)) => Has(inc, lab) /\ IsNaN(ValOf(inc, lab))
               /\ (Len(P) >= 2 /\ \A j \in 1..Len(P) : P[j][2] >= 0) =>       \* (no NaN sample: NAN < 0)
                 Has(inc, lab) /\
                 LET raw == P[Len(P)][2] - P[1][2] + ResetSum(P)
                     v == ValOf(inc, lab)
                 IN /\ RLe(R(0), v) /\ RLe(R(raw), v)
                    /\ RLe(RMul(v, R(P[Len(P)][1] - P[1][1])), RMul(R(raw), R(E.r)))
                    \* the part of the increase attributed to the time before the first sample (at least the total
                    \* minus the sampled part minus the whole distance to the right end) is at most the first value
                    /\ RLe(RSub(v, RDiv(RMul(R(raw), R(T - E.arg.off - P[1][1])), R(P[Len(P)][1] - P[1][1]))), R(P[1][2]))

\* aggregation: the groups partition the operand; by(ls) and without(all other labels) coincide; the name is dropped
AllLabs == {"job", "inst"}
\* min / max: every group answers with the extreme of its NUMBERS; NaN only if all its elements are NaN
LawAggMinMax ==
  (IsInst /\ E.k = "agg" /\ E.op \in {"min", "max"}) =>
    LET arg == Eval(data, E.arg, T, Dev)
        res == Eval(data, E, T, Dev)
    IN /\ {x.lab : x \in res} = {GroupLab(x.lab, E, {}) : x \in arg}
       /\ \A g \in res :
            LET nums == {x \in arg : GroupLab(x.lab, E, {}) = g.lab /\ ~IsNaN(x.v)}
            IN IF nums = {} THEN IsNaN(g.v)
               ELSE /\ \E x \in nums : g.v = x.v
                    /\ \A x \in nums : IF E.op = "min" THEN RLe(g.v, x.v) ELSE RLe(x.v, g.v)
LawAgg ==
  (IsInst /\ E.k = "agg" /\ E.op \in {"sum", "count"}) =>
    LET arg == Eval(data, E.arg, T, Dev)
        res == Eval(data, E, T, Dev)
        tot == Eval(data, [E EXCEPT !.mode = "none", !.ls = {}], T, Dev)
    IN /\ arg # {} => FoldSet(LAMBDA x, acc : RAdd(acc, x.v), R(0), res) = ValOf(tot, EmptyLab)
       /\ arg = {} => res = {}
       /\ \A x \in res : NAME \notin DOMAIN x.lab \/ (E.mode = "by" /\ NAME \in E.ls)
       /\ E.mode = "by" => res = Eval(data, [E EXCEPT !.mode = "without", !.ls = AllLabs \ E.ls], T, Dev)

\* comparison: the filter keeps exactly the elements whose bool comparison is 1, with their value and name;
\* the bool form has one element per element of the operand
LawCmp ==
  (IsInst /\ E.k = "bin" /\ E.op \in CmpOps /\ ~IsScalar(E.l) /\ IsScalar(E.r)) =>
    LET arg == Eval(data, E.l, T, Dev)
        flt == Eval(data, [E EXCEPT !.bool = FALSE], T, Dev)
        bl  == Eval(data, [E EXCEPT !.bool = TRUE], T, Dev)
    IN /\ Cardinality(bl) = Cardinality(arg)
       /\ \A x \in bl : x.v \in {R(0), R(1)}
       /\ flt \subseteq arg
       /\ \A x \in arg : (x \in flt) <=> ValOf(bl, DropName(x.lab)) = R(1)
       \* a NaN element satisfies no comparison but != : the filter drops it, the bool form says 0
       /\ \A x \in arg : IsNaN(x.v) => ((x \in flt) <=> E.op = "ne")

Laws == LawInstant /\ LawOffset /\ LawMatchers /\ LawOverTime /\ LawRate /\ LawAgg /\ LawAggMinMax /\ LawCmp
=============================================================================
