----------------------------- MODULE ReplicationMC -----------------------------
EXTENDS Replication, Json
Perms == Permutations(Nodes)
\* fault schedules (Write / Kill leader|follower / Restart / Flush / Query) for the real cluster
Export == (Len(hist) = MaxHist) => PrintT(<<"TRACE", ToJson(hist)>>)
=============================================================================
