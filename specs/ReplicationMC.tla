----------------------------- MODULE ReplicationMC -----------------------------
EXTENDS Replication, Json
Perms == Permutations(Nodes)
\* fault schedules (Write / Kill leader|follower / Restart / Flush / Query) for the real cluster
Export == (Len(hist) = MaxHist) => PrintT(<<"TRACE", ToJson(hist)>>)
\* DIRECTED schedule families. Run with Gen = TRUE; TLC's counterexample of ShortOutageReadAnyReplica (a member that was away for
\* less than TolerateTime, is back and caught up, answers without acknowledged writes) is exported as fault schedule:
\*   "timer"    Dev = as implemented + "outage_timer_not_reset", outages separated by a healthy tick (PatientHealthy)
\*   "rolling"  Dev = as implemented ({"truncate_past_down_member", "outage_timer_per_group"}): F-C05-2
\* directed schedules are driven patiently (a restarted store settles before the next fault): a store is killed only when every
\* running store holds and has applied the leader's log
Quiet == \A l, n \in Nodes : (up[l] /\ role[l] = "L" /\ up[n]) => (log[n] = log[l] /\ durable[n] = Len(log[n]) /\ shAp[n] = Len(log[n]))
Patient == (crashes' > crashes) => Quiet
\* family "timer": the outages are separated by a tick that saw everybody present (hist is recorded: Gen = TRUE)
Ticks == SelectSeq(hist, LAMBDA e : e.a = "Tick")
HealthyBetween == (crashes' > crashes /\ crashes >= 1) => (Len(Ticks) > 0 /\ Ticks[Len(Ticks)].r = "healthy")
PatientHealthy == Patient /\ HealthyBetween
viewT == <<view, Ticks>>          \* HealthyBetween reads the tick observations: they belong to the state
ExportTimer == ShortOutageReadAnyReplica \/ (PrintT(<<"TRACE", ToJson(hist)>>) /\ FALSE)
ExportLongDown == ReadAnyReplica \/ (PrintT(<<"TRACE", ToJson(hist)>>) /\ FALSE)
=============================================================================
