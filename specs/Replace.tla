------------------------------ MODULE Replace ------------------------------
(***************************************************************************)
(* The file replacement protocol used by compaction and out-of-order merge *)
(* (MmsTables.ReplaceFiles + procCompactLog/processLog at start-up), at    *)
(* the granularity of single file-system steps, with a crash possible      *)
(* between any two of them and again during recovery.                      *)
(*                                                                         *)
(*  CreateNew(i)    the compaction itself: new file i created as           *)
(*                  <name>.tssp.init and being written (a crash now leaves *)
(*                  a half-written temporary file)                         *)
(*  WriteNew(i)     new file i complete (written + synced), still .init    *)
(*  LogCreate/LogWrite  compact log created / its content written+synced   *)
(*                  (a crash in between leaves a dirty log = ignored)      *)
(*  RenameNew(i)    RenameTmpFiles: .init -> final name                    *)
(*  DeleteOld(j)    old file removed, or renamed to <name>.init when a     *)
(*                  reader still holds it                                  *)
(*  LogRemove       compact log removed                                    *)
(*  DeleteTail(j)   merge only: the out-of-order inputs are deleted after  *)
(*                  the log is gone (deleteUnorderedFiles)                 *)
(*  Crash, RecReadLog, RecRenameNew, RecDeleteOld, RecRenameOld,           *)
(*  RecRemoveLog, RecLoad                                                  *)
(*                                                                         *)
(* Contents are abstract: the inputs (old + tail files) hold the row set   *)
(* Rows, and so do the new files together. C03 (crash atomicity) is        *)
(* Stable: after the replacement finished or the shard was re-opened, the  *)
(* union of the rows of the visible files is exactly Rows - nothing lost;  *)
(* duplicates of identical rows are harmless because readers merge by key. *)
(***************************************************************************)
EXTENDS Integers, Sequences, FiniteSets, TLC

CONSTANTS NOld,      \* old files listed in the log   1..NOld
          NNew,      \* new files                      1..NNew
          NTail,     \* inputs deleted after the log is removed (merge's out-of-order files)
          MaxCrash,
          Dev

VARIABLES old,      \* [1..NOld -> "final" | "tmp" | "gone"]     (tmp = renamed to .init while in use)
          new,      \* [1..NNew -> "none" | "partial" | "init" | "final" | "torn"]
                    \*   partial = .init file being written; torn = a half-written file under its final name
          tail,     \* [1..NTail -> "final" | "gone"]
          clog,     \* "none" | "dirty" | "ok"
          pc,       \* protocol position
          mode,     \* "run" | "down" | "rec"
          rpc,      \* recovery position
          decision, \* "none" | "forward" | "back" | "skip"
          ncrash,
          done      \* the replacement finished (in memory)

vars == <<old, new, tail, clog, pc, mode, rpc, decision, ncrash, done>>

Olds == 1..NOld
News == 1..NNew
Tails == 1..NTail

\* Rows: old file j holds row j; tail file t holds row NOld + t; new file i holds the rows r with
\* r % NNew = i % NNew, so the new files together hold exactly the rows of all inputs.
Rows == 1..(NOld + NTail)
OldRows(j) == {j}
TailRows(t) == {NOld + t}
NewRows(i) == {r \in Rows : r % NNew = i % NNew}
\* a half-written file holds fewer rows than it should (here: none)
TornRows(i) == {}

\* files a reader (or Open) sees: final names only
Visible == UNION ({OldRows(j) : j \in {x \in Olds : old[x] = "final"}}
                  \cup {TailRows(t) : t \in {x \in Tails : tail[x] = "final"}}
                  \cup {NewRows(i) : i \in {x \in News : new[x] = "final"}}
                  \cup {TornRows(i) : i \in {x \in News : new[x] = "torn"}})
\* no half-written file is ever visible under a final name
NoTornVisible == \A i \in News : new[i] # "torn"

Init == /\ old = [j \in Olds |-> "final"] /\ new = [i \in News |-> "none"]
        /\ tail = [t \in Tails |-> "final"]
        /\ clog = "none" /\ pc = "writing" /\ mode = "run" /\ rpc = "none" /\ decision = "none"
        /\ ncrash = 0 /\ done = FALSE

Running == mode = "run" /\ ~done

CreateNew(i) == /\ Running /\ pc = "writing" /\ new[i] = "none"
                /\ \A k \in News : k < i => new[k] \notin {"none", "partial"}
                /\ new' = [new EXCEPT ![i] = "partial"]
                /\ UNCHANGED <<old, tail, clog, pc, mode, rpc, decision, ncrash, done>>

WriteNew(i) == /\ Running /\ pc = "writing" /\ new[i] = "partial"
               /\ new' = [new EXCEPT ![i] = "init"]
               /\ UNCHANGED <<old, tail, clog, pc, mode, rpc, decision, ncrash, done>>

LogCreate == /\ Running /\ pc = "writing"
             /\ IF "log_before_files_complete" \in Dev
                  THEN \A i \in News : new[i] \in {"partial", "init"}
                  ELSE \A i \in News : new[i] = "init"
             /\ clog' = IF "skip_log" \in Dev THEN "none" ELSE "dirty"
             /\ pc' = "logging"
             /\ UNCHANGED <<old, new, tail, mode, rpc, decision, ncrash, done>>

LogWrite == /\ Running /\ pc = "logging"
            /\ clog' = IF "skip_log" \in Dev THEN "none" ELSE "ok"
            /\ pc' = "renaming"
            /\ UNCHANGED <<old, new, tail, mode, rpc, decision, ncrash, done>>

RenameNew(i) == /\ Running /\ new[i] = "init"
                /\ \/ pc = "renaming"
                   \/ ("rename_before_log" \in Dev /\ pc \in {"writing", "logging"})
                /\ new' = [new EXCEPT ![i] = "final"]
                /\ UNCHANGED <<old, tail, clog, pc, mode, rpc, decision, ncrash, done>>

AllRenamed == \A i \in News : new[i] \in {"final", "torn"}

DeleteOld(j) == /\ Running /\ old[j] = "final"
                /\ \/ (pc = "renaming" /\ AllRenamed)
                   \/ ("delete_old_before_log" \in Dev /\ pc \in {"writing", "logging"})
                /\ \E st \in {"gone", "tmp"} : old' = [old EXCEPT ![j] = st]
                /\ UNCHANGED <<new, tail, clog, pc, mode, rpc, decision, ncrash, done>>

LogRemove == /\ Running /\ pc = "renaming" /\ AllRenamed /\ \A j \in Olds : old[j] # "final"
             /\ clog' = "none" /\ pc' = "tail"
             /\ UNCHANGED <<old, new, tail, mode, rpc, decision, ncrash, done>>

DeleteTail(t) == /\ Running /\ tail[t] = "final"
                 /\ \/ pc = "tail"
                    \/ ("delete_tail_first" \in Dev /\ pc = "writing")
                 /\ tail' = [tail EXCEPT ![t] = "gone"]
                 /\ UNCHANGED <<old, new, clog, pc, mode, rpc, decision, ncrash, done>>

Finish == /\ Running /\ pc = "tail" /\ \A t \in Tails : tail[t] = "gone"
          /\ done' = TRUE
          /\ UNCHANGED <<old, new, tail, clog, pc, mode, rpc, decision, ncrash>>

Crash == /\ mode \in {"run", "rec"} /\ ncrash < MaxCrash
         /\ mode' = "down" /\ ncrash' = ncrash + 1 /\ rpc' = "none" /\ decision' = "none"
         /\ UNCHANGED <<old, new, tail, clog, pc, done>>

\* procCompactLog: a dirty log is skipped; otherwise processLog decides by what exists on disk
\* (by name only: a half-written .init file "exists")
AllNewExist == \A i \in News : new[i] \in {"partial", "init", "final", "torn"}
AllOldExist == \A j \in Olds : old[j] \in {"final", "tmp"}

RecReadLog ==
  /\ mode = "down" /\ mode' = "rec"
  /\ decision' = CASE clog # "ok" -> "skip"
                   [] AllNewExist -> "forward"
                   [] AllOldExist -> "back"
                   [] OTHER -> "invalid"
  /\ rpc' = "fix"
  /\ UNCHANGED <<old, new, tail, clog, pc, ncrash, done>>

RecRenameNew(i) == /\ mode = "rec" /\ rpc = "fix" /\ decision = "forward" /\ new[i] \in {"init", "partial"}
                   /\ new' = [new EXCEPT ![i] = IF new[i] = "init" THEN "final" ELSE "torn"]
                   /\ UNCHANGED <<old, tail, clog, pc, mode, rpc, decision, ncrash, done>>

RecDeleteOld(j) == /\ mode = "rec" /\ rpc = "fix" /\ decision = "forward" /\ AllRenamed
                   /\ old[j] \in {"final", "tmp"}
                   /\ old' = [old EXCEPT ![j] = "gone"]
                   /\ UNCHANGED <<new, tail, clog, pc, mode, rpc, decision, ncrash, done>>

RecRenameOld(j) == /\ mode = "rec" /\ rpc = "fix" /\ decision = "back" /\ old[j] = "tmp"
                   /\ old' = [old EXCEPT ![j] = "final"]
                   /\ UNCHANGED <<new, tail, clog, pc, mode, rpc, decision, ncrash, done>>

FixDone == CASE decision = "forward" -> AllRenamed /\ \A j \in Olds : old[j] = "gone"
             [] decision = "back"    -> \A j \in Olds : old[j] # "tmp"
             [] OTHER -> TRUE

RecRemoveLog == /\ mode = "rec" /\ rpc = "fix" /\ FixDone
                /\ clog' = IF decision = "skip" THEN clog ELSE "none"
                /\ rpc' = "load"
                /\ UNCHANGED <<old, new, tail, pc, mode, decision, ncrash, done>>

\* Open loads every file with a final name; *.init files are ignored and removed
RecLoad == /\ mode = "rec" /\ rpc = "load"
           /\ new' = [i \in News |-> IF new[i] \in {"init", "partial"} THEN "none" ELSE new[i]]
           /\ old' = [j \in Olds |-> IF old[j] = "tmp" THEN "gone" ELSE old[j]]
           /\ mode' = "run" /\ rpc' = "none" /\ done' = TRUE /\ clog' = "none"
           /\ UNCHANGED <<tail, pc, decision, ncrash>>

Next == \/ \E i \in News : CreateNew(i) \/ WriteNew(i) \/ RenameNew(i) \/ RecRenameNew(i)
        \/ \E j \in Olds : DeleteOld(j) \/ RecDeleteOld(j) \/ RecRenameOld(j)
        \/ \E t \in Tails : DeleteTail(t)
        \/ LogCreate \/ LogWrite \/ LogRemove \/ Finish
        \/ Crash \/ RecReadLog \/ RecRemoveLog \/ RecLoad

Spec == Init /\ [][Next]_vars

-----------------------------------------------------------------------------
TypeOK == /\ mode \in {"run", "down", "rec"} /\ clog \in {"none", "dirty", "ok"}
          /\ decision \in {"none", "forward", "back", "skip", "invalid"}

\* C03: whenever the shard serves, exactly the rows that were there before are visible
\* (while a replacement is running, readers use the in-memory file list, which C04 covers; the
\* directory is what counts once the replacement is finished or the shard has been re-opened)
Stable == (mode = "run" /\ done) => Visible = Rows

\* processLog never meets a log it cannot resolve
LogResolvable == decision # "invalid"

\* action properties of the forward protocol (checked on recorded traces as well)
LogBeforeRename == [][ (\E i \in News : new[i] = "init" /\ new'[i] = "final") /\ mode = "run" => clog = "ok" ]_vars
RenameBeforeDelete == [][ (\E j \in Olds : old[j] = "final" /\ old'[j] # "final") /\ mode = "run" => AllRenamed ]_vars
LogRemovedAfterDeletes == [][ (clog = "ok" /\ clog' = "none" /\ mode = "run") => \A j \in Olds : old[j] # "final" ]_vars
=============================================================================
