------------------------------ MODULE CodecMC ------------------------------
EXTENDS Codec, Json
\* Export of the cases for replay into the real encoders (vh replay-codec): one JSON line per behaviour
\* that reached a final phase.
Final  == phase \in {"decoded", "replayed", "unmarshalled"}
Export == Final => PrintT(<<"TRACE", ToJson(hist)>>)

\* simulation: a few random runs per step instead of the full token set; the run length is any number up to
\* two segments, so that thresholds between the exhaustive lengths are hit as well.  The parameter keeps TLC
\* from caching the definition as a constant.
SimTok(k, x) == [c |-> RandomElement(Cls(k)), n |-> IF RandomElement(1..3) = 1 THEN RandomElement(Lens) ELSE RandomElement(1..2 * Seg + 1)]
SimTokens(k) == IF Cls(k) = {} THEN {} ELSE {SimTok(k, Len(hist) + j) : j \in 1..3}
=============================================================================
