"""C07 — every persistent and wire encoding decodes to exactly what was encoded.
Mode A: TLC checks specs/Codec.tla: the mode-selection tables of the integer / timestamp / float (gorilla and MLF
        configuration) / string / boolean block encoders, the block kind (one-row | full | empty | bitmap), the
        segment split, an abstract decoder per mode, the log-record framing and the row-batch framing, for
        EncodeTotal, SegmentsPartition, HeaderExact, DecodeIsIdentity, TornIsIncomplete, BatchPrefixRejected over every
        column shape within the cfg bounds (kind x null pattern x runs of value classes).
Mode B: every shape (+ seeded simulation with longer columns and other segment sizes) is exported with the block kind
        and the SET of modes predicted per segment, and the outcome the deviation models of the open findings predict;
        `vh replay-codec` instantiates each with several concrete value draws and drives the real block codecs, the
        data-file builder and reader, the record codec, the row-batch codec and the WAL, plus EVERY prefix of the log
        file / batch in the cut class of the case.  Verdict: bit inequality after decoding, an error or a panic on the
        real code.  The predicted mode is compared as drift (exit 2), and every mode the specification predicts
        reachable must have been reached (coverage table in the evidence), else exit 2."""
import concurrent.futures as cf
import collections, json, os, re, shutil, time
import vlib

PROP = "C07"
MODULE = "CodecMC"
INVS = "TypeOK EncodeTotal SegmentsPartition HeaderExact DecodeIsIdentity TornIsIncomplete BatchPrefixRejected"
# mutation seeds / as-implemented deviations of the specification: base cfg, kinds, invariant each one must break
SELFTEST = {
    "const_skips_first_delta": ("shape", '{"int"}', "DecodeIsIdentity"),
    "s8b_ignores_first_delta": ("shape", '{"int"}', "DecodeIsIdentity"),
    "split_drops_partial_tail": ("shape", '{"bool"}', "SegmentsPartition"),
    "empty_if_first_null": ("nulls", '{"bool"}', "HeaderExact"),
    "one_row_any_string": ("shape", '{"string"}', "DecodeIsIdentity"),
    "same_ignores_last": ("shape", '{"float"}', "DecodeIsIdentity"),
    "cut_body_accepted": ("log", None, "TornIsIncomplete"),
    "float_same_by_eq": ("nulls", '{"float"}', "DecodeIsIdentity"),
    "mlf_zero_drops_sign": ("nulls", '{"float"}', "DecodeIsIdentity"),
    "gorilla_sum_nan": ("shape", '{"float"}', "EncodeTotal"),
    "eof_body_reuses_buffer": ("log", None, "TornIsIncomplete"),
    "batch_unchecked_slices": ("log", None, "BatchPrefixRejected"),
}
AS_IMPLEMENTED = ["float_same_by_eq", "mlf_zero_drops_sign", "gorilla_sum_nan", "eof_body_reuses_buffer", "batch_unchecked_slices"]
BASE = {"shape": "Codec.shape.quick.cfg", "nulls": "Codec.nulls.quick.cfg", "log": "Codec.log.cfg", "sim": "Codec.sim.cfg"}
# process profiles of the harness: float compression, string compression, chunk-meta compression mode
PROFILES = {"P0": ("gorilla", "snappy", 0), "P1": ("mlf", "zstd", 3), "P2": ("gorilla", "lz4", 1), "P3": ("mlf", "snappy", 2)}
MODE_BYTES = {"int": {"const": 1, "s8b": 2, "zstd": 3, "raw": 4}, "time": {"const": 1, "s8b": 2, "snappy": 3, "raw": 4},
              "float": {"raw": 0, "snappy": 2, "gorilla": 3, "same": 4, "rle": 5, "mlf": 6},
              "string": {"raw": 0, "snappy": 1, "zstd": 2, "lz4": 3}, "bool": {"bitpack": 1}}


def open_deviations():
    """deviation name -> finding id, for the open C07 entries of known_findings.json.
    VERIF_C07_ASSUME_FIXED=F-C07-1,...: validate a candidate fix (tools/mutant.sh <fix.diff> C07): the finding is then
    neither predicted nor tolerated."""
    assume = set(filter(None, os.environ.get("VERIF_C07_ASSUME_FIXED", "").split(",")))
    out = {}
    for f in vlib.load_known(PROP):
        if f["id"] in assume:
            continue
        for d in [f.get("deviation")] + list(f.get("deviations") or []):
            if d:
                out[d] = f["id"]
    return out


def mkcfg(wd, name, base, sub):
    """a copy of specs/cfg/<base> with constants replaced: sub = {constant: text}; 'INVARIANTS' replaces the invariant line"""
    src = open(os.path.join(vlib.SPECS, "cfg", base)).read()
    for k, v in sub.items():
        if k == "INVARIANTS":
            src, n = re.subn(r"(?m)^INVARIANTS .*$", "INVARIANTS " + v, src)
        else:
            src, n = re.subn(r"(?m)^(\s*%s\s*=\s*).*$" % re.escape(k), lambda m: m.group(1) + v, src)
        if n != 1:
            raise vlib.Infra(f"{base}: constant {k} not found")
    p = os.path.join(wd, name)
    open(p, "w").write(src)
    return p


def setof(xs):
    return "{" + ", ".join('"%s"' % x for x in sorted(xs)) + "}"


def plan(tier, seed, impl):
    """(name, base cfg, substitutions, run_tlc kwargs)"""
    im = {"ImplDev": setof(impl)}
    runs = [("log", "log", dict(im), {}),
            ("nulls", "nulls", dict(im), {}),
            ("shape", "shape", dict(im), {})]
    if tier == "quick":
        for i, sg in enumerate((16, 8, 24, 10)):
            runs.append((f"sim.seg{sg}", "sim", dict(im, Seg=str(sg)), dict(simulate=1500, depth=10, seed=seed * 100 + i)))
    else:
        runs[0] = ("log", "log", dict(im, MaxLog="4", MaxBatch="4"), {})
        allnp = '{"none", "all", "alt", "altn", "lead1", "leadS", "trail1", "trailS"}'
        runs[1] = ("nulls", "shape", dict(im, NullPats=allnp, Lens="{1, 2, 16, 17}", StrAlgos='{"snappy"}'), {})
        three = dict(im, MaxRuns="3", MaxVals="51", Lens="{1, 3, 9, 17}")
        runs += [
            ("shape3.int", "shape", dict(three, Kinds='{"int"}', NullPats='{"none", "alt"}'), {}),
            ("shape3.time", "shape", dict(three, Kinds='{"time"}'), {}),
            ("shape3.float.gorilla", "shape", dict(three, Kinds='{"float"}', FloatAlgos='{"gorilla"}'), {}),
            ("shape3.float.mlf", "shape", dict(three, Kinds='{"float"}', FloatAlgos='{"mlf"}'), {}),
            ("shape3.string", "shape", dict(three, Kinds='{"string"}', StrCls='{"EMP", "SH", "REP", "RND"}', NullPats='{"none", "alt"}'), {}),
            ("shape3.bool", "shape", dict(three, Kinds='{"bool"}', NullPats='{"none", "alt"}'), {}),
        ]
        for i, sg in enumerate((16, 8, 24, 10, 32)):
            for j in range(2):
                runs.append((f"sim.seg{sg}.{j}", "sim", dict(im, Seg=str(sg)), dict(simulate=6000, depth=10, seed=seed * 1000 + i * 10 + j)))
    return runs


def profile_of(i, h):
    """the harness profile a case runs under: the float / string algorithm of the case must be the process's"""
    a = h[0]
    if a["a"] == "Choose":
        if a["kind"] == "float":
            return ("P0", "P2")[i % 2] if a["falgo"] == "gorilla" else ("P1", "P3")[i % 2]
        if a["kind"] == "string":
            return {"snappy": ("P0", "P3")[i % 2], "zstd": "P1", "lz4": "P2"}[a["salgo"]]
    return "P%d" % (i % 4)


def death_signature(err):
    """stderr of a harness process that was killed by the Go runtime (fatal error / unrecovered panic in another goroutine)"""
    if "fatal error:" in err or "\npanic:" in err or err.startswith("panic:"):
        return "death"
    return None


def replay_cases(cases, nproc_total=None):
    """cases grouped by profile, the profiles run side by side.  A case on which the real code takes the whole process
    down (runtime fatal error such as an allocation of a fabricated size, panic in a goroutine of the code under test) is
    run again alone in a fresh process: dying again makes it a divergence of that case, anything else is infrastructure."""
    vh = vlib.build_vh()
    groups = collections.defaultdict(list)
    for c in cases:
        groups[c["profile"]].append(c)
    nproc_total = nproc_total or vlib.NCPU
    total = max(1, len(cases))

    def one(prof):
        fa, sa, cm = PROFILES[prof]
        args = ["replay-codec", "--falgo", fa, "--salgo", sa, "--cm", str(cm)]
        n = max(1, round(nproc_total * len(groups[prof]) / total))
        res, errs, dead = vlib.run_vh_parallel(vh, args, groups[prof], nproc=n, timeout=3000, tolerate=death_signature)
        for t in dead:
            c = t["case"]
            p = vlib.run_vh(vh, args, [c], timeout=600)
            if p.returncode in (0, 1) or not death_signature(p.stderr):
                raise vlib.Infra(f"a harness process died on case {c['id']} but the case passes alone: {t['stderr_tail'][-600:]}")
            tail = p.stderr[:1500] + " ... " + p.stderr[-300:]
            res.append({"id": c["id"], "ok": False, "step": len(c["hist"]) - 1, "action": c["hist"][-1]["a"],
                        "detail": "the code under test takes the whole process down on this case (twice, the second time alone in a fresh process): " + tail})
        return prof, res, errs

    results = []
    with cf.ThreadPoolExecutor(max(1, len(groups))) as ex:
        for prof, res, errs in ex.map(one, list(groups)):
            if errs:
                raise vlib.Infra(f"harness process failed (profile {prof}): {errs[0]}")
            if len(res) != len(groups[prof]):
                raise vlib.Infra(f"harness returned {len(res)} results for {len(groups[prof])} cases (profile {prof})")
            results += res
    return results


class Agg:
    def __init__(self, devmap):
        self.devmap = devmap
        self.bad, self.drift = [], []
        self.known = collections.defaultdict(list)     # deviation -> [(detail, case)]
        self.known_n = collections.Counter()
        self.unobs = collections.Counter()
        self.modes = collections.Counter()
        self.stats = collections.Counter()
        self.predicted = collections.defaultdict(set)  # kind -> modes the specification predicts
        self.shapes = set()
        self.nontrivial = set()
        self.n = 0
        self.samples = []

    def add(self, cases, results):
        byid = {c["id"]: c for c in cases}
        for c in cases:
            h = c["hist"]
            key = json.dumps(h, sort_keys=True)
            self.shapes.add(hash(key))
            if h[0]["a"] == "Choose":
                enc = [s for s in h if s["a"] == "Encode"][0]
                for s in enc["impl"]:
                    if s["o"] != "panic":
                        self.predicted[h[0]["kind"]].update(s["modes"])
                # non-trivial: some segment runs a real codec (a mode other than none) on more than two values
                if any(set(s["modes"]) - {"none"} and s["rows"] - s["nils"] > 2 for s in enc["exp"]):
                    self.nontrivial.add(hash(key))
            else:
                self.nontrivial.add(hash(key))
            if len(self.samples) < 3 and (c["id"] % 997 == 0):
                self.samples.append(h)
        for r in results:
            self.n += 1
            if r.get("infra"):
                raise vlib.Infra(f"harness infra error: {r['infra']} (case {json.dumps(byid[r['id']]['hist'])[:400]})")
            if r.get("hang"):
                raise vlib.Infra(f"harness case hung: {json.dumps(byid[r['id']]['hist'])[:400]}")
            for k, v in (r.get("modes") or {}).items():
                self.modes[k] += v
            for k, v in (r.get("stats") or {}).items():
                self.stats[k] += v
            for d in r.get("unobs") or []:
                self.unobs[d] += 1
            if r.get("drift"):
                self.drift.append((r, byid[r["id"]]))
            for d in r.get("known") or []:
                if d not in self.devmap:      # explained by a deviation that is not a listed open finding
                    if r["ok"]:
                        r["ok"] = False
                        r["detail"] = f"divergence equals the prediction of deviation {d}, which is not an open finding: " + (r.get("kdetail") or {}).get(d, "")
                else:
                    self.known_n[d] += 1
                    if len(self.known[d]) < 3:
                        self.known[d].append(((r.get("kdetail") or {}).get(d, ""), byid[r["id"]]))
            if not r["ok"]:
                self.bad.append((r, byid[r["id"]]))


def selftest_devs(wd, workers=2):
    """vacuity guard: every deviation / mutation seed of the specification must give a TLC counterexample"""
    def one(item):
        d, (base, kinds, inv) = item
        sub = {"Dev": '{"%s"}' % d, "INVARIANTS": INVS}
        if kinds:
            sub["Kinds"] = kinds
        p = mkcfg(wd, f"Codec.dev.{d}.cfg", BASE[base], sub)
        r = vlib.run_tlc(MODULE, p, workers=workers, timeout=900)
        return d, inv, r
    out = {}
    with cf.ThreadPoolExecutor(6) as ex:
        for d, inv, r in ex.map(one, SELFTEST.items()):
            if r["violated"] != inv:
                raise vlib.Infra(f"self-test: Dev={{{d}}} must violate {inv}, TLC reports {r['violated']} {r['error']}\n" + r["out"][-1500:])
            out[d] = {"violates": inv, "states": r["distinct"]}
    return out


# ---------------------------------------------------------------------------------------------------
# HTTP level (thorough tier): the infinities of F-C07-1 through the front door

def _varint(n):
    out = b""
    while True:
        b = n & 0x7f
        n >>= 7
        if n:
            out += bytes([b | 0x80])
        else:
            return out + bytes([b])


def _lenf(num, b):
    return _varint(num << 3 | 2) + _varint(len(b)) + b


def _prom_write_request(labels, samples):
    """prompb.WriteRequest with one TimeSeries, snappy block format (literals only)"""
    import struct
    ts = b"".join(_lenf(1, _lenf(1, n.encode()) + _lenf(2, v.encode())) for n, v in labels)
    ts += b"".join(_lenf(2, _varint(1 << 3 | 1) + struct.pack("<d", v) + _varint(2 << 3) + _varint(t)) for v, t in samples)
    data = _lenf(1, ts)
    out, i = _varint(len(data)), 0
    while i < len(data):
        chunk = data[i:i + 60]
        out += bytes([(len(chunk) - 1) << 2]) + chunk
        i += 60
    return out


def http_repro():
    """20 samples of one series, two of them +Inf and -Inf, by Prometheus remote write into a single-node server; flush;
    restart.  -> observations (accepted, died at the flush, died again after every restart)"""
    import math
    import vserver
    obs = {"accepted": None, "died_at_flush": None, "died_after_restart": []}
    srv = vserver.Server(name="c07http")
    try:
        srv.query("create database prom", method="POST")
        vals = [float(i) for i in range(20)]
        vals[3], vals[7] = math.inf, -math.inf
        t0 = 1_700_000_000_000
        body = _prom_write_request([("__name__", "up"), ("job", "j")], [(v, t0 + i * 1000) for i, v in enumerate(vals)])
        for attempt in range(8):      # the first write into a new shard group may meet the meta cache lag (500 shard group not found)
            st, txt = srv.http("POST", "/api/v1/write", {"db": "prom"}, body=body,
                               headers={"Content-Encoding": "snappy", "Content-Type": "application/x-protobuf"})
            if st != 500 or "shard group not found" not in txt:
                break
            time.sleep(1)
        obs["accepted"] = st
        if st != 204:
            obs["note"] = txt[:200]
            return obs
        time.sleep(1.5)
        try:
            srv.flush()
        except Exception:
            pass
        time.sleep(3)
        obs["died_at_flush"] = not srv.alive()
        obs["panic_site"] = "lib/compress/float.go" in srv.tail_log(20000) and "slice bounds out of range [:1]" in srv.tail_log(20000)
        for attempt in range(2):
            if srv.alive():
                srv.kill()
            try:
                srv.start(wait=40)
            except Exception:
                obs["died_after_restart"].append("at start")
                continue
            try:
                srv.query("select count(value) from up", db="prom")     # opens the shard: WAL replay, flush
                srv.flush()
            except Exception:
                pass
            time.sleep(3)
            obs["died_after_restart"].append(not srv.alive())
        return obs
    finally:
        srv.stop()


def run(tier, seed):
    t0 = time.time()
    os.environ.setdefault("JAVA_TOOL_OPTIONS", "-Xmx4g")
    devmap = open_deviations()
    impl = [d for d in AS_IMPLEMENTED if d in devmap]
    draws = 2 if tier == "quick" else 3
    vlib.build_vh()
    wd = vlib.scratch("c07cfg")
    agg = Agg(devmap)
    tlc_stats = {}
    try:
        with cf.ThreadPoolExecutor(1) as stx:
            st_future = stx.submit(selftest_devs, wd)
            runs = plan(tier, seed, impl)
            next_id = [0]

            def gen(run):
                name, base, sub, kw = run
                sub = dict(sub)
                if "simulate" in kw:
                    sub["INVARIANTS"] = INVS.replace(" TornIsIncomplete BatchPrefixRejected", "") + " Export"
                else:
                    sub["INVARIANTS"] = INVS + " Export"
                    kw = dict(kw, workers=4 if tier == "quick" else 6)
                p = mkcfg(wd, f"Codec.{name}.cfg", BASE[base], sub)
                r = vlib.run_tlc(MODULE, p, timeout=2400, **kw)
                vlib.tlc_must_pass(r, f"Codec.{name}.cfg")       # Mode A: the design satisfies every invariant
                if not r["traces"]:
                    raise vlib.Infra(f"Codec.{name}.cfg: TLC exported no case")
                return name, base, r

            # TLC runs side by side (bounded), each batch of cases replayed as soon as it is there
            with cf.ThreadPoolExecutor(3 if tier == "quick" else 2) as ex:
                for name, base, r in ex.map(gen, runs):
                    traces = r["traces"]
                    if "simulate" in name or name.startswith("sim"):
                        seen, uniq = set(), []
                        for h in traces:
                            k = json.dumps(h, sort_keys=True)
                            if k not in seen:
                                seen.add(k)
                                uniq.append(h)
                        traces = uniq
                    tlc_stats[name] = {"cfg": BASE[base], "generated": r["generated"], "distinct": r["distinct"], "depth": r["depth"],
                                       "wall_s": round(r["wall_s"], 1), "cases": len(traces), "exhaustive": not name.startswith("sim")}
                    cases = []
                    for h in traces:
                        i = next_id[0]
                        next_id[0] += 1
                        cases.append({"id": i, "seed": seed, "draws": draws, "hist": h, "profile": profile_of(i, h), "run": name})
                    del r
                    results = replay_cases(cases)
                    agg.add(cases, results)
                    vlib.log(f"[c07] {name}: {len(cases)} cases replayed, {len(agg.bad)} divergences so far ({time.time()-t0:.0f}s)")
            st = st_future.result()
    finally:
        shutil.rmtree(wd, ignore_errors=True)

    # ---- HTTP level (thorough): infinities by Prometheus remote write, flush, restart
    http_obs = None
    if tier == "thorough" or os.environ.get("VERIF_C07_HTTP"):
        try:
            http_obs = http_repro()
        except vlib.Infra as ex:
            http_obs = {"infra": str(ex)[:300]}
        vlib.log(f"[c07] HTTP: remote write of +Inf/-Inf, flush, restart: {http_obs}")
        died = http_obs.get("died_at_flush") or any(x for x in http_obs.get("died_after_restart", []))
        if died and "gorilla_sum_nan" in devmap:
            print(f"KNOWN-FINDING: property={PROP} {devmap['gorilla_sum_nan']} (gorilla_sum_nan) over HTTP: Prometheus remote write of a series with +Inf and "
                  f"-Inf is accepted ({http_obs.get('accepted')}), the server dies at the flush ({http_obs.get('died_at_flush')}) and again after every restart "
                  f"({http_obs.get('died_after_restart')})")
        elif died:
            path = vlib.save_replay(PROP, {"http": "prometheus remote write of 20 samples with +Inf and -Inf, flush, restart", "observed": http_obs})
            print(f"VIOLATION property={PROP} replay={path}")
            agg.bad.append(({"ok": False, "detail": f"server died: {http_obs}"}, {"hist": []}))

    # ---- verdicts
    for d in sorted(agg.known, key=lambda d: devmap[d]):
        ex = agg.known[d][0][0]
        print(f"KNOWN-FINDING: property={PROP} {devmap[d]} ({d}) re-observed in {agg.known_n[d]} cases, e.g. {ex[:400]}")
    for d, n in sorted(agg.unobs.items()):
        vlib.log(f"[note] deviation {d} predicted a divergence in {n} cases that the real code did not show (finding fixed?)")
    for r, c in [x for x in agg.bad if x[1].get("hist")][:5]:
        path = vlib.save_replay(PROP, {"case": c, "result": r})
        print(f"VIOLATION property={PROP} replay={path}")
        vlib.log(f"  step {r.get('step')} {r.get('action')}: {r.get('detail', '')}")
    # coverage table: mode bytes of every codec reached (block level and through the data file)
    table, missing = {}, []
    for kind, modes in MODE_BYTES.items():
        table[kind] = {}
        for m, b in modes.items():
            nb, nf = agg.modes.get(f"{kind}/{m}", 0), agg.modes.get(f"file:{kind}/{m}", 0)
            pred = m in agg.predicted.get(kind, ())
            table[kind][m] = {"mode_byte": b, "predicted_reachable": pred, "block_level": nb, "data_file": nf}
            if pred and nb + nf == 0:
                missing.append(f"{kind}/{m}")
    kinds_tbl = {k: {"block_level": agg.modes.get(f"block/{k}", 0), "data_file": agg.modes.get(f"file:block/{k}", 0)} for k in ("one", "full", "empty", "bitmap")}
    exh = [s for s in tlc_stats.values() if s["exhaustive"]]
    cov = {
        "states": sum(s["distinct"] for s in exh), "transitions": sum(s["generated"] for s in exh),
        "traces_validated_against_impl": agg.n,
        "samples": agg.samples or [agg.bad[0][1]["hist"]] if (agg.samples or agg.bad) else [],
        "exhaustive": True,
        "evaluations": agg.n * draws, "distinct_nontrivial": len(agg.nontrivial),
        "rule": "cases = column shapes of Codec.tla (kind x null pattern x runs of value classes within the bounds of the cfgs, every one "
                "of them, + seeded simulation with longer runs and segment sizes 8/10/16/24) and log / batch cut classes; each case is "
                f"instantiated with {draws} concrete value draws; distinct = distinct shapes; non-trivial = at least one segment runs a value "
                "codec (mode other than none) on more than two values, or a log / batch cut",
        "tlc": tlc_stats,
        "selftest_deviations": st,
        "mode_coverage": table,
        "block_kind_coverage": kinds_tbl,
        "harness": dict(agg.stats),
        "draws_per_case": draws,
        "known_finding_cases": {devmap[d]: n for d, n in agg.known_n.items()},
        "predicted_but_not_observed": dict(agg.unobs),
        "drift_cases": len(agg.drift),
        "http_remote_write_inf": http_obs,
    }
    vlib.write_evidence(PROP, tier, seed, "model_checking", cov, time.time() - t0, len(agg.bad), [
        "bounds of the cfg files named under coverage.tlc; value CLASSES of the specification are given concrete values by the harness "
        "(class membership is enforced by construction, e.g. a 'less decimal' float satisfies isInt(f*1000) exactly)",
        "modes whose choice depends on the compression ratio of the concrete bytes are predicted as a set (zstd|raw, snappy|raw, gorilla|raw)",
        "tsstore data files (MsBuilder.WriteData), attached (not detached / column-store) layout; segment sizes 8, 10, 16, 24, 32, not the default 1000",
        "pre-aggregates: the stored row count of every column and the time ranges are compared; min/max/sum of the statistics belong to C09",
        "WAL replay is driven through engine.WAL.Replay on a one-partition log; the pooled read buffer is put into a known state before each replay",
        "row-batch prefixes are unmarshalled from a buffer of exactly the prefix's capacity",
        "the float decoder's legacy mode byte 1 (files of old versions) has no encoder and is not reached",
    ])
    if agg.bad:
        return 1
    if agg.drift:
        r, c = agg.drift[0]
        raise vlib.Infra(f"the specification's mode table drifted from the code in {len(agg.drift)} cases, e.g. {r['drift'][0]} (case {json.dumps(c['hist'])[:600]})")
    if missing:
        raise vlib.Infra(f"modes the specification predicts reachable were never reached: {missing}")
    if tier == "thorough":
        gone = [f"{devmap[d]} ({d})" for d in impl if d not in agg.known]
        if gone:
            raise vlib.Infra(f"open findings no longer reproduced: {gone}; update known_findings.json")
    return 0


def replay(path, seed):
    obj = json.load(open(path))
    case = obj["case"]
    devmap = open_deviations()
    res = replay_cases([case], nproc_total=1)
    agg = Agg(devmap)
    agg.add([case], res)
    if agg.bad:
        print(f"VIOLATION property={PROP} replay={path}")
        vlib.log(agg.bad[0][0].get("detail", ""))
        return 1
    print("replay passes" + (f" (attributed to {sorted(agg.known)})" if agg.known else ""))
    return 0


def selftest(seed):
    wd = vlib.scratch("c07cfg")
    try:
        st = selftest_devs(wd, workers=4)
        for d, v in st.items():
            print(f"selftest Dev={{{d}}}: TLC reports {v['violates']} violated ({v['states']} states) -> ok")
        return 0
    finally:
        shutil.rmtree(wd, ignore_errors=True)
