"""C05 - replicated data survives the loss of a minority of store nodes.

Mode A: TLC checks specs/Replication.tla (openGemini's layer around etcd/raft: propose / persist / replicate / commit /
apply / ack-after-local-apply, flush -> snapshot index, ClearEntryLog truncation, SIGKILL, restart with replay from the
snapshot index, elections, client retries) exhaustively on small constants and confirms that every mutation seed /
as-implemented deviation breaks the invariant it is meant to break.

Mode C (binding to the real code): the same specification, in simulation mode, is the FAULT-SCHEDULE GENERATOR
(Write / Kill leader|follower / Restart / Flush / Query). Every schedule is driven into a real 3-meta / 3-store / 1-sql
cluster on loopback (tools/vcluster.py, database `REPLICAS 3`, ha-policy replication) built from the tree under
verification: writes and queries through ts-sql, SIGKILL / restart of ts-store processes, forced flushes, a background
reader; kills that the model places while a write is in flight are fired concurrently with the HTTP write. The client
history (global sequence number) is validated by TLC against specs/TraceReplication.tla. At the end of every schedule
all stores are brought back, allowed to catch up, and the same query is directed at every replica in turn through the
operator endpoint /modifyRepDBMasterPt (ReadAnyReplica).

Verdicts come only from the real cluster: a history TLC rejects (stale / missing / invented value while a majority of
caught-up replicas is up, or a write / query that is not served within its retry budget), a store process that dies by
itself. TLC trouble, build trouble, a cluster that does not boot are infrastructure (exit 2)."""
import json, os, random, shutil, threading, time, urllib.parse, urllib.request, urllib.error, concurrent.futures as cf
import vlib, vcluster

PROP = "C05"
DB = "db0"
DEVS = {'{"ack_before_quorum"}': "AckedOnQuorum", '{"truncate_past_down_member"}': "TruncationSafe",
        '{"restart_skips_replay"}': "ReadAnyReplica", '{"ack_ignores_apply_error"}': "ReadAnyReplica"}
T0 = 1700000000          # base timestamp (s) of every point: one shard group, one raft entry per batch
WRITE_BUDGET = 120.0     # s: a write retried this long with a majority up must have been acknowledged
QUERY_BUDGET = 120.0
GRACE = 5.0              # s after a restarted store is registered alive and its partition is online: catch-up window
GRACE_ELECT = 12.0       # s after another store was killed while this one was still catching up (a new raft leader must be elected first)
SERIES = {1: ["s1", "t1"], 2: ["s2", "t2"], 3: ["s3", "t3"]}     # model cell -> series of the batch


# ---------------------------------------------------------------------------------------------------
# Mode A

def mode_a(tier):
    cfg = "Replication.exh.quick.cfg" if tier == "quick" else "Replication.exh.thorough.cfg"
    r = vlib.run_tlc("ReplicationMC", cfg, timeout=900 if tier == "quick" else 1700, workers=max(4, vlib.NCPU // 2))
    vlib.tlc_must_pass(r, cfg)
    stats = {"cfg": cfg, "generated": r["generated"], "distinct": r["distinct"], "depth": r["depth"], "wall_s": round(r["wall_s"], 1)}
    base = open(os.path.join(vlib.SPECS, "cfg", "Replication.exh.quick.cfg")).read()
    tmp = vlib.scratch("c05cfg")
    caught = {}
    try:
        for dev, inv in DEVS.items():
            p = os.path.join(tmp, "dev.cfg")
            open(p, "w").write(base.replace("Dev = {}", "Dev = " + dev))
            rr = vlib.run_tlc("ReplicationMC", p, timeout=600, workers=4)
            if rr["violated"] != inv:
                raise vlib.Infra(f"deviation {dev} should violate {inv} in Replication.tla, TLC says {rr['violated']} / {rr['error']}")
            caught[dev] = inv
    finally:
        shutil.rmtree(tmp, ignore_errors=True)
    stats["deviations_caught"] = caught
    return stats


# ---------------------------------------------------------------------------------------------------
# schedule generation (the specification as generator)

def short(s):
    return " ".join(e["a"][0] + (str(e["w"]) if e["a"] == "Write" else (e["r"][0] if e["a"] == "Kill" else "")) +
                    ("*" if e["a"] == "Kill" and e["f"] else "") for e in s)


def gen_schedules(n, seed):
    r = vlib.run_tlc("ReplicationMC", "Replication.sim.cfg", simulate=max(300, 25 * n), depth=400, seed=seed, timeout=600)
    if r["error"] or r["violated"] or r.get("timeout"):
        raise vlib.Infra(f"schedule generation failed: {r['error']} {r['violated']}\n" + r["out"][-2000:])
    seen, out = set(), []
    for t in r["traces"]:
        k = json.dumps(t, sort_keys=True)
        if k in seen:
            continue
        seen.add(k)
        kills = [e for e in t if e["a"] == "Kill"]
        writes = [e for e in t if e["a"] == "Write"]
        if not kills or len(writes) < 2:
            continue
        out.append(t)
    rnd = random.Random(seed)
    rnd.shuffle(out)
    # half of the schedules kill the leader at least once; schedules with a kill during a write first
    lead = [t for t in out if any(e["a"] == "Kill" and e["r"] == "leader" for e in t)]
    rest = [t for t in out if t not in lead]
    lead.sort(key=lambda t: -sum(1 for e in t if e["a"] == "Kill" and e["f"]))
    sel = lead[:(n + 1) // 2]
    sel += rest[:n - len(sel)]
    sel += lead[(n + 1) // 2:][:n - len(sel)]
    if len(sel) < n:
        raise vlib.Infra(f"schedule generator produced only {len(sel)} usable schedules, {n} wanted")
    rnd.shuffle(sel)
    return sel[:n], {"sim_traces": r["sim_traces"], "exported": len(r["traces"]), "distinct_usable": len(out),
                     "states": r["generated"]}


# ---------------------------------------------------------------------------------------------------
# the driver

class Died(Exception):
    pass


class Driver:
    """runs schedules one after the other on one cluster; one measurement per schedule"""

    def __init__(self, cl, seed):
        self.cl = cl
        self.rnd = random.Random(seed)
        self.gen = {1: 0, 2: 0, 3: 0}       # kill generation per store (settle monitors give up when it changes)

    # -- meta ---------------------------------------------------------------------------------------
    def meta(self):
        best = None
        for i in (1, 2, 3):
            try:
                with urllib.request.urlopen(f"http://{self.cl.addr[i]}:8091/getdata", timeout=5) as r:
                    d = json.loads(r.read().decode())
                    if best is None or d.get("Index", 0) > best.get("Index", 0):
                        best = d
            except Exception:
                pass
        if best is None:
            raise vlib.Infra("no meta node answers /getdata")
        return best

    def layout(self, d=None):
        """store index -> partition id, master partition, store index -> online?"""
        d = d or self.meta()
        node_store = {n["ID"]: int(n["Host"].split(":")[0].split(".")[-1]) for n in d["DataNodes"]}
        node_alive = {n["ID"]: n["Status"] == 1 for n in d["DataNodes"]}
        pts = {}
        online = {}
        for p in d["PtView"].get(DB, []):
            s = node_store[p["Owner"]["NodeID"]]
            pts[s] = p["PtId"]
            online[s] = (p["Status"] == 0) and node_alive[p["Owner"]["NodeID"]]
        rgs = d["ReplicaGroups"].get(DB) or [{}]
        return pts, rgs[0].get("MasterPtID"), online

    def master_store(self):
        pts, m, _ = self.layout()
        for s, p in pts.items():
            if p == m:
                return s
        return None

    def switch_master(self, pt):
        for i in (1, 2, 3):
            url = f"http://{self.cl.addr[i]}:8091/modifyRepDBMasterPt?" + urllib.parse.urlencode({"db": DB, "rgId": 0, "newMasterPtId": pt})
            try:
                with urllib.request.urlopen(urllib.request.Request(url, data=b"", method="POST"), timeout=20) as r:
                    if r.status == 200:
                        break
            except Exception:
                continue
        t0 = time.time()
        while time.time() - t0 < 30:
            if self.layout()[1] == pt:
                time.sleep(1.0)          # the sql node learns the new master through its meta cache
                return True
            time.sleep(0.2)
        return False

    # -- one schedule ---------------------------------------------------------------------------------
    def run(self, sid, sched, patient):
        cl = self.cl
        mst = f"m{sid}"
        ev = []
        lock = threading.Lock()
        t0 = time.time()
        qn = [0]
        stop = threading.Event()
        down = set()
        monitors = []
        outage = [(0.0, 0.0)]
        lastkill = [0.0]
        info = {"sid": sid, "mst": mst, "patient": patient, "kills": [], "died": None}

        def add(**e):
            with lock:
                e["seq"] = len(ev)
                e["t"] = round(time.time() - t0, 3)
                ev.append(e)

        def cell(series, off):
            return f"{series}@{off}"

        # cells of the schedule: sentinel row of every series (warm-up), the overwritten group of every model cell,
        # one fresh row per write
        plan = []       # (w, [(series, off)])
        w = 1
        plan.append((w, [(s, 0) for c in SERIES for s in SERIES[c]]))
        for a in sched:
            if a["a"] == "Write":
                w += 1
                c = a["c"]
                pts = [(SERIES[c][0], 10 + c), (SERIES[c][0], 20 + c), (SERIES[c][1], 10 + c), (SERIES[c][0], 100 + w)]
                plan.append((w, pts))
        cells = sorted({cell(s, o) for _, pts in plan for s, o in pts})
        add(ev="Reset", cells=cells, stores=[1, 2, 3])

        def do_write(wv, pts):
            lines = "\n".join(f"{mst},host={s} v={wv}i {T0 + o}" for s, o in pts)
            add(ev="WBegin", w=wv, cells=[cell(s, o) for s, o in pts])
            tb = time.time()
            while True:
                try:
                    st, body = cl.write(DB, lines, precision="s", timeout=30)
                except Exception as ex:
                    st, body = -1, str(ex)
                if st == 204:
                    add(ev="WAck")
                    return True
                add(ev="WErr", st=st, err=body[:160])
                if time.time() - tb > WRITE_BUDGET:
                    add(ev="WFail")
                    return False
                time.sleep(0.4)

        def one_query():
            with lock:
                qn[0] += 1
                q = qn[0]
            add(ev="QBegin", q=q)
            try:
                st, body = cl.query(f"select * from {mst}", db=DB, epoch="s", timeout=30)
            except Exception as ex:
                st, body = -1, {"raw": str(ex)}
            res = (body.get("results") or [{}])[0] if isinstance(body, dict) else {}
            if st != 200 or "results" not in body or res.get("error"):
                add(ev="QErr", q=q, st=st, err=str(res.get("error") or body)[:160])
                return False
            rows = []
            for s in res.get("series", []) or []:
                ci = {c: k for k, c in enumerate(s["columns"])}
                for v in s["values"]:
                    rows.append([cell(v[ci["host"]], v[ci["time"]] - T0), v[ci["v"]]])
            add(ev="QEnd", q=q, rows=rows)
            return True

        def do_query():
            tb = time.time()
            while not one_query():
                if time.time() - tb > QUERY_BUDGET:
                    add(ev="QFail")
                    return False
                time.sleep(0.4)
            return True

        def reader():
            r = random.Random(sid * 7 + 1)
            while not stop.is_set():
                one_query()
                stop.wait(r.uniform(0.1, 0.5))

        def settle_monitor(i, g):
            tb = time.time()
            while not stop.is_set() and self.gen[i] == g:
                try:
                    _, _, online = self.layout()
                    if cl.store_alive(i) and online.get(i):
                        break
                except Exception:
                    pass
                if time.time() - tb > 180:
                    return
                time.sleep(0.5)
            # caught up = GRACE after it is back, and - catching up needs a raft leader to catch up from - GRACE_ELECT after
            # the latest kill of another store (election timeout 10 ticks x 400 ms, randomised up to twice that)
            t_on = time.time()
            while time.time() < max(t_on + GRACE, lastkill[0] + GRACE_ELECT):
                if self.gen[i] != g:
                    return
                time.sleep(0.1)
            if self.gen[i] == g and cl.store_alive(i):
                add(ev="Settled", i=i)

        def do_kill(role, delay=0.0):
            if delay:
                time.sleep(delay)
            if down:
                return
            try:
                ms = self.master_store()
            except Exception:
                ms = None
            if role == "leader" and ms:
                i = ms
            else:
                i = self.rnd.choice([s for s in (1, 2, 3) if s != ms])
            down.add(i)
            self.gen[i] += 1
            # the outage lasts at least this long (the statement's "pauses"): shorter than failure detection, around it, beyond it
            lastkill[0] = time.time()
            outage[0] = (time.time(), self.rnd.choice([0.0, 0.5, 3.0, 8.0, 14.0, 14.0]))
            add(ev="Kill", i=i, role=role, master=ms, outage=outage[0][1])
            cl.kill_store(i)
            info["kills"].append({"store": i, "role": role, "was_master": i == ms, "outage_s": outage[0][1]})

        def do_restart(wait):
            if not down:
                return
            rest = outage[0][1] - (time.time() - outage[0][0])
            if rest > 0:
                time.sleep(rest)
            i = down.pop()
            cl.start_store(i)
            add(ev="Restart", i=i)
            th = threading.Thread(target=settle_monitor, args=(i, self.gen[i]), daemon=True)
            th.start()
            monitors.append(th)
            if wait:
                th.join(timeout=240)

        def check_alive():
            for i in (1, 2, 3):
                if i not in down and not cl.store_alive(i):
                    info["died"] = {"store": i, "log": cl.tail_log("ts-store", i, 6000)}
                    raise Died()
            cl._check_procs()

        ok = True
        rd = None
        try:
            # warm-up: creates the series on every replica; new series become searchable after the index flush
            ok = do_write(*plan[0])
            tb = time.time()
            while ok:
                st, body = cl.query(f"select count(v) from {mst}", db=DB)
                try:
                    if body["results"][0]["series"][0]["values"][0][1] == len(plan[0][1]):
                        break
                except Exception:
                    pass
                if time.time() - tb > 60:
                    raise vlib.Infra(f"warm-up rows of {mst} never became visible: {body}")
                time.sleep(0.3)
            rd = threading.Thread(target=reader, daemon=True)
            rd.start()
            k = 1
            n = len(sched)
            j = 0
            while ok and j < n:
                a = sched[j]
                nxt = sched[j + 1] if j + 1 < n else None
                check_alive()
                # a kill that the model places while the preceding write / flush is still in flight runs concurrently
                killer = None
                if nxt and nxt["a"] == "Kill" and a["a"] in ("Write", "Flush") and (nxt["f"] or a["a"] == "Flush"):
                    d = self.rnd.choice([0.0, 0.002, 0.005, 0.01, 0.03, 0.1])
                    killer = threading.Thread(target=do_kill, args=(nxt["r"], d), daemon=True)
                if a["a"] == "Write":
                    if killer:
                        killer.start()
                    ok = do_write(*plan[k])
                    k += 1
                elif a["a"] == "Flush":
                    if killer:
                        killer.start()
                    add(ev="Flush")
                    try:
                        cl.flush()
                    except Exception:
                        pass
                elif a["a"] == "Kill":
                    do_kill(a["r"])
                elif a["a"] == "Restart":
                    do_restart(wait=patient)
                elif a["a"] == "Query":
                    ok = do_query()
                if killer:
                    killer.join()
                    j += 1
                j += 1
            # closing phase: everything back, caught up, then the same question to every replica
            check_alive()
            if ok:
                do_restart(wait=True)
                for th in monitors:
                    th.join(timeout=240)
                stop.set()
                rd.join(timeout=60)
                add(ev="Note", what="all stores up and settled")
                check_alive()
                ok = do_query()
                pts, m, _ = self.layout()
                order = sorted(pts.values())
                self.rnd.shuffle(order)
                for p in order:
                    if not ok:
                        break
                    if not self.switch_master(p):
                        raise vlib.Infra(f"master partition did not move to {p}")
                    add(ev="Switch", pt=p, store=[s for s, q in pts.items() if q == p][0])
                    ok = do_query()
        except Died:
            ok = False
        finally:
            stop.set()
            if rd:
                rd.join(timeout=60)
            for i in list(down):      # leave the cluster whole for the next schedule
                cl.start_store(i)
                down.discard(i)
        info.update({"events": ev, "sched": sched, "ok_run": ok, "wall_s": round(time.time() - t0, 1)})
        return info


def run_cluster(cid, items, seed, extra_conf=None):
    """items = [(sid, sched, patient)]; one cluster, schedules one after the other"""
    cl = vcluster.Cluster(name=f"c05-{cid}", seed=seed * 100 + cid, extra_conf=extra_conf)
    out = []
    try:
        cl.start()
        st, body = cl.query(f"CREATE DATABASE {DB} REPLICAS 3", method="POST")
        if st != 200 or (body.get("results") or [{}])[0].get("error"):
            raise vlib.Infra(f"CREATE DATABASE {DB} REPLICAS 3 failed: {st} {body}")
        drv = Driver(cl, seed * 1000 + cid)
        for sid, sched, patient in items:
            r = drv.run(sid, sched, patient)
            r["cluster"] = cid
            r["boot_s"] = round(cl.boot_s, 1)
            out.append(r)
            if r["died"]:
                break
            # before the next schedule every store must be registered again
            t0 = time.time()
            while time.time() - t0 < 120:
                try:
                    if all(drv.layout()[2].get(i) for i in (1, 2, 3)):
                        break
                except Exception:
                    pass
                time.sleep(0.5)
        return out
    finally:
        cl.stop()


# ---------------------------------------------------------------------------------------------------
# trace validation

KEEP = {"Reset": ("cells", "stores"), "WBegin": ("w", "cells"), "QBegin": ("q",), "QEnd": ("q", "rows"), "QErr": ("q",),
        "Kill": ("i",), "Restart": ("i",), "Settled": ("i",)}


def trace_of(r):
    out = []
    for e in r["events"]:
        x = {"ev": e["ev"]}
        for k in KEEP.get(e["ev"], ()):
            x[k] = e[k]
        out.append(x)
    return out


def validate(traces):
    tmp = vlib.scratch("c05trace")
    try:
        tp = os.path.join(tmp, "trace.ndjson")
        with open(tp, "w") as f:
            for lines in traces:
                for x in lines:
                    f.write(json.dumps(x) + "\n")
        r = vlib.run_tlc("TraceReplication", "TraceReplication.cfg", workers=1, timeout=1800, copy_files=[tp], depth_first=True)
        if r.get("timeout") or r["error"]:
            raise vlib.Infra(f"trace validation did not run: {r['error']}\n" + r["out"][-2000:])
        reached = None
        for line in r["out"].splitlines():
            if line.startswith('<<"REACHED"'):
                try:
                    reached = int(line.split(",")[1])
                except Exception:
                    pass
        r["reached"] = reached
        return r["violated"] is None, r
    finally:
        shutil.rmtree(tmp, ignore_errors=True)


def explain(r, t):
    """which event of the history TLC could not match, in words"""
    tr = trace_of(r)
    k = (t.get("reached") or 1) - 1
    if k >= len(tr):
        return "history accepted"
    e = r["events"][k]
    d = f"event #{k} {json.dumps(e)[:600]} of schedule [{short(r['sched'])}] is not allowed by TraceReplication.tla"
    if e["ev"] == "QEnd":
        # recompute what the cells could hold, for the message
        acked, pend, ever = {}, None, {}
        for x in r["events"][:k]:
            if x["ev"] == "WBegin":
                pend = x
                for c in x["cells"]:
                    ever.setdefault(c, set()).add(x["w"])
            elif x["ev"] == "WAck" and pend:
                for c in pend["cells"]:
                    acked[c] = pend["w"]
                pend = None
        got = {c: v for c, v in e["rows"]}
        bad = []
        for c, v in sorted(acked.items()):
            if got.get(c, 0) < v:
                bad.append(f"{c}: acknowledged {v}, query returned {got.get(c, 'no row')}")
        for c, v in got.items():
            if v not in ever.get(c, set()):
                bad.append(f"{c}: value {v} was never written")
        d += "; " + "; ".join(bad[:8])
    elif e["ev"] in ("WFail", "QFail"):
        d += f"; retry budget of {WRITE_BUDGET:.0f}s exhausted while at most a minority of the stores was down"
    return d


def negative_controls(good):
    """a corrupted value and a dropped row in a judged query of an accepted history must be rejected"""
    for r in good:
        tr = trace_of(r)
        idx = [i for i, e in enumerate(tr) if e["ev"] == "QEnd" and len(e["rows"]) > 2]
        if not idx:
            continue
        i = idx[-1]          # the closing queries run with everything settled: judged strictly
        a = json.loads(json.dumps(tr))
        a[i]["rows"][0][1] = a[i]["rows"][0][1] + 1000
        b = json.loads(json.dumps(tr))
        del b[i]["rows"][0]
        c = json.loads(json.dumps(tr))
        # stale value: an overwritten cell shown with the value of the warm-up round
        ok_a, _ = validate([a])
        ok_b, _ = validate([b])
        if ok_a or ok_b:
            raise vlib.Infra(f"negative control accepted by TraceReplication.tla (corrupt value accepted={ok_a}, dropped row accepted={ok_b})")
        return {"corrupt_value_rejected": True, "dropped_row_rejected": True}
    return {}


# ---------------------------------------------------------------------------------------------------

def plan(tier):
    if tier == "quick":
        return {"clusters": 4, "per_cluster": 2}
    return {"clusters": 6, "per_cluster": 9}


def run(tier, seed):
    t0 = time.time()
    pl = plan(tier)
    n = pl["clusters"] * pl["per_cluster"]
    bins = vcluster.build_cluster()
    scheds, gstat = gen_schedules(n, seed)
    rnd = random.Random(seed)
    items = [(sid, s, rnd.random() < 0.5) for sid, s in enumerate(scheds)]
    chunks = [items[c::pl["clusters"]] for c in range(pl["clusters"])]
    results, infra = [], []
    with cf.ThreadPoolExecutor(pl["clusters"] + 1) as ex:
        fa = ex.submit(mode_a, tier)           # TLC on the design model runs beside the cluster runs
        futs = [ex.submit(run_cluster, c, chunks[c], seed) for c in range(pl["clusters"])]
        for f in futs:
            try:
                results += f.result()
            except vlib.Infra as e:
                infra.append(str(e))
        a = fa.result()
    vcluster.remove_private_binaries()
    if infra:
        raise vlib.Infra(f"{len(infra)} cluster(s) failed: " + infra[0][:3000])
    bad, good = [], []
    for r in results:
        if r["died"]:
            r["detail"] = f"ts-store {r['died']['store']} died by itself during schedule [{short(r['sched'])}]:\n" + r["died"]["log"][-3000:]
            bad.append(r)
        else:
            good.append(r)
    tstats = {"histories": len(good), "events": sum(len(r["events"]) for r in good)}
    accepted = []
    if good:
        ok, t = validate([trace_of(r) for r in good])
        tstats["tlc_states"] = t["distinct"]
        tstats["tlc_generated"] = t["generated"]
        if ok:
            accepted = good
        else:
            for r in good:
                ok1, t1 = validate([trace_of(r)])
                if ok1:
                    accepted.append(r)
                else:
                    r["detail"] = explain(r, t1)
                    bad.append(r)
    neg = negative_controls(accepted) if accepted else {}
    known = vlib.load_known(PROP)
    nbad = 0
    for r in bad:
        fid = attribute(r, known)
        if fid:
            print(f"KNOWN-FINDING: property={PROP} {fid} {r['detail'][:300]}")
            continue
        nbad += 1
        if nbad <= 5:
            path = vlib.save_replay(PROP, {"result": r})
            print(f"VIOLATION property={PROP} replay={path}")
            vlib.log(r["detail"][:3000])
    evs = [e for r in results for e in r["events"]]
    cnt = lambda name: sum(1 for e in evs if e["ev"] == name)
    kills = [k for r in results for k in r["kills"]]
    cov = {
        "states": a["distinct"] + tstats.get("tlc_states", 0), "transitions": a["generated"] + tstats.get("tlc_generated", 0),
        "traces_validated_against_impl": len(good),
        "samples": [short(r["sched"]) for r in results[:6]],
        "evaluations": len(results), "distinct_nontrivial": len([r for r in good if r["kills"]]),
        "rule": "one evaluation = one TLC-generated fault schedule driven into a real 3-store cluster and its client history "
                "validated by TLC; non-trivial = at least one store was killed during the schedule",
        "writes_acked": cnt("WAck"), "write_attempts_failed": cnt("WErr"), "queries_answered": cnt("QEnd"), "queries_failed": cnt("QErr"),
        "kills": len(kills), "kills_of_master": sum(1 for k in kills if k["was_master"]), "restarts": cnt("Restart"),
        "replica_directed_reads": cnt("Switch"), "flushes": cnt("Flush"),
        "clusters": pl["clusters"], "boot_s": sorted({r["boot_s"] for r in results}),
        "schedule_wall_s": [r["wall_s"] for r in results],
        "generator": gstat, "trace_validation": tstats, "negative_controls": neg, "tlc": {"design": a},
        "exhaustive": False,
    }
    vlib.write_evidence(PROP, tier, seed, "model_checking", cov, time.time() - t0, nbad, [
        "etcd/raft and memberlist/serf are trusted; the specification covers what openGemini adds around them",
        "fault schedules are enumerated by TLC on the specification side and sampled (one timing each) on the cluster side",
        f"a restarted store counts as caught up {GRACE:.0f}s after meta reports it alive with its partition online (and {GRACE_ELECT:.0f}s after "
        "the latest kill of another store that happened meanwhile: catching up needs a raft leader); queries that overlap "
        "the catch-up window of one store while another one is down must only not invent values",
        "one sequential writer: the order of writes to a cell is the client's program order; a failed attempt is retried with the same batch",
        "a replica-directed read is issued 1s after /modifyRepDBMasterPt moved the master partition",
        "meta nodes and the sql node are never killed; no network partitions (outside the statement)",
    ])
    return 1 if nbad else 0


def attribute(r, known):
    """divergences are attributed to an open finding only through its signature (none registered: every divergence is a violation)"""
    for f in known:
        sig = f.get("signature", {})
        fn = SIGNATURES.get(sig.get("kind"))
        if fn and fn(r, sig):
            return f["id"]
    return None


SIGNATURES = {}


def replay(path, seed):
    obj = json.load(open(path))
    r = obj.get("result", obj)
    if r.get("died"):
        print(f"VIOLATION property={PROP} replay={path}")
        vlib.log(r.get("detail", ""))
        return 1
    if r.get("events"):
        ok, t = validate([trace_of(r)])
        if ok:
            print("recorded history is accepted by TraceReplication.tla")
            if obj.get("rerun") or os.environ.get("C05_RERUN"):
                return rerun(r, seed)
            return 0
        print(f"VIOLATION property={PROP} replay={path}")
        vlib.log(explain(r, t))
        return 1
    if r.get("sched"):
        return rerun(r, seed)
    raise vlib.Infra("nothing to replay in " + path)


def rerun(r, seed):
    """drive the schedule of a saved case into a fresh cluster again (timing differs from run to run)"""
    res = run_cluster(0, [(r.get("sid", 0), r["sched"], r.get("patient", False))], seed, extra_conf=r.get("extra_conf"))
    vcluster.remove_private_binaries()
    rc = 0
    for x in res:
        if x["died"]:
            print(f"VIOLATION property={PROP} store died")
            rc = 1
            continue
        ok, t = validate([trace_of(x)])
        if not ok:
            x["detail"] = explain(x, t)
            p = vlib.save_replay(PROP, {"result": x})
            print(f"VIOLATION property={PROP} replay={p}")
            vlib.log(x["detail"])
            rc = 1
    if rc == 0:
        print("schedule re-driven, history accepted")
    return rc
