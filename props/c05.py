"""C05 - replicated data survives the loss of a minority of store nodes.

Mode A: TLC checks specs/Replication.tla (openGemini's layer around etcd/raft: propose / persist / replicate / commit /
apply / ack-after-local-apply, flush -> snapshot index, ClearEntryLog truncation, SIGKILL, restart with replay from the
snapshot index, elections, client retries) exhaustively on small constants and confirms that every mutation seed /
as-implemented deviation breaks the invariant it is meant to break.

Mode C (binding to the real code): the same specification, in simulation mode, is the FAULT-SCHEDULE GENERATOR
(Write / Kill leader|follower / Restart / Flush / Query). Every schedule is driven into a real 3-meta / 3-store / 1-sql
cluster on loopback (tools/vcluster.py, database `REPLICAS 3`, ha-policy replication) built from the tree under
verification: writes and queries through ts-sql, SIGKILL / restart of ts-store processes, forced flushes, a background
reader; kills that the model places while a write is in flight are fired concurrently with the HTTP write. The client
history (global sequence number) is validated by TLC against specs/TraceReplication.tla. At the end of every schedule
all stores are brought back, allowed to catch up, and the same query is directed at every replica in turn through the
operator endpoint /modifyRepDBMasterPt (ReadAnyReplica).

Verdicts come only from the real cluster: a history TLC rejects (stale / missing / invented value while a majority of
caught-up replicas is up, or a write / query that is not served within its retry budget), a store process that dies by
itself. TLC trouble, build trouble, a cluster that does not boot are infrastructure (exit 2)."""
import json, os, random, re, shutil, threading, time, urllib.parse, urllib.request, urllib.error, concurrent.futures as cf
import vlib, vcluster

PROP = "C05"
DB = "db0"
IMPL = '{"truncate_past_down_member", "outage_timer_per_group"}'         # as implemented: F-C05-1 + F-C05-2
SEED = '{"truncate_past_down_member", "outage_timer_per_group", "outage_timer_not_reset"}'
# deviation -> (what TLC must report, constants that differ from Replication.exh.quick.cfg)
DEVS = {'{"ack_before_quorum"}': ("AckedOnQuorum", {}), '{"truncate_past_down_member"}': ("TruncationSafe", {}),
        '{"restart_skips_replay"}': ("ReadAnyReplica", {}), '{"ack_ignores_apply_error"}': ("ReadAnyReplica", {}),
        IMPL: ("ForcedCleanOnlyAfterTolerate", {"MaxCrashes": 2, "MaxEntries": 2}),
        SEED: ("HealthyTickResets", {"MaxCrashes": 2, "MaxEntries": 2})}
TICK = vcluster.Cluster.TICK_S   # period of deleteEntryLogPeriodically (time.NewTicker(time.Minute), not configurable)
os.environ.setdefault("JAVA_TOOL_OPTIONS", "-Xmx4g")
T0 = 1700000000          # base timestamp (s) of every point: one shard group, one raft entry per batch
WRITE_BUDGET = 120.0     # s: a write retried this long with a majority up must have been acknowledged
QUERY_BUDGET = 120.0
GRACE = 5.0              # s after a restarted store is registered alive and its partition is online: catch-up window
SERIES = {1: ["s1", "t1"], 2: ["s2", "t2"], 3: ["s3", "t3"]}     # model cell -> series of the batch


# ---------------------------------------------------------------------------------------------------
# Mode A

def mode_a(tier):
    cfg = "Replication.exh.quick.cfg" if tier == "quick" else "Replication.exh.thorough.cfg"
    # side by side: the design model, and the as-implemented model of F-C05-1 alone (forced clean exists, timer per member):
    # everything that F-C05-1 does not break, and loss only for members away for longer than TolerateTime
    # (the exhaustive as-implemented run belongs to the thorough tier; set C05_ASIMPL=1 to have it in the quick tier too)
    asimpl = tier != "quick" or bool(os.environ.get("C05_ASIMPL"))
    with cf.ThreadPoolExecutor(2) as ex:
        f1 = ex.submit(vlib.run_tlc, "ReplicationMC", cfg, timeout=2400 if tier == "quick" else 3400, workers=max(4, vlib.NCPU // 2))
        f2 = ex.submit(vlib.run_tlc, "ReplicationMC", "Replication.asimpl.quick.cfg", timeout=2400, workers=max(4, vlib.NCPU // 2 - 2)) if asimpl else None
        r, r2 = f1.result(), (f2.result() if f2 else None)
    vlib.tlc_must_pass(r, cfg)
    stats = {"cfg": cfg, "generated": r["generated"], "distinct": r["distinct"], "depth": r["depth"], "wall_s": round(r["wall_s"], 1)}
    if r2:
        vlib.tlc_must_pass(r2, "Replication.asimpl.quick.cfg")
        stats["as_implemented_F-C05-1"] = {"cfg": "Replication.asimpl.quick.cfg", "generated": r2["generated"], "distinct": r2["distinct"],
                                           "depth": r2["depth"], "wall_s": round(r2["wall_s"], 1)}
    base = open(os.path.join(vlib.SPECS, "cfg", "Replication.exh.quick.cfg")).read()
    tmp = vlib.scratch("c05cfg")
    caught = {}
    try:
        for dev, (inv, consts) in DEVS.items():
            p = os.path.join(tmp, "dev.cfg")
            txt = base.replace("Dev = {}", "Dev = " + dev)
            for k, v in consts.items():
                txt = re.sub(r"(?m)^  %s = .*$" % k, f"  {k} = {v}", txt)
            if consts:       # a deviation that needs the clock: only the invariant / property it is meant to break
                txt = re.sub(r"(?m)^INVARIANTS .*$", "INVARIANTS TimerSane" + ("" if inv == "HealthyTickResets" else " " + inv), txt)
                if inv != "HealthyTickResets":
                    txt = re.sub(r"(?m)^PROPERTIES .*\n", "", txt)
            open(p, "w").write(txt)
            rr = vlib.run_tlc("ReplicationMC", p, timeout=1800, workers=4)
            if rr["violated"] != inv:
                raise vlib.Infra(f"deviation {dev} should violate {inv} in Replication.tla, TLC says {rr['violated']} / {rr['error']}")
            caught[dev] = inv
        # the directed family "timer" exists because of the seed, not because of F-C05-2: with the as-implemented deviations alone
        # no behaviour whose outages are separated by a healthy tick loses anything after a short absence
        p = os.path.join(tmp, "nodev.cfg")
        open(p, "w").write(open(os.path.join(vlib.SPECS, "cfg", "Replication.dir.timer.cfg")).read().replace("Dev = " + SEED, "Dev = " + IMPL))
        rr = vlib.run_tlc("ReplicationMC", p, timeout=900, workers=4)
        if rr["violated"] or rr["error"] or not rr["finished"]:
            raise vlib.Infra(f"as-implemented model under PatientHealthy should satisfy ShortOutageReadAnyReplica, TLC says {rr['violated']} / {rr['error']}")
        stats["as_implemented_healthy_tick_between"] = {"distinct": rr["distinct"], "generated": rr["generated"], "violated": None}
    finally:
        shutil.rmtree(tmp, ignore_errors=True)
    stats["deviations_caught"] = caught
    return stats


# ---------------------------------------------------------------------------------------------------
# schedule generation (the specification as generator)

def short(s):
    ab = {"Write": "W", "Kill": "K", "Restart": "R", "Flush": "F", "Query": "Q", "Bulk": "Bulk", "WaitTrunc": "Trunc", "Sleep": "Sleep"}
    return " ".join(ab.get(e["a"], e["a"]) + (str(e["w"]) if e["a"] == "Write" else (e["r"][0] if e["a"] == "Kill" else (f"({e['r']})" if e["a"] == "Tick" else ""))) +
                    ("*" if e["a"] == "Kill" and e["f"] else "") for e in s)


def gen_schedules(n, seed):
    r = vlib.run_tlc("ReplicationMC", "Replication.sim.cfg", simulate=max(300, 25 * n), depth=400, seed=seed, timeout=600)
    if r["error"] or r["violated"] or r.get("timeout"):
        raise vlib.Infra(f"schedule generation failed: {r['error']} {r['violated']}\n" + r["out"][-2000:])
    seen, out = set(), []
    for t in r["traces"]:
        k = json.dumps(t, sort_keys=True)
        if k in seen:
            continue
        seen.add(k)
        kills = [e for e in t if e["a"] == "Kill"]
        writes = [e for e in t if e["a"] == "Write"]
        if not kills or len(writes) < 2:
            continue
        out.append(t)
    rnd = random.Random(seed)
    rnd.shuffle(out)
    # half of the schedules kill the leader at least once; schedules with a kill during a write first
    lead = [t for t in out if any(e["a"] == "Kill" and e["r"] == "leader" for e in t)]
    rest = [t for t in out if t not in lead]
    lead.sort(key=lambda t: -sum(1 for e in t if e["a"] == "Kill" and e["f"]))
    sel = lead[:(n + 1) // 2]
    sel += rest[:n - len(sel)]
    sel += lead[(n + 1) // 2:][:n - len(sel)]
    if len(sel) < n:
        raise vlib.Infra(f"schedule generator produced only {len(sel)} usable schedules, {n} wanted")
    rnd.shuffle(sel)
    return sel[:n], {"sim_traces": r["sim_traces"], "exported": len(r["traces"]), "distinct_usable": len(out),
                     "states": r["generated"]}


# ---------------------------------------------------------------------------------------------------
# directed schedule families: TLC's counterexample of a timer deviation, exported by ReplicationMC (ExportTimer), made concrete

TIMER_TOLERATE_S = 90      # TolerateTime = 1 ticker period in the model: strictly between one and two periods of the real ticker
TIMER_CONF = {"data": {"clear-entryLog-tolerate-time": '"%ds"' % TIMER_TOLERATE_S}, "logging": {"level": '"info"'}}
FAMILIES = {"timer": "Replication.dir.timer.cfg",        # mutation seed outage_timer_not_reset: outages separated by a healthy tick
            "rolling": "Replication.dir.rolling.cfg"}    # as implemented (F-C05-2): no healthy tick between the outages


def gen_directed(family):
    """BFS (one worker: deterministic) under the deviation; the first behaviour in which a member that was away for less than
    TolerateTime is back, caught up and answers without acknowledged writes (ShortOutageReadAnyReplica) is the schedule"""
    cfg = FAMILIES[family]
    r = vlib.run_tlc("ReplicationMC", cfg, timeout=900, workers=1)
    if r["violated"] != "ExportTimer" or not r["traces"] or r["error"]:
        raise vlib.Infra(f"directed schedule family {family}: TLC should export the counterexample of {cfg}: {r['violated']} / {r['error']}\n" + r["out"][-1500:])
    hist = r["traces"][0]
    cap = int(re.search(r"MaxHist = (\d+)", open(os.path.join(vlib.SPECS, "cfg", cfg)).read()).group(1))
    if len(hist) >= cap:
        raise vlib.Infra(f"directed schedule family {family}: the exported history fills MaxHist = {cap} (truncated)")
    return concretise(hist, family), {"cfg": cfg, "model_hist": short_model(hist), "distinct": r["distinct"], "generated": r["generated"],
                                      "wall_s": round(r["wall_s"], 1)}


def short_model(hist):
    return " ".join(e["a"] + (str(e["w"]) if e["a"] == "Write" else "") + (f"({e['r']})" if e["r"] != "-" else "") for e in hist)


def concretise(hist, family):
    """model history -> driver schedule. Rules (no choice is made here):
    - consecutive Ticks of the model are consecutive ticks of the real leader; a store killed before a Tick is killed early
      enough for the leader to see it away at that tick (and for the writes and the flush placed before the tick to finish);
    - the real entry log is cleaned by whole 32 MB files: the writes that the model places between a Kill and the Tick at which
      it forces the clean are followed by Bulk padding, so that the file rotates before the flush;
    - one Flush of the driver flushes every store: the model's per-node flushes collapse;
    - after the last action the driver waits for the leader to have deleted its first entry file (vacuity guard: enough was
      written and flushed for a clean to delete something), then the usual closing phase reads every replica."""
    out = []
    forced = [i for i, e in enumerate(hist) if e["a"] == "Tick" and e["r"] == "forced"]
    if not forced or not any(e["a"] == "Tick" and e["r"] == "away" for e in hist[:forced[0]]):
        raise vlib.Infra(f"directed family {family}: exported history has no away tick followed by a forced tick: {short_model(hist)}")
    last_kill = max(i for i in range(forced[0]) if hist[i]["a"] == "Kill")
    tk = 0
    for i, e in enumerate(hist):
        a = e["a"]
        if a == "Write":
            out.append(act("Write", e["w"], e["c"]))
            if last_kill < i < forced[0]:
                out.append(act("Bulk", mb=40))
        elif a == "Flush":
            if not (out and out[-1]["a"] == "Flush"):
                out.append(act("Flush"))
        elif a == "Kill":
            nxt = next(j for j in range(i + 1, len(hist)) if hist[j]["a"] == "Tick")
            work = [x for x in hist[i + 1:nxt] if x["a"] in ("Write", "Flush")]
            lead = 20.0 + (8.0 if work else 0.0) + (12.0 if last_kill == i else 0.0)      # s before the tick (40 MB of padding: 2 - 10 s)
            out.append(act("Kill", r=e["r"], lead=lead))
        elif a == "Restart":
            out.append(act("Restart"))
        elif a == "Tick":
            tk += 1
            out.append(act("Tick", r=e["r"], n=tk))
        else:
            raise vlib.Infra(f"directed family {family}: action {a} of the model has no driver counterpart")
    out.append(act("WaitTrunc", max_s=TICK + 40))
    return out


# ---------------------------------------------------------------------------------------------------
# the driver

class Died(Exception):
    pass


class Driver:
    """runs schedules one after the other on one cluster; one measurement per schedule"""

    def __init__(self, cl, seed):
        self.cl = cl
        self.rnd = random.Random(seed)
        self.gen = {1: 0, 2: 0, 3: 0}       # kill generation per store (settle monitors give up when it changes)
        self.lat = []                       # recent acknowledgement latencies of writes (s)

    # -- meta ---------------------------------------------------------------------------------------
    def meta(self):
        best = None
        for i in (1, 2, 3):
            try:
                with urllib.request.urlopen(f"http://{self.cl.addr[i]}:8091/getdata", timeout=5) as r:
                    d = json.loads(r.read().decode())
                    if best is None or d.get("Index", 0) > best.get("Index", 0):
                        best = d
            except Exception:
                pass
        if best is None:
            raise vlib.Infra("no meta node answers /getdata")
        return best

    def layout(self, d=None):
        """store index -> partition id, master partition, store index -> online?"""
        d = d or self.meta()
        node_store = {n["ID"]: int(n["Host"].split(":")[0].split(".")[-1]) for n in d["DataNodes"]}
        node_alive = {n["ID"]: n["Status"] == 1 for n in d["DataNodes"]}
        pts = {}
        online = {}
        for p in d["PtView"].get(DB, []):
            s = node_store[p["Owner"]["NodeID"]]
            pts[s] = p["PtId"]
            online[s] = (p["Status"] == 0) and node_alive[p["Owner"]["NodeID"]]
        rgs = d["ReplicaGroups"].get(DB) or [{}]
        return pts, rgs[0].get("MasterPtID"), online

    def master_store(self):
        pts, m, _ = self.layout()
        for s, p in pts.items():
            if p == m:
                return s
        return None

    def switch_master(self, pt):
        for i in (1, 2, 3):
            url = f"http://{self.cl.addr[i]}:8091/modifyRepDBMasterPt?" + urllib.parse.urlencode({"db": DB, "rgId": 0, "newMasterPtId": pt})
            try:
                with urllib.request.urlopen(urllib.request.Request(url, data=b"", method="POST"), timeout=20) as r:
                    if r.status == 200:
                        break
            except Exception:
                continue
        t0 = time.time()
        while time.time() - t0 < 30:
            if self.layout()[1] == pt:
                time.sleep(1.0)          # the sql node learns the new master through its meta cache
                return True
            time.sleep(0.2)
        return False

    def diagnose(self):
        """state of the cluster when a write / query was not served within its budget"""
        d = {}
        try:
            d["layout"] = [str(x) for x in self.layout()]
            m = self.meta()
            d["rg"] = m["ReplicaGroups"].get(DB)
            d["ptview"] = m["PtView"].get(DB)
            d["nodes"] = [(n["ID"], n["Host"], n["Status"], n["LTime"]) for n in m["DataNodes"]]
            d["cluster"] = [(r.get("hostname"), r.get("status")) for r in self.cl.cluster_view()]
        except Exception as ex:
            d["err"] = str(ex)
        for i in (1, 2, 3):
            d[f"meta{i}.error.log"] = self.cl.error_log(i, "meta.error", 2500)
            d[f"store{i}.error.log"] = self.cl.error_log(i, "store.error", 1500)
        return d

    # -- one schedule ---------------------------------------------------------------------------------
    def run(self, sid, sched, patient):
        cl = self.cl
        mst = f"m{sid}"
        ev = []
        lock = threading.Lock()
        t0 = time.time()
        qn = [0]
        stop = threading.Event()
        stop_all = threading.Event()
        down = set()
        monitors = []
        outage = [(0.0, 0.0)]
        lastkill = [0.0]
        info = {"sid": sid, "mst": mst, "patient": patient, "kills": [], "died": None}
        timed = any(a["a"] == "Tick" for a in sched)     # directed family: actions are placed relative to the leader's clean ticker
        tk = {"L": None, "pt": None, "expect": None, "last": None, "first_entry": None, "ticks": [], "guards": []}

        def add(**e):
            with lock:
                e["seq"] = len(ev)
                e["t"] = round(time.time() - t0, 3)
                ev.append(e)

        def cell(series, off):
            return f"{series}@{off}"

        # cells of the schedule: sentinel row of every series (warm-up), the overwritten group of every model cell,
        # one fresh row per write
        plan = []       # (w, [(series, off)])
        w = 1
        plan.append((w, [(s, 0) for c in SERIES for s in SERIES[c]]))
        for a in sched:
            if a["a"] == "Write":
                w += 1
                c = a["c"]
                pts = [(SERIES[c][0], 10 + c), (SERIES[c][0], 20 + c), (SERIES[c][1], 10 + c), (SERIES[c][0], 100 + w)]
                plan.append((w, pts))
        cells = sorted({cell(s, o) for _, pts in plan for s, o in pts})
        add(ev="Reset", cells=cells, stores=[1, 2, 3])

        def do_write(wv, pts):
            lines = "\n".join(f"{mst},host={s} v={wv}i {T0 + o}" for s, o in pts)
            add(ev="WBegin", w=wv, cells=[cell(s, o) for s, o in pts])
            tb = time.time()
            while True:
                try:
                    st, body = cl.write(DB, lines, precision="s", timeout=30)
                except Exception as ex:
                    st, body = -1, str(ex)
                if st == 204:
                    add(ev="WAck")
                    if time.time() - tb < 1.0 and not down:
                        self.lat.append(time.time() - tb)       # a first-attempt acknowledgement with every store up
                    return True
                add(ev="WErr", st=st, err=body[:160])
                if time.time() - tb > WRITE_BUDGET:
                    add(ev="WFail")
                    return False
                time.sleep(0.4)

        def one_query():
            with lock:
                qn[0] += 1
                q = qn[0]
            add(ev="QBegin", q=q)
            try:
                st, body = cl.query(f"select * from {mst}", db=DB, epoch="s", timeout=30)
            except Exception as ex:
                st, body = -1, {"raw": str(ex)}
            res = (body.get("results") or [{}])[0] if isinstance(body, dict) else {}
            if st != 200 or "results" not in body or res.get("error"):
                add(ev="QErr", q=q, st=st, err=str(res.get("error") or body)[:160])
                return False
            rows = []
            for s in res.get("series", []) or []:
                ci = {c: k for k, c in enumerate(s["columns"])}
                for v in s["values"]:
                    rows.append([cell(v[ci["host"]], v[ci["time"]] - T0), v[ci["v"]]])
            add(ev="QEnd", q=q, rows=rows)
            return True

        def do_query():
            tb = time.time()
            while not one_query():
                if time.time() - tb > QUERY_BUDGET:
                    add(ev="QFail")
                    return False
                time.sleep(0.4)
            return True

        def reader():
            r = random.Random(sid * 7 + 1)
            while not stop.is_set():
                one_query()
                stop.wait(r.uniform(0.1, 0.5))

        def settle_monitor(i, g):
            tb = time.time()
            while not stop.is_set() and self.gen[i] == g:
                try:
                    _, _, online = self.layout()
                    if cl.store_alive(i) and online.get(i):
                        break
                except Exception:
                    pass
                if time.time() - tb > 180:
                    return
                time.sleep(0.5)
            # caught up = GRACE after it is back. If another store was killed after this one came back, catching up needs a
            # NEW raft leader first (election timeout 4-8 s, restarted by every futile candidacy of the lagging member): a
            # probe write (own measurement, not judged) begun after that kill must have been acknowledged - that takes a
            # leader and a quorum whose logs match - and GRACE counts from there.
            t_on = time.time()
            t_ok = t_on
            seen_kill = tb
            while True:
                if self.gen[i] != g or stop_all.is_set():
                    return
                lk = lastkill[0]
                if lk > seen_kill:
                    seen_kill = time.time()
                    while self.gen[i] == g and not stop_all.is_set():
                        try:
                            st, _ = cl.write(DB, f"{mst}_probe,host=p{i} v=1i {T0}", precision="s", timeout=30)
                        except Exception:
                            st = -1
                        if st == 204:
                            break
                        time.sleep(0.5)
                    t_ok = time.time()
                    continue
                if time.time() >= max(t_on, t_ok) + GRACE:
                    break
                time.sleep(0.1)
            if self.gen[i] == g and cl.store_alive(i):
                add(ev="Settled", i=i)

        def next_tick():
            """when the leader's ticker fires next (ticker started with its raft node, period TICK)"""
            starts, ticks = cl.clean_ticks(tk["L"])
            if not starts:
                raise vlib.Infra(f"store {tk['L']} never logged the start of deleteEntryLogPeriodically (log level info needed)")
            base = max([starts[-1]] + [x["t"] for x in ticks if x["t"] > starts[-1]])
            return base + (int((time.time() - base) // TICK) + 1) * TICK

        def entry_watch():
            """the leader's first raft entry file of this schedule: gone = a ClearEntryLog deleted entries"""
            if info.get("truncated") or not tk["first_entry"]:
                return
            files = cl.entry_files(tk["L"], DB, tk["pt"])
            if tk["first_entry"] in files:
                tk["present_t"] = time.time() - t0
                return
            info["truncated"] = True
            add(ev="Note", what=f"entry file {tk['first_entry']} of store {tk['L']} deleted; files now {files}", present_t=round(tk.get("present_t", 0.0), 3))

        def do_tick(a):
            """the next tick of the leader's clean ticker, as the leader logged it"""
            exp = tk["expect"] if tk["expect"] else (tk["last"] + TICK if tk["last"] else next_tick())
            if time.time() > exp - 1.0:
                tk["guards"].append(f"tick {a['n']}: the actions placed before it ended {time.time() - exp + 1.0:.1f}s too late")
            entry_watch()
            got = None
            while time.time() < exp + 25.0:
                _, ticks = cl.clean_ticks(tk["L"])
                cand = [x for x in ticks if abs(x["t"] - exp) < 5.0]
                if cand and time.time() - cand[0]["t"] > 1.0:      # the lines that follow "delete entry log start" are there
                    got = cand[0]
                    break
                entry_watch()
                time.sleep(0.3)
            if got is None:
                raise vlib.Infra(f"tick {a['n']} of store {tk['L']} expected at +{exp - t0:.0f}s is not in its log")
            tk["expect"], tk["last"] = None, got["t"]
            time.sleep(2.0)                 # a proposed ClearEntryLog is committed and applied
            files = cl.entry_files(tk["L"], DB, tk["pt"])
            rec = {"n": a["n"], "model": a["r"], "obs": got["obs"], "t": round(got["t"] - t0, 3), "min_index": got["min_index"],
                   "active": got["active"], "files": files, "down": sorted(down)}
            tk["ticks"].append(rec)
            add(ev="Note", what=f"tick {a['n']} of the leader (store {tk['L']}): {got['obs']} (model: {a['r']}), active {got['active']}, "
                f"ClearEntryLog index {got['min_index']}, entry files {files}", tick=rec)
            if got["obs"] in ("follower", "nosnap"):
                tk["guards"].append(f"tick {a['n']}: store {tk['L']} is not the raft leader / has no snapshot ({got['obs']})")
            elif a["r"] == "healthy" and got["obs"] != "healthy":
                tk["guards"].append(f"tick {a['n']}: the model's healthy tick was {got['obs']} on the cluster")
            elif a["r"] == "away" and got["obs"] not in ("away", "forced"):
                tk["guards"].append(f"tick {a['n']}: the outage did not span the tick ({got['obs']})")
            entry_watch()

        def do_kill(role, delay=0.0, lead=None, ms=False):
            """ms: the master store if the caller has looked it up already (a kill fired during a write must not spend the
            write on asking meta)"""
            if delay:
                time.sleep(delay)
            if down:
                return
            if lead is not None:
                nt = next_tick()
                if nt - time.time() < lead - 15.0:
                    tk["guards"].append(f"kill placed {nt - time.time():.0f}s before the tick, {lead:.0f}s wanted")
                while nt - time.time() > lead:
                    time.sleep(min(1.0, nt - time.time() - lead))
                tk["expect"] = nt
            if ms is False:
                try:
                    ms = self.master_store()
                except Exception:
                    ms = None
            if role == "leader" and ms:
                i = ms
            else:
                i = self.rnd.choice([s for s in (1, 2, 3) if s != ms])
            down.add(i)
            self.gen[i] += 1
            # the outage lasts at least this long (the statement's "pauses"): shorter than failure detection, around it, beyond it
            lastkill[0] = time.time()
            outage[0] = (time.time(), 0.0 if lead is not None else self.rnd.choice([0.0, 0.5, 3.0, 8.0, 14.0, 14.0]))
            add(ev="Kill", i=i, role=role, master=ms, outage=outage[0][1])
            cl.kill_store(i)
            info["kills"].append({"store": i, "role": role, "was_master": i == ms, "outage_s": outage[0][1], "t": round(time.time() - t0, 3)})

        def do_restart(wait):
            if not down:
                return
            rest = outage[0][1] - (time.time() - outage[0][0])
            if rest > 0:
                time.sleep(rest)
            i = down.pop()
            cl.start_store(i)
            add(ev="Restart", i=i)
            info["kills"][-1]["down_s"] = round(time.time() - t0 - info["kills"][-1].get("t", 0.0), 3)
            th = threading.Thread(target=settle_monitor, args=(i, self.gen[i]), daemon=True)
            th.start()
            monitors.append(th)
            if wait:
                th.join(timeout=240)

        def check_alive():
            for i in (1, 2, 3):
                if i not in down and not cl.store_alive(i):
                    info["died"] = {"store": i, "log": cl.tail_log("ts-store", i, 6000)}
                    raise Died()
            cl._check_procs()

        ok = True
        rd = None
        warm_lost = False
        try:
            # warm-up: creates the series on every replica; new series become searchable after the index flush
            ok = do_write(*plan[0])
            tb = time.time()
            while ok:
                try:
                    st, body = cl.query(f"select count(v) from {mst}", db=DB)
                    if body["results"][0]["series"][0]["values"][0][1] == len(plan[0][1]):
                        break
                except Exception as ex:          # not there yet, or the query timed out on an overloaded machine
                    body = locals().get("body", str(ex))
                if time.time() - tb > 90:
                    # acknowledged, every store up, not readable after 90 s (a new series is searchable after 1-2 s): not a matter of
                    # lag any more. The judged closing queries decide (TLC rejects a history whose acknowledged rows are missing).
                    add(ev="Note", what=f"warm-up rows of {mst} acknowledged but not visible after 90s: {str(body)[:200]}; schedule skipped")
                    warm_lost = True
                    break
                time.sleep(0.3)
            if timed and not warm_lost:
                tk["L"] = self.master_store()
                tk["pt"] = self.layout()[0].get(tk["L"])
                files = cl.entry_files(tk["L"], DB, tk["pt"])
                if tk["L"] is None or not files:
                    raise vlib.Infra(f"directed schedule: no master store / no raft entry file ({tk['L']}, {files})")
                tk["first_entry"] = files[0]
            rd = threading.Thread(target=reader, daemon=True)
            rd.start()
            k = 1
            n = 0 if warm_lost else len(sched)
            j = 0
            while ok and j < n:
                a = sched[j]
                nxt = sched[j + 1] if j + 1 < n else None
                check_alive()
                # a kill that the model places while the preceding write / flush is still in flight runs concurrently
                killer = None
                if not timed and nxt and nxt["a"] == "Kill" and a["a"] in ("Write", "Flush") and (nxt["f"] or a["a"] == "Flush"):
                    # SIGKILL at an arbitrary instant OF the write: a uniform draw over the time an acknowledged write has been taking
                    # on this cluster (4 - 8 ms when idle: routed / proposed / persisted / replicated / committed / applied /
                    # answered), one time in five shortly after it
                    if a["a"] == "Write" and self.lat and self.rnd.random() < 0.8:
                        d = self.rnd.uniform(0.15, 1.0) * sorted(self.lat[-7:])[len(self.lat[-7:]) // 2]
                    else:
                        d = self.rnd.choice([0.0, 0.002, 0.005, 0.01, 0.03, 0.1])
                    try:
                        ms0 = self.master_store()
                    except Exception:
                        ms0 = None
                    killer = threading.Thread(target=do_kill, args=(nxt["r"], d), kwargs={"ms": ms0}, daemon=True)
                if a["a"] == "Write":
                    if killer:
                        killer.start()
                    ok = do_write(*plan[k])
                    k += 1
                elif a["a"] == "Flush":
                    if killer:
                        killer.start()
                    add(ev="Flush")
                    try:
                        cl.flush()
                    except Exception:
                        pass
                elif a["a"] == "Kill":
                    do_kill(a["r"], lead=a.get("lead"))
                elif a["a"] == "Tick":
                    do_tick(a)
                elif a["a"] == "Restart":
                    do_restart(wait=patient)
                elif a["a"] == "Query":
                    ok = do_query()
                elif a["a"] == "Sleep":
                    time.sleep(a["s"])
                    add(ev="Note", what=f"slept {a['s']}s")
                elif a["a"] == "Bulk":
                    # padding so that the raft entry log rotates (32 MB per file): one acknowledged request per MB, not judged
                    pad = "x" * 1000
                    for b in range(a["mb"]):
                        body = "\n".join(f"{mst}_pad,host=p{b} v=\"{pad}\" {T0 + 1000 + r_}" for r_ in range(1000))
                        tb = time.time()
                        while True:
                            st, _ = cl.write(DB, body, precision="s", timeout=60)
                            if st == 204:
                                break
                            if time.time() - tb > WRITE_BUDGET:
                                raise vlib.Infra("padding write not accepted")
                            time.sleep(0.5)
                    add(ev="Note", what=f"{a['mb']} MB of padding acknowledged")
                elif a["a"] == "WaitTrunc":
                    # until the master's store has deleted its first raft entry file (ClearEntryLog applied)
                    if timed:
                        tb = time.time()
                        while not info.get("truncated") and time.time() - tb < a["max_s"]:
                            entry_watch()
                            time.sleep(1.0)
                        if not info.get("truncated"):
                            add(ev="Note", what=f"entry file {tk['first_entry']} of store {tk['L']} still there after {time.time() - tb:.0f}s; "
                                f"files now {cl.entry_files(tk['L'], DB, tk['pt'])}")
                    else:
                        ms = self.master_store()
                        pts, _, _ = self.layout()
                        ed = os.path.join(cl.dir, f"n{ms}", "data", "wal", DB, str(pts[ms]), "__raft_entries__")
                        first = sorted(f for f in os.listdir(ed) if f.endswith(".entry"))[0]
                        tb = time.time()
                        seen = time.time() - t0
                        while os.path.exists(os.path.join(ed, first)) and time.time() - tb < a["max_s"]:
                            seen = time.time() - t0
                            time.sleep(1.0)
                        gone = not os.path.exists(os.path.join(ed, first))
                        info["truncated"] = gone
                        add(ev="Note", what=f"entry file {first} of store {ms} " + ("deleted" if gone else "still there") +
                            f" after {time.time() - tb:.0f}s; files now {sorted(os.listdir(ed))}", present_t=round(seen, 3))
                if killer:
                    killer.join()
                    j += 1
                j += 1
            # closing phase: everything back, caught up, then the same question to every replica
            check_alive()
            if ok:
                do_restart(wait=True)
                for th in monitors:
                    th.join(timeout=240)
                stop.set()
                rd.join(timeout=60)
                add(ev="Note", what="all stores up and settled")
                check_alive()
                ok = do_query()
                pts, m, _ = self.layout()
                order = sorted(pts.values())
                self.rnd.shuffle(order)
                for p in order:
                    if not ok:
                        break
                    if not self.switch_master(p):
                        raise vlib.Infra(f"master partition did not move to {p}")
                    add(ev="Switch", pt=p, store=[s for s, q in pts.items() if q == p][0])
                    ok = do_query()
        except Died:
            ok = False
        finally:
            stop.set()
            stop_all.set()
            if rd:
                rd.join(timeout=60)
            for i in list(down):      # leave the cluster whole for the next schedule
                cl.start_store(i)
                down.discard(i)
        if not ok and not info["died"]:
            info["diag"] = self.diagnose()
        info["warm_lost"] = warm_lost
        if timed:
            info["ticks"] = tk["ticks"]
            info["tick_leader"] = tk["L"]
            info["guards"] = tk["guards"]
        info.update({"events": ev, "sched": sched, "ok_run": ok, "wall_s": round(time.time() - t0, 1)})
        return info


def run_cluster(cid, items, seed, extra_conf=None):
    conf0 = extra_conf
    """items = [(sid, sched, patient)]; one cluster, schedules one after the other"""
    if os.environ.get("C05_LOGLEVEL"):       # debugging aid: store / meta / sql logs at another level
        extra_conf = dict(extra_conf or {})
        extra_conf["logging"] = dict(extra_conf.get("logging", {}), level='"%s"' % os.environ["C05_LOGLEVEL"])
    cl = vcluster.Cluster(name=f"c05-{cid}", seed=seed * 100 + cid, extra_conf=extra_conf)
    out = []
    try:
        cl.start()
        st, body = cl.query(f"CREATE DATABASE {DB} REPLICAS 3", method="POST")
        if st != 200 or (body.get("results") or [{}])[0].get("error"):
            raise vlib.Infra(f"CREATE DATABASE {DB} REPLICAS 3 failed: {st} {body}")
        drv = Driver(cl, seed * 1000 + cid)
        for sid, sched, patient in items:
            r = drv.run(sid, sched, patient)
            r["cluster"] = cid
            r["extra_conf"] = conf0
            r["boot_s"] = round(cl.boot_s, 1)
            out.append(r)
            if r["died"]:
                break
            # before the next schedule every store must be registered again
            t0 = time.time()
            while time.time() - t0 < 120:
                try:
                    if all(drv.layout()[2].get(i) for i in (1, 2, 3)):
                        break
                except Exception:
                    pass
                time.sleep(0.5)
        return out
    finally:
        keep = os.environ.get("C05_KEEP") == "all" or (bool(os.environ.get("C05_KEEP")) and any(not r["ok_run"] for r in out))
        if keep:
            vlib.log(f"[c05] cluster directory kept: {cl.dir}")
        cl.stop(keep=keep)


def act(a, w=0, c=0, r="-", f=0, **kw):
    d = {"a": a, "w": w, "c": c, "r": r, "f": f}
    d.update(kw)
    return d


# The TLC counterexample of deviation "truncate_past_down_member" (Kill follower, Write, Flush, Truncate, Restart,
# SnapInstall, read at the rejoined member), made concrete: the follower stays down longer than clear-entryLog-tolerate-time
# (lowered from 6h to 1s), enough is written for the entry log to rotate, the leader flushes and its periodic
# deleteEntryLog (1 min ticker) truncates; the follower comes back and every replica is asked.
LONG_DOWN = [act("Write", 1, 1), act("Kill", r="follower"), act("Write", 2, 1), act("Write", 3, 2), act("Write", 4, 1),
             act("Bulk", mb=40), act("Write", 5, 3), act("Flush"), act("Query"), act("WaitTrunc", max_s=200),
             act("Write", 6, 2), act("Restart"), act("Sleep", s=30)]      # 30 s on top of the usual catch-up allowance
LONG_DOWN_L = [act("Write", 1, 1), act("Kill", r="leader"), act("Write", 2, 1), act("Write", 3, 2), act("Write", 4, 1),
               act("Bulk", mb=40), act("Write", 5, 3), act("Flush"), act("Query"), act("WaitTrunc", max_s=200),
               act("Write", 6, 2), act("Restart"), act("Sleep", s=30)]
LONG_DOWN_CONF = {"data": {"clear-entryLog-tolerate-time": '"1s"'}}


# ---------------------------------------------------------------------------------------------------
# trace validation

KEEP = {"Reset": ("cells", "stores"), "WBegin": ("w", "cells"), "QBegin": ("q",), "QEnd": ("q", "rows"), "QErr": ("q",),
        "Kill": ("i",), "Restart": ("i",), "Settled": ("i",)}


def trace_of(r):
    out = []
    for e in r["events"]:
        x = {"ev": e["ev"]}
        for k in KEEP.get(e["ev"], ()):
            x[k] = e[k]
        out.append(x)
    return out


def validate(traces):
    tmp = vlib.scratch("c05trace")
    try:
        tp = os.path.join(tmp, "trace.ndjson")
        with open(tp, "w") as f:
            for lines in traces:
                for x in lines:
                    f.write(json.dumps(x) + "\n")
        r = vlib.run_tlc("TraceReplication", "TraceReplication.cfg", workers=1, timeout=1800, copy_files=[tp], depth_first=True)
        if r.get("timeout") or r["error"]:
            raise vlib.Infra(f"trace validation did not run: {r['error']}\n" + r["out"][-2000:])
        reached = None
        for line in r["out"].splitlines():
            if line.startswith('<<"REACHED"'):
                try:
                    reached = int(line.split(",")[1])
                except Exception:
                    pass
        r["reached"] = reached
        return r["violated"] is None, r
    finally:
        shutil.rmtree(tmp, ignore_errors=True)


def explain(r, t):
    """which event of the history TLC could not match, in words"""
    tr = trace_of(r)
    k = (t.get("reached") or 1) - 1
    if k >= len(tr):
        return "history accepted"
    e = r["events"][k]
    d = f"event #{k} {json.dumps(e)[:600]} of schedule [{short(r['sched'])}] is not allowed by TraceReplication.tla"
    if e["ev"] == "QEnd":
        # recompute what the cells could hold, for the message
        acked, pend, ever = {}, None, {}
        for x in r["events"][:k]:
            if x["ev"] == "WBegin":
                pend = x
                for c in x["cells"]:
                    ever.setdefault(c, set()).add(x["w"])
            elif x["ev"] == "WAck" and pend:
                for c in pend["cells"]:
                    acked[c] = pend["w"]
                pend = None
        got = {c: v for c, v in e["rows"]}
        bad = []
        for c, v in sorted(acked.items()):
            if got.get(c, 0) < v:
                bad.append(f"{c}: acknowledged {v}, query returned {got.get(c, 'no row')}")
        for c, v in got.items():
            if v not in ever.get(c, set()):
                bad.append(f"{c}: value {v} was never written")
        d += "; " + "; ".join(bad[:8])
    elif e["ev"] in ("WFail", "QFail"):
        d += f"; retry budget of {WRITE_BUDGET:.0f}s exhausted while at most a minority of the stores was down; " + json.dumps(r.get("diag", {}))[:6000]
    return d


def negative_controls(good):
    """a corrupted value and a dropped row in a judged query of an accepted history must be rejected"""
    for r in good:
        tr = trace_of(r)
        idx = [i for i, e in enumerate(tr) if e["ev"] == "QEnd" and len(e["rows"]) > 2]
        if not idx:
            continue
        i = idx[-1]          # the closing queries run with everything settled: judged strictly
        a = json.loads(json.dumps(tr))
        a[i]["rows"][0][1] = a[i]["rows"][0][1] + 1000
        b = json.loads(json.dumps(tr))
        del b[i]["rows"][0]
        c = json.loads(json.dumps(tr))
        # stale value: an overwritten cell shown with the value of the warm-up round
        ok_a, _ = validate([a])
        ok_b, _ = validate([b])
        if ok_a or ok_b:
            raise vlib.Infra(f"negative control accepted by TraceReplication.tla (corrupt value accepted={ok_a}, dropped row accepted={ok_b})")
        return {"corrupt_value_rejected": True, "dropped_row_rejected": True}
    return {}


# ---------------------------------------------------------------------------------------------------

# ---------------------------------------------------------------------------------------------------
# known findings: deviation models

def tolerate_s(r):
    """clear-entryLog-tolerate-time of the cluster the history was recorded on (default 6h)"""
    v = ((r.get("extra_conf") or {}).get("data") or {}).get("clear-entryLog-tolerate-time")
    if not v:
        return 6 * 3600.0
    m = re.match(r'"?(\d+(?:\.\d+)?)(ms|s|m|h)"?$', v.strip())
    if not m:
        return 6 * 3600.0
    return float(m.group(1)) * {"ms": 0.001, "s": 1.0, "m": 60.0, "h": 3600.0}[m.group(2)]


def skipped_by_clean(r, k):
    """Common part of the deviation models of F-C05-1 / F-C05-2. Predicate: the leader deleted raft entry files while store D
    was down (D was killed before, not restarted until after the deletion), and event k is the answer of a read DIRECTED at D.
    Prediction: D holds exactly the writes acknowledged before it was killed and the writes begun after the flush whose
    snapshot index became the truncation point; every write begun after the kill and acknowledged before that flush is
    missing on D. Anything else (another replica, other rows) matches no finding.
    Returns None or {D, down_s / down_hi: how long D had been down when the entry file was last seen / was seen gone, ...}."""
    ev = r["events"]
    e = ev[k]
    if e["ev"] != "QEnd" or not r.get("truncated"):
        return None
    it = next((i for i, x in enumerate(ev) if x["ev"] == "Note" and "deleted" in x.get("what", "") and "entry file" in x.get("what", "")), None)
    if it is None:
        return None
    D = None
    for i in range(it):
        if ev[i]["ev"] == "Kill":
            D, ik = ev[i]["i"], i
        elif ev[i]["ev"] == "Restart" and ev[i]["i"] == D:
            D = None
    if D is None:
        return None
    flushes = [i for i in range(ik, it) if ev[i]["ev"] == "Flush"]
    if not flushes:
        return None
    ifl = flushes[-1]
    sw = [i for i in range(k) if ev[i]["ev"] in ("Switch", "Kill", "Restart")]
    if not sw or ev[sw[-1]]["ev"] != "Switch" or ev[sw[-1]]["store"] != D:
        return None
    qb = next(i for i in range(k, -1, -1) if ev[i]["ev"] == "QBegin" and ev[i]["q"] == e["q"])
    if qb < sw[-1]:
        return None
    pred, latest, missing = {}, {}, []
    i = 0
    while i < k:
        x = ev[i]
        if x["ev"] == "WBegin":
            j = next((j for j in range(i + 1, len(ev)) if ev[j]["ev"] in ("WAck", "WFail")), None)
            if j is None or ev[j]["ev"] != "WAck" or j > k:
                return None                      # unknown outcomes are not part of the deviation model
            if (i < ik < j) or (i < ifl < j):
                return None                      # in flight across the kill / the flush: either side, not predicted
            on_d = j < ik or i > ifl
            for c in x["cells"]:
                latest[c] = x["w"]
                if on_d:
                    pred[c] = x["w"]
            if not on_d:
                missing.append(x["w"])
        i += 1
    got = {c: v for c, v in e["rows"]}
    if got != pred or pred == latest or not missing:
        return None
    # the clean happened after the file was last seen (present_t; histories recorded before that field: the 1 s poll + slack)
    seen = ev[it].get("present_t")
    if seen is None:
        seen = ev[it]["t"] - 2.0
    # D had been down for at least down_s (file still seen) and at most down_hi (file seen gone) when the leader cleaned
    return {"D": D, "down_s": seen - ev[ik]["t"], "down_hi": ev[it]["t"] - ev[ik]["t"], "missing": missing, "latest": latest, "got": got,
            "it": it, "ik": ik}


def _stale(x):
    return len(x["latest"]) - len([c for c in x["latest"] if x["got"].get(c) == x["latest"][c]])


def f_c05_1(r, k):
    """F-C05-1 (deviation "truncate_past_down_member"): skipped_by_clean, and D had been continuously down for LONGER than
    clear-entryLog-tolerate-time when the leader cleaned (a shorter absence is not this finding)."""
    x = skipped_by_clean(r, k)
    if not x or not x["down_s"] > tolerate_s(r):
        return None
    return (f"read directed at store {x['D']} (down {x['down_s']:.0f}s > tolerate time {tolerate_s(r):.0f}s when the leader truncated its entry log) returns exactly the "
            f"writes acknowledged before its kill and after the truncation point; writes {x['missing']} (acknowledged while it was down, "
            f"older than the truncation point) are missing on it for good: {_stale(x)} of {len(x['latest'])} cells stale or absent")


def f_c05_2(r, k):
    """F-C05-2 (deviation "outage_timer_per_group"): skipped_by_clean, D had been down for LESS than the tolerate time, and the
    leader's own tick log shows the rolling outage: the tick that cleaned was `forced`; going back from it every tick saw a
    member away, up to an arming tick more than the tolerate time earlier at which D was still alive (another outage, or an
    earlier one of D, armed the timer); no tick in between saw everybody present. A healthy tick in between = not this finding."""
    x = skipped_by_clean(r, k)
    if not x or not x["down_hi"] < tolerate_s(r):
        return None
    ev = r["events"]
    ticks = [(i, e["tick"]) for i, e in enumerate(ev) if e["ev"] == "Note" and e.get("tick")]
    # the forced tick while D was down, not later than the moment the entry file was seen gone (times of the leader's log)
    fi = [j for j, (i, t) in enumerate(ticks) if t["obs"] == "forced" and ev[x["ik"]]["t"] < t["t"] <= ev[x["it"]]["t"] + 2.0]
    if len(fi) != 1:
        return None
    j = fi[0]
    a = j
    while a > 0 and ticks[a - 1][1]["obs"] == "away" and abs(ticks[a][1]["t"] - ticks[a - 1][1]["t"] - TICK) < 5.0:
        a -= 1
    if a == j:
        return None                              # forced at the very tick that armed the timer: not predicted by this model
    if a > 0 and ticks[a - 1][1]["obs"] not in ("healthy", "forced", "nosnap", "follower"):
        return None
    arm, forced = ticks[a][1], ticks[j][1]
    if not forced["t"] - arm["t"] > tolerate_s(r) or ticks[a][0] > x["ik"] or x["D"] in arm["down"] and not any(
            e["ev"] == "Restart" and e["i"] == x["D"] for e in ev[ticks[a][0]:x["ik"]]):
        return None
    return (f"read directed at store {x['D']} (down only {x['down_hi']:.0f}s < tolerate time {tolerate_s(r):.0f}s when the leader truncated its entry log: "
            f"the leader's outage timer was armed {forced['t'] - arm['t']:.0f}s earlier by the outage of store(s) {arm['down']} and every tick since saw "
            f"some member away) returns exactly the writes acknowledged before its kill and after the truncation point; writes {x['missing']} "
            f"are missing on it for good: {_stale(x)} of {len(x['latest'])} cells stale or absent")


def f_c05_3(r, k):
    """F-C05-3 (a store that restarts serves the first queries while its recovery is still running). Predicate: the store that was
    master when it was killed is restarted less than 3 s later (meta needs ~2.3 s to report a store failed: the master partition never
    moved), nothing else is down, and event k is the answer of a query that began before, or at most 1 s after, that restart and
    ended within 5 s after it. Prediction: the answer is the complete answer with some rows MISSING - every row it has carries a
    value the cell may hold during the query (nothing stale, nothing invented), at least one acknowledged cell is absent - and the
    view heals: the next query begun after this answer returns every one of the missing cells. A cell that stays missing, a stale
    value, another store, a longer outage: not this finding."""
    ev = r["events"]
    e = ev[k]
    if e["ev"] != "QEnd":
        return None
    qb = next((i for i in range(k, -1, -1) if ev[i]["ev"] == "QBegin" and ev[i]["q"] == e["q"]), None)
    ir = next((i for i in range(k, -1, -1) if ev[i]["ev"] == "Restart"), None)
    if qb is None or ir is None:
        return None
    st = ev[ir]["i"]
    ik = next((i for i in range(ir, -1, -1) if ev[i]["ev"] == "Kill" and ev[i]["i"] == st), None)
    if ik is None or ev[ik].get("master") != st or ev[ir]["t"] - ev[ik]["t"] >= 3.0:
        return None
    if not (ev[qb]["t"] <= ev[ir]["t"] + 1.0 and ev[ir]["t"] <= e["t"] <= ev[ir]["t"] + 5.0):
        return None
    down = set()
    for i, x in enumerate(ev[:k]):
        if x["ev"] == "Kill":
            down.add(x["i"])
            if i > qb and x["i"] != st:
                return None
        elif x["ev"] == "Restart":
            down.discard(x["i"])
        if i == qb and down - {st}:
            return None
    acked, allowed, pend = {}, {}, None
    for i, x in enumerate(ev[:k]):
        if x["ev"] == "WBegin":
            pend = x
            for c in x["cells"]:
                allowed.setdefault(c, set()).add(x["w"])
        elif x["ev"] == "WAck" and pend:
            for c in pend["cells"]:
                if i < qb:
                    acked[c] = pend["w"]
                    allowed[c] = {pend["w"]}
            pend = None
        elif x["ev"] == "WFail":
            return None
    got = {}
    for c, v in e["rows"]:
        if c in got or v not in allowed.get(c, set()):
            return None                          # duplicate, stale or invented: not predicted
        got[c] = v
    missing = sorted(c for c in acked if c not in got)
    if not missing:
        return None
    nxt = next((j for j in range(k + 1, len(ev)) if ev[j]["ev"] == "QEnd" and
                any(ev[b]["ev"] == "QBegin" and ev[b]["q"] == ev[j]["q"] for b in range(k + 1, j))), None)
    if nxt is None:
        return None
    later = {c: v for c, v in ev[nxt]["rows"]}
    if any(later.get(c, 0) < acked[c] for c in missing):
        return None                              # still missing afterwards: a loss, not a view of a recovery in progress
    return (f"query answered {e['t'] - ev[ir]['t']:.2f}s after store {st} (master partition; killed {ev[ir]['t'] - ev[ik]['t']:.2f}s earlier, no fail-over) was "
            f"restarted returns {len(got)} of {len(acked)} acknowledged cells, all with the right value ({len(missing)} missing: {missing[:6]}); the next query, "
            f"{ev[nxt]['t'] - e['t']:.2f}s later, returns them: the restarted store answers before its recovery is complete")


def f_c05_4(r, k):
    """F-C05-4 (restart replay races with the live apply path: an entry of (snapshot index, commit] that is re-applied by
    readReplayForReplication AFTER a newer write to the same point has been applied through the commit channel puts the OLD value
    back). Predicate: event k is the answer of a read DIRECTED at store D (preceding Switch to D's partition, no kill / restart in
    between), D was killed and restarted before. Prediction, cell by cell: the latest acknowledged value, or - only for a cell whose
    latest write began after a Kill(D) - the value of the last write to that cell acknowledged before that Kill(D) and not followed
    by a Flush before the kill (unflushed on D: it is replayed at the restart); no cell missing, at least one cell old. Anything
    else (a missing row, an older or foreign value, another replica): not this finding."""
    ev = r["events"]
    e = ev[k]
    if e["ev"] != "QEnd":
        return None
    sw = [i for i in range(k) if ev[i]["ev"] in ("Switch", "Kill", "Restart")]
    if not sw or ev[sw[-1]]["ev"] != "Switch":
        return None
    D = ev[sw[-1]]["store"]
    qb = next(i for i in range(k, -1, -1) if ev[i]["ev"] == "QBegin" and ev[i]["q"] == e["q"])
    if qb < sw[-1]:
        return None
    kills = [i for i in range(k) if ev[i]["ev"] == "Kill" and ev[i]["i"] == D and
             any(ev[j]["ev"] == "Restart" and ev[j]["i"] == D for j in range(i, k))]
    if not kills:
        return None
    writes = []          # (begin, ack, w, cells)
    i = 0
    while i < k:
        x = ev[i]
        if x["ev"] == "WBegin":
            j = next((j for j in range(i + 1, len(ev)) if ev[j]["ev"] in ("WAck", "WFail")), None)
            if j is None or ev[j]["ev"] != "WAck" or j > k:
                return None
            writes.append((i, j, x["w"], x["cells"]))
        i += 1
    latest, begun = {}, {}
    for b, a, w, cells in writes:
        for c in cells:
            latest[c], begun[c] = w, b
    allowed = {c: {v} for c, v in latest.items()}
    for ik in kills:
        pre = {}
        for b, a, w, cells in writes:
            if a < ik and not any(ev[f]["ev"] == "Flush" for f in range(a, ik)):
                for c in cells:
                    pre[c] = w
            elif a < ik:
                for c in cells:
                    pre.pop(c, None)
        for c, w in pre.items():
            if begun[c] > ik:
                allowed[c].add(w)
    got = {}
    for c, v in e["rows"]:
        if c in got:
            return None
        got[c] = v
    if set(got) != set(latest) or any(got[c] not in allowed[c] for c in got):
        return None
    old = sorted(c for c in got if got[c] != latest[c])
    if not old:
        return None
    return (f"read directed at store {D} (killed and restarted {len(kills)} time(s) before) returns every cell, {len(old)} of them with the value they had "
            f"when the store was killed ({', '.join(f'{c}={got[c]} instead of {latest[c]}' for c in old[:4])}): the restart replay of the unflushed "
            f"entries was applied after the newer write to the same points; the fresh rows of the newer write are there")


def f_c05_5(r, k):
    """F-C05-5 (read gap of a fail-over: a write is acknowledged once the LEADER has applied it; a follower applies it when it
    learns the commit index. When the store of the master partition dies right after an acknowledgement, the new master serves
    reads before a new raft leader has committed - and the followers applied - the entries they hold but did not know to be
    committed). Predicate: the store that was master was killed, no other store is down, and event k is the answer of a query that
    began within 12 s after that kill (failure detection ~2.3 s + raft election 4 - 8 s). Prediction: the answer is EXACTLY the
    state after a PREFIX of the client's write sequence that contains every write acknowledged more than 1 s before the kill and
    lacks at least one acknowledged write; a later query returns the full state. Anything else: not this finding."""
    ev = r["events"]
    e = ev[k]
    if e["ev"] != "QEnd":
        return None
    qb = next((i for i in range(k, -1, -1) if ev[i]["ev"] == "QBegin" and ev[i]["q"] == e["q"]), None)
    ik = next((i for i in range(qb or 0, -1, -1) if ev[i]["ev"] == "Kill"), None)
    if qb is None or ik is None or ev[ik].get("master") != ev[ik]["i"] or not ev[ik]["t"] <= ev[qb]["t"] <= ev[ik]["t"] + 12.0:
        return None
    down = set()
    for x in ev[:k]:
        if x["ev"] == "Kill":
            down.add(x["i"])
        elif x["ev"] == "Restart":
            down.discard(x["i"])
    if down - {ev[ik]["i"]}:
        return None
    writes = []           # acknowledged before the query began: (ack time, w, cells)
    pend = None
    for i, x in enumerate(ev[:qb]):
        if x["ev"] == "WBegin":
            pend = x
        elif x["ev"] == "WAck" and pend:
            writes.append((x["t"], pend["w"], pend["cells"]))
            pend = None
        elif x["ev"] == "WFail":
            return None
    if pend is not None:
        return None                              # a write in flight when the query began: not predicted
    got = {}
    for c, v in e["rows"]:
        if c in got:
            return None
        got[c] = v
    must = len([1 for t, w, cells in writes if t < ev[ik]["t"] - 1.0])
    for m in range(len(writes) - 1, must - 1, -1):
        st = {}
        for t, w, cells in writes[:m]:
            for c in cells:
                st[c] = w
        if st == got:
            full = {}
            for t, w, cells in writes:
                for c in cells:
                    full[c] = w
            healed = any(x["ev"] == "QEnd" and x["t"] > e["t"] and all(dict(x["rows"]).get(c, 0) >= v for c, v in full.items()) for x in ev[k + 1:])
            if not healed:
                return None
            lag = [w for t, w, cells in writes[m:]]
            return (f"query begun {ev[qb]['t'] - ev[ik]['t']:.1f}s after the store of the master partition (store {ev[ik]['i']}) was killed returns exactly the state "
                    f"before write(s) {lag}, acknowledged {ev[ik]['t'] - writes[m][0]:.3f}s before the kill: the new master answers before a new raft leader "
                    f"has committed what the followers hold; a later query returns them")
    return None


DEVIATION_MODELS = {"F-C05-1": f_c05_1, "F-C05-2": f_c05_2, "F-C05-3": f_c05_3, "F-C05-4": f_c05_4, "F-C05-5": f_c05_5}


def judge(r, open_ids):
    """validate one history; divergences that are exactly what an open finding predicts are taken out and noted, validation goes on.
    returns (accepted, detail, [(finding id, what)])"""
    notes = []
    r = dict(r, events=list(r["events"]))
    for _ in range(50):
        ok, t = validate([trace_of(r)])
        if ok:
            return True, "", notes, t
        k = (t.get("reached") or 1) - 1
        hit = None
        if k < len(r["events"]):
            for fid, fn in DEVIATION_MODELS.items():
                if fid in open_ids:
                    what = fn(r, k)
                    if what:
                        hit = (fid, what)
                        break
        if not hit:
            return False, explain(r, t), notes, t
        notes.append(hit)
        q = r["events"][k]["q"]
        r["events"] = [e for e in r["events"] if not (e["ev"] in ("QBegin", "QEnd") and e.get("q") == q)]
    return False, "too many attributed divergences in one history", notes, t


# ---------------------------------------------------------------------------------------------------

def plan(tier):
    # directed: (name, schedule | None = exported by TLC at run time, cluster configuration)
    if tier == "quick":
        fam = os.environ.get("C05_FAMILIES", "timer").split(",")
        # the directed timer schedule lasts four ticker periods: the generic clusters use that time (6 schedules of ~30 s each)
        return {"clusters": 4, "per_cluster": 6, "directed": [("follower", LONG_DOWN, LONG_DOWN_CONF)] + [(f, None, TIMER_CONF) for f in fam if f in FAMILIES]}
    fam = os.environ.get("C05_FAMILIES", "timer,rolling").split(",")
    return {"clusters": 6, "per_cluster": 9, "directed": [("follower", LONG_DOWN, LONG_DOWN_CONF), ("leader", LONG_DOWN_L, LONG_DOWN_CONF)] +
            [(f, None, TIMER_CONF) for f in fam if f in FAMILIES]}


def check_guards(r):
    """vacuity guards of a directed timer schedule: it was driven as the model's behaviour says (else the run proves nothing: exit 2)"""
    g = list(r.get("guards") or [])
    ticks = r.get("ticks") or []
    want = [a for a in r["sched"] if a["a"] == "Tick"]
    if r["died"] or not r["ok_run"] or r.get("warm_lost"):
        return g                       # judged as it is
    if len(ticks) != len(want):
        g.append(f"{len(ticks)} of {len(want)} ticks observed")
        return g
    for x, y in zip(ticks, ticks[1:]):
        if abs(y["t"] - x["t"] - TICK) > 5.0:
            g.append(f"ticks {x['n']} and {y['n']} are {y['t'] - x['t']:.0f}s apart")
    tol = tolerate_s(r)
    fm = [i for i, a in enumerate(want) if a["r"] == "forced"]
    aw = [i for i, a in enumerate(want) if a["r"] == "away"]
    if fm and aw and not ticks[fm[0]]["t"] - ticks[aw[0]]["t"] > tol:
        g.append("the tick of the second outage is not more than the tolerate time after the first outage's tick")
    if not r["kills"] or not r["kills"][-1].get("down_s") or not r["kills"][-1]["down_s"] < tol:
        g.append(f"the last outage was not shorter than the tolerate time: {r['kills'][-1:]}")
    if fm and r["kills"] and not (r["kills"][-1]["t"] < ticks[fm[0]]["t"] < r["kills"][-1]["t"] + r["kills"][-1].get("down_s", 0)):
        g.append("the last outage did not span the tick at which the model forces the clean")
    if not r.get("truncated"):
        g.append("the leader never deleted its first raft entry file (not enough written / flushed for a clean to matter)")
    return g


def run(tier, seed):
    t0 = time.time()
    pl = plan(tier)
    n = pl["clusters"] * pl["per_cluster"]
    vcluster.build_cluster()
    with cf.ThreadPoolExecutor(4) as ex:           # the three generator runs of TLC side by side
        fg = ex.submit(gen_schedules, n, seed)
        fd = {name: ex.submit(gen_directed, name) for name, sch, _ in pl["directed"] if sch is None}
        scheds, gstat = fg.result()
        dstat = {}
        directed = []
        for name, sch, conf in pl["directed"]:
            if sch is None:
                sch, dstat[name] = fd[name].result()
            directed.append((name, sch, conf))
    rnd = random.Random(seed)
    items = [(sid, s, rnd.random() < 0.5) for sid, s in enumerate(scheds)]
    chunks = [items[c::pl["clusters"]] for c in range(pl["clusters"])]
    results, infra = [], []
    with cf.ThreadPoolExecutor(pl["clusters"] + len(directed) + 1) as ex:
        fa = ex.submit(mode_a, tier)           # TLC on the design model runs beside the cluster runs
        # directed (each on its own cluster, the long ones first): TLC counterexamples of the truncation deviations, made concrete
        futs = [ex.submit(run_cluster, 90 + i, [(9000 + i, sch, True)], seed, conf) for i, (_, sch, conf) in enumerate(directed)]
        futs += [ex.submit(run_cluster, c, chunks[c], seed) for c in range(pl["clusters"])]
        for f in futs:
            try:
                results += f.result()
            except vlib.Infra as e:
                infra.append(str(e))
        a = fa.result()
    vcluster.remove_private_binaries()
    if infra:
        raise vlib.Infra(f"{len(infra)} cluster(s) failed: " + infra[0][:3000])
    fam_of = {9000 + i: name for i, (name, _, _) in enumerate(directed)}
    vac = [f"{fam_of[r['sid']]}: {g}" for r in results if r["sid"] in fam_of and fam_of[r["sid"]] in FAMILIES for g in check_guards(r)]
    if vac:
        raise vlib.Infra("directed schedule not driven as the model's behaviour says (vacuous): " + "; ".join(vac)[:3000])
    open_ids = {f["id"] for f in vlib.load_known(PROP)}
    bad, good, known_notes = [], [], []
    for r in results:
        if r["died"]:
            r["detail"] = f"ts-store {r['died']['store']} died by itself during schedule [{short(r['sched'])}]:\n" + r["died"]["log"][-3000:]
            bad.append(r)
        else:
            good.append(r)
    tstats = {"histories": len(good), "events": sum(len(r["events"]) for r in good), "tlc_states": 0, "tlc_generated": 0}
    accepted = []
    if good:
        ok, t = validate([trace_of(r) for r in good])
        tstats["tlc_states"] = t["distinct"]
        tstats["tlc_generated"] = t["generated"]
        if ok:
            accepted = good
        else:
            for r in good:
                ok1, detail, notes, t1 = judge(r, open_ids)
                known_notes += [(r, fid, what) for fid, what in notes]
                if ok1:
                    if not notes:
                        accepted.append(r)
                else:
                    r["detail"] = detail
                    bad.append(r)
    neg = negative_controls(accepted) if accepted else {}
    for r, fid, what in known_notes:
        print(f"KNOWN-FINDING: property={PROP} {fid} schedule [{short(r['sched'])}]: {what[:600]}")
    nbad = 0
    for r in bad:
        nbad += 1
        if nbad <= 5:
            path = vlib.save_replay(PROP, {"result": r})
            print(f"VIOLATION property={PROP} replay={path}")
            vlib.log(r["detail"][:3000])
    dres = [{"family": fam_of.get(r["sid"]), "schedule": short(r["sched"]), "truncated": r.get("truncated"), "wall_s": r["wall_s"],
             "attributed": [fid for rr, fid, _ in known_notes if rr is r],
             "ticks": [{k: t[k] for k in ("n", "model", "obs", "t", "min_index", "down", "files")} for t in r.get("ticks", [])],
             "outages_s": [k.get("down_s") for k in r["kills"]], "tolerate_s": tolerate_s(r),
             "verdict": "VIOLATION" if any(r is b for b in bad) else "accepted"} for r in results if r["sid"] >= 9000]
    evs = [e for r in results for e in r["events"]]
    cnt = lambda name: sum(1 for e in evs if e["ev"] == name)
    kills = [k for r in results for k in r["kills"]]
    cov = {
        "states": a["distinct"] + tstats.get("tlc_states", 0), "transitions": a["generated"] + tstats.get("tlc_generated", 0),
        "traces_validated_against_impl": len(good),
        "samples": [short(r["sched"]) for r in results[:6]],
        "evaluations": len(results), "distinct_nontrivial": len([r for r in good if r["kills"]]),
        "rule": "one evaluation = one TLC-generated fault schedule driven into a real 3-store cluster and its client history "
                "validated by TLC; non-trivial = at least one store was killed during the schedule",
        "writes_acked": cnt("WAck"), "write_attempts_failed": cnt("WErr"), "queries_answered": cnt("QEnd"), "queries_failed": cnt("QErr"),
        "kills": len(kills), "kills_of_master": sum(1 for k in kills if k["was_master"]), "restarts": cnt("Restart"),
        "replica_directed_reads": cnt("Switch"), "flushes": cnt("Flush"),
        "clusters": pl["clusters"], "boot_s": sorted({r["boot_s"] for r in results}),
        "schedule_wall_s": [r["wall_s"] for r in results],
        "directed_truncation": dres, "known_finding_observations": len(known_notes),
        "generator": gstat, "directed_generator": dstat, "trace_validation": tstats, "negative_controls": neg, "tlc": {"design": a},
        "exhaustive": False,
    }
    vlib.write_evidence(PROP, tier, seed, "model_checking", cov, time.time() - t0, nbad, [
        "etcd/raft and memberlist/serf are trusted; the specification covers what openGemini adds around them",
        "fault schedules are enumerated by TLC on the specification side and sampled (one timing each) on the cluster side",
        f"a restarted store counts as caught up {GRACE:.0f}s after meta reports it alive with its partition online (if another store was killed "
        f"meanwhile: {GRACE:.0f}s after a probe write begun after that kill was acknowledged, i.e. a new raft leader exists); queries that overlap "
        "the catch-up window of one store while another one is down must only not invent values",
        "one sequential writer: the order of writes to a cell is the client's program order; a failed attempt is retried with the same batch",
        "a replica-directed read is issued 1s after /modifyRepDBMasterPt moved the master partition",
        "meta nodes and the sql node are never killed; no network partitions (outside the statement)",
        f"directed timer schedules: one ticker period of the model = {TICK:.0f}s of the leader's deleteEntryLogPeriodically ticker (read from the leader's own "
        f"log), TolerateTime = 1 of the model = clear-entryLog-tolerate-time {TIMER_TOLERATE_S}s; one timing per schedule; the leader is never killed in them",
    ])
    return 1 if nbad else 0


def replay(path, seed):
    """re-judges the recorded history of a saved case; with C05_RERUN=1 (or for a case without events) the schedule is driven
    into a fresh cluster again (timing differs from run to run)"""
    obj = json.load(open(path))
    r = obj.get("result", obj)
    if r.get("died"):
        print(f"VIOLATION property={PROP} replay={path}")
        vlib.log(r.get("detail", ""))
        return 1
    if r.get("events") and not os.environ.get("C05_RERUN"):
        return report([r], path)
    if r.get("sched"):
        res = run_cluster(0, [(r.get("sid", 0), r["sched"], r.get("patient", False))], seed, extra_conf=r.get("extra_conf"))
        vcluster.remove_private_binaries()
        return report(res, None)
    raise vlib.Infra("nothing to replay in " + path)


def report(results, path):
    open_ids = {f["id"] for f in vlib.load_known(PROP)}
    rc = 0
    for x in results:
        if x.get("died"):
            print(f"VIOLATION property={PROP} store died")
            rc = 1
            continue
        ok, detail, notes, _ = judge(x, open_ids)
        for fid, what in notes:
            print(f"KNOWN-FINDING: property={PROP} {fid} schedule [{short(x['sched'])}]: {what[:600]}")
        if not ok:
            x["detail"] = detail
            p = path or vlib.save_replay(PROP, {"result": x})
            print(f"VIOLATION property={PROP} replay={p}")
            vlib.log(detail)
            rc = 1
        elif not notes:
            print(f"history of schedule [{short(x['sched'])}] is accepted by TraceReplication.tla")
    return rc
