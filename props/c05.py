"""C05 - replicated data survives the loss of a minority of store nodes.

Mode A: TLC checks specs/Replication.tla (openGemini's layer around etcd/raft: propose / persist / replicate / commit /
apply / ack-after-local-apply, flush -> snapshot index, ClearEntryLog truncation, SIGKILL, restart with replay from the
snapshot index, elections, client retries) exhaustively on small constants and confirms that every mutation seed /
as-implemented deviation breaks the invariant it is meant to break.

Mode C (binding to the real code): the same specification, in simulation mode, is the FAULT-SCHEDULE GENERATOR
(Write / Kill leader|follower / Restart / Flush / Query). Every schedule is driven into a real 3-meta / 3-store / 1-sql
cluster on loopback (tools/vcluster.py, database `REPLICAS 3`, ha-policy replication) built from the tree under
verification: writes and queries through ts-sql, SIGKILL / restart of ts-store processes, forced flushes, a background
reader; kills that the model places while a write is in flight are fired concurrently with the HTTP write. The client
history (global sequence number) is validated by TLC against specs/TraceReplication.tla. At the end of every schedule
all stores are brought back, allowed to catch up, and the same query is directed at every replica in turn through the
operator endpoint /modifyRepDBMasterPt (ReadAnyReplica).

Verdicts come only from the real cluster: a history TLC rejects (stale / missing / invented value while a majority of
caught-up replicas is up, or a write / query that is not served within its retry budget), a store process that dies by
itself. TLC trouble, build trouble, a cluster that does not boot are infrastructure (exit 2)."""
import json, os, random, shutil, threading, time, urllib.parse, urllib.request, urllib.error, concurrent.futures as cf
import vlib, vcluster

PROP = "C05"
DB = "db0"
DEVS = {'{"ack_before_quorum"}': "AckedOnQuorum", '{"truncate_past_down_member"}': "TruncationSafe",
        '{"restart_skips_replay"}': "ReadAnyReplica", '{"ack_ignores_apply_error"}': "ReadAnyReplica"}
T0 = 1700000000          # base timestamp (s) of every point: one shard group, one raft entry per batch
WRITE_BUDGET = 120.0     # s: a write retried this long with a majority up must have been acknowledged
QUERY_BUDGET = 120.0
GRACE = 5.0              # s after a restarted store is registered alive and its partition is online: catch-up window
SERIES = {1: ["s1", "t1"], 2: ["s2", "t2"], 3: ["s3", "t3"]}     # model cell -> series of the batch


# ---------------------------------------------------------------------------------------------------
# Mode A

def mode_a(tier):
    cfg = "Replication.exh.quick.cfg" if tier == "quick" else "Replication.exh.thorough.cfg"
    r = vlib.run_tlc("ReplicationMC", cfg, timeout=900 if tier == "quick" else 1700, workers=max(4, vlib.NCPU // 2))
    vlib.tlc_must_pass(r, cfg)
    stats = {"cfg": cfg, "generated": r["generated"], "distinct": r["distinct"], "depth": r["depth"], "wall_s": round(r["wall_s"], 1)}
    base = open(os.path.join(vlib.SPECS, "cfg", "Replication.exh.quick.cfg")).read()
    tmp = vlib.scratch("c05cfg")
    caught = {}
    try:
        for dev, inv in DEVS.items():
            p = os.path.join(tmp, "dev.cfg")
            open(p, "w").write(base.replace("Dev = {}", "Dev = " + dev))
            rr = vlib.run_tlc("ReplicationMC", p, timeout=600, workers=4)
            if rr["violated"] != inv:
                raise vlib.Infra(f"deviation {dev} should violate {inv} in Replication.tla, TLC says {rr['violated']} / {rr['error']}")
            caught[dev] = inv
    finally:
        shutil.rmtree(tmp, ignore_errors=True)
    stats["deviations_caught"] = caught
    return stats


# ---------------------------------------------------------------------------------------------------
# schedule generation (the specification as generator)

def short(s):
    ab = {"Write": "W", "Kill": "K", "Restart": "R", "Flush": "F", "Query": "Q", "Bulk": "Bulk", "WaitTrunc": "Trunc", "Sleep": "Sleep"}
    return " ".join(ab.get(e["a"], e["a"]) + (str(e["w"]) if e["a"] == "Write" else (e["r"][0] if e["a"] == "Kill" else "")) +
                    ("*" if e["a"] == "Kill" and e["f"] else "") for e in s)


def gen_schedules(n, seed):
    r = vlib.run_tlc("ReplicationMC", "Replication.sim.cfg", simulate=max(300, 25 * n), depth=400, seed=seed, timeout=600)
    if r["error"] or r["violated"] or r.get("timeout"):
        raise vlib.Infra(f"schedule generation failed: {r['error']} {r['violated']}\n" + r["out"][-2000:])
    seen, out = set(), []
    for t in r["traces"]:
        k = json.dumps(t, sort_keys=True)
        if k in seen:
            continue
        seen.add(k)
        kills = [e for e in t if e["a"] == "Kill"]
        writes = [e for e in t if e["a"] == "Write"]
        if not kills or len(writes) < 2:
            continue
        out.append(t)
    rnd = random.Random(seed)
    rnd.shuffle(out)
    # half of the schedules kill the leader at least once; schedules with a kill during a write first
    lead = [t for t in out if any(e["a"] == "Kill" and e["r"] == "leader" for e in t)]
    rest = [t for t in out if t not in lead]
    lead.sort(key=lambda t: -sum(1 for e in t if e["a"] == "Kill" and e["f"]))
    sel = lead[:(n + 1) // 2]
    sel += rest[:n - len(sel)]
    sel += lead[(n + 1) // 2:][:n - len(sel)]
    if len(sel) < n:
        raise vlib.Infra(f"schedule generator produced only {len(sel)} usable schedules, {n} wanted")
    rnd.shuffle(sel)
    return sel[:n], {"sim_traces": r["sim_traces"], "exported": len(r["traces"]), "distinct_usable": len(out),
                     "states": r["generated"]}


# ---------------------------------------------------------------------------------------------------
# the driver

class Died(Exception):
    pass


class Driver:
    """runs schedules one after the other on one cluster; one measurement per schedule"""

    def __init__(self, cl, seed):
        self.cl = cl
        self.rnd = random.Random(seed)
        self.gen = {1: 0, 2: 0, 3: 0}       # kill generation per store (settle monitors give up when it changes)

    # -- meta ---------------------------------------------------------------------------------------
    def meta(self):
        best = None
        for i in (1, 2, 3):
            try:
                with urllib.request.urlopen(f"http://{self.cl.addr[i]}:8091/getdata", timeout=5) as r:
                    d = json.loads(r.read().decode())
                    if best is None or d.get("Index", 0) > best.get("Index", 0):
                        best = d
            except Exception:
                pass
        if best is None:
            raise vlib.Infra("no meta node answers /getdata")
        return best

    def layout(self, d=None):
        """store index -> partition id, master partition, store index -> online?"""
        d = d or self.meta()
        node_store = {n["ID"]: int(n["Host"].split(":")[0].split(".")[-1]) for n in d["DataNodes"]}
        node_alive = {n["ID"]: n["Status"] == 1 for n in d["DataNodes"]}
        pts = {}
        online = {}
        for p in d["PtView"].get(DB, []):
            s = node_store[p["Owner"]["NodeID"]]
            pts[s] = p["PtId"]
            online[s] = (p["Status"] == 0) and node_alive[p["Owner"]["NodeID"]]
        rgs = d["ReplicaGroups"].get(DB) or [{}]
        return pts, rgs[0].get("MasterPtID"), online

    def master_store(self):
        pts, m, _ = self.layout()
        for s, p in pts.items():
            if p == m:
                return s
        return None

    def switch_master(self, pt):
        for i in (1, 2, 3):
            url = f"http://{self.cl.addr[i]}:8091/modifyRepDBMasterPt?" + urllib.parse.urlencode({"db": DB, "rgId": 0, "newMasterPtId": pt})
            try:
                with urllib.request.urlopen(urllib.request.Request(url, data=b"", method="POST"), timeout=20) as r:
                    if r.status == 200:
                        break
            except Exception:
                continue
        t0 = time.time()
        while time.time() - t0 < 30:
            if self.layout()[1] == pt:
                time.sleep(1.0)          # the sql node learns the new master through its meta cache
                return True
            time.sleep(0.2)
        return False

    def diagnose(self):
        """state of the cluster when a write / query was not served within its budget"""
        d = {}
        try:
            d["layout"] = [str(x) for x in self.layout()]
            m = self.meta()
            d["rg"] = m["ReplicaGroups"].get(DB)
            d["ptview"] = m["PtView"].get(DB)
            d["nodes"] = [(n["ID"], n["Host"], n["Status"], n["LTime"]) for n in m["DataNodes"]]
            d["cluster"] = [(r.get("hostname"), r.get("status")) for r in self.cl.cluster_view()]
        except Exception as ex:
            d["err"] = str(ex)
        for i in (1, 2, 3):
            d[f"meta{i}.error.log"] = self.cl.error_log(i, "meta.error", 2500)
            d[f"store{i}.error.log"] = self.cl.error_log(i, "store.error", 1500)
        return d

    # -- one schedule ---------------------------------------------------------------------------------
    def run(self, sid, sched, patient):
        cl = self.cl
        mst = f"m{sid}"
        ev = []
        lock = threading.Lock()
        t0 = time.time()
        qn = [0]
        stop = threading.Event()
        stop_all = threading.Event()
        down = set()
        monitors = []
        outage = [(0.0, 0.0)]
        lastkill = [0.0]
        info = {"sid": sid, "mst": mst, "patient": patient, "kills": [], "died": None}

        def add(**e):
            with lock:
                e["seq"] = len(ev)
                e["t"] = round(time.time() - t0, 3)
                ev.append(e)

        def cell(series, off):
            return f"{series}@{off}"

        # cells of the schedule: sentinel row of every series (warm-up), the overwritten group of every model cell,
        # one fresh row per write
        plan = []       # (w, [(series, off)])
        w = 1
        plan.append((w, [(s, 0) for c in SERIES for s in SERIES[c]]))
        for a in sched:
            if a["a"] == "Write":
                w += 1
                c = a["c"]
                pts = [(SERIES[c][0], 10 + c), (SERIES[c][0], 20 + c), (SERIES[c][1], 10 + c), (SERIES[c][0], 100 + w)]
                plan.append((w, pts))
        cells = sorted({cell(s, o) for _, pts in plan for s, o in pts})
        add(ev="Reset", cells=cells, stores=[1, 2, 3])

        def do_write(wv, pts):
            lines = "\n".join(f"{mst},host={s} v={wv}i {T0 + o}" for s, o in pts)
            add(ev="WBegin", w=wv, cells=[cell(s, o) for s, o in pts])
            tb = time.time()
            while True:
                try:
                    st, body = cl.write(DB, lines, precision="s", timeout=30)
                except Exception as ex:
                    st, body = -1, str(ex)
                if st == 204:
                    add(ev="WAck")
                    return True
                add(ev="WErr", st=st, err=body[:160])
                if time.time() - tb > WRITE_BUDGET:
                    add(ev="WFail")
                    return False
                time.sleep(0.4)

        def one_query():
            with lock:
                qn[0] += 1
                q = qn[0]
            add(ev="QBegin", q=q)
            try:
                st, body = cl.query(f"select * from {mst}", db=DB, epoch="s", timeout=30)
            except Exception as ex:
                st, body = -1, {"raw": str(ex)}
            res = (body.get("results") or [{}])[0] if isinstance(body, dict) else {}
            if st != 200 or "results" not in body or res.get("error"):
                add(ev="QErr", q=q, st=st, err=str(res.get("error") or body)[:160])
                return False
            rows = []
            for s in res.get("series", []) or []:
                ci = {c: k for k, c in enumerate(s["columns"])}
                for v in s["values"]:
                    rows.append([cell(v[ci["host"]], v[ci["time"]] - T0), v[ci["v"]]])
            add(ev="QEnd", q=q, rows=rows)
            return True

        def do_query():
            tb = time.time()
            while not one_query():
                if time.time() - tb > QUERY_BUDGET:
                    add(ev="QFail")
                    return False
                time.sleep(0.4)
            return True

        def reader():
            r = random.Random(sid * 7 + 1)
            while not stop.is_set():
                one_query()
                stop.wait(r.uniform(0.1, 0.5))

        def settle_monitor(i, g):
            tb = time.time()
            while not stop.is_set() and self.gen[i] == g:
                try:
                    _, _, online = self.layout()
                    if cl.store_alive(i) and online.get(i):
                        break
                except Exception:
                    pass
                if time.time() - tb > 180:
                    return
                time.sleep(0.5)
            # caught up = GRACE after it is back. If another store was killed after this one came back, catching up needs a
            # NEW raft leader first (election timeout 4-8 s, restarted by every futile candidacy of the lagging member): a
            # probe write (own measurement, not judged) begun after that kill must have been acknowledged - that takes a
            # leader and a quorum whose logs match - and GRACE counts from there.
            t_on = time.time()
            t_ok = t_on
            seen_kill = tb
            while True:
                if self.gen[i] != g or stop_all.is_set():
                    return
                lk = lastkill[0]
                if lk > seen_kill:
                    seen_kill = time.time()
                    while self.gen[i] == g and not stop_all.is_set():
                        try:
                            st, _ = cl.write(DB, f"{mst}_probe,host=p{i} v=1i {T0}", precision="s", timeout=30)
                        except Exception:
                            st = -1
                        if st == 204:
                            break
                        time.sleep(0.5)
                    t_ok = time.time()
                    continue
                if time.time() >= max(t_on, t_ok) + GRACE:
                    break
                time.sleep(0.1)
            if self.gen[i] == g and cl.store_alive(i):
                add(ev="Settled", i=i)

        def do_kill(role, delay=0.0):
            if delay:
                time.sleep(delay)
            if down:
                return
            try:
                ms = self.master_store()
            except Exception:
                ms = None
            if role == "leader" and ms:
                i = ms
            else:
                i = self.rnd.choice([s for s in (1, 2, 3) if s != ms])
            down.add(i)
            self.gen[i] += 1
            # the outage lasts at least this long (the statement's "pauses"): shorter than failure detection, around it, beyond it
            lastkill[0] = time.time()
            outage[0] = (time.time(), self.rnd.choice([0.0, 0.5, 3.0, 8.0, 14.0, 14.0]))
            add(ev="Kill", i=i, role=role, master=ms, outage=outage[0][1])
            cl.kill_store(i)
            info["kills"].append({"store": i, "role": role, "was_master": i == ms, "outage_s": outage[0][1]})

        def do_restart(wait):
            if not down:
                return
            rest = outage[0][1] - (time.time() - outage[0][0])
            if rest > 0:
                time.sleep(rest)
            i = down.pop()
            cl.start_store(i)
            add(ev="Restart", i=i)
            th = threading.Thread(target=settle_monitor, args=(i, self.gen[i]), daemon=True)
            th.start()
            monitors.append(th)
            if wait:
                th.join(timeout=240)

        def check_alive():
            for i in (1, 2, 3):
                if i not in down and not cl.store_alive(i):
                    info["died"] = {"store": i, "log": cl.tail_log("ts-store", i, 6000)}
                    raise Died()
            cl._check_procs()

        ok = True
        rd = None
        try:
            # warm-up: creates the series on every replica; new series become searchable after the index flush
            ok = do_write(*plan[0])
            tb = time.time()
            while ok:
                st, body = cl.query(f"select count(v) from {mst}", db=DB)
                try:
                    if body["results"][0]["series"][0]["values"][0][1] == len(plan[0][1]):
                        break
                except Exception:
                    pass
                if time.time() - tb > 60:
                    raise vlib.Infra(f"warm-up rows of {mst} never became visible: {body}")
                time.sleep(0.3)
            rd = threading.Thread(target=reader, daemon=True)
            rd.start()
            k = 1
            n = len(sched)
            j = 0
            while ok and j < n:
                a = sched[j]
                nxt = sched[j + 1] if j + 1 < n else None
                check_alive()
                # a kill that the model places while the preceding write / flush is still in flight runs concurrently
                killer = None
                if nxt and nxt["a"] == "Kill" and a["a"] in ("Write", "Flush") and (nxt["f"] or a["a"] == "Flush"):
                    d = self.rnd.choice([0.0, 0.002, 0.005, 0.01, 0.03, 0.1])
                    killer = threading.Thread(target=do_kill, args=(nxt["r"], d), daemon=True)
                if a["a"] == "Write":
                    if killer:
                        killer.start()
                    ok = do_write(*plan[k])
                    k += 1
                elif a["a"] == "Flush":
                    if killer:
                        killer.start()
                    add(ev="Flush")
                    try:
                        cl.flush()
                    except Exception:
                        pass
                elif a["a"] == "Kill":
                    do_kill(a["r"])
                elif a["a"] == "Restart":
                    do_restart(wait=patient)
                elif a["a"] == "Query":
                    ok = do_query()
                elif a["a"] == "Sleep":
                    time.sleep(a["s"])
                    add(ev="Note", what=f"slept {a['s']}s")
                elif a["a"] == "Bulk":
                    # padding so that the raft entry log rotates (32 MB per file): one acknowledged request per MB, not judged
                    pad = "x" * 1000
                    for b in range(a["mb"]):
                        body = "\n".join(f"{mst}_pad,host=p{b} v=\"{pad}\" {T0 + 1000 + r_}" for r_ in range(1000))
                        tb = time.time()
                        while True:
                            st, _ = cl.write(DB, body, precision="s", timeout=60)
                            if st == 204:
                                break
                            if time.time() - tb > WRITE_BUDGET:
                                raise vlib.Infra("padding write not accepted")
                            time.sleep(0.5)
                    add(ev="Note", what=f"{a['mb']} MB of padding acknowledged")
                elif a["a"] == "WaitTrunc":
                    # until the master's store has deleted its first raft entry file (ClearEntryLog applied)
                    ms = self.master_store()
                    pts, _, _ = self.layout()
                    ed = os.path.join(cl.dir, f"n{ms}", "data", "wal", DB, str(pts[ms]), "__raft_entries__")
                    first = sorted(f for f in os.listdir(ed) if f.endswith(".entry"))[0]
                    tb = time.time()
                    while os.path.exists(os.path.join(ed, first)) and time.time() - tb < a["max_s"]:
                        time.sleep(1.0)
                    gone = not os.path.exists(os.path.join(ed, first))
                    info["truncated"] = gone
                    add(ev="Note", what=f"entry file {first} of store {ms} " + ("deleted" if gone else "still there") +
                        f" after {time.time() - tb:.0f}s; files now {sorted(os.listdir(ed))}")
                if killer:
                    killer.join()
                    j += 1
                j += 1
            # closing phase: everything back, caught up, then the same question to every replica
            check_alive()
            if ok:
                do_restart(wait=True)
                for th in monitors:
                    th.join(timeout=240)
                stop.set()
                rd.join(timeout=60)
                add(ev="Note", what="all stores up and settled")
                check_alive()
                ok = do_query()
                pts, m, _ = self.layout()
                order = sorted(pts.values())
                self.rnd.shuffle(order)
                for p in order:
                    if not ok:
                        break
                    if not self.switch_master(p):
                        raise vlib.Infra(f"master partition did not move to {p}")
                    add(ev="Switch", pt=p, store=[s for s, q in pts.items() if q == p][0])
                    ok = do_query()
        except Died:
            ok = False
        finally:
            stop.set()
            stop_all.set()
            if rd:
                rd.join(timeout=60)
            for i in list(down):      # leave the cluster whole for the next schedule
                cl.start_store(i)
                down.discard(i)
        if not ok and not info["died"]:
            info["diag"] = self.diagnose()
        info.update({"events": ev, "sched": sched, "ok_run": ok, "wall_s": round(time.time() - t0, 1)})
        return info


def run_cluster(cid, items, seed, extra_conf=None):
    conf0 = extra_conf
    """items = [(sid, sched, patient)]; one cluster, schedules one after the other"""
    if os.environ.get("C05_LOGLEVEL"):       # debugging aid: store / meta / sql logs at another level
        extra_conf = dict(extra_conf or {})
        extra_conf["logging"] = dict(extra_conf.get("logging", {}), level='"%s"' % os.environ["C05_LOGLEVEL"])
    cl = vcluster.Cluster(name=f"c05-{cid}", seed=seed * 100 + cid, extra_conf=extra_conf)
    out = []
    try:
        cl.start()
        st, body = cl.query(f"CREATE DATABASE {DB} REPLICAS 3", method="POST")
        if st != 200 or (body.get("results") or [{}])[0].get("error"):
            raise vlib.Infra(f"CREATE DATABASE {DB} REPLICAS 3 failed: {st} {body}")
        drv = Driver(cl, seed * 1000 + cid)
        for sid, sched, patient in items:
            r = drv.run(sid, sched, patient)
            r["cluster"] = cid
            r["extra_conf"] = conf0
            r["boot_s"] = round(cl.boot_s, 1)
            out.append(r)
            if r["died"]:
                break
            # before the next schedule every store must be registered again
            t0 = time.time()
            while time.time() - t0 < 120:
                try:
                    if all(drv.layout()[2].get(i) for i in (1, 2, 3)):
                        break
                except Exception:
                    pass
                time.sleep(0.5)
        return out
    finally:
        keep = os.environ.get("C05_KEEP") == "all" or (bool(os.environ.get("C05_KEEP")) and any(not r["ok_run"] for r in out))
        if keep:
            vlib.log(f"[c05] cluster directory kept: {cl.dir}")
        cl.stop(keep=keep)


def act(a, w=0, c=0, r="-", f=0, **kw):
    d = {"a": a, "w": w, "c": c, "r": r, "f": f}
    d.update(kw)
    return d


# The TLC counterexample of deviation "truncate_past_down_member" (Kill follower, Write, Flush, Truncate, Restart,
# SnapInstall, read at the rejoined member), made concrete: the follower stays down longer than clear-entryLog-tolerate-time
# (lowered from 6h to 1s), enough is written for the entry log to rotate, the leader flushes and its periodic
# deleteEntryLog (1 min ticker) truncates; the follower comes back and every replica is asked.
LONG_DOWN = [act("Write", 1, 1), act("Kill", r="follower"), act("Write", 2, 1), act("Write", 3, 2), act("Write", 4, 1),
             act("Bulk", mb=40), act("Write", 5, 3), act("Flush"), act("Query"), act("WaitTrunc", max_s=200),
             act("Write", 6, 2), act("Restart"), act("Sleep", s=30)]      # 30 s on top of the usual catch-up allowance
LONG_DOWN_L = [act("Write", 1, 1), act("Kill", r="leader"), act("Write", 2, 1), act("Write", 3, 2), act("Write", 4, 1),
               act("Bulk", mb=40), act("Write", 5, 3), act("Flush"), act("Query"), act("WaitTrunc", max_s=200),
               act("Write", 6, 2), act("Restart"), act("Sleep", s=30)]
LONG_DOWN_CONF = {"data": {"clear-entryLog-tolerate-time": '"1s"'}}


# ---------------------------------------------------------------------------------------------------
# trace validation

KEEP = {"Reset": ("cells", "stores"), "WBegin": ("w", "cells"), "QBegin": ("q",), "QEnd": ("q", "rows"), "QErr": ("q",),
        "Kill": ("i",), "Restart": ("i",), "Settled": ("i",)}


def trace_of(r):
    out = []
    for e in r["events"]:
        x = {"ev": e["ev"]}
        for k in KEEP.get(e["ev"], ()):
            x[k] = e[k]
        out.append(x)
    return out


def validate(traces):
    tmp = vlib.scratch("c05trace")
    try:
        tp = os.path.join(tmp, "trace.ndjson")
        with open(tp, "w") as f:
            for lines in traces:
                for x in lines:
                    f.write(json.dumps(x) + "\n")
        r = vlib.run_tlc("TraceReplication", "TraceReplication.cfg", workers=1, timeout=1800, copy_files=[tp], depth_first=True)
        if r.get("timeout") or r["error"]:
            raise vlib.Infra(f"trace validation did not run: {r['error']}\n" + r["out"][-2000:])
        reached = None
        for line in r["out"].splitlines():
            if line.startswith('<<"REACHED"'):
                try:
                    reached = int(line.split(",")[1])
                except Exception:
                    pass
        r["reached"] = reached
        return r["violated"] is None, r
    finally:
        shutil.rmtree(tmp, ignore_errors=True)


def explain(r, t):
    """which event of the history TLC could not match, in words"""
    tr = trace_of(r)
    k = (t.get("reached") or 1) - 1
    if k >= len(tr):
        return "history accepted"
    e = r["events"][k]
    d = f"event #{k} {json.dumps(e)[:600]} of schedule [{short(r['sched'])}] is not allowed by TraceReplication.tla"
    if e["ev"] == "QEnd":
        # recompute what the cells could hold, for the message
        acked, pend, ever = {}, None, {}
        for x in r["events"][:k]:
            if x["ev"] == "WBegin":
                pend = x
                for c in x["cells"]:
                    ever.setdefault(c, set()).add(x["w"])
            elif x["ev"] == "WAck" and pend:
                for c in pend["cells"]:
                    acked[c] = pend["w"]
                pend = None
        got = {c: v for c, v in e["rows"]}
        bad = []
        for c, v in sorted(acked.items()):
            if got.get(c, 0) < v:
                bad.append(f"{c}: acknowledged {v}, query returned {got.get(c, 'no row')}")
        for c, v in got.items():
            if v not in ever.get(c, set()):
                bad.append(f"{c}: value {v} was never written")
        d += "; " + "; ".join(bad[:8])
    elif e["ev"] in ("WFail", "QFail"):
        d += f"; retry budget of {WRITE_BUDGET:.0f}s exhausted while at most a minority of the stores was down; " + json.dumps(r.get("diag", {}))[:6000]
    return d


def negative_controls(good):
    """a corrupted value and a dropped row in a judged query of an accepted history must be rejected"""
    for r in good:
        tr = trace_of(r)
        idx = [i for i, e in enumerate(tr) if e["ev"] == "QEnd" and len(e["rows"]) > 2]
        if not idx:
            continue
        i = idx[-1]          # the closing queries run with everything settled: judged strictly
        a = json.loads(json.dumps(tr))
        a[i]["rows"][0][1] = a[i]["rows"][0][1] + 1000
        b = json.loads(json.dumps(tr))
        del b[i]["rows"][0]
        c = json.loads(json.dumps(tr))
        # stale value: an overwritten cell shown with the value of the warm-up round
        ok_a, _ = validate([a])
        ok_b, _ = validate([b])
        if ok_a or ok_b:
            raise vlib.Infra(f"negative control accepted by TraceReplication.tla (corrupt value accepted={ok_a}, dropped row accepted={ok_b})")
        return {"corrupt_value_rejected": True, "dropped_row_rejected": True}
    return {}


# ---------------------------------------------------------------------------------------------------

# ---------------------------------------------------------------------------------------------------
# known findings: deviation models

def f_c05_1(r, k):
    """F-C05-1 (deviation "truncate_past_down_member"). Predicate: the leader deleted raft entry files while store D was
    down (D was killed before, not restarted until after the deletion), and event k is the answer of a read DIRECTED at D.
    Prediction: D holds exactly the writes acknowledged before it was killed and the writes begun after the flush whose
    snapshot index became the truncation point; every write begun after the kill and acknowledged before that flush is
    missing on D. Anything else (another replica, other rows) is not this finding."""
    ev = r["events"]
    e = ev[k]
    if e["ev"] != "QEnd" or not r.get("truncated"):
        return None
    it = next((i for i, x in enumerate(ev) if x["ev"] == "Note" and "deleted" in x.get("what", "") and "entry file" in x.get("what", "")), None)
    if it is None:
        return None
    D = None
    for i in range(it):
        if ev[i]["ev"] == "Kill":
            D, ik = ev[i]["i"], i
        elif ev[i]["ev"] == "Restart" and ev[i]["i"] == D:
            D = None
    if D is None:
        return None
    flushes = [i for i in range(ik, it) if ev[i]["ev"] == "Flush"]
    if not flushes:
        return None
    ifl = flushes[-1]
    sw = [i for i in range(k) if ev[i]["ev"] in ("Switch", "Kill", "Restart")]
    if not sw or ev[sw[-1]]["ev"] != "Switch" or ev[sw[-1]]["store"] != D:
        return None
    qb = next(i for i in range(k, -1, -1) if ev[i]["ev"] == "QBegin" and ev[i]["q"] == e["q"])
    if qb < sw[-1]:
        return None
    pred, latest, missing = {}, {}, []
    i = 0
    while i < k:
        x = ev[i]
        if x["ev"] == "WBegin":
            j = next((j for j in range(i + 1, len(ev)) if ev[j]["ev"] in ("WAck", "WFail")), None)
            if j is None or ev[j]["ev"] != "WAck" or j > k:
                return None                      # unknown outcomes are not part of the deviation model
            if (i < ik < j) or (i < ifl < j):
                return None                      # in flight across the kill / the flush: either side, not predicted
            on_d = j < ik or i > ifl
            for c in x["cells"]:
                latest[c] = x["w"]
                if on_d:
                    pred[c] = x["w"]
            if not on_d:
                missing.append(x["w"])
        i += 1
    got = {c: v for c, v in e["rows"]}
    if got != pred or pred == latest or not missing:
        return None
    return (f"read directed at store {D} (down {ev[it]['t'] - ev[ik]['t']:.0f}s when the leader truncated its entry log) returns exactly the "
            f"writes acknowledged before its kill and after the truncation point; writes {missing} (acknowledged while it was down, "
            f"older than the truncation point) are missing on it for good: {len(latest) - len([c for c in latest if got.get(c) == latest[c]])} "
            f"of {len(latest)} cells stale or absent")


DEVIATION_MODELS = {"F-C05-1": f_c05_1}


def judge(r, open_ids):
    """validate one history; divergences that are exactly what an open finding predicts are taken out and noted, validation goes on.
    returns (accepted, detail, [(finding id, what)])"""
    notes = []
    r = dict(r, events=list(r["events"]))
    for _ in range(50):
        ok, t = validate([trace_of(r)])
        if ok:
            return True, "", notes, t
        k = (t.get("reached") or 1) - 1
        hit = None
        if k < len(r["events"]):
            for fid, fn in DEVIATION_MODELS.items():
                if fid in open_ids:
                    what = fn(r, k)
                    if what:
                        hit = (fid, what)
                        break
        if not hit:
            return False, explain(r, t), notes, t
        notes.append(hit)
        q = r["events"][k]["q"]
        r["events"] = [e for e in r["events"] if not (e["ev"] in ("QBegin", "QEnd") and e.get("q") == q)]
    return False, "too many attributed divergences in one history", notes, t


# ---------------------------------------------------------------------------------------------------

def plan(tier):
    if tier == "quick":
        return {"clusters": 4, "per_cluster": 2, "directed": [("follower", LONG_DOWN)]}
    return {"clusters": 6, "per_cluster": 9, "directed": [("follower", LONG_DOWN), ("leader", LONG_DOWN_L)]}


def run(tier, seed):
    t0 = time.time()
    pl = plan(tier)
    n = pl["clusters"] * pl["per_cluster"]
    vcluster.build_cluster()
    scheds, gstat = gen_schedules(n, seed)
    rnd = random.Random(seed)
    items = [(sid, s, rnd.random() < 0.5) for sid, s in enumerate(scheds)]
    chunks = [items[c::pl["clusters"]] for c in range(pl["clusters"])]
    results, infra = [], []
    with cf.ThreadPoolExecutor(pl["clusters"] + len(pl["directed"]) + 1) as ex:
        fa = ex.submit(mode_a, tier)           # TLC on the design model runs beside the cluster runs
        futs = [ex.submit(run_cluster, c, chunks[c], seed) for c in range(pl["clusters"])]
        # directed: the TLC counterexample of deviation truncate_past_down_member, made concrete, on its own cluster
        futs += [ex.submit(run_cluster, 90 + i, [(9000 + i, sch, True)], seed, LONG_DOWN_CONF) for i, (_, sch) in enumerate(pl["directed"])]
        for f in futs:
            try:
                results += f.result()
            except vlib.Infra as e:
                infra.append(str(e))
        a = fa.result()
    vcluster.remove_private_binaries()
    if infra:
        raise vlib.Infra(f"{len(infra)} cluster(s) failed: " + infra[0][:3000])
    open_ids = {f["id"] for f in vlib.load_known(PROP)}
    bad, good, known_notes = [], [], []
    for r in results:
        if r["died"]:
            r["detail"] = f"ts-store {r['died']['store']} died by itself during schedule [{short(r['sched'])}]:\n" + r["died"]["log"][-3000:]
            bad.append(r)
        else:
            good.append(r)
    tstats = {"histories": len(good), "events": sum(len(r["events"]) for r in good), "tlc_states": 0, "tlc_generated": 0}
    accepted = []
    if good:
        ok, t = validate([trace_of(r) for r in good])
        tstats["tlc_states"] = t["distinct"]
        tstats["tlc_generated"] = t["generated"]
        if ok:
            accepted = good
        else:
            for r in good:
                ok1, detail, notes, t1 = judge(r, open_ids)
                known_notes += [(r, fid, what) for fid, what in notes]
                if ok1:
                    if not notes:
                        accepted.append(r)
                else:
                    r["detail"] = detail
                    bad.append(r)
    neg = negative_controls(accepted) if accepted else {}
    for r, fid, what in known_notes:
        print(f"KNOWN-FINDING: property={PROP} {fid} schedule [{short(r['sched'])}]: {what[:600]}")
    nbad = 0
    for r in bad:
        nbad += 1
        if nbad <= 5:
            path = vlib.save_replay(PROP, {"result": r})
            print(f"VIOLATION property={PROP} replay={path}")
            vlib.log(r["detail"][:3000])
    directed = [{"schedule": short(r["sched"]), "truncated": r.get("truncated"), "wall_s": r["wall_s"],
                 "attributed": [fid for rr, fid, _ in known_notes if rr is r]} for r in results if r["sid"] >= 9000]
    evs = [e for r in results for e in r["events"]]
    cnt = lambda name: sum(1 for e in evs if e["ev"] == name)
    kills = [k for r in results for k in r["kills"]]
    cov = {
        "states": a["distinct"] + tstats.get("tlc_states", 0), "transitions": a["generated"] + tstats.get("tlc_generated", 0),
        "traces_validated_against_impl": len(good),
        "samples": [short(r["sched"]) for r in results[:6]],
        "evaluations": len(results), "distinct_nontrivial": len([r for r in good if r["kills"]]),
        "rule": "one evaluation = one TLC-generated fault schedule driven into a real 3-store cluster and its client history "
                "validated by TLC; non-trivial = at least one store was killed during the schedule",
        "writes_acked": cnt("WAck"), "write_attempts_failed": cnt("WErr"), "queries_answered": cnt("QEnd"), "queries_failed": cnt("QErr"),
        "kills": len(kills), "kills_of_master": sum(1 for k in kills if k["was_master"]), "restarts": cnt("Restart"),
        "replica_directed_reads": cnt("Switch"), "flushes": cnt("Flush"),
        "clusters": pl["clusters"], "boot_s": sorted({r["boot_s"] for r in results}),
        "schedule_wall_s": [r["wall_s"] for r in results],
        "directed_truncation": directed, "known_finding_observations": len(known_notes),
        "generator": gstat, "trace_validation": tstats, "negative_controls": neg, "tlc": {"design": a},
        "exhaustive": False,
    }
    vlib.write_evidence(PROP, tier, seed, "model_checking", cov, time.time() - t0, nbad, [
        "etcd/raft and memberlist/serf are trusted; the specification covers what openGemini adds around them",
        "fault schedules are enumerated by TLC on the specification side and sampled (one timing each) on the cluster side",
        f"a restarted store counts as caught up {GRACE:.0f}s after meta reports it alive with its partition online (if another store was killed "
        f"meanwhile: {GRACE:.0f}s after a probe write begun after that kill was acknowledged, i.e. a new raft leader exists); queries that overlap "
        "the catch-up window of one store while another one is down must only not invent values",
        "one sequential writer: the order of writes to a cell is the client's program order; a failed attempt is retried with the same batch",
        "a replica-directed read is issued 1s after /modifyRepDBMasterPt moved the master partition",
        "meta nodes and the sql node are never killed; no network partitions (outside the statement)",
    ])
    return 1 if nbad else 0


def replay(path, seed):
    """re-judges the recorded history of a saved case; with C05_RERUN=1 (or for a case without events) the schedule is driven
    into a fresh cluster again (timing differs from run to run)"""
    obj = json.load(open(path))
    r = obj.get("result", obj)
    if r.get("died"):
        print(f"VIOLATION property={PROP} replay={path}")
        vlib.log(r.get("detail", ""))
        return 1
    if r.get("events") and not os.environ.get("C05_RERUN"):
        return report([r], path)
    if r.get("sched"):
        res = run_cluster(0, [(r.get("sid", 0), r["sched"], r.get("patient", False))], seed, extra_conf=r.get("extra_conf"))
        vcluster.remove_private_binaries()
        return report(res, None)
    raise vlib.Infra("nothing to replay in " + path)


def report(results, path):
    open_ids = {f["id"] for f in vlib.load_known(PROP)}
    rc = 0
    for x in results:
        if x.get("died"):
            print(f"VIOLATION property={PROP} store died")
            rc = 1
            continue
        ok, detail, notes, _ = judge(x, open_ids)
        for fid, what in notes:
            print(f"KNOWN-FINDING: property={PROP} {fid} schedule [{short(x['sched'])}]: {what[:600]}")
        if not ok:
            x["detail"] = detail
            p = path or vlib.save_replay(PROP, {"result": x})
            print(f"VIOLATION property={PROP} replay={p}")
            vlib.log(detail)
            rc = 1
        elif not notes:
            print(f"history of schedule [{short(x['sched'])}] is accepted by TraceReplication.tla")
    return rc
