"""C11 - each point lands in one covering shard; queries skip no shard with matches.
Mode A: TLC exhaustively checks specs/Routing.tla (UniqueCoveringShard, PruneSound, NoCondAll) over shard-key
        definitions x partition counts x HASH/RANGE x rows on group boundaries x condition trees (all trees of
        depth <= 2 over the full leaf alphabet, all trees of depth 3 over a smaller one), for several hash functions.
Mode B: TLC-generated cases (every depth-2 tree per setup, exported in chunks, plus seeded random depth-3 trees)
        are replayed into the real coordinator: rows go through PointsWriter.RetryWritePointRows on real meta.Data,
        conditions through ClusterShardMapper.MapShards; a row that satisfies a condition must lie in a consulted
        shard, and every accepted row must reach exactly one shard of the group covering its timestamp."""
import concurrent.futures as cf
import json, os, time
import vlib

PROP = "C11"
# bound the heap of every TLC this check starts (several run side by side; the machine is shared)
os.environ.setdefault("JAVA_TOOL_OPTIONS", "-Xmx3g")
DEV_SEEDS = [  # (deviation, cfg it is checked with, invariant that must fail)
    ("group_end_inclusive", "Routing.exh2.quick.cfg", "UniqueCoveringShard"),
    ("stale_group_cache", "Routing.exh2.quick.cfg", "UniqueCoveringShard"),
    ("overlap_strict", "Routing.exh2.quick.cfg", "PruneSound"),
    ("neq_as_eq", "Routing.exh2.quick.cfg", "PruneSound"),
    ("partial_key_narrows", "Routing.exh2.quick.cfg", "PruneSound"),
    ("and_merges_all", "Routing.exh3.quick.cfg", "PruneSound"),
    ("or_keeps_other_side", "Routing.exh2.quick.cfg", "PruneSound"),      # as implemented: F-C11-1
    ("or_keeps_other_side\", \"paren_unknown", "Routing.exh2.quick.cfg", "PruneSound"),  # F-C11-2 (needs F-C11-1's rule)
    ("buffer_not_reset", "Routing.exh2.quick.cfg", "PruneSound"),         # F-C11-3
    ("sticky_shard_key", "Routing.exh2.quick.cfg", "PruneSound"),         # F-C11-5
]


def _stats(r, cfg):
    d = {k: r[k] for k in ("generated", "distinct", "depth")}
    d["wall_s"] = round(r["wall_s"], 1)
    d["cfg"] = cfg
    return d


def gen_behaviours(tier, seed):
    quick = tier == "quick"
    exh2 = "Routing.exh2.quick.cfg" if quick else "Routing.exh2.thorough.cfg"
    exh3 = "Routing.exh3.quick.cfg" if quick else "Routing.exh3.thorough.cfg"
    bfs = "Routing.bfs.export.quick.cfg" if quick else "Routing.bfs.export.cfg"
    nsim_procs, nsim, simdepth = (1, 60, 41) if quick else (8, 250, 41)
    stats, behaviours = {}, []

    def sim(j):
        return vlib.run_tlc("RoutingMC", "Routing.sim.cfg", simulate=nsim, depth=simdepth + 2,
                            seed=seed * 1000 + j, timeout=2400)

    with cf.ThreadPoolExecutor(16) as ex:
        # the exports and the small exhaustive run share the machine; in the thorough tier the large
        # exhaustive run follows them (memory: TLC keeps its state queue under /dev/shm)
        f_exh2 = ex.submit(vlib.run_tlc, "RoutingMC", exh2, 4, None, None, None, 1500)
        f_bfs = ex.submit(vlib.run_tlc, "RoutingMC", bfs, 6, None, None, None, 1500)
        f_sims = [ex.submit(sim, j) for j in range(nsim_procs)]
        f_exh3 = ex.submit(vlib.run_tlc, "RoutingMC", exh3, 10, None, None, None, 2700) if quick else None
        r = f_exh2.result()
        vlib.tlc_must_pass(r, exh2)
        stats["exh_depth2"] = _stats(r, exh2)
        r = f_bfs.result()
        vlib.tlc_must_pass(r, bfs)
        behaviours += r["traces"]
        stats["bfs_export"] = dict(_stats(r, bfs), traces=len(r["traces"]))
        ntr = 0
        for f in f_sims:
            r = f.result()
            vlib.tlc_must_pass(r, "Routing.sim.cfg")
            behaviours += r["traces"]
            ntr += len(r["traces"])
        stats["sim"] = {"processes": nsim_procs, "num": nsim, "traces": ntr}
        r = f_exh3.result() if quick else vlib.run_tlc("RoutingMC", exh3, 16, None, None, None, 2700)
        vlib.tlc_must_pass(r, exh3)
        stats["exh_depth3"] = _stats(r, exh3)
    return behaviours, stats


def replay_cases(cases, seed):
    vh = vlib.build_vh()
    results, errs = vlib.run_vh_parallel(vh, ["replay-routing"], cases)
    if errs:
        raise vlib.Infra(f"harness process failed: {errs[0]}")
    if len(results) != len(cases):
        raise vlib.Infra(f"harness returned {len(results)} results for {len(cases)} cases")
    return results


def run(tier, seed):
    t0 = time.time()
    behaviours, stats = gen_behaviours(tier, seed)
    if not behaviours:
        raise vlib.Infra("TLC exported no behaviour")
    cases = [{"id": i, "seed": seed, "hist": h} for i, h in enumerate(behaviours)]
    results = replay_cases(cases, seed)
    infra = [r for r in results if r.get("infra")]
    if infra:
        raise vlib.Infra(f"harness infra error: {infra[0]}")
    bad = [r for r in results if not r["ok"]]
    open_ids = {f["id"] for f in vlib.load_known(PROP)}
    agg = {}
    for r in results:
        for k in r.get("knowns") or []:
            ids = k["finding"].split("+")
            if any(i not in open_ids for i in ids):  # attributed to something that is not a listed open finding
                if r["ok"]:
                    r["ok"] = False
                    r["detail"] = f"divergence attributed to {k['finding']}, not an open finding: {k['example']}"
                    bad.append(r)
                continue
            a = agg.setdefault(k["finding"], {"n": 0, "cases": 0, "ex": k["example"]})
            a["n"] += k["count"]
            a["cases"] += 1
    for kid in sorted(agg):
        a = agg[kid]
        print(f"KNOWN-FINDING: property={PROP} {kid} re-observed for {a['n']} probes in {a['cases']} behaviours, e.g. {a['ex'][:420]}")
    byid = {c["id"]: c for c in cases}
    for r in bad[:5]:
        path = vlib.save_replay(PROP, {"case": byid[r["id"]], "result": r})
        print(f"VIOLATION property={PROP} replay={path}")
        vlib.log(r.get("detail", ""))
    tot = {k: sum(r.get(k, 0) for r in results) for k in ("rows", "conds", "checks", "narrow", "as_spec", "diverge")}
    pairs = set()
    for h in behaviours:
        s = json.dumps(h[0]["args"], sort_keys=True)
        for st in h[1:]:
            pairs.add((s, json.dumps(st["args"], sort_keys=True)))
    cov = {
        "states": stats["exh_depth2"]["distinct"] + stats["exh_depth3"]["distinct"],
        "transitions": stats["exh_depth2"]["generated"] + stats["exh_depth3"]["generated"],
        "traces_validated_against_impl": len(results),
        "samples": [{"setup": behaviours[0][0]["args"], "probe": behaviours[0][1]["args"]},
                    {"setup": behaviours[-1][0]["args"], "probe": behaviours[-1][-1]["args"]}],
        "exhaustive": True,
        "evaluations": tot["conds"],
        "distinct_nontrivial": len(pairs),
        "rule": "one evaluation = one (setup, condition tree) replayed through ClusterShardMapper.MapShards and judged against "
                "every row of the setup written through PointsWriter; distinct = distinct (setup, condition) pairs; "
                "row_condition_checks counts the pairs where the row satisfies the condition",
        "tlc": stats,
        "rows_written": tot["rows"],
        "row_condition_checks": tot["checks"],
        "conditions_narrowed_by_real_code": tot["narrow"],
        "conditions_consulting_exactly_the_spec_set": tot["as_spec"],
        "conditions_diverging": tot["diverge"],
        "known_finding_probes": {k: v["n"] for k, v in agg.items()},
    }
    vlib.write_evidence(PROP, tier, seed, "model_checking", cov, time.time() - t0, len(bad), [
        "TLC bounds as in the cfg files named under coverage.tlc (2 tag keys, 2-3 tag values, 4 shard-key definitions, "
        "1-8 shards per group, 2-4 shard groups, RANGE with 1-2 split points and one re-sharding, HASH shard key altered once)",
        "in process: real meta.Data behind a real metaclient.Client; commands that would go to ts-meta "
        "(CreateShardGroup, UpdateSchema) are applied to the data directly as the meta FSM does; the store is a recorder",
        "query side reproduces query/compile.go up to MapShards (ConditionExpr, RewriteRegexConditions); hint queries "
        "(TargetShardsHintQuery) and column-store measurements are not covered",
        "all partitions online (write-available-first with an offline partition changes the hash modulus: not explored)",
        "time bounds occur under AND only (InfluxQL intersects time bounds wherever they stand)",
    ])
    return 1 if bad else 0


def replay(path, seed):
    obj = json.load(open(path))
    res = replay_cases([obj["case"]], obj["case"].get("seed", seed))
    r = res[0]
    if r.get("infra"):
        raise vlib.Infra(r["infra"])
    for k in r.get("knowns") or []:
        print(f"KNOWN-FINDING: property={PROP} {k['finding']} x{k['count']}: {k['example'][:400]}")
    if not r["ok"]:
        print(f"VIOLATION property={PROP} replay={path}")
        vlib.log(r.get("detail", ""))
        return 1
    print("replay passes")
    return 0


def selftest(seed):
    """every deviation of the specification must give a TLC counterexample (the invariants are not vacuous)"""
    os.makedirs(vlib.WORK, exist_ok=True)
    rc = 0
    for dev, cfg, inv in DEV_SEEDS:
        src = open(os.path.join(vlib.SPECS, "cfg", cfg)).read()
        tmp = os.path.join(vlib.WORK, f"c11-selftest-{abs(hash(dev)) % 100000}.cfg")
        open(tmp, "w").write(src.replace("Dev = {}", 'Dev = {"%s"}' % dev))
        r = vlib.run_tlc("RoutingMC", tmp, timeout=900)
        os.remove(tmp)
        ok = r["violated"] == inv
        print(f"selftest Dev={{\"{dev}\"}} on {cfg}: TLC reports {r['violated']} violated (expected {inv}) -> {'ok' if ok else 'MISSING'}")
        rc |= 0 if ok else 2
    return rc
