"""C10 — the series index is exact: one stable id per series, predicates match precisely.
Mode A: TLC exhaustively checks specs/SeriesIndex.tla: the life cycle (Create with lookup-before-create, IndexFlush,
ClearCache, Close/Reopen, Search sequences that leave the pooled searcher in either state) for KeyIdBijection /
NamespacesConsistent / CacheSound / SearchExact in every state (history independence: a search is a function of index
contents and predicate only), the predicate set algebra over the tag->ids items against brute-force evaluation
(SearchExact: unanchored regex, absent tag = empty string) for every set of <= N series, and the multiplicity / row
model (series standing for several members, tag->ids rows of RowCap ids; ListingsExact with conditions).
Mode B: TLC-generated behaviours (every BFS path of a small configuration, scripted rich series sets with every leaf
and design tree and history sequences, scripted sets with multiplicities 1/63/64/65/130 over flush/close/reopen,
seeded simulation with random trees to depth 3, repeated searches and random multiplicities) are replayed into a real
tsi merge-set index opened through the engine's production load path, every behaviour in one process with one P so
that pooled searchers are reused; after every action the id of every known series key is looked up, and every Search
of a sequence is compared on all production entry points (SHOW path ids and keys, SELECT path alone / every leaf alone /
again in sequence order, Engine.SeriesKeys / TagKeys / TagValues with the condition) with the specification's set.
A divergence is attributed to an open finding only if the real result equals the prediction of that finding's
deviation model (computed by the specification per subset of the OPEN deviation classes); anything else is a VIOLATION.
The deviation models of REPAIRED findings stay: the classes are mutation seeds TLC must refute, and the specification
predicts per subset holding a repaired class what the code would answer without the repair (Regressions): a real
result equal to one of them - and to nothing an open finding predicts - is a VIOLATION naming the repaired finding.
Which classes are open is read from known_findings.json (CLASS_FINDING) and handed to TLC as the constant OpenClasses."""
import json, os, random, re, shutil, time
import concurrent.futures as cf
import vlib

PROP = "C10"
# (deviation cfg suffix, invariant TLC must report)
DEVS_LIFE = [("neq_absent_nonmatch", None), ("or_as_and", None), ("idgen_restart", None), ("lookup_misses_pending", None),
             ("drop_tag_items", None), ("stale_allmatch_flag", "SearchExact"), ("stale_allmatch_flag.hi", "HistoryIndependent")]
DEVS_SEARCH = [("S", None), ("L", None), ("E", None), ("C", None), ("EN", None), ("cond_listing_first_row", "ListingsExact")]
DEVS_QUICK = [("neq_absent_nonmatch", None), ("S", None), ("stale_allmatch_flag", "SearchExact"),
              ("cond_listing_first_row", "ListingsExact")]
MODE_A = ("exh", "sets", "rows", "sets_deep", "sets_full")
NSIM = 3
EXPORTS = ("bfs_export", "script_export", "big_export") + tuple(f"sim{i}" for i in range(NSIM))
# deviation classes of SeriesIndex.tla (as-implemented regex pipeline of tag_filters.go / search.go) -> finding id; a
# class is OPEN (constant OpenClasses of the cfg handed to TLC) iff its finding is an open entry of known_findings.json
CLASS_FINDING = {"S": "F-C10-1", "L": "F-C10-2", "E": "F-C10-3", "N": "F-C10-4", "C": "F-C10-5"}
# the replay runs every behaviour in a process with ONE P: sync.Pool then hands the searcher object that served a
# search to the next search of the sequence (pooled state really is reused), and a saved replay is deterministic
VH_ENV = {"GOMAXPROCS": "1"}


def _stats(r):
    return {k: r[k] for k in ("generated", "distinct", "depth", "wall_s")}


def _tlc_jobs(tier, seed):
    thorough = tier == "thorough"
    nsim = 2500 if thorough else 150
    # exports first (the replay starts as soon as they are there); the simulation is single-threaded: three runs
    jobs = [(f"sim{i}", dict(cfg="SeriesIndex.sim.cfg", simulate=nsim // NSIM, depth=14, seed=seed * 1000 + i, timeout=3000))
            for i in range(NSIM)]
    jobs += [
        ("bfs_export", dict(cfg="SeriesIndex.bfs.export.cfg", workers=4, timeout=1200)),
        ("script_export", dict(cfg="SeriesIndex.script.export.cfg", workers=4, timeout=1200)),
        ("big_export", dict(cfg="SeriesIndex.big.export.cfg", workers=2, timeout=1200)),
        ("exh", dict(cfg="SeriesIndex.exh.thorough.cfg" if thorough else "SeriesIndex.exh.quick.cfg", workers=8, timeout=3000)),
        ("sets", dict(cfg="SeriesIndex.sets.thorough.cfg" if thorough else "SeriesIndex.sets.quick.cfg", workers=8, timeout=3000)),
        ("rows", dict(cfg="SeriesIndex.rows.thorough.cfg" if thorough else "SeriesIndex.rows.quick.cfg", workers=4, timeout=3000)),
    ]
    if thorough:
        jobs += [("sets_deep", dict(cfg="SeriesIndex.sets.deep.cfg", workers=8, timeout=3000)),
                 ("sets_full", dict(cfg="SeriesIndex.sets.full.cfg", workers=8, timeout=3000))]
    for d, inv in (DEVS_LIFE + DEVS_SEARCH if thorough else DEVS_QUICK):
        jobs.append(("dev:" + d, dict(cfg=f"SeriesIndex.dev.{d}.cfg", workers=4, timeout=900, expect=inv)))
    return jobs, nsim


def open_classes():
    """deviation classes whose finding is still open"""
    open_ids = {f["id"] for f in vlib.load_known(PROP)}
    return sorted(c for c, f in CLASS_FINDING.items() if f in open_ids)


def fixed_findings():
    """finding id -> fix commit of the `fixed: property=C10 <commit> <F-id> <what>` entries of known_findings.json"""
    p = os.path.join(vlib.ROOT, "known_findings.json")
    out = {}
    for t in json.load(open(p)).get("fixed", []):
        m = re.match(r"fixed: property=%s (\S+) (F-\S+)" % PROP, t)
        if m:
            out[m.group(2)] = m.group(1)
    return out


def _cfg_dir(classes):
    """copies of the SeriesIndex cfg files with the constant OpenClasses set to the classes of the open findings"""
    d = vlib.scratch("c10cfg")
    src = os.path.join(vlib.SPECS, "cfg")
    val = "{" + ", ".join('"%s"' % c for c in classes) + "}"
    for f in os.listdir(src):
        if not (f.startswith("SeriesIndex.") and f.endswith(".cfg")):
            continue
        txt, n = re.subn(r"^(\s*)OpenClasses\s*=.*$", lambda m: m.group(1) + "OpenClasses = " + val, open(os.path.join(src, f)).read(), flags=re.M)
        if n != 1:
            shutil.rmtree(d, ignore_errors=True)
            raise vlib.Infra(f"{f}: exactly one line 'OpenClasses = ...' expected, found {n}")
        open(os.path.join(d, f), "w").write(txt)
    return d


def _run_job(name, kw, cfgdir):
    kw = dict(kw)
    kw.pop("expect", None)
    cfg = kw.pop("cfg")
    return vlib.run_tlc("SeriesIndexMC", os.path.join(cfgdir, cfg), **kw)


def _check_job(name, kw, r, stats):
    cfg = kw["cfg"]
    if name.startswith("dev:"):
        d = name[4:]
        if r.get("timeout") or not r["violated"]:
            raise vlib.Infra(f"deviation {d} is not refuted by TLC (the invariants are vacuous?): {r['error']}\n" + r["out"][-2000:])
        if kw.get("expect") and r["violated"] != kw["expect"]:
            raise vlib.Infra(f"deviation {d}: TLC reports {r['violated']} violated, the counterexample expected is one of {kw['expect']}")
        stats["deviations_refuted"][d] = r["violated"]
        return
    vlib.tlc_must_pass(r, cfg)
    if name in MODE_A:
        stats[name] = _stats(r)
        stats[name]["cfg"] = cfg


class _Gen:
    """TLC runs of one check, at most five JVMs at a time (exports first); the replay may start while the design
    checks are still running, the verdict is given only after all of them passed."""

    def __init__(self, tier, seed):
        os.environ.setdefault("JAVA_TOOL_OPTIONS", "-Xmx4g")
        self.tier, self.seed = tier, seed
        self.jobs, self.nsim = _tlc_jobs(tier, seed)
        self.open_classes = open_classes()
        self.cfgdir = _cfg_dir(self.open_classes)
        self.stats = {"deviations_refuted": {}, "open_classes": self.open_classes}
        self.pool = cf.ThreadPoolExecutor(5)
        self.futs = [(n, kw, self.pool.submit(_run_job, n, kw, self.cfgdir)) for n, kw in self.jobs]

    def behaviours(self):
        thorough = self.tier == "thorough"
        res = {}
        for n, kw, f in self.futs:
            if n in EXPORTS:
                res[n] = f.result()
                vlib.tlc_must_pass(res[n], kw["cfg"])
        rnd = random.Random(self.seed)
        behaviours = []
        bfs = res["bfs_export"]["traces"]
        nb = 6000 if thorough else 1000
        if len(bfs) > nb:
            bfs = rnd.sample(bfs, nb)
        behaviours += bfs
        self.stats["bfs_export"] = {"generated": res["bfs_export"]["generated"], "traces": len(res["bfs_export"]["traces"]), "replayed": len(bfs)}
        for n in ("script_export", "big_export"):
            behaviours += res[n]["traces"]
            self.stats[n] = {"generated": res[n]["generated"], "traces": len(res[n]["traces"])}
        sim = [h for i in range(NSIM) for h in res[f"sim{i}"]["traces"]]
        nall = len(sim)
        if thorough and len(sim) > 9000:
            sim = rnd.sample(sim, 9000)
        behaviours += sim
        self.stats["sim"] = {"generated": sum(res[f"sim{i}"]["generated"] for i in range(NSIM)), "traces": nall, "replayed": len(sim),
                             "num": (self.nsim // NSIM) * NSIM, "runs": NSIM}
        return behaviours

    def finish(self):
        """Mode A and the self-test of the specification must pass (else exit 2)"""
        try:
            for n, kw, f in self.futs:
                if n in EXPORTS:
                    continue
                _check_job(n, kw, f.result(), self.stats)
        finally:
            self.pool.shutdown(wait=False, cancel_futures=True)
            shutil.rmtree(self.cfgdir, ignore_errors=True)
        return self.stats

    def abort(self):
        self.pool.shutdown(wait=False, cancel_futures=True)
        # jobs still running read their cfg at start-up only; queued ones were cancelled
        shutil.rmtree(self.cfgdir, ignore_errors=True)


def gen_behaviours(tier, seed):
    g = _Gen(tier, seed)
    try:
        b = g.behaviours()
    except BaseException:
        g.abort()
        raise
    return b, g.finish()


def replay_cases(cases, seed):
    vh = vlib.build_vh()
    results, errs = vlib.run_vh_parallel(vh, ["replay-index"], cases, env=VH_ENV)
    if errs:
        raise vlib.Infra(f"harness process failed: {errs[0]}")
    if len(results) != len(cases):
        raise vlib.Infra(f"harness returned {len(results)} results for {len(cases)} cases")
    return results


def _search_shapes(behaviours):
    """distinct predicates, evaluations, repeated searches and behaviours with large multiplicities"""
    preds, evals, repeats, bigb, members = set(), 0, 0, 0, 0
    for h in behaviours:
        big = False
        for st in h:
            if st["a"] == "Create" and st["exp"]["x"].get("new") == 1:
                n = st["exp"]["x"].get("n", 1)
                members += n
                big = big or n >= 63
            if st["a"] == "Search":
                seen = set()
                for q in st["exp"]["x"]:
                    k = q["m"] + json.dumps(q["p"], sort_keys=True)
                    preds.add(json.dumps(q["p"], sort_keys=True))
                    evals += 1
                    repeats += k in seen
                    seen.add(k)
        bigb += big
    return len(preds), evals, repeats, bigb, members


def run(tier, seed):
    t0 = time.time()
    g = _Gen(tier, seed)
    try:
        behaviours = g.behaviours()
        vlib.log(f"[c10] {len(behaviours)} behaviours exported after {time.time()-t0:.0f}s")
        cases = [{"id": i, "seed": seed, "hist": h} for i, h in enumerate(behaviours)]
        results = replay_cases(cases, seed)
        vlib.log(f"[c10] replay done after {time.time()-t0:.0f}s")
    except BaseException:
        g.abort()
        raise
    stats = g.finish()
    vlib.log(f"[c10] design checks and deviation runs done after {time.time()-t0:.0f}s")
    infra = [r for r in results if r.get("infra")]
    if infra:
        raise vlib.Infra(f"harness infra error: {infra[0]}")
    bad = [r for r in results if not r["ok"]]
    open_ids = {f["id"] for f in vlib.load_known(PROP)}
    fixed = fixed_findings()
    known_n, known_ex, known_cases = {}, {}, 0
    regress = {}
    for r in results:
        for kid in r.get("regress") or []:      # the harness matched the deviation model of a repaired class
            regress[kid] = regress.get(kid, 0) + 1
        kn = r.get("known_n") or {}
        if kn:
            known_cases += 1
        for kid, n in kn.items():
            if kid not in open_ids:          # attributed to something that is not a listed open finding
                if r["ok"]:
                    r["ok"] = False
                    if kid in fixed:
                        regress[kid] = regress.get(kid, 0) + 1
                        r["detail"] = (f"REGRESSION of the repaired finding {kid} (fixed by {fixed[kid]}): the real result equals "
                                       f"the prediction of its deviation model: " + r["known_ex"][kid])
                    else:
                        r["detail"] = f"divergence attributed to {kid}, which is not an open finding: " + r["known_ex"][kid]
                    bad.append(r)
                continue
            known_n[kid] = known_n.get(kid, 0) + n
            known_ex.setdefault(kid, r["known_ex"][kid])
    for kid in sorted(known_n):
        print(f"KNOWN-FINDING: property={PROP} {kid} re-observed {known_n[kid]} times, e.g. {known_ex[kid][:420]}")
    # violations that name a repaired finding first: they say which repair was lost
    bad.sort(key=lambda r: (not ((r.get("regress") or []) or "REGRESSION" in (r.get("detail") or "")), r["id"]))
    for kid in sorted(regress):
        vlib.log(f"[c10] REGRESSION property={PROP} {kid} (listed as fixed{' by ' + fixed[kid] if kid in fixed else ''}): "
                 f"{regress[kid]} behaviours give exactly the answer its deviation model predicts (was the repair lost?)")
    byid = {c["id"]: c for c in cases}
    for r in bad[:5]:
        path = vlib.save_replay(PROP, {"case": byid[r["id"]], "result": r})
        print(f"VIOLATION property={PROP} replay={path}")
        vlib.log(r["detail"][:3000])
    distinct = len({json.dumps(h, sort_keys=True) for h in behaviours})
    npreds, nevals, nrepeats, nbig, nmembers = _search_shapes(behaviours)
    sample = lambda h: [{"a": st["a"], "args": st["args"]} for st in h][:14]
    cov = {
        "states": sum(stats[k]["distinct"] for k in stats if k in MODE_A),
        "transitions": sum(stats[k]["generated"] for k in stats if k in MODE_A),
        "traces_validated_against_impl": len(results),
        "samples": [sample(behaviours[0]), sample(behaviours[-1])] if behaviours else [],
        "exhaustive": True,
        "evaluations": sum(r["searches"] for r in results), "distinct_nontrivial": npreds,
        "rule": "evaluations = (measurement, predicate) searches of the search sequences executed on the real index, each compared on "
                "the SHOW path, SearchSeriesKeys, the SELECT path (alone, every leaf alone, again in sequence order), Engine.SeriesKeys/"
                "TagKeys/TagValues; distinct_nontrivial = distinct predicate trees among them (every leaf of the family, the design trees of "
                "depth 2, random parser-producible trees to depth 3, member-tag leaves); behaviours = all BFS paths of the small export "
                "config (sampled in the quick tier) + scripted series sets (leaf/tree chunks and history sequences) + scripted sets with "
                "multiplicities 1/63/64/65/130 + seeded simulation",
        "tlc": stats,
        "predicate_evaluations_in_behaviours": nevals,
        "repeated_searches_in_sequences": nrepeats,
        "behaviours_with_large_multiplicity": nbig,
        "concrete_series_created": nmembers,
        "history_dependent_explained_answers": sum(r.get("histdep", 0) for r in results),
        "entry_point_results_compared": sum(r["compared"] for r in results),
        "id_lookups_compared": sum(r["lookups"] for r in results),
        "distinct_behaviours": distinct,
        "known_finding_behaviours": known_cases,
        "known_finding_counts": known_n,
        "open_deviation_classes": stats.get("open_classes", []),
        "regressions_of_fixed_findings": regress,
        "steps_replayed": sum(len(h) for h in behaviours),
    }
    vlib.write_evidence(PROP, tier, seed, "model_checking", cov, time.time() - t0, len(bad), [
        "TLC bounds as in the cfg files named under coverage.tlc (2 measurements, 2 tag keys, <= 9 tag values, 23 regular expressions, <= 6 series, <= 5 per measurement; multiplicities {1,2,3} with rows of 2 ids in the design check of the row model)",
        "real tsi merge-set index of one shard opened through Engine.Open/Assign; series created by writing points (line-protocol parser -> WriteRows -> CreateIndexIfNotExists); a series with multiplicity n is written as n points in one request, the members differ in one extra tag (0..n-1); replayed multiplicities 1, 63, 64, 65, 130 (tag->ids rows hold 64 ids)",
        "characters, tag keys and measurement names drawn per case from the seed (commas, equals signs, spaces, quotes, backslashes, regex metacharacters, unicode, the index's separator bytes \\x01/\\x02; \\x00 cannot be written in InfluxQL)",
        "the index is flushed (DebugFlush) before a search, as the property allows; conditions prepared as the store does for SHOW (ParseExpr, ConditionExpr, tags typed) and as the compiler does for SELECT (RewriteRegexConditions)",
        "every behaviour is replayed by one process with GOMAXPROCS=1, the searches of a sequence one after the other, so the pooled searcher objects (indexSearchPool) are reused from search to search; concurrent searches are out of scope (C04)",
        "row consolidation is the real one (flush of the in-memory items, merge at close/reopen); the specification's row model (consecutive rows of RowCap ids) is used for the mutation seed only, the replay compares listings with the set semantics",
        "tag arrays, column store, series deletion (C13) and concurrent writers (C04) are out of scope",
    ])
    return 1 if bad else 0


def replay(path, seed):
    obj = json.load(open(path))
    res = replay_cases([obj["case"]], seed)
    r = res[0]
    if r.get("infra"):
        raise vlib.Infra(r["infra"])
    open_ids = {f["id"] for f in vlib.load_known(PROP)}
    fixed = fixed_findings()
    for kid, ex in (r.get("known_ex") or {}).items():
        if kid not in open_ids and r["ok"]:
            r["ok"] = False
            r["detail"] = (f"REGRESSION of the repaired finding {kid} (fixed by {fixed[kid]}): the real result equals the prediction "
                           f"of its deviation model: " if kid in fixed else f"divergence attributed to {kid}, which is not an open finding: ") + ex
    if not r["ok"]:
        print(f"VIOLATION property={PROP} replay={path}")
        vlib.log(r["detail"][:3000])
        return 1
    for kid, ex in (r.get("known_ex") or {}).items():
        print(f"KNOWN-FINDING: property={PROP} {kid} {ex[:400]}")
    print("replay passes")
    return 0
