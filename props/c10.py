"""C10 — the series index is exact: one stable id per series, predicates match precisely.
Mode A: TLC exhaustively checks specs/SeriesIndex.tla: the life cycle (Create with lookup-before-create, IndexFlush,
ClearCache, Close/Reopen) for KeyIdBijection / NamespacesConsistent / CacheSound, and the predicate set algebra over
the tag->ids items against brute-force evaluation (SearchExact: unanchored regex, absent tag = empty string) for every
set of <= N series.
Mode B: TLC-generated behaviours (every BFS path of a small configuration, scripted rich series sets with every leaf
and design tree, seeded simulation with random trees to depth 3) are replayed into a real tsi merge-set index opened
through the engine's production load path; after every action the id of every known series key is looked up, and every
Search is compared on all production entry points (SHOW path ids and keys, SELECT path, Engine.SeriesKeys / TagKeys /
TagValues) with the specification's set. A divergence is attributed to an open finding only if the real result equals
the prediction of that finding's deviation model (computed by the specification per subset of deviation classes)."""
import json, os, random, time
import vlib

PROP = "C10"
DEVS_LIFE = ["neq_absent_nonmatch", "or_as_and", "idgen_restart", "lookup_misses_pending", "drop_tag_items"]
DEVS_SEARCH = ["S", "L", "E", "C", "EN"]


def _stats(r):
    return {k: r[k] for k in ("generated", "distinct", "depth", "wall_s")}


def gen_behaviours(tier, seed):
    stats = {}
    thorough = tier == "thorough"
    # ---- Mode A: design checks
    runs = [("exh", "SeriesIndex.exh.thorough.cfg" if thorough else "SeriesIndex.exh.quick.cfg"),
            ("sets", "SeriesIndex.sets.thorough.cfg" if thorough else "SeriesIndex.sets.quick.cfg")]
    if thorough:
        runs += [("sets_deep", "SeriesIndex.sets.deep.cfg"), ("sets_full", "SeriesIndex.sets.full.cfg")]
    for name, cfg in runs:
        r = vlib.run_tlc("SeriesIndexMC", cfg, timeout=3000)
        vlib.tlc_must_pass(r, cfg)
        stats[name] = _stats(r)
        stats[name]["cfg"] = cfg
    # ---- self-test of the specification: every deviation must be refuted by TLC
    devs = DEVS_LIFE + DEVS_SEARCH if thorough else ["neq_absent_nonmatch", "S"]
    stats["deviations_refuted"] = {}
    for d in devs:
        cfg = f"SeriesIndex.dev.{d}.cfg"
        r = vlib.run_tlc("SeriesIndexMC", cfg, timeout=900)
        if r.get("timeout") or not r["violated"]:
            raise vlib.Infra(f"deviation {d} is not refuted by TLC (the invariants are vacuous?): {r['error']}\n" + r["out"][-2000:])
        stats["deviations_refuted"][d] = r["violated"]
    # ---- Mode B generators
    behaviours = []
    r1 = vlib.run_tlc("SeriesIndexMC", "SeriesIndex.bfs.export.cfg", workers=4, timeout=1200)
    vlib.tlc_must_pass(r1, "SeriesIndex.bfs.export.cfg")
    bfs = r1["traces"]
    nb = 6000 if thorough else 1000
    if len(bfs) > nb:
        bfs = random.Random(seed).sample(bfs, nb)
    behaviours += bfs
    stats["bfs_export"] = {"generated": r1["generated"], "traces": len(r1["traces"]), "replayed": len(bfs)}
    r2 = vlib.run_tlc("SeriesIndexMC", "SeriesIndex.script.export.cfg", workers=4, timeout=1200)
    vlib.tlc_must_pass(r2, "SeriesIndex.script.export.cfg")
    behaviours += r2["traces"]
    stats["script_export"] = {"generated": r2["generated"], "traces": len(r2["traces"])}
    nsim = 2500 if thorough else 150
    r3 = vlib.run_tlc("SeriesIndexMC", "SeriesIndex.sim.cfg", simulate=nsim, depth=14, seed=seed, timeout=3000)
    vlib.tlc_must_pass(r3, "SeriesIndex.sim.cfg")
    sim = r3["traces"]
    if thorough and len(sim) > 9000:
        sim = random.Random(seed).sample(sim, 9000)
    behaviours += sim
    stats["sim"] = {"generated": r3["generated"], "traces": len(r3["traces"]), "replayed": len(sim), "num": nsim}
    return behaviours, stats


def replay_cases(cases, seed):
    vh = vlib.build_vh()
    results, errs = vlib.run_vh_parallel(vh, ["replay-index"], cases)
    if errs:
        raise vlib.Infra(f"harness process failed: {errs[0]}")
    if len(results) != len(cases):
        raise vlib.Infra(f"harness returned {len(results)} results for {len(cases)} cases")
    return results


def _search_shapes(behaviours):
    """distinct (predicate, series set) evaluations and distinct predicates among the Search steps"""
    preds, evals = set(), 0
    for h in behaviours:
        for st in h:
            if st["a"] == "Search":
                for q in st["exp"]["x"]:
                    preds.add(json.dumps(q["p"], sort_keys=True))
                    evals += 1
    return len(preds), evals


def run(tier, seed):
    t0 = time.time()
    behaviours, stats = gen_behaviours(tier, seed)
    cases = [{"id": i, "seed": seed, "hist": h} for i, h in enumerate(behaviours)]
    results = replay_cases(cases, seed)
    infra = [r for r in results if r.get("infra")]
    if infra:
        raise vlib.Infra(f"harness infra error: {infra[0]}")
    bad = [r for r in results if not r["ok"]]
    open_ids = {f["id"] for f in vlib.load_known(PROP)}
    known_n, known_ex, known_cases = {}, {}, 0
    for r in results:
        kn = r.get("known_n") or {}
        if kn:
            known_cases += 1
        for kid, n in kn.items():
            if kid not in open_ids:          # attributed to something that is not a listed open finding
                if r["ok"]:
                    r["ok"] = False
                    r["detail"] = f"divergence attributed to {kid}, which is not an open finding: " + r["known_ex"][kid]
                    bad.append(r)
                continue
            known_n[kid] = known_n.get(kid, 0) + n
            known_ex.setdefault(kid, r["known_ex"][kid])
    for kid in sorted(known_n):
        print(f"KNOWN-FINDING: property={PROP} {kid} re-observed {known_n[kid]} times, e.g. {known_ex[kid][:420]}")
    byid = {c["id"]: c for c in cases}
    for r in bad[:5]:
        path = vlib.save_replay(PROP, {"case": byid[r["id"]], "result": r})
        print(f"VIOLATION property={PROP} replay={path}")
        vlib.log(r["detail"])
    distinct = len({json.dumps(h, sort_keys=True) for h in behaviours})
    npreds, nevals = _search_shapes(behaviours)
    sample = lambda h: [{"a": st["a"], "args": st["args"]} for st in h][:14]
    cov = {
        "states": sum(stats[k]["distinct"] for k in stats if k in ("exh", "sets", "sets_deep", "sets_full")),
        "transitions": sum(stats[k]["generated"] for k in stats if k in ("exh", "sets", "sets_deep", "sets_full")),
        "traces_validated_against_impl": len(results),
        "samples": [sample(behaviours[0]), sample(behaviours[-1])] if behaviours else [],
        "exhaustive": True,
        "evaluations": sum(r["searches"] for r in results), "distinct_nontrivial": npreds,
        "rule": "evaluations = (measurement, predicate) searches executed on the real index, each compared on 6 entry points; "
                "distinct_nontrivial = distinct predicate trees among them (every leaf of the family, the design trees of "
                "depth 2, random parser-producible trees to depth 3); behaviours = all BFS paths of the small export "
                "config (sampled in the quick tier) + scripted series sets + seeded simulation",
        "tlc": stats,
        "predicate_evaluations_in_behaviours": nevals,
        "entry_point_results_compared": sum(r["compared"] for r in results),
        "id_lookups_compared": sum(r["lookups"] for r in results),
        "distinct_behaviours": distinct,
        "known_finding_behaviours": known_cases,
        "known_finding_counts": known_n,
        "steps_replayed": sum(len(h) for h in behaviours),
    }
    vlib.write_evidence(PROP, tier, seed, "model_checking", cov, time.time() - t0, len(bad), [
        "TLC bounds as in the cfg files named under coverage.tlc (2 measurements, 2 tag keys, <= 9 tag values, 23 regular expressions, <= 6 series, <= 5 per measurement)",
        "real tsi merge-set index of one shard opened through Engine.Open/Assign; series created by writing points (line-protocol parser -> WriteRows -> CreateIndexIfNotExists)",
        "characters, tag keys and measurement names drawn per case from the seed (commas, equals signs, spaces, quotes, backslashes, regex metacharacters, unicode, the index's separator bytes \\x01/\\x02; \\x00 cannot be written in InfluxQL)",
        "the index is flushed (DebugFlush) before a search, as the property allows; conditions prepared as the store does for SHOW (ParseExpr, ConditionExpr, tags typed) and as the compiler does for SELECT (RewriteRegexConditions)",
        "at most 5 series per measurement, so the cost-based pruning of search.go:seriesByTagFilters (cost/len > 10) is never taken",
        "tag arrays, column store, series deletion (C13) and concurrent writers (C04) are out of scope",
    ])
    return 1 if bad else 0


def replay(path, seed):
    obj = json.load(open(path))
    res = replay_cases([obj["case"]], seed)
    r = res[0]
    if r.get("infra"):
        raise vlib.Infra(r["infra"])
    if not r["ok"]:
        print(f"VIOLATION property={PROP} replay={path}")
        vlib.log(r["detail"])
        return 1
    for kid, ex in (r.get("known_ex") or {}).items():
        print(f"KNOWN-FINDING: property={PROP} {kid} {ex[:400]}")
    print("replay passes")
    return 0
