"""C13 - dropping removes exactly what was named, for every kind of read, for good.
Mode A: TLC exhaustively checks specs/DropSem.tla (catalogue + live series + rows over the layers memory / flushed /
        out-of-order / compacted; Write, Flush, Compact, Restart, DropSeries(pred), DropMeasurement, DropRP, DropDatabase
        and re-creation) for DroppedStaysGone, OthersUntouched, FreshAfterRecreate, AllShapesAgree.
Mode B: TLC simulates behaviours that share a skeleton of global actions (flush / compaction / restart); every behaviour
        is replayed over HTTP into its own database of ONE real single-node server per skeleton (the behaviours run
        concurrently and meet at a barrier for every global action, so that a flush or restart happens exactly where the
        behaviour has it).  After EVERY action the full read-shape matrix is issued and compared with the
        specification's expectation."""
import json, os, random, re, sys, threading, time, itertools, glob
import concurrent.futures as cf
import vlib
sys.path.insert(0, os.path.join(vlib.ROOT, "tools"))
import vserver

PROP = "C13"
INSTS = ["rp1.m", "rp1.n", "rp2.m"]
NAMES = ["m", "n"]
SKELS = {
    "A": ["Flush", "RestartKill", "Flush"],
    "B": ["Flush", "Flush", "Compact", "RestartClean"],
    "C": ["RestartKill", "Flush", "RestartClean"],
    "D": ["Flush", "Compact", "RestartKill", "Flush", "Compact"],
    "E": ["RestartClean", "Flush", "Flush", "RestartKill"],
}
SEEDS = ["drop_forgets_memtable", "restart_resurrects", "taglisting_keeps_dropped", "recreate_reuses_version", "cross_rp_drop",
         "recreate_fresh"]
SEED_EXPECT = {"drop_forgets_memtable": "AllShapesAgree", "restart_resurrects": "DroppedStaysGone",
               "taglisting_keeps_dropped": "AllShapesAgree", "recreate_reuses_version": "DroppedStaysGone",
               "cross_rp_drop": "OthersUntouched", "recreate_fresh": "FreshAfterRecreate"}

CONV = 30.0          # bound (s) on the asynchronous convergence after an acknowledged statement
RANGE = 128          # series ids reserved per database incarnation
HEADROOM = 300       # seconds an epoch (time between two starts of the server) may last
SERVER_CONF = {
    # no automatic flush: the memtable is flushed only where the behaviour says so
    "data.memtable": {"write-cold-duration": '"1h"', "force-snapShot-duration": '"1h"'},
    "data.merge": {"min-interval": '"1s"'},
}
EMPTY_ERRORS = ("measurement not found", "measurement is being delete", "database not found", "retention policy not found",
                "retention policy is being delete", "database is being delete", "policy not exist")
NAME_SCAN_SHAPES = {"plain", "ne", "nre", "ff", "gtag", "gtime", "cnt", "sum", "cntg", "sumg"}
RESUF_SHAPES = {"re", "cntre"}
ROW_SHAPES = ["plain", "eq", "ne", "re", "nre", "or", "and", "ff"]
ALL_SHAPES = ROW_SHAPES + ["gtag", "gtime", "cnt", "sum", "cntg", "sumg", "cntre"]
LIST_SHAPES = ["series", "tkeys", "thost", "tregion"]
FINDING_TEXT = {
    "F-C13-1": "rows of a series removed by DROP SERIES are still returned by selections that scan the measurement's series by name "
               "(no tag filter, field filter, !=, !~, group by, aggregates)",
    "F-C13-2": "rows of a series removed by DROP SERIES are still returned by a positive regular-expression filter with alternatives",
    "F-C13-3": "listings of ANOTHER database lose live series after a DROP SERIES (pooled index search keeps the deleted set)",
    "F-C13-4": "DROP SERIES FROM rp.m also drops the matching series of the same measurement in the other retention policy",
    "F-C13-5": "SHOW TAG KEYS keeps listing the tag keys of a measurement whose series were all dropped",
    "F-C13-6": "SHOW SERIES / SHOW TAG VALUES FROM rp.m also list the series of the same measurement in the other retention policy",
    "F-C13-7": "rows of a series dropped while still in the write-ahead log come back after a restart",
    "F-C13-8": "the series of a dropped measurement stay listed through the same-named measurement of the other retention policy",
}
CAUSE = {"cross": "F-C13-4", "wal": "F-C13-7"}


def skey(x):
    """total order on the canonical values (numbers before anything else, numerically)"""
    if isinstance(x, (list, tuple)):
        return (2, tuple(skey(e) for e in x))
    if isinstance(x, bool) or not isinstance(x, (int, float)):
        return (1, repr(x))
    return (0, x)


# ---------------------------------------------------------------------------------------------------
# TLC

def tlc(cfg, **kw):
    r = vlib.run_tlc("DropSemMC", cfg, **kw)
    vlib.tlc_must_pass(r, cfg)
    return r


def gen_behaviours(tier, seed):
    """-> ({skeleton letter: [hist]}, stats, future of the exhaustive run)"""
    quick = tier == "quick"
    letters = ["A", "B", "C"] if quick else ["A", "B", "C", "D", "E"]
    nsim = 24 if quick else 80
    depth = 10 if quick else 14
    per = 14 if quick else 36
    stats = {"sim": {}}
    out = {}
    with cf.ThreadPoolExecutor(len(letters)) as ex:
        futs = {k: ex.submit(tlc, f"DropSem.sim.{k}.cfg", simulate=nsim, depth=depth, seed=seed + 17 * i, timeout=900)
                for i, k in enumerate(letters)}
        for k, f in futs.items():
            r = f.result()
            # TLC prints the siblings of the last step of every simulated trace: keep one behaviour per trace
            groups = {}
            for h in r["traces"]:
                key = json.dumps([[e["a"], e["args"]] for e in h[:-1]], sort_keys=True)
                groups.setdefault(key, []).append(h)
            rnd = random.Random(seed * 31 + ord(k))
            hs = [rnd.choice(g) for _, g in sorted(groups.items())]
            # the more drops a behaviour has the better; a behaviour that meets a Compact with out-of-order rows first
            def ooo(h):
                return any(e["a"] == "Compact" and i and any(v["oo"] > 0 for v in h[i - 1]["lay"].values()) for i, e in enumerate(h))

            def drops(h):
                return sum(1 for e in h if e["a"].startswith("Drop") and e["a"] != "DropSeriesNoFrom")
            first = sorted([h for h in hs if ooo(h)], key=lambda h: -drops(h))[:per // 3]
            rest = sorted([h for h in hs if h not in first], key=lambda h: -drops(h))
            hs = (first + rest)[:per]
            out[k] = hs
            stats["sim"][k] = {"traces": len(r["traces"]), "distinct_prefixes": len(groups), "replayed": len(hs), "num": nsim,
                               "depth": depth, "wall_s": round(r["wall_s"], 1), "skeleton": SKELS[k]}
    return out, stats


def mode_a(tier):
    cfg = "DropSem.exh.quick.cfg" if tier == "quick" else "DropSem.exh.thorough.cfg"
    r = tlc(cfg, workers=8, timeout=2400)
    st = {k: r[k] for k in ("generated", "distinct", "depth")}
    st["wall_s"] = round(r["wall_s"], 1)
    st["cfg"] = cfg
    return st


def check_seeds():
    """every mutation seed must give a TLC counterexample of the named invariant (the invariants are not vacuous)"""
    res = {}
    with cf.ThreadPoolExecutor(3) as ex:
        futs = {d: ex.submit(vlib.run_tlc, "DropSemMC", f"DropSem.dev.{d}.cfg", workers=4, timeout=900) for d in SEEDS}
        for d, f in futs.items():
            r = f.result()
            res[d] = r["violated"]
            if r["violated"] != SEED_EXPECT[d]:
                raise vlib.Infra(f"mutation seed {d}: TLC reports {r['violated']}, expected a counterexample of {SEED_EXPECT[d]}\n" + r["out"][-1500:])
    return res


# ---------------------------------------------------------------------------------------------------
# read shapes in Python (mirror of the operators of DropSem.tla; cross-checked against `exp` for every step)

def rt(r):
    return (r["h"], r["r"], r["t"], r["v"])


def shapes_of(rows, k):
    """rows: list of (h, r, t, v).  Canonical answers of every row shape."""
    R = sorted(rows)

    def grp(f):
        d = {}
        for x in R:
            d.setdefault(x[0], []).append(x)
        return {h: f(v) for h, v in d.items()}
    gt = {}
    for x in R:
        b = ((x[2] - 1) // 2) * 2 + 1
        gt[b] = gt.get(b, 0) + 1
    re_ = [x for x in R if x[0] in ("a", "c")]
    return {
        "plain": R, "eq": [x for x in R if x[0] == "a"], "ne": [x for x in R if x[0] != "b"], "re": re_,
        "nre": [x for x in R if x[0] != "b"], "or": [x for x in R if x[0] == "a" or x[1] == "y"],
        "and": [x for x in R if x[0] != "b" and x[1] == "x"], "ff": [x for x in R if x[3] > k],
        "gtag": grp(lambda v: sorted((x[2], x[3]) for x in v)), "gtime": gt,
        "cnt": len(R), "sum": sum(x[3] for x in R), "cntg": grp(len), "sumg": grp(lambda v: sum(x[3] for x in v)),
        "cntre": len(re_),
    }


def leaked(live, extra, k, shape):
    """answer of a shape whose series come from the measurement-name scan when that scan returns the deleted series
    `extra` too: the index, not the rows, decides a tag condition, and for != / !~ the set subtracted from the scan
    holds no deleted series - so ALL rows of the deleted series come back, whatever their tag values"""
    if shape in ("ne", "nre"):
        return sorted(shapes_of(live, k)[shape] + list(extra))
    return shapes_of(live + list(extra), k)[shape]


def canon_exp(e):
    """TLA+ export of ShapesOf -> the canonical form of shapes_of"""
    out = {}
    for s in ROW_SHAPES:
        out[s] = sorted(rt(r) for r in e[s])
    out["gtag"] = {g["h"]: sorted((x["t"], x["v"]) for x in g["x"]) for g in e["gtag"]}
    out["gtime"] = {g["b"]: g["c"] for g in e["gtime"]}
    out["cnt"], out["sum"], out["cntre"] = e["cnt"], e["sum"], e["cntre"]
    out["cntg"] = {g["h"]: g["x"] for g in e["cntg"]}
    out["sumg"] = {g["h"]: g["x"] for g in e["sumg"]}
    return out


def canon_listing(l):
    return {"series": sorted((s["h"], s["r"]) for s in l["series"]), "tkeys": sorted(l["tkeys"]),
            "thost": sorted(l["thost"]), "tregion": sorted(l["tregion"])}


# ---------------------------------------------------------------------------------------------------
# concretisation of one behaviour

def week_safe_base(now_s, span_s):
    """a start second such that [base, base + span] lies in one shard group (groups are weeks starting Monday 00:00 UTC)
    and entirely in the past"""
    base = now_s - span_s - 3600
    wk = 604800
    off = 345600          # 1970-01-05 (a Monday)
    end = base + span_s
    if (base - off) // wk != (end - off) // wk:
        base = ((end - off) // wk) * wk + off - span_s - 7200      # move before the boundary
    return base


class Conc:
    def __init__(self, bid, idx, hist, seed):
        self.hist = hist
        self.idx = idx
        rnd = random.Random(f"{seed}-{bid}-{idx}")
        self.rnd = rnd
        self.db = f"c13{bid.lower()}{idx}s{seed}"
        self.wdb = self.db + "w"
        sfx = rnd.choice(["", "0", "_cpu", "x9"])
        self.mst = {"m": "m" + sfx, "n": "n" + sfx}
        self.step = rnd.choice([1, 60, 600]) * 10 ** 9
        w = 2 * self.step
        base = week_safe_base(int(time.time()), 8 * 600) * 10 ** 9
        # time(1) is aligned to the window of two time units
        self.base = (base // w) * w - self.step
        self.kind = rnd.choice(["int", "int", "float"])
        self.kv = rnd.choice([1, 3, 1000003]) if self.kind == "int" else rnd.choice([0.5, 1.5, 1024.0])
        self.re_text = rnd.choice(["/a|c/", "/c|a/", "/[ac]/"])
        self.nre_text = rnd.choice(["/b/", "/^b$/"])
        # statements always name the retention policy: an unqualified DROP MEASUREMENT m / DROP SERIES FROM m addresses
        # the measurement in the whole database (InfluxQL), only the qualified form names ONE policy's measurement
        self.drop_default_plain = False

    def t(self, t):
        return self.base + t * self.step

    def val(self, v):
        return v * self.kv

    def lp_val(self, v):
        return f"{v * self.kv}i" if self.kind == "int" else repr(float(v * self.kv))

    def src(self, inst):
        rp, n = inst.split(".")
        return f"{rp}.{self.mst[n]}"

    def lines(self, inst, rows):
        n = inst.split(".")[1]
        return [f"{self.mst[n]},host={r['h']},region={r['r']} v={self.lp_val(r['v'])} {self.t(r['t'])}" for r in rows]

    # ---- the read-shape matrix -------------------------------------------------------------------
    def inst_statements(self, inst, k):
        s = self.src(inst)
        lit = self.val(k) if self.kind == "int" else repr(float(self.val(k)))
        lo, hi = self.t(1), self.t(9)
        return [
            ("plain", f"select * from {s}"),
            ("eq", f"select * from {s} where host = 'a'"),
            ("ne", f"select * from {s} where host != 'b'"),
            ("re", f"select * from {s} where host =~ {self.re_text}"),
            ("nre", f"select * from {s} where host !~ {self.nre_text}"),
            ("or", f"select * from {s} where host = 'a' or region = 'y'"),
            ("and", f"select * from {s} where host != 'b' and region = 'x'"),
            ("ff", f"select * from {s} where v > {lit}"),
            ("gtag", f"select v from {s} group by host"),
            ("gtime", f"select count(v) from {s} where time >= {lo} and time < {hi} group by time({2 * self.step}ns) fill(none)"),
            ("agg", f"select count(v), sum(v) from {s}"),
            ("aggg", f"select count(v), sum(v) from {s} group by host"),
            ("cntre", f"select count(v) from {s} where host =~ {self.re_text}"),
        ]

    def list_statements(self, inst):
        m = self.src(inst)
        if inst.startswith("rp1.") and self.drop_default_plain:
            m = m.split(".", 1)[1]
        return [("series", f"show series from {m}"), ("tkeys", f"show tag keys from {m}"),
                ("thost", f"show tag values from {m} with key = host"), ("tregion", f"show tag values from {m} with key = region")]

    def pred_text(self, p):
        k = p["k"]
        v1, v2 = sorted(p["v1"]), sorted(p["v2"])
        if k == "eq":
            return f"{p['t1']} = '{v1[0]}'"
        if k == "ne":
            return f"{p['t1']} != '{v1[0]}'"
        if k == "re":
            form = self.rnd.choice(["|", "^(|)$", "[]"])
            body = "|".join(v1)
            return f"{p['t1']} =~ " + {"|": f"/{body}/", "^(|)$": f"/^({body})$/", "[]": f"/[{''.join(v1)}]/"}[form]
        if k == "nre":
            return f"{p['t1']} !~ /{'|'.join(v1)}/"
        if k == "and":
            return f"{p['t1']} = '{v1[0]}' and {p['t2']} = '{v2[0]}'"
        if k == "or":
            return f"{p['t1']} = '{v1[0]}' or {p['t2']} = '{v2[0]}'"
        if k == "andne":
            return f"{p['t1']} = '{v1[0]}' and {p['t2']} != '{v2[0]}'"
        if k == "all":
            return self.rnd.choice(["host =~ /.*/", ""])
        return "host = 'zz'"

    # ---- answers -> abstract canonical form ---------------------------------------------------------
    def abs_t(self, ts):
        d = ts - self.base
        return d // self.step if d % self.step == 0 else ("raw", ts)

    def abs_v(self, x):
        if isinstance(x, bool) or not isinstance(x, (int, float)):
            return ("raw", x)
        q = x / self.kv
        return int(round(q)) if abs(q - round(q)) < 1e-9 else ("raw", x)


def result_map(body):
    """{statement_id: result} of a /query answer"""
    if not isinstance(body, dict):
        return None
    return {r.get("statement_id", 0): r for r in body.get("results", [])}


def res_series(res):
    """(error text or '', list of series) of one statement result; missing result = empty"""
    if res is None:
        return "", []
    err = res.get("error", "")
    if err and any(e in err for e in EMPTY_ERRORS):
        return "", []
    return err, res.get("series") or []


class Obs:
    """parsed real answers of one step"""

    def __init__(self):
        self.inst = {}      # inst -> shape -> canonical
        self.name = {}      # name -> shape -> canonical
        self.wit = {}
        self.errors = []


# ---------------------------------------------------------------------------------------------------

class Behaviour(threading.Thread):
    def __init__(self, batch, idx, hist, seed):
        super().__init__(daemon=True)
        self.batch, self.srv = batch, batch.srv
        self.c = Conc(batch.bid, idx, hist, seed)
        self.idx = idx
        self.hist = hist
        self.divs = []         # divergences: dicts
        self.known = []        # attributed divergences
        self.error = None
        self.queries = 0
        self.steps_done = 0
        self.lags = {}
        self.shape_checks = 0
        self.db_exists = False
        self.dropped_any = False
        self.flaky = 0
        self.stmts = []

    # ---- plumbing ----------------------------------------------------------------------------------
    def q(self, text, db=None, post=False, nodb=False):
        self.queries += 1
        for attempt in range(4):
            try:
                st, body = self.srv.query(text, db=None if nodb else (db or self.c.db), epoch="ns", method="POST" if post else "GET")
                return st, body
            except Exception as ex:   # connection reset while the server is busy
                last = ex
                time.sleep(0.5)
        raise vlib.Infra(f"query failed: {text}: {last}")

    def ddl(self, text, db=None, ok_errors=()):
        self.stmts.append(text)
        st, body = self.q(text, db=db, post=True)
        err = ""
        if isinstance(body, dict):
            for r in body.get("results", []):
                err = r.get("error", "") or err
            err = body.get("error", err)
        if st != 200 and not err:
            err = f"HTTP {st} {body}"
        return err

    def write(self, db, lines, rp):
        if rp != "rpz":
            self.stmts.append(f"write db={db} rp={rp}: " + " | ".join(lines))
        t0 = time.time()
        last = ""
        while time.time() - t0 < CONV:
            try:
                st, body = self.srv.write(db, lines, rp=rp)
            except Exception as ex:
                st, body = 0, str(ex)
            if st == 204:
                return ""
            last = f"{st} {body.strip()[:200]}"
            time.sleep(0.4)
        return last

    def poll(self, fn, what, bound=CONV):
        t0 = time.time()
        while True:
            if fn():
                self.lags[what] = max(self.lags.get(what, 0), round(time.time() - t0, 2))
                return True
            if time.time() - t0 > bound:
                return False
            time.sleep(0.4)

    # ---- database life cycle (with the reserved series-id range) ------------------------------------
    def create_database(self, db, slot=None):
        """create database + both policies + the padding policy; the padding series move the database's series ids into
        a range of its own (ids start at the creation second; equal ids in different databases would let the stale
        delete set of one database's index searches hide series of the other: finding F-C13-3, shown by the witness)"""
        t1 = int(time.time())
        for stmt in (f"create database {db} with duration 0s replication 1 name rp1",
                     f"create retention policy rp2 on {db} duration 0s replication 1",
                     f"create retention policy rpz on {db} duration 0s replication 1"):
            err = self.ddl(stmt)
            if err:
                raise vlib.Infra(f"{stmt}: {err}")
        slot = self.batch.alloc() if slot is None else slot
        self.pad(db, t1, slot)
        return slot

    def pad(self, db, t1, slot):
        target = self.batch.epoch_start + HEADROOM + RANGE * slot
        n = target - t1
        if n <= 0:
            raise vlib.Infra(f"epoch lasted longer than {HEADROOM}s: cannot keep series id ranges apart")
        ts = self.c.base
        tag = f"{slot}e{self.batch.epoch}"
        for off in range(0, n, 5000):
            lines = [f"zpad,p=p{tag}x{i} v=1i {ts}" for i in range(off, min(n, off + 5000))]
            err = self.write(db, lines, "rpz")
            if err:
                raise vlib.Infra(f"padding write failed: {err}")
        self.batch.padded += n

    def setup(self):
        slot = self.create_database(self.c.db)
        self.slot = slot
        self.db_exists = True
        # the witness: a second database with fixed contents whose series ids collide with this database's
        self.create_database(self.c.wdb, slot=slot)
        wl = [f"m,host={h},region={r} v=1i {self.c.t(1)}" for h, r in (("a", "x"), ("b", "x"), ("c", "y"))]
        err = self.write(self.c.wdb, wl, "rp1")
        if err:
            raise vlib.Infra(f"witness write failed: {err}")
        self.wit_exp = {"series": [("a", "x"), ("b", "x"), ("c", "y")], "thost": ["a", "b", "c"], "cnt": 3}

    # ---- reading -----------------------------------------------------------------------------------
    def read_inst(self, inst, k, obs):
        stmts = self.c.inst_statements(inst, k)
        res = self.multi([t for _, t in stmts], self.c.db, obs, inst)
        if res is None:
            return
        out = {}
        c = self.c
        for (name, text), (err, series) in zip(stmts, res):
            if err:
                obs.errors.append(f"{inst}/{name}: {err}")
                continue
            if name in ROW_SHAPES:
                rows = []
                for s in series:
                    cols = s["columns"]
                    if cols != ["time", "host", "region", "v"]:
                        obs.errors.append(f"{inst}/{name}: columns {cols}")
                        continue
                    for v in s["values"]:
                        rows.append((v[1], v[2], c.abs_t(v[0]), c.abs_v(v[3])))
                out[name] = sorted(rows, key=skey)
            elif name == "gtag":
                d = {}
                for s in series:
                    h = (s.get("tags") or {}).get("host")
                    d.setdefault(h, [])
                    d[h] += [(c.abs_t(v[0]), c.abs_v(v[1])) for v in s["values"]]
                out["gtag"] = {h: sorted(v, key=skey) for h, v in d.items()}
            elif name == "gtime":
                d = {}
                for s in series:
                    for v in s["values"]:
                        d[c.abs_t(v[0])] = v[1]
                out["gtime"] = d
            elif name == "agg":
                cnt, sm = 0, 0
                for s in series:
                    for v in s["values"]:
                        cnt, sm = v[1], c.abs_v(v[2])
                out["cnt"], out["sum"] = cnt, sm
            elif name == "aggg":
                cg, sg = {}, {}
                for s in series:
                    h = (s.get("tags") or {}).get("host")
                    for v in s["values"]:
                        cg[h], sg[h] = v[1], c.abs_v(v[2])
                out["cntg"], out["sumg"] = cg, sg
            elif name == "cntre":
                cnt = 0
                for s in series:
                    for v in s["values"]:
                        cnt = v[1]
                out["cntre"] = cnt
        obs.inst[inst] = out

    def multi(self, stmts, db, obs, what):
        """issue the statements in one request -> [(error, series)] per statement, or None"""
        st, body = self.q("; ".join(stmts), db=db)
        rm = result_map(body)
        if st != 200 or rm is None:
            err = json.dumps(body)[:300]
            if any(e in err for e in EMPTY_ERRORS):     # whole request refused: database / policy gone
                rm = {}
            else:
                obs.errors.append(f"{what}: HTTP {st} {err}")
                return None
        return [res_series(rm.get(i)) for i in range(len(stmts))]

    @staticmethod
    def parse_listing(kind, series):
        if kind == "series":
            keys = []
            for s in series:
                for v in s["values"]:
                    tags = dict(p.split("=", 1) for p in v[0].split(",")[1:])
                    keys.append((tags.get("host"), tags.get("region")))
            return sorted(keys, key=skey)
        if kind == "tkeys":
            return sorted(v[0] for s in series for v in s["values"])
        if kind in ("thost", "tregion"):
            return sorted(v[1] for s in series for v in s["values"])
        return next((v[1] for s in series for v in s["values"]), 0)      # cnt

    def read_names(self, obs):
        stmts = [(n, k, t) for n in INSTS for k, t in self.c.list_statements(n)]
        res = self.multi([t for _, _, t in stmts], self.c.db, obs, "listing")
        if res is None:
            return
        for (n, k, _), (err, series) in zip(stmts, res):
            if err:
                obs.errors.append(f"{n}/{k}: {err}")
            else:
                obs.name.setdefault(n, {})[k] = self.parse_listing(k, series)

    def read_witness(self, obs):
        stmts = [("series", "show series from m"), ("thost", "show tag values from m with key = host"), ("cnt", "select count(v) from rp1.m")]
        res = self.multi([t for _, t in stmts], self.c.wdb, obs, "witness")
        if res is None:
            return
        for (k, _), (err, series) in zip(stmts, res):
            if err:
                obs.errors.append(f"witness/{k}: {err}")
            else:
                obs.wit[k] = self.parse_listing(k, series)

    def read_all(self, k, insts=INSTS, names=True, witness=True):
        obs = Obs()
        for inst in insts:
            self.read_inst(inst, k, obs)
        if names:
            self.read_names(obs)
        if witness:
            self.read_witness(obs)
        return obs

    # ---- judging -----------------------------------------------------------------------------------
    def candidates(self, imp_i, shape, k, live_d):
        """answers the as-implemented model predicts for `shape` of one instance: [(answer, finding ids)]"""
        live = [rt(r) for r in imp_i["live"]]
        gm = [rt(r) for r in imp_i["gm"]]
        gq = [rt(r) for r in imp_i["gq"]]
        leak = None
        if shape in NAME_SCAN_SHAPES and imp_i["scan"] in ("yes", "maybe"):
            leak = "F-C13-1"
        if shape in RESUF_SHAPES and imp_i["resuf"] == "yes":
            leak = "F-C13-2"
        base_d = shapes_of(live_d, k)[shape]
        base_i = shapes_of(live, k)[shape]
        outs = []
        why = {CAUSE[c] for c in imp_i["cause"]} or {"F-C13-4"}
        if base_i != base_d:
            outs.append((base_i, set(why)))             # the as-implemented rows differ: cross-policy drop / log replay
        if leak and (gm or gq):
            by_series = {}
            for r in gq:
                by_series.setdefault(r[:2], []).append(r)
            groups = list(by_series.values())[:6]
            for pick in itertools.product([0, 1], repeat=len(groups)):
                extra = list(gm)
                for take, g in zip(pick, groups):
                    if take:
                        extra += g
                if not extra:
                    continue
                ans = leaked(live, extra, k, shape)
                ids = {leak}
                if leaked(live_d, extra, k, shape) != ans:
                    ids |= why
                if ans != base_d:
                    outs.append((ans, ids))
        return outs

    def compare(self, obs, e):
        """-> list of divergences {scope, shape, real, exp, known(set or None), extra(bool)}"""
        k = e["exp"]["k"]
        divs = []
        if obs.errors:
            for er in obs.errors[:3]:
                divs.append({"scope": "query", "shape": "error", "real": er, "exp": "an answer", "known": None, "extra": False})
        for inst in INSTS:
            if inst not in obs.inst:
                continue
            exp = self.exp_c[inst]
            real = obs.inst[inst]
            imp_i = dict(e["imp"]["inst"][inst], resuf=e["imp"]["flags"]["resuf"])
            live_d = exp["plain"]
            for s in ALL_SHAPES:
                if s not in real:
                    continue
                self.shape_checks += 1
                if real[s] == exp[s]:
                    continue
                known = None
                for ans, ids in self.candidates(imp_i, s, k, live_d):
                    if real[s] == ans:
                        known = set(ids)
                        break
                divs.append({"scope": inst, "shape": s, "real": real[s], "exp": exp[s], "known": known,
                             "extra": has_extra(real[s], exp[s])})
        flags = e["imp"]["flags"]
        impi = e["imp"]["inst"]

        def ser(x):
            return sorted((y["h"], y["r"]) for y in x["ser"])
        for inst in INSTS:
            if inst not in obs.name:
                continue
            exp = self.exp_l[inst]
            real = obs.name[inst]
            me = impi[inst]
            # as implemented a listing reaches every policy whose measurement has the same versioned name
            group = [j for j in INSTS if j.split(".")[1] == inst.split(".")[1] and impi[j]["ex"] == "yes" and impi[j]["ver"] == me["ver"]] \
                if me["ex"] == "yes" else []
            own = ser(me) if me["ex"] == "yes" else []
            union = sorted(set(x for j in group for x in ser(impi[j])))
            cross = set()
            for j in group:
                if ser(impi[j]) != self.exp_l[j]["series"]:
                    cross |= {CAUSE[c] for c in impi[j]["cause"]} or {"F-C13-4"}
            # ... and the index entries a dropped incarnation with that versioned name left behind
            dead = sorted(set((d["h"], d["r"]) for j in INSTS if j.split(".")[1] == inst.split(".")[1] and impi[j]["usable"] == "yes"
                              for d in impi[j]["dead"] if d["ver"] == me["ver"])) if me["ex"] == "yes" else []
            union_dead = sorted(set(union) | set(dead))
            for s in LIST_SHAPES:
                if s not in real:
                    continue
                self.shape_checks += 1
                if real[s] == exp[s]:
                    continue
                known = None

                def proj(keys):
                    return {"series": keys, "thost": sorted({x[0] for x in keys}), "tregion": sorted({x[1] for x in keys}),
                            "tkeys": ["host", "region"] if keys else []}[s]
                if s == "tkeys" and flags["schema"] == "yes" and me["ex"] == "yes" and real[s] == ["host", "region"]:
                    known = {"F-C13-5"}
                elif real[s] == proj(own) and own != exp["series"]:
                    known = {CAUSE[c] for c in me["cause"]} or {"F-C13-4"}
                elif flags["listrp"] == "yes" and real[s] == proj(union):
                    known = {"F-C13-6"} | cross
                elif flags["listrp"] == "yes" and dead and real[s] == proj(union_dead):
                    known = {"F-C13-8"} | cross | ({"F-C13-6"} if union != own else set())
                divs.append({"scope": inst, "shape": s, "real": real[s], "exp": exp[s], "known": known,
                             "extra": has_extra(real[s], exp[s])})
        if obs.wit:
            for s, exp in self.wit_exp.items():
                if s not in obs.wit:
                    continue
                self.shape_checks += 1
                real = obs.wit[s]
                if real == exp:
                    continue
                known = None
                # predicate of F-C13-3: a LISTING of the untouched witness omits live series after this database dropped series
                if s in ("series", "thost") and self.dropped_any and set(real) < set(exp):
                    known = {"F-C13-3"}
                divs.append({"scope": "witness", "shape": s, "real": real, "exp": exp, "known": known,
                             "extra": has_extra(real, exp)})
        return divs

    def settle(self, si, e, nochange):
        """read the matrix until it equals the expectation (or what an open finding predicts) or the bound expires"""
        k = e["exp"]["k"]
        self.exp_c = {i: canon_exp(e["exp"]["inst"][i]["sel"]) for i in INSTS}
        self.exp_l = {i: canon_listing(e["exp"]["inst"][i]["list"]) for i in INSTS}
        # the specification's shape operators and the replay's agree (for every step)
        for i in INSTS:
            mine = shapes_of(self.exp_c[i]["plain"], k)
            if mine != self.exp_c[i]:
                raise vlib.Infra(f"shape operators of DropSem.tla and of the replay differ: {mine} vs {self.exp_c[i]}")
        t0 = time.time()
        first = True
        while True:
            obs = self.read_all(k)
            divs = self.compare(obs, e)
            open_ = [d for d in divs if not d["known"]]
            if not open_:
                break
            if first and nochange and any(d["extra"] for d in open_):
                break           # data (re)appears after an action that changes nothing: no convergence to wait for
            if time.time() - t0 > CONV:
                break
            first = False
            time.sleep(0.8)
        lag = round(time.time() - t0, 2)
        self.lags[e["a"]] = max(self.lags.get(e["a"], 0), lag)
        for d in divs:
            d.update(step=si, action=e["a"], args=e["args"], lag=lag)
            (self.known if d["known"] else self.divs).append(d)
        return not open_

    # ---- actions -----------------------------------------------------------------------------------
    def local(self, si, e):
        c = self.c
        a, args = e["a"], e["args"]
        db = c.db
        note = ""
        if a == "Write":
            inst = args["i"]
            err = self.write(db, c.lines(inst, args["rows"]), inst.split(".")[0])
            if err:
                self.divs.append({"scope": inst, "shape": "write", "real": err, "exp": "204", "known": None, "step": si, "action": a,
                                  "args": args, "extra": False})
        elif a == "DropSeries":
            w = c.pred_text(args["p"])
            inst = args["i"]
            src = c.src(inst)
            if inst.startswith("rp1.") and c.drop_default_plain:
                src = src.split(".", 1)[1]
            stmt = f"drop series from {src}" + (f" where {w}" if w else "")
            err = self.ddl(stmt)
            self.dropped_any = True
            if err:
                self.divs.append({"scope": inst, "shape": "statement", "real": f"{stmt}: {err}", "exp": "acknowledged", "known": None,
                                  "step": si, "action": a, "args": args, "extra": False})
        elif a == "DropSeriesNoFrom":
            stmt = f"drop series where {c.pred_text(args['p']) or 'host = ' + chr(39) + 'a' + chr(39)}"
            err = self.ddl(stmt)
            if not err:
                # acknowledged although the specification (as the executor) rejects it: the reads below decide
                note = "acknowledged"
        elif a == "DropMeasurement":
            inst = args["i"]
            src = c.src(inst)
            if inst.startswith("rp1.") and c.drop_default_plain:
                src = src.split(".", 1)[1]
            err = self.ddl(f"drop measurement {src}")
            if err:
                self.divs.append({"scope": inst, "shape": "statement", "real": f"drop measurement {src}: {err}", "exp": "acknowledged",
                                  "known": None, "step": si, "action": a, "args": args, "extra": False})
        elif a == "DropRP":
            rp = args["rp"]
            err = self.ddl(f"drop retention policy {rp} on {db}")
            if err:
                self.divs.append({"scope": rp, "shape": "statement", "real": err, "exp": "acknowledged", "known": None, "step": si,
                                  "action": a, "args": args, "extra": False})
            # two-phase drop: wait (bounded) until the catalogue no longer lists the policy

            def gone():
                st, body = self.q(f"show retention policies on {db}")
                names = [v[0] for s in (result_map(body) or {}).get(0, {}).get("series", []) or [] for v in s["values"]]
                return rp not in names
            if not self.poll(gone, "DropRP catalogue"):
                self.divs.append({"scope": rp, "shape": "catalogue", "real": "policy still listed", "exp": "gone", "known": None,
                                  "step": si, "action": a, "args": args, "extra": True})
        elif a == "CreateRP":
            rp = args["rp"]
            err = self.ddl(f"create retention policy {rp} on {db} duration 0s replication 1" + (" default" if rp == "rp1" else ""))
            if err:
                raise vlib.Infra(f"create retention policy: {err}")
        elif a == "DropDatabase":
            err = self.ddl(f"drop database {db}")
            if err:
                self.divs.append({"scope": "db", "shape": "statement", "real": err, "exp": "acknowledged", "known": None, "step": si,
                                  "action": a, "args": args, "extra": False})

            def gone():
                st, body = self.q("show databases", nodb=True)
                names = [v[0] for s in (result_map(body) or {}).get(0, {}).get("series", []) or [] for v in s["values"]]
                return db not in names
            if not self.poll(gone, "DropDatabase catalogue"):
                self.divs.append({"scope": "db", "shape": "catalogue", "real": "database still listed", "exp": "gone", "known": None,
                                  "step": si, "action": a, "args": args, "extra": True})
            self.db_exists = False
        elif a == "CreateDatabase":
            self.create_database(db)
            self.db_exists = True
        return note

    def run(self):
        try:
            for si, e in enumerate(self.hist):
                a = e["a"]
                if a in ("Flush", "Compact", "RestartClean", "RestartKill"):
                    self.batch.arrive(self, a)
                    nochange = True
                else:
                    self.local(si, e)
                    nochange = a in ("DropSeriesNoFrom", "CreateRP", "CreateDatabase")
                if a in ("Flush", "Compact", "RestartClean", "RestartKill"):
                    self.stmts.append(a)
                self.settle(si, e, nochange)
                self.steps_done += 1
                if self.batch.abort:
                    break
        except BaseException as ex:   # noqa
            self.error = ex
            if isinstance(ex, vlib.Infra):
                self.batch.abort = True
        finally:
            self.batch.finished(self)


def has_extra(real, exp):
    """does the real answer contain something the expectation does not (data that should be gone)?"""
    try:
        if isinstance(real, dict):
            for k, v in real.items():
                if k not in exp:
                    return True
                if isinstance(v, list) and any(x not in exp[k] for x in v):
                    return True
                if isinstance(v, (int, float)) and isinstance(exp[k], (int, float)) and v > exp[k]:
                    return True
            return False
        if isinstance(real, list):
            ex = list(exp)
            for x in real:
                if x in ex:
                    ex.remove(x)
                else:
                    return True
            return False
        if isinstance(real, (int, float)) and isinstance(exp, (int, float)):
            return real > exp
    except Exception:
        pass
    return True


class Batch:
    """one skeleton = one server; the behaviours run concurrently and meet at every global action"""

    def __init__(self, bid, hists, seed, skeleton=None):
        self.bid, self.seed = bid, seed
        self.skeleton = skeleton or SKELS[bid]
        self.hists = hists
        self.lock = threading.Condition()
        self.waiting = {}
        self.live = set()
        self.round = 0
        self.abort = False
        self.slot = 0
        self.epoch = 0
        self.epoch_start = int(time.time())
        self.padded = 0
        self.globals_done = []
        self.merge_observed = 0
        self.srv = None
        self.infra = None

    def alloc(self):
        with self.lock:
            self.slot += 1
            return self.slot

    def ctrl(self, **params):
        st, body = self.srv.http("POST", "/debug/ctrl", params)
        if st != 200:
            raise vlib.Infra(f"/debug/ctrl {params}: {st} {body[:200]}")

    def compaction(self, on):
        v = "true" if on else "false"
        self.ctrl(mod="compen", switchon=v, allshards=v)
        self.ctrl(mod="merge", switchon=v, allshards=v)

    def ooo_files(self):
        return glob.glob(os.path.join(self.srv.dir, "data", "data", "c13*", "*", "rp[12]", "*", "tssp", "*", "out-of-order", "*.tssp"))

    def arrive(self, b, kind):
        with self.lock:
            r = self.round
            self.waiting[b] = kind
            self.lock.notify_all()
            while self.round == r and not self.abort:
                self.lock.wait(1.0)
        if self.abort:
            raise vlib.Infra("batch aborted")

    def finished(self, b):
        with self.lock:
            self.live.discard(b)
            self.waiting.pop(b, None)
            self.lock.notify_all()

    def do_global(self, kind):
        t0 = time.time()
        if kind == "Flush":
            st, body = self.srv.flush()
            if st != 200:
                raise vlib.Infra(f"flush: {st} {body[:200]}")
        elif kind == "Compact":
            before = len(self.ooo_files())
            self.compaction(True)
            t1 = time.time()
            # the compactor wakes up every 10 s; out-of-order files are merged into the ordered ones
            while before and time.time() - t1 < 40 and self.ooo_files():
                time.sleep(0.5)
            if before and not self.ooo_files():
                self.merge_observed += 1
            if not before:
                time.sleep(1.0)
            self.compaction(False)
        else:
            t_kill = int(time.time())
            self.srv.restart(kill=(kind == "RestartKill"), wait=180)
            self.compaction(False)
            # the series ids of every database restart at its load second (with a new logical clock): a new epoch of
            # id ranges; every existing database is padded into its range again
            with self.lock:
                self.epoch += 1
                self.epoch_start = int(time.time())
                self.slot = 0
            for b in sorted(self.live, key=lambda x: x.idx):
                if b.db_exists:
                    b.slot = self.alloc()
                    b.pad(b.c.db, t_kill, b.slot)
        self.globals_done.append((kind, round(time.time() - t0, 1)))

    def run(self):
        try:
            self.srv = vserver.Server(extra_conf=SERVER_CONF, name="c13" + self.bid)
            self.epoch_start = int(time.time())
            self.compaction(False)
            bs = [Behaviour(self, i, h, self.seed) for i, h in enumerate(self.hists)]
            self.behaviours = bs
            for b in bs:
                b.setup()
            self.live = set(bs)
            for b in bs:
                b.start()
            while True:
                with self.lock:
                    while not self.abort and self.live and not all(b in self.waiting for b in self.live):
                        self.lock.wait(1.0)
                    if self.abort or not self.live:
                        break
                    kinds = set(self.waiting.values())
                if len(kinds) != 1:
                    raise vlib.Infra(f"behaviours of one skeleton wait for different global actions: {kinds}")
                self.do_global(kinds.pop())
                with self.lock:
                    self.waiting.clear()
                    self.round += 1
                    self.lock.notify_all()
            for b in bs:
                b.join(timeout=60)
        except BaseException as ex:   # noqa
            self.infra = ex
            self.abort = True
            with self.lock:
                self.lock.notify_all()
        finally:
            if self.srv:
                if self.infra:
                    vlib.log(f"[c13] batch {self.bid}: {self.infra}\n" + self.srv.tail_log(1500))
                self.srv.stop()


# ---------------------------------------------------------------------------------------------------

def short(x, n=260):
    s = json.dumps(x, default=str)
    return s if len(s) <= n else s[:n] + "..."


def describe(d):
    return (f"step {d.get('step')} {d.get('action')} {short(d.get('args'), 120)}: [{d['scope']}/{d['shape']}] real {short(d['real'])} "
            f"expected {short(d['exp'])}" + (f" (after polling {d.get('lag')}s)" if d.get("lag") is not None else ""))


def run_batches(sets, seed):
    batches = [Batch(k, hs, seed) for k, hs in sets.items() if hs]
    ths = [threading.Thread(target=b.run) for b in batches]
    for t in ths:
        t.start()
    for t in ths:
        t.join()
    for b in batches:
        if b.infra:
            if isinstance(b.infra, vlib.Infra):
                raise b.infra
            raise vlib.Infra(f"batch {b.bid}: {type(b.infra).__name__}: {b.infra}")
        for x in b.behaviours:
            if x.error:
                if isinstance(x.error, vlib.Infra):
                    raise x.error
                import traceback
                raise vlib.Infra(f"behaviour {b.bid}{x.idx}: " + "".join(traceback.format_exception(x.error))[-1500:])
    return batches


def report(batches, stats, exh, seeds, tier, seed, t0):
    open_ids = {f["id"] for f in vlib.load_known(PROP)}
    nviol = 0
    known_count = {}
    examples = {}
    behaviours = [x for b in batches for x in b.behaviours]
    for b in batches:
        for x in b.behaviours:
            bad = list(x.divs)
            for d in x.known:
                ids = d["known"]
                if ids <= open_ids:
                    for i in ids:
                        known_count.setdefault(i, set()).add((b.bid, x.idx))
                        examples.setdefault(i, f"{x.c.db} " + describe(d))
                else:
                    bad.append(d)       # predicted only by a deviation that is not (or no longer) an open finding
            if bad:
                nviol += 1
                if nviol <= 6:
                    path = vlib.save_replay(PROP, {"case": {"skeleton": b.skeleton, "bid": b.bid, "idx": x.idx, "hist": x.hist},
                                                  "seed": seed, "result": [describe(d) for d in bad[:8]], "statements": x.stmts,
                                                  "example_queries": [t for _, t in x.c.inst_statements("rp1.m", 1)]})
                    print(f"VIOLATION property={PROP} replay={path}")
                    for d in bad[:4]:
                        vlib.log("   " + x.c.db + " " + describe(d))
    for kid in sorted(known_count):
        print(f"KNOWN-FINDING: property={PROP} {kid} ({FINDING_TEXT.get(kid, '')}) re-observed in {len(known_count[kid])} behaviours, "
              f"e.g. {examples[kid][:420]}")
    lags = {}
    for x in behaviours:
        for k, v in x.lags.items():
            lags[k] = max(lags.get(k, 0), v)
    acts = {}
    for x in behaviours:
        for e in x.hist[:x.steps_done]:
            acts[e["a"]] = acts.get(e["a"], 0) + 1
    cov = {
        "states": exh["distinct"], "transitions": exh["generated"],
        "traces_validated_against_impl": len(behaviours),
        "samples": [[{"a": e["a"], "args": e["args"]} for e in behaviours[0].hist]] if behaviours else [],
        "exhaustive": True,
        "evaluations": sum(x.shape_checks for x in behaviours),
        "distinct_nontrivial": len({json.dumps([[e["a"], e["args"]] for e in x.hist], sort_keys=True) for x in behaviours}),
        "rule": "behaviours of DropSem.tla (seeded TLC simulation, one behaviour per simulated trace, all behaviours of a batch share a "
                "skeleton of global actions); distinct = distinct action sequences; evaluations = read-shape answers compared "
                "(15 selection shapes + 4 listings for each of 3 measurement instances + 3 witness reads, after every action, final poll)",
        "tlc": {"exh": exh, "sim": stats["sim"], "mutation_seeds": seeds},
        "steps_replayed": sum(x.steps_done for x in behaviours),
        "actions_replayed": acts,
        "queries": sum(x.queries for x in behaviours),
        "read_shape_matrix": {"selections per measurement instance": ALL_SHAPES, "listings per measurement instance": LIST_SHAPES, "witness database": ["series", "thost", "cnt"]},
        "max_convergence_lag_s": lags,
        "convergence_bound_s": CONV,
        "globals": {b.bid: b.globals_done for b in batches},
        "out_of_order_merges_observed": sum(b.merge_observed for b in batches),
        "padding_series": sum(b.padded for b in batches),
        "known_finding_behaviours": {k: len(v) for k, v in known_count.items()},
        "behaviours_with_divergence": nviol,
    }
    vlib.write_evidence(PROP, tier, seed, "model_checking", cov, time.time() - t0, nviol, [
        "TLC bounds as in the cfg files named under coverage.tlc",
        "single-node ts-server over HTTP, one server per skeleton; every behaviour in its own database (two retention policies, "
        "measurements m and n), timestamps in one shard group, values unique per written row",
        f"after an acknowledged statement the matrix is polled for at most {CONV:.0f} s until it equals the expectation (series index "
        "flush ~1-2 s, tag-filter cache invalidation every 10 s, two-phase drops); once converged every later action is judged on "
        "its first answer if that answer contains data the expectation does not",
        "memtable flush only where the behaviour has a Flush (write-cold-duration 1h, forced through /debug/ctrl?mod=flush); compaction "
        "and out-of-order merge are switched off except during a Compact action, where only the out-of-order merge is reachable "
        "within seconds (level compaction needs 8 files, full compaction a 2-minute cold shard)",
        "errors 'measurement not found / is being delete', 'retention policy not found / is being delete', 'database not found' count as "
        "an empty answer",
        "series ids start at the creation second of a database: every database incarnation is padded into an id range of its own so "
        "that the stale delete set kept by pooled index searches (F-C13-3) cannot act between unrelated behaviours; a witness database "
        "with colliding ids and fixed contents shows that defect in a controlled way",
        "DROP SERIES without FROM is rejected by the executor (not acknowledged): the specification expects no change",
    ])
    return nviol


def run(tier, seed):
    t0 = time.time()
    vserver.build_server()
    sets, stats = gen_behaviours(tier, seed)
    vlib.log(f"[c13] behaviours per skeleton: { {k: len(v) for k, v in sets.items()} }; TLC simulation {time.time() - t0:.1f}s")
    # Mode A and the mutation seeds run while the servers are busy (the replay mostly waits)
    with cf.ThreadPoolExecutor(2) as ex:
        fa = ex.submit(mode_a, tier)
        fs = ex.submit(check_seeds)
        batches = run_batches(sets, seed)
        vlib.log(f"[c13] replay done at {time.time() - t0:.1f}s")
        exh = fa.result()
        seeds = fs.result()
    nviol = report(batches, stats, exh, seeds, tier, seed, t0)
    return 1 if nviol else 0


def replay(path, seed):
    obj = json.load(open(path))
    case = obj["case"]
    seed = obj.get("seed", seed)
    vserver.build_server()
    b = Batch(case["bid"], [case["hist"]], seed, skeleton=case["skeleton"])
    # same concretisation as in the original run
    orig = Behaviour.__init__

    def init(self, batch, idx, hist, s):
        orig(self, batch, case["idx"], hist, s)
    Behaviour.__init__ = init
    try:
        b.run()
    finally:
        Behaviour.__init__ = orig
    if b.infra:
        raise vlib.Infra(str(b.infra))
    x = b.behaviours[0]
    if x.error:
        raise vlib.Infra(str(x.error))
    open_ids = {f["id"] for f in vlib.load_known(PROP)}
    bad = list(x.divs) + [d for d in x.known if not d["known"] <= open_ids]
    if os.environ.get("C13_TRACE"):
        for t in x.stmts:
            vlib.log("   STMT " + t[:300])
    for d in (x.divs + x.known)[:8]:
        vlib.log("   " + describe(d) + (f" known={sorted(d['known'])}" if d["known"] else ""))
    if bad:
        print(f"VIOLATION property={PROP} replay={path}")
        return 1
    print("replay passes" + (" (known findings re-observed)" if x.known else ""))
    return 0
